(* ConnSchedProofs.v -- C17 under every interleaving of use-db commands (Model/Sched.v):
   the "$connections" key and the connection counter of every database.

   A use-db thread parks at the token check (PcUseTok), in front of the write of the key
   (PcPub, carrying the count it read BEFORE parking) and in front of the notification of the
   watchers (PcPubNotify), after which the counter is read again and the publish starts over
   when it is no longer the count that was written. *)
From NunDB Require Import Model.Base Model.Pending Model.Parse Model.Node Model.Sched
  Proofs.AssocLemmas Proofs.ConnProofs Proofs.SchedProofs.
Local Open Scope Z_scope.

(* ====================================================================== *)
(* 0. definitions                                                          *)
(* ====================================================================== *)

Definition usedb_line (l : str) : Prop :=
  exists tk nm u, parse_request (trim_char nl l) = POk (RqUseDb tk nm u).

Definition usedb_pc (p : pc) : Prop :=
  match p with
  | PcCmd | PcDone | PcUseTok _ _ _ | PcPub _ _ _ _ | PcPubNotify _ _ _ _ => True
  | _ => False
  end.

Definition usedb_thr (t : thr) : Prop := Forall usedb_line (t_prog t) /\ usedb_pc (t_pc t).

(* what the data key says *)
Definition key_of_db (d : db) : option str :=
  match get_value d "$connections" with Some v => Some (v_val v) | None => None end.

(* the key shows the counter; a database that nobody ever selected has no key and counter 0 *)
Definition key_agrees (d : db) : Prop :=
  key_of_db d = Some (Z_to_str (d_conn d)) \/ (key_of_db d = None /\ d_conn d = 0).

(* the thread is parked in a publish of D whose outcome is still open: it is about to write,
   or it has written a count that is not the counter (the re-check will send it round again) *)
Definition wit (D : str) (conn : Z) (p : pc) : Prop :=
  match p with
  | PcPub D' _ _ _ => D' = D
  | PcPubNotify D' c _ _ => D' = D /\ c <> conn
  | _ => False
  end.

Definition PubInv1 (n : node) (ts : list thr) (D : str) : Prop :=
  forall d, get_db n D = Some d ->
    key_agrees d \/ exists j w, nth_error ts j = Some w /\ wit D (d_conn d) (t_pc w).

Definition PubInv (n : node) (ts : list thr) : Prop := forall D, PubInv1 n ts D.

(* the session was counted out of D but still carries D as its selection *)
Definition pend_of (p : pc) : option str :=
  match p with
  | PcPub D _ _ (KUseInc _ _ _) | PcPubNotify D _ _ (KUseInc _ _ _) => Some D
  | _ => None
  end.

Definition pendb (D : str) (t : thr) : bool :=
  match pend_of (t_pc t) with Some D' => String.eqb D' D | None => false end.

Definition pend (ts : list thr) (D : str) : nat := List.length (filter (pendb D) ts).

(* [op]: the open sessions *)
Definition CntInv (n : node) (ts : list thr) (op : list nat) : Prop :=
  NoDup op /\ NoDup (map t_sid ts) /\
  (forall t, In t ts -> In (t_sid t) op /\ (t_sid t < List.length (n_sess n))%nat) /\
  (forall t D, In t ts -> pend_of (t_pc t) = Some D -> s_db (get_sess n (t_sid t)) = Some D) /\
  (forall D d, get_db n D = Some d ->
     d_conn d = Z.of_nat (List.length (selected n op D)) - Z.of_nat (pend ts D)).

Definition quiet (p : pc) : Prop :=
  match p with PcCmd | PcDone | PcUseTok _ _ _ => True | _ => False end.

Definition nowit (n : node) (p : pc) : Prop :=
  forall D d, get_db n D = Some d -> ~ wit D (d_conn d) p.

(* the value a publish writes *)
Definition pubval (d : db) (cnt : Z) (opp : N) : value :=
  match get_value d ckey with
  | Some old => mkV (Z_to_str cnt) (v_ver old + 1) opp (upd_state old) (v_vaddr old) (v_kaddr old)
  | None => mkV (Z_to_str cnt) 0 opp VNew 0 0
  end.

(* ====================================================================== *)
(* 1. small facts                                                          *)
(* ====================================================================== *)

Lemma sdb_nth n x : s_db (get_sess n x) = nth x (sdbs n) None.
Proof. unfold get_sess, sdbs. change None with (s_db empty_sess). now rewrite map_nth. Qed.

Lemma map_list_update_gen {A B} (f : A -> B) (l : list A) : forall i x,
  map f (list_update l i x) = list_update (map f l) i (f x).
Proof. induction l as [|y r IH]; intros [|i] x; cbn; auto. now rewrite IH. Qed.

Lemma sdbs_put_sel n c s x u : sdbs (put_sess n c (set_sel s x u)) = list_update (sdbs n) c x.
Proof. unfold sdbs, put_sess. cbn [n_sess n_set_sess]. now rewrite map_list_update_gen. Qed.

Lemma sdbs_clock n k : sdbs (n_set_clock n k) = sdbs n. Proof. reflexivity. Qed.
Lemma sdbs_put_db n D d : sdbs (put_db n D d) = sdbs n. Proof. reflexivity. Qed.
Lemma dbs_clock n k : n_dbs (n_set_clock n k) = n_dbs n. Proof. reflexivity. Qed.

Lemma sdbs_replicate_request n rq s r : sdbs (fst (replicate_request n rq s r)) = sdbs n.
Proof. exact (proj1 (frame_replicate_request n n rq s r (frame_refl n))). Qed.

Lemma sdbs_len n n' : sdbs n' = sdbs n -> List.length (n_sess n') = List.length (n_sess n).
Proof. apply sdbs_length. Qed.

Lemma sdbs_upd_len n n' c x :
  sdbs n' = list_update (sdbs n) c x -> List.length (n_sess n') = List.length (n_sess n).
Proof.
  intros H. unfold sdbs in H.
  rewrite <- (map_length s_db (n_sess n')), H, list_update_length. apply map_length.
Qed.

Lemma conn_put_ckey d v : d_conn (put_value d ckey v) = d_conn d.
Proof. reflexivity. Qed.

Lemma key_of_put d v : key_of_db (put_value d ckey v) = Some (v_val v).
Proof. unfold key_of_db. fold ckey. now rewrite get_put_value_same. Qed.

Lemma pubval_val d c o : v_val (pubval d c o) = Z_to_str c.
Proof. unfold pubval. destruct (get_value d ckey); reflexivity. Qed.

Lemma VerInv_writable B n D d : VerInv B n -> 0 <= B < i32_max -> get_db n D = Some d -> writable d.
Proof. intros Hv HB Hd v Hg. specialize (Hv _ _ _ Hd Hg). lia. Qed.

Lemma nth_error_upd_same {A} (l : list A) i x y :
  nth_error l i = Some y -> nth_error (list_update l i x) i = Some x.
Proof. apply nth_error_list_update_same. Qed.

(* ---- the building blocks of a use-db ---------------------------------------- *)
Lemma start_publish_some n t D k d :
  get_db n D = Some d ->
  start_publish n t D k =
  (n_set_clock n (n_clock n + 1)%N, park t (PcPub D (d_conn d) (n_clock n) k) "map.write").
Proof. intros H. unfold start_publish, tick. now rewrite H. Qed.

Definition sel_sess (n : node) (c : nat) (name : str) (user : option str) : node :=
  put_sess n c (set_sel (get_sess n c) (Some name)
                  (match user with Some u => Some u | None => s_user (get_sess n c) end)).

Lemma use_inc_some n t name user rq d1 :
  get_db n name = Some d1 ->
  use_inc n t name user rq =
  (n_set_clock (put_db (sel_sess n (t_sid t) name user) name (db_set_conn d1 (d_conn d1 + 1)))
               (n_clock n + 1)%N,
   park t (PcPub name (d_conn d1 + 1) (n_clock n) (KFinish rq ROk)) "map.write").
Proof.
  intros H. unfold use_inc. fold (sel_sess n (t_sid t) name user).
  change (get_db (sel_sess n (t_sid t) name user) name) with (get_db n name). rewrite H.
  erewrite start_publish_some by apply get_db_put_same. reflexivity.
Qed.

Lemma use_inc_none n t name user rq :
  get_db n name = None ->
  use_inc n t name user rq = (sel_sess n (t_sid t) name user, finish t ROk).
Proof.
  intros H. unfold use_inc. fold (sel_sess n (t_sid t) name user).
  change (get_db (sel_sess n (t_sid t) name user) name) with (get_db n name). now rewrite H.
Qed.

Lemma finish_quiet t r : quiet (t_pc (finish t r)).
Proof. destruct (finish_boundary t r) as [E|E]; rewrite E; exact I. Qed.

Lemma quiet_pend p : quiet p -> pend_of p = None.
Proof. destruct p; cbn; try contradiction; auto. Qed.

Lemma quiet_nowit n p : quiet p -> nowit n p.
Proof. intros H D d _. destruct p; cbn in *; auto. Qed.

(* one release of a parked publish that finds its database writable *)
Lemma release_pub n t D cnt opp k d :
  t_pc t = PcPub D cnt opp k -> get_db n D = Some d -> writable d ->
  release n t = (put_db n D (put_value d ckey (pubval d cnt opp)),
                 park t (PcPubNotify D cnt (v_ver (pubval d cnt opp)) k) "watchers.read").
Proof.
  intros Hpc Hd Hw. unfold release. rewrite Hpc, Hd. fold ckey.
  rewrite (set_value_writable d _ _ Hw). fold (pubval d cnt opp).
  rewrite get_put_value_same. reflexivity.
Qed.

(* ====================================================================== *)
(* 2. what one release of a use-db thread does                              *)
(* ====================================================================== *)

Inductive ustep (n : node) (t : thr) (n' : node) (t' : thr) : Prop :=
| US_idle :
    n_dbs n' = n_dbs n -> sdbs n' = sdbs n -> quiet (t_pc t') ->
    nowit n (t_pc t) -> pend_of (t_pc t) = None -> ustep n t n' t'
| US_dec prev dp nm u rq o :
    quiet (t_pc t) -> s_db (get_sess n (t_sid t)) = Some prev -> get_db n prev = Some dp ->
    n_dbs n' = n_dbs (put_db n prev (db_set_conn dp (d_conn dp - 1))) -> sdbs n' = sdbs n ->
    t_pc t' = PcPub prev (d_conn dp - 1) o (KUseInc nm u rq) -> ustep n t n' t'
| US_inc name :
    nowit n (t_pc t) ->
    ((quiet (t_pc t) /\ forall p, s_db (get_sess n (t_sid t)) = Some p -> get_db n p = None) \/
     exists D, pend_of (t_pc t) = Some D) ->
    sdbs n' = list_update (sdbs n) (t_sid t) (Some name) ->
    match get_db n name with
    | Some d1 => n_dbs n' = n_dbs (put_db n name (db_set_conn d1 (d_conn d1 + 1))) /\
                 exists o rq r, t_pc t' = PcPub name (d_conn d1 + 1) o (KFinish rq r)
    | None => n_dbs n' = n_dbs n /\ quiet (t_pc t')
    end -> ustep n t n' t'
| US_write D c o k d nv :
    t_pc t = PcPub D c o k -> get_db n D = Some d ->
    n_dbs n' = n_dbs (put_db n D (put_value d ckey (pubval d c o))) -> sdbs n' = sdbs n ->
    t_pc t' = PcPubNotify D c nv k -> ustep n t n' t'
| US_restart D c nv k d o :
    t_pc t = PcPubNotify D c nv k -> get_db n D = Some d -> d_conn d <> c ->
    n_dbs n' = n_dbs n -> sdbs n' = sdbs n ->
    t_pc t' = PcPub D (d_conn d) o k -> ustep n t n' t'.

(* the session part of use_inc *)
Lemma use_inc_ustep n m t name user rq :
  n_dbs m = n_dbs n -> sdbs m = sdbs n ->
  nowit n (t_pc t) ->
  ((quiet (t_pc t) /\ forall p, s_db (get_sess n (t_sid t)) = Some p -> get_db n p = None) \/
   exists D, pend_of (t_pc t) = Some D) ->
  ustep n t (fst (use_inc m t name user rq)) (snd (use_inc m t name user rq)).
Proof.
  intros Hd Hs Hw Hp. apply (US_inc _ _ _ _ name); auto.
  - destruct (get_db m name) as [d1|] eqn:E.
    + rewrite (use_inc_some _ _ _ _ _ _ E). cbn [fst]. rewrite sdbs_clock, sdbs_put_db.
      unfold sel_sess. now rewrite sdbs_put_sel, Hs.
    + rewrite (use_inc_none _ _ _ _ _ E). cbn [fst].
      unfold sel_sess. now rewrite sdbs_put_sel, Hs.
  - rewrite <- (get_db_dbs _ _ name Hd).
    destruct (get_db m name) as [d1|] eqn:E.
    + rewrite (use_inc_some _ _ _ _ _ _ E). cbn [fst snd]. split; [|do 3 eexists; reflexivity].
      rewrite dbs_clock. unfold put_db, sel_sess. cbn [n_dbs n_set_dbs put_sess n_set_sess].
      now rewrite Hd.
    + rewrite (use_inc_none _ _ _ _ _ E). cbn [fst snd]. split; [exact Hd | apply finish_quiet].
Qed.

Lemma after_publish_ustep n m t k :
  n_dbs m = n_dbs n -> sdbs m = sdbs n ->
  nowit n (t_pc t) ->
  (forall nm u rq, k = KUseInc nm u rq -> exists D, pend_of (t_pc t) = Some D) ->
  (forall rq r, k = KFinish rq r -> pend_of (t_pc t) = None) ->
  ustep n t (fst (after_publish m t k)) (snd (after_publish m t k)).
Proof.
  intros Hd Hs Hw Hk1 Hk2. destruct k as [nm u rq | rq r]; cbn [after_publish].
  - apply use_inc_ustep; auto. right. eauto.
  - pose proof (dbs_replicate_request m rq (s_db (get_sess m (t_sid t))) r) as H1.
    pose proof (sdbs_replicate_request m rq (s_db (get_sess m (t_sid t))) r) as H2.
    destruct (replicate_request m rq _ r) as [n1 r1]. cbn [fst snd] in *.
    apply US_idle; try congruence; eauto using finish_quiet.
Qed.

Lemma complete_error n t rq s msg : complete n t rq s (RError msg) = (n, finish t (RError msg)).
Proof. reflexivity. Qed.

Theorem release_ustep B n t :
  usedb_thr t -> VerInv B n -> 0 <= B < i32_max ->
  ustep n t (fst (release n t)) (snd (release n t)).
Proof.
  intros [Hl Hp] Hv HB. unfold release. destruct (t_pc t) eqn:Hpc; try contradiction.
  - (* PcCmd *)
    unfold start_cmd. destruct (t_prog t) as [|line rest] eqn:Hpr.
    { cbn [fst snd]. apply US_idle; auto; try exact I; rewrite Hpc; [apply quiet_nowit; exact I | reflexivity]. }
    inversion Hl as [|? ? (tk & nm & u & Hparse) _]; subst.
    rewrite Hparse. cbn [key_of].
    destruct (get_db n nm) as [d|].
    + cbn [fst snd]. apply US_idle; auto; try exact I; rewrite Hpc; [apply quiet_nowit; exact I | reflexivity].
    + rewrite complete_error. cbn [fst snd].
      apply US_idle; auto using finish_quiet; rewrite Hpc; [apply quiet_nowit; exact I | reflexivity].
  - (* PcUseTok *)
    assert (Hq : quiet (t_pc t)) by (rewrite Hpc; exact I).
    destruct (get_db n name) as [d|] eqn:Hd.
    2:{ rewrite complete_error. cbn [fst snd].
        apply US_idle; auto using finish_quiet, quiet_nowit, quiet_pend. }
    destruct (negb _).
    { rewrite complete_error. cbn [fst snd].
      apply US_idle; auto using finish_quiet, quiet_nowit, quiet_pend. }
    destruct (s_db (get_sess n (t_sid t))) as [prev|] eqn:Hsel.
    + destruct (get_db n prev) as [dp|] eqn:Hdp.
      * erewrite start_publish_some by apply get_db_put_same. cbn [fst snd park t_pc d_conn db_set_conn].
        eapply US_dec; eauto; reflexivity.
      * apply use_inc_ustep; auto using quiet_nowit. left. split; [exact Hq|].
        intros p Hp'. rewrite Hsel in Hp'. injection Hp' as <-. exact Hdp.
    + apply use_inc_ustep; auto using quiet_nowit. left. split; [exact Hq|].
      intros p Hp'. rewrite Hsel in Hp'. discriminate.
  - (* PcPub *)
    destruct (get_db n dbn) as [d|] eqn:Hd.
    + pose proof (release_pub n t dbn cnt opp k d Hpc Hd (VerInv_writable _ _ _ _ Hv HB Hd)) as R.
      unfold release in R. rewrite Hpc, Hd in R. rewrite R. cbn [fst snd].
      eapply US_write; eauto; reflexivity.
    + apply after_publish_ustep; auto.
      * intros D d Hd' Hw. rewrite Hpc in Hw. cbn in Hw. subst D. congruence.
      * intros nm u rq ->. rewrite Hpc. cbn. eauto.
      * intros rq r ->. rewrite Hpc. reflexivity.
  - (* PcPubNotify *)
    destruct (get_db n dbn) as [d|] eqn:Hd.
    + set (n1 := sends n _).
      assert (H1 : n_dbs n1 = n_dbs n) by apply dbs_sends.
      assert (H2 : sdbs n1 = sdbs n) by apply sdbs_sends.
      destruct (Z.eqb_spec (d_conn d) cnt) as [E|Hne].
      * apply after_publish_ustep; auto.
        -- intros D d' Hd' Hw. rewrite Hpc in Hw. cbn in Hw. destruct Hw as [<- Hw]. congruence.
        -- intros nm u rq ->. rewrite Hpc. cbn. eauto.
        -- intros rq r ->. rewrite Hpc. reflexivity.
      * rewrite (start_publish_some n1 t dbn k d) by (now rewrite (get_db_dbs _ _ dbn H1)).
        cbn [fst snd]. eapply US_restart; eauto; reflexivity.
    + apply after_publish_ustep; auto.
      * intros D d Hd' Hw. rewrite Hpc in Hw. cbn in Hw. destruct Hw as [<- _]. congruence.
      * intros nm u rq ->. rewrite Hpc. cbn. eauto.
      * intros rq r ->. rewrite Hpc. reflexivity.
  - (* PcDone *)
    cbn [fst snd]. apply US_idle; auto; rewrite Hpc; [exact I | apply quiet_nowit; exact I | reflexivity].
Qed.

(* ====================================================================== *)
(* 3. invariants of one step                                               *)
(* ====================================================================== *)

Ltac inv_ustep H :=
  destruct H as [ Hd Hs Hq Hnw Hpe
                | prev dp nm u rq o Hq Hsel Hdp Hd Hs Hpc'
                | name Hnw Hpe Hs Hpost
                | D0 c o k d0 nv Hpc Hdb Hd Hs Hpc'
                | D0 c nv k d0 o Hpc Hdb Hne Hd Hs Hpc' ].

Lemma ustep_pc n t n' t' : ustep n t n' t' -> usedb_pc (t_pc t').
Proof.
  intros Hu. inv_ustep Hu.
  - destruct (t_pc t'); cbn in *; auto.
  - rewrite Hpc'. exact I.
  - destruct (get_db n name).
    + destruct Hpost as (_ & o & rq & r & ->). exact I.
    + destruct Hpost as [_ H2]. destruct (t_pc t'); cbn in *; auto.
  - rewrite Hpc'. exact I.
  - rewrite Hpc'. exact I.
Qed.

Lemma release_usedb B n t : usedb_thr t -> VerInv B n -> 0 <= B < i32_max -> usedb_thr (snd (release n t)).
Proof.
  intros Ht Hv HB. split.
  - destruct Ht as [Hl _]. destruct (release_thr n t) as [_ [E | (l & E)]].
    + now rewrite E.
    + eapply Forall_tl; eauto.
  - eapply ustep_pc, release_ustep; eauto.
Qed.

Lemma VerInv_dbs B n n' : n_dbs n' = n_dbs n -> VerInv B n -> VerInv B n'.
Proof. unfold VerInv, get_db. intros ->. auto. Qed.

Lemma VerInv_weaken B B' n : B <= B' -> VerInv B n -> VerInv B' n.
Proof. intros Hle Hv D d v Hd Hg. specialize (Hv _ _ _ Hd Hg). lia. Qed.

Lemma VerInv_put B B' n n' D d' :
  VerInv B n -> B <= B' -> n_dbs n' = n_dbs (put_db n D d') ->
  (forall v, get_value d' ckey = Some v -> 0 <= v_ver v <= B') -> VerInv B' n'.
Proof.
  intros Hv Hle He Hd' x dx v Hx Hg. rewrite (eff_put _ _ _ _ He) in Hx.
  destruct (String.eqb x D).
  - injection Hx as <-. auto.
  - specialize (Hv _ _ _ Hx Hg). lia.
Qed.

Lemma ustep_VerInv B n t n' t' : ustep n t n' t' -> VerInv B n -> 0 <= B -> VerInv (B + 1) n'.
Proof.
  intros Hu Hv HB. inv_ustep Hu.
  - eapply VerInv_weaken; [|eapply VerInv_dbs; eauto]. lia.
  - eapply VerInv_put; eauto; [lia|]. intros v Hg. change (get_value dp ckey = Some v) in Hg.
    specialize (Hv _ _ _ Hdp Hg). lia.
  - destruct (get_db n name) as [d1|] eqn:Hd.
    + destruct Hpost as [H2 _]. eapply VerInv_put; eauto; [lia|]. intros v Hg.
      change (get_value d1 ckey = Some v) in Hg. specialize (Hv _ _ _ Hd Hg). lia.
    + destruct Hpost as [H2 _]. eapply VerInv_weaken; [|eapply VerInv_dbs; eauto]. lia.
  - eapply VerInv_put; eauto; [lia|]. intros v. rewrite get_put_value_same. intros [= <-].
    unfold pubval. destruct (get_value d0 ckey) as [old|] eqn:Hg; cbn [v_ver]; [|lia].
    specialize (Hv _ _ _ Hdb Hg). lia.
  - eapply VerInv_weaken; [|eapply VerInv_dbs; eauto]. lia.
Qed.

(* ---- the key invariant ------------------------------------------------------ *)
Lemma ustep_wit n t n' t' : ustep n t n' t' ->
  forall D d', get_db n' D = Some d' ->
    wit D (d_conn d') (t_pc t') \/ key_agrees d' \/
    (get_db n D = Some d' /\ ~ wit D (d_conn d') (t_pc t)).
Proof.
  intros Hu D d' Hd'. inv_ustep Hu.
  - right. right. rewrite (get_db_dbs _ _ D Hd) in Hd'. split; auto.
  - rewrite (eff_put _ _ _ _ Hd) in Hd'. destruct (String.eqb_spec D prev) as [->|Hne].
    + left. rewrite Hpc'. reflexivity.
    + right. right. split; auto. destruct (t_pc t); cbn in *; auto.
  - destruct (get_db n name) as [d1|] eqn:Hd.
    + destruct Hpost as (H2 & o & rq & r & Hpc). rewrite (eff_put _ _ _ _ H2) in Hd'.
      destruct (String.eqb_spec D name) as [->|Hne].
      * left. rewrite Hpc. reflexivity.
      * right. right. split; auto.
    + destruct Hpost as [H2 _]. right. right. rewrite (get_db_dbs _ _ D H2) in Hd'. split; auto.
  - rewrite (eff_put _ _ _ _ Hd) in Hd'. destruct (String.eqb_spec D D0) as [->|Hne].
    + injection Hd' as <-. rewrite conn_put_ckey.
      destruct (Z.eq_dec c (d_conn d0)) as [->|Hc].
      * right. left. left. now rewrite key_of_put, pubval_val.
      * left. rewrite Hpc'. split; auto.
    + right. right. split; auto. rewrite Hpc. cbn. congruence.
  - rewrite (get_db_dbs _ _ D Hd) in Hd'. destruct (String.eqb_spec D D0) as [->|Hne'].
    + left. rewrite Hpc'. reflexivity.
    + right. right. split; auto. rewrite Hpc. cbn. intros [E _]. congruence.
Qed.

Lemma PubInv_step n ts i t n' t' :
  nth_error ts i = Some t -> ustep n t n' t' -> PubInv n ts -> PubInv n' (list_update ts i t').
Proof.
  intros Ei Hu Hinv D d' Hd'.
  destruct (ustep_wit _ _ _ _ Hu D d' Hd') as [Hw | [Hk | [Hd Hnw]]].
  - right. exists i, t'. split; auto. eapply nth_error_list_update_same; eauto.
  - now left.
  - destruct (Hinv D d' Hd) as [Hk | (j & w & Ej & Hw)]; [now left|].
    right. exists j, w. split; auto.
    destruct (Nat.eq_dec i j) as [->|Hij].
    + rewrite Ei in Ej. injection Ej as ->. contradiction.
    + now rewrite nth_error_list_update_other.
Qed.

(* ---- the counter invariant --------------------------------------------------- *)
Lemma filter_len_upd {A} (f : A -> bool) (l : list A) : forall i x y,
  nth_error l i = Some y ->
  Z.of_nat (List.length (filter f (list_update l i x))) =
  Z.of_nat (List.length (filter f l)) - Z.b2z (f y) + Z.b2z (f x).
Proof.
  induction l as [|a r IH]; intros [|i] x y E; try discriminate; cbn [list_update filter nth_error] in *.
  - injection E as ->. destruct (f y), (f x); cbn [List.length Z.b2z]; lia.
  - specialize (IH i x y E). destruct (f a); cbn [List.length]; lia.
Qed.

Lemma list_update_id {A} (l : list A) : forall i x, nth_error l i = Some x -> list_update l i x = l.
Proof.
  induction l as [|a r IH]; intros [|i] x E; try discriminate; cbn in *.
  - now injection E as ->.
  - now rewrite IH.
Qed.

Lemma nth_error_upd {A} (l : list A) i j x w :
  nth_error (list_update l i x) j = Some w ->
  (i = j /\ w = x) \/ (i <> j /\ nth_error l j = Some w).
Proof.
  intros E. destruct (Nat.eq_dec i j) as [->|Hij].
  - left. split; auto. destruct (nth_error l j) as [y|] eqn:Ey.
    + rewrite (nth_error_list_update_same l j x y Ey) in E. now injection E.
    + exfalso. apply nth_error_None in Ey.
      assert (Hn : nth_error (list_update l j x) j = None)
        by (apply nth_error_None; now rewrite list_update_length).
      congruence.
  - right. split; auto. now rewrite nth_error_list_update_other in E.
Qed.

Lemma selb_upd n n' c x D y :
  sdbs n' = list_update (sdbs n) c (Some x) -> (c < List.length (n_sess n))%nat ->
  selb n' D y = if Nat.eqb c y then String.eqb x D else selb n D y.
Proof.
  intros H Hc. unfold selb. rewrite !sdb_nth, H, nth_list_update.
  assert (E : Nat.ltb c (List.length (sdbs n)) = true).
  { apply Nat.ltb_lt. unfold sdbs. now rewrite map_length. }
  rewrite E, andb_true_r. destruct (Nat.eqb c y); reflexivity.
Qed.

Lemma sel_len_upd n n' op c D x :
  NoDup op -> In c op -> (c < List.length (n_sess n))%nat ->
  sdbs n' = list_update (sdbs n) c (Some x) ->
  Z.of_nat (List.length (selected n' op D)) =
  Z.of_nat (List.length (selected n op D)) - Z.b2z (selb n D c) + Z.b2z (String.eqb x D).
Proof.
  intros Hnd Hin Hc H.
  change (selected n' op D) with (filter (selb n' D) op).
  change (selected n op D) with (filter (selb n D) op).
  rewrite (count_split (selb n' D) c op Hnd Hin), (count_split (selb n D) c op Hnd Hin).
  assert (Hrest : filter (selb n' D) (rm c op) = filter (selb n D) (rm c op)).
  { apply filter_ext_in. intros y Hy. apply rm_In in Hy. rewrite (selb_upd _ _ _ _ _ _ H Hc).
    destruct (Nat.eqb_spec c y); [subst; tauto | reflexivity]. }
  rewrite Hrest, (selb_upd _ _ _ _ _ _ H Hc), Nat.eqb_refl.
  destruct (String.eqb x D), (selb n D c); cbn [Z.b2z]; lia.
Qed.

Lemma ustep_len n t n' t' : ustep n t n' t' -> List.length (n_sess n') = List.length (n_sess n).
Proof. intros Hu. inv_ustep Hu; eauto using sdbs_len, sdbs_upd_len. Qed.

Lemma ustep_sel_other n t n' t' : ustep n t n' t' -> (t_sid t < List.length (n_sess n))%nat ->
  forall x, x <> t_sid t -> s_db (get_sess n' x) = s_db (get_sess n x).
Proof.
  intros Hu Hc x Hx. inv_ustep Hu; try (now apply sdbs_get_sess).
  rewrite !sdb_nth, Hs, nth_list_update.
  destruct (Nat.eqb_spec (t_sid t) x); [congruence | reflexivity].
Qed.

Lemma selected_same n n' op D : sdbs n' = sdbs n -> selected n' op D = selected n op D.
Proof. apply selected_sdbs. Qed.

Lemma pendb_quiet D t : quiet (t_pc t) -> pendb D t = false.
Proof. intros H. unfold pendb. now rewrite quiet_pend. Qed.

Lemma CntInv_step n ts op i t n' t' :
  nth_error ts i = Some t -> ustep n t n' t' -> t_sid t' = t_sid t ->
  CntInv n ts op -> CntInv n' (list_update ts i t') op.
Proof.
  intros Ei Hu Hsid (Hnd & Hnds & Hrange & Hsel4 & Hcnt).
  assert (Hin : In t ts) by (eapply nth_error_In; eauto).
  destruct (Hrange t Hin) as [Hop Hlt].
  pose proof (ustep_len _ _ _ _ Hu) as Hlen.
  assert (Hsids : map t_sid (list_update ts i t') = map t_sid ts).
  { rewrite map_list_update_gen, Hsid. apply list_update_id. now apply map_nth_error. }
  assert (Hother : forall j w, i <> j -> nth_error ts j = Some w -> t_sid w <> t_sid t).
  { intros j w Hij Ej E. apply Hij.
    apply (proj1 (NoDup_nth_error (map t_sid ts)) Hnds).
    - rewrite map_length. apply nth_error_Some. congruence.
    - rewrite (map_nth_error t_sid _ _ Ei), (map_nth_error t_sid _ _ Ej). now rewrite E. }
  split; [exact Hnd|]. split; [now rewrite Hsids|]. split; [|split].
  - (* range *)
    intros w Hw. apply In_nth_error in Hw. destruct Hw as [j Ej].
    rewrite Hlen. destruct (nth_error_upd _ _ _ _ _ Ej) as [[_ ->] | [_ Ej']].
    + rewrite Hsid. auto.
    + apply Hrange. eapply nth_error_In; eauto.
  - (* a pending session still carries its old selection *)
    intros w D Hw Hp. apply In_nth_error in Hw. destruct Hw as [j Ej].
    destruct (nth_error_upd _ _ _ _ _ Ej) as [[_ ->] | [Hij Ej']].
    + rewrite Hsid. inv_ustep Hu.
      * rewrite (quiet_pend _ Hq) in Hp. discriminate.
      * rewrite Hpc' in Hp. cbn in Hp. injection Hp as <-.
        now rewrite (sdbs_get_sess _ _ Hs).
      * destruct (get_db n name).
        -- destruct Hpost as (_ & o & rq & r & Hpc). rewrite Hpc in Hp. discriminate.
        -- destruct Hpost as [_ Hq]. rewrite (quiet_pend _ Hq) in Hp. discriminate.
      * rewrite (sdbs_get_sess _ _ Hs). apply Hsel4; auto.
        rewrite Hpc. rewrite Hpc' in Hp. exact Hp.
      * rewrite (sdbs_get_sess _ _ Hs). apply Hsel4; auto.
        rewrite Hpc. rewrite Hpc' in Hp. exact Hp.
    + rewrite (ustep_sel_other _ _ _ _ Hu Hlt) by eauto.
      apply Hsel4; auto. eapply nth_error_In; eauto.
  - (* the counters *)
    intros D d' Hd'. unfold pend. rewrite (filter_len_upd (pendb D) ts i t' t Ei).
    fold (pend ts D). inv_ustep Hu.
    + rewrite (get_db_dbs _ _ D Hd) in Hd'. rewrite (selected_same _ _ _ _ Hs), (Hcnt _ _ Hd').
      rewrite (pendb_quiet D t' Hq). unfold pendb at 1. rewrite Hpe. cbn [Z.b2z]. lia.
    + rewrite (selected_same _ _ _ _ Hs). rewrite (pendb_quiet D t Hq).
      unfold pendb. rewrite Hpc'. cbn [pend_of].
      rewrite (eff_put _ _ _ _ Hd) in Hd'. rewrite (String.eqb_sym prev D).
      destruct (String.eqb_spec D prev) as [->|HneD].
      * injection Hd' as <-. cbn [d_conn db_set_conn Z.b2z]. rewrite (Hcnt _ _ Hdp). lia.
      * rewrite (Hcnt _ _ Hd'). cbn [Z.b2z]. lia.
    + rewrite (sel_len_upd n n' op (t_sid t) D name Hnd Hop Hlt Hs).
      assert (Hpt' : pendb D t' = false).
      { unfold pendb. destruct (get_db n name).
        - destruct Hpost as (_ & o & rq & r & ->). reflexivity.
        - destruct Hpost as [_ Hq]. now rewrite quiet_pend. }
      rewrite Hpt'. cbn [Z.b2z].
      assert (Heq : forall d, get_db n D = Some d -> selb n D (t_sid t) = pendb D t).
      { intros d HdD. unfold selb, pendb. destruct Hpe as [[Hp0 Hno] | [D1 Hp1]].
        - rewrite (quiet_pend _ Hp0). destruct (s_db (get_sess n (t_sid t))) as [p|] eqn:Esel; auto.
          destruct (String.eqb_spec p D) as [->|]; auto. rewrite (Hno D eq_refl) in HdD. discriminate.
        - rewrite Hp1, (Hsel4 t D1 Hin Hp1). reflexivity. }
      destruct (get_db n name) as [d1|] eqn:Hdn.
      * destruct Hpost as (H2 & _). rewrite (eff_put _ _ _ _ H2) in Hd'.
        rewrite (String.eqb_sym name D).
        destruct (String.eqb_spec D name) as [->|HneD].
        -- injection Hd' as <-. cbn [d_conn db_set_conn Z.b2z].
           rewrite (Hcnt _ _ Hdn), (Heq _ Hdn). lia.
        -- rewrite (Hcnt _ _ Hd'), (Heq _ Hd'). cbn [Z.b2z]. lia.
      * destruct Hpost as (H2 & _). rewrite (get_db_dbs _ _ D H2) in Hd'.
        destruct (String.eqb_spec name D) as [->|HneD]; [congruence|].
        rewrite (Hcnt _ _ Hd'), (Heq _ Hd'). cbn [Z.b2z]. lia.
    + rewrite (selected_same _ _ _ _ Hs).
      assert (Hpp : pendb D t' = pendb D t) by (unfold pendb; rewrite Hpc, Hpc'; reflexivity).
      rewrite Hpp. rewrite (eff_put _ _ _ _ Hd) in Hd'.
      destruct (String.eqb_spec D D0) as [->|HneD].
      * injection Hd' as <-. rewrite conn_put_ckey, (Hcnt _ _ Hdb). lia.
      * rewrite (Hcnt _ _ Hd'). lia.
    + rewrite (selected_same _ _ _ _ Hs).
      assert (Hpp : pendb D t' = pendb D t) by (unfold pendb; rewrite Hpc, Hpc'; reflexivity).
      rewrite Hpp. rewrite (get_db_dbs _ _ D Hd) in Hd'. rewrite (Hcnt _ _ Hd'). lia.
Qed.

(* ====================================================================== *)
(* 4. schedules                                                            *)
(* ====================================================================== *)

(* everything that is carried along a schedule *)
Record SInv (B : Z) (n : node) (ts : list thr) : Prop := mkSInv {
  si_thr : Forall usedb_thr ts;
  si_ver : VerInv B n;
  si_pub : PubInv n ts }.

Lemma release_nth_SInv B n ts i :
  0 <= B < i32_max -> SInv B n ts ->
  SInv (B + 1) (fst (release_nth n ts i)) (snd (release_nth n ts i)).
Proof.
  intros HB [Ht Hv Hp]. unfold release_nth.
  destruct (nth_error ts i) as [t|] eqn:E.
  2:{ cbn [fst snd]. split; auto. eapply VerInv_weaken; [|eauto]. lia. }
  destruct (is_done t).
  { cbn [fst snd]. split; auto. eapply VerInv_weaken; [|eauto]. lia. }
  pose proof (nth_error_Forall _ _ _ _ Ht E) as Hu.
  pose proof (release_ustep B n t Hu Hv HB) as Hs.
  pose proof (release_usedb B n t Hu Hv HB) as Hu'.
  destruct (release n t) as [n1 t1]. cbn [fst snd] in *. split.
  - now apply Forall_list_update.
  - eapply ustep_VerInv; eauto. lia.
  - eapply PubInv_step; eauto.
Qed.

Lemma run_schedule_SInv sched : forall B n ts,
  0 <= B -> B + Z.of_nat (List.length sched) <= i32_max -> SInv B n ts ->
  SInv (B + Z.of_nat (List.length sched)) (fst (run_schedule n ts sched)) (snd (run_schedule n ts sched)).
Proof.
  induction sched as [|i r IH]; intros B n ts HB Hlen Hi.
  - cbn. now replace (B + 0) with B by lia.
  - rewrite run_schedule_cons.
    replace (B + Z.of_nat (List.length (i :: r))) with (B + 1 + Z.of_nat (List.length r))
      in * by (cbn [List.length]; lia).
    apply IH; try lia. apply release_nth_SInv; auto. lia.
Qed.

Definition all_done (ts : list thr) : Prop := Forall (fun t => is_done t = true) ts.

Lemma done_no_wit ts D c : all_done ts ->
  ~ exists j w, nth_error ts j = Some w /\ wit D c (t_pc w).
Proof.
  intros Hd (j & w & Ej & Hw).
  pose proof (nth_error_Forall _ _ _ _ Hd Ej) as H. cbn in H. unfold is_done in H.
  destruct (t_pc w); cbn in Hw; try contradiction; discriminate.
Qed.

(* (b) the key: after ANY schedule that leaves every thread done, "$connections" of every
   database holds the counter.  Side condition: the key's version does not reach i32::MAX
   during the run (every release adds at most one; see [C17_sched_key_stuck_saturated]). *)
Theorem C17_sched_key_agrees n ts sched B :
  Forall usedb_thr ts ->
  VerInv B n -> 0 <= B -> B + Z.of_nat (List.length sched) <= i32_max ->
  PubInv n ts ->
  all_done (snd (run_schedule n ts sched)) ->
  forall D d, get_db (fst (run_schedule n ts sched)) D = Some d -> key_agrees d.
Proof.
  intros Ht Hv HB Hlen Hp Hdone D d Hd.
  destruct (run_schedule_SInv sched B n ts HB Hlen (mkSInv _ _ _ Ht Hv Hp)) as [_ _ Hp'].
  destruct (Hp' D d Hd) as [Hk | Hw]; auto.
  exfalso. exact (done_no_wit _ _ _ Hdone Hw).
Qed.

(* the key, once written, stays: a database whose key was there at the start ends with the key
   equal to the counter (the "absent" alternative of [key_agrees] is for databases that were
   never selected) *)
Lemma key_present_put d v : key_of_db (put_value d ckey v) <> None.
Proof. rewrite key_of_put. discriminate. Qed.

Definition keys_present (n : node) : Prop := forall D d, get_db n D = Some d -> key_of_db d <> None.

Lemma ustep_keys_present n t n' t' : ustep n t n' t' -> keys_present n -> keys_present n'.
Proof.
  intros Hu Hk D d' Hd'. inv_ustep Hu.
  - rewrite (get_db_dbs _ _ D Hd) in Hd'. eauto.
  - rewrite (eff_put _ _ _ _ Hd) in Hd'. destruct (String.eqb D prev); [|eauto].
    injection Hd' as <-. exact (Hk _ _ Hdp).
  - destruct (get_db n name) as [d1|] eqn:Hdn.
    + destruct Hpost as [H2 _]. rewrite (eff_put _ _ _ _ H2) in Hd'.
      destruct (String.eqb D name); [|eauto]. injection Hd' as <-. exact (Hk _ _ Hdn).
    + destruct Hpost as [H2 _]. rewrite (get_db_dbs _ _ D H2) in Hd'. eauto.
  - rewrite (eff_put _ _ _ _ Hd) in Hd'. destruct (String.eqb D D0); [|eauto].
    injection Hd' as <-. apply key_present_put.
  - rewrite (get_db_dbs _ _ D Hd) in Hd'. eauto.
Qed.

Lemma run_schedule_keys_present sched : forall B n ts,
  0 <= B -> B + Z.of_nat (List.length sched) <= i32_max -> SInv B n ts ->
  keys_present n -> keys_present (fst (run_schedule n ts sched)).
Proof.
  induction sched as [|i r IH]; intros B n ts HB Hlen Hi Hk; [exact Hk|].
  rewrite run_schedule_cons. cbn [List.length] in Hlen.
  apply (IH (B + 1)); try lia.
  - apply release_nth_SInv; auto. lia.
  - destruct Hi as [Ht Hv Hp]. unfold release_nth.
    destruct (nth_error ts i) as [t|] eqn:E; auto. destruct (is_done t); auto.
    pose proof (release_ustep B n t (nth_error_Forall _ _ _ _ Ht E) Hv ltac:(lia)) as Hs.
    destruct (release n t) as [n1 t1]. cbn [fst snd] in *. eapply ustep_keys_present; eauto.
Qed.

Corollary C17_sched_key_equals n ts sched B :
  Forall usedb_thr ts ->
  VerInv B n -> 0 <= B -> B + Z.of_nat (List.length sched) <= i32_max ->
  PubInv n ts -> keys_present n ->
  all_done (snd (run_schedule n ts sched)) ->
  forall D d, get_db (fst (run_schedule n ts sched)) D = Some d ->
    key_of_db d = Some (Z_to_str (d_conn d)).
Proof.
  intros Ht Hv HB Hlen Hp Hk Hdone D d Hd.
  destruct (C17_sched_key_agrees n ts sched B Ht Hv HB Hlen Hp Hdone D d Hd) as [H | [H _]]; auto.
  exfalso. exact (run_schedule_keys_present sched B n ts HB Hlen (mkSInv _ _ _ Ht Hv Hp) Hk D d Hd H).
Qed.

(* (c) the counter *)
Lemma release_nth_CntInv B n ts op i :
  0 <= B < i32_max -> Forall usedb_thr ts -> VerInv B n -> CntInv n ts op ->
  CntInv (fst (release_nth n ts i)) (snd (release_nth n ts i)) op.
Proof.
  intros HB Ht Hv Hc. unfold release_nth.
  destruct (nth_error ts i) as [t|] eqn:E; auto. destruct (is_done t); auto.
  pose proof (release_ustep B n t (nth_error_Forall _ _ _ _ Ht E) Hv HB) as Hs.
  pose proof (release_sid n t) as Hsid.
  destruct (release n t) as [n1 t1]. cbn [fst snd] in *. eapply CntInv_step; eauto.
Qed.

Lemma run_schedule_CntInv sched : forall B n ts op,
  0 <= B -> B + Z.of_nat (List.length sched) <= i32_max -> SInv B n ts ->
  CntInv n ts op -> CntInv (fst (run_schedule n ts sched)) (snd (run_schedule n ts sched)) op.
Proof.
  induction sched as [|i r IH]; intros B n ts op HB Hlen Hi Hc; [exact Hc|].
  rewrite run_schedule_cons. cbn [List.length] in Hlen.
  apply (IH (B + 1)); try lia.
  - apply release_nth_SInv; auto. lia.
  - destruct Hi as [Ht Hv Hp]. eapply release_nth_CntInv; eauto. lia.
Qed.

Lemma all_done_pend ts D : all_done ts -> pend ts D = 0%nat.
Proof.
  unfold pend. induction 1 as [|t r Ht _ IH]; cbn [filter]; auto.
  cbn in Ht. unfold pendb, is_done in *. destruct (t_pc t); try discriminate. exact IH.
Qed.

Theorem C17_sched_counter_agrees n ts sched B op :
  Forall usedb_thr ts ->
  VerInv B n -> 0 <= B -> B + Z.of_nat (List.length sched) <= i32_max ->
  PubInv n ts -> CntInv n ts op ->
  let n' := fst (run_schedule n ts sched) in
  let ts' := snd (run_schedule n ts sched) in
  CntInv n' ts' op /\
  (all_done ts' ->
   forall D d, get_db n' D = Some d -> d_conn d = Z.of_nat (List.length (selected n' op D))).
Proof.
  intros Ht Hv HB Hlen Hp Hc. cbn zeta.
  pose proof (run_schedule_CntInv sched B n ts op HB Hlen (mkSInv _ _ _ Ht Hv Hp) Hc) as Hc'.
  split; auto. intros Hdone D d Hd.
  destruct Hc' as (_ & _ & _ & _ & Hcnt). rewrite (Hcnt _ _ Hd), (all_done_pend _ _ Hdone). lia.
Qed.

(* ---- how the hypotheses are met at the start ----------------------------------- *)
Lemma PubInv_init n ts : (forall D d, get_db n D = Some d -> key_agrees d) -> PubInv n ts.
Proof. intros H D d Hd. left. eauto. Qed.

Lemma conn_key_ok_agrees n :
  conn_key_ok n ->
  (forall D d v, get_db n D = Some d -> get_value d ckey = Some v -> v_st v <> VDeleted) ->
  (forall D d, get_db n D = Some d -> get_value d ckey = None -> d_conn d = 0) ->
  forall D d, get_db n D = Some d -> key_agrees d.
Proof.
  intros Hk Hst H0 D d Hd. unfold key_agrees, key_of_db. fold ckey.
  destruct (get_value d ckey) as [v|] eqn:Hg.
  - left. f_equal. eapply Hk; eauto.
  - right. split; auto. eauto.
Qed.

(* threads at a command boundary over a node that satisfies the sequential invariant *)
Lemma CntInv_init n ts op :
  ConnInv (n, op) -> NoDup (map t_sid ts) ->
  (forall t, In t ts -> In (t_sid t) op /\ quiet (t_pc t)) ->
  CntInv n ts op.
Proof.
  intros (Hnd & Hlt & Hcnt & _) Hs Ht.
  assert (Hp : forall D, pend ts D = 0%nat).
  { intros D. unfold pend. clear Hs. induction ts as [|t r IH]; auto. cbn [filter].
    rewrite pendb_quiet by (apply Ht; now left). apply IH. intros x Hx. apply Ht. now right. }
  split; auto. split; auto. split; [|split].
  - intros t Hin. destruct (Ht t Hin). auto.
  - intros t D Hin Hpe. destruct (Ht t Hin) as [_ Hq]. rewrite (quiet_pend _ Hq) in Hpe. discriminate.
  - intros D d Hd. rewrite (Hcnt _ _ Hd), Hp. lia.
Qed.

(* ====================================================================== *)
(* 5. (d) the race that the re-check repairs                                *)
(* ====================================================================== *)

(* session 0 (the administrator) created database d (token t1) and selected it: counter 1,
   key "1".  Sessions 1 and 2 both run "use-db d t1". *)
Definition rx_node : node :=
  let '(n, c) := connect (init_node "u" "p" "a" 1 Primary 0) in
  let n := ex_steps n c ["auth u p"; "create-db d t1 none"; "use-db d t1"] in
  let '(n, c1) := connect n in
  let '(n, c2) := connect n in n.
Definition rx_ts : list thr := [new_thread 1 ["use-db d t1"] []; new_thread 2 ["use-db d t1"] []].
Definition rx_look (n : node) : option (option str * Z) :=
  option_map (fun d => (key_of_db d, d_conn d)) (get_db n "d").

(* schedule: thread 1 up to its map.write park (it has counted itself in: 2, and carries "2"),
   thread 2 completely (counter 3, key "3"), then thread 1: its WRITE puts the stale "2" over
   the "3" -- where the original code stopped -- the re-check sees 3 <> 2, and a second
   publish round writes "3". *)
Example C17_race_without_recheck :
  rx_look rx_node = Some (Some "1", 1) /\
  map t_pc (snd (run_schedule rx_node rx_ts [0; 0]%nat)) =
    [PcPub "d" 2 6 (KFinish (RqUseDb "t1" "d" None) ROk); PcCmd] /\
  rx_look (fst (run_schedule rx_node rx_ts [0; 0; 1; 1; 1; 1]%nat)) = Some (Some "3", 3) /\
  map is_done (snd (run_schedule rx_node rx_ts [0; 0; 1; 1; 1; 1]%nat)) = [false; true] /\
  (* after thread 1's write: the key says 2, the counter is 3, thread 2 is done *)
  rx_look (fst (run_schedule rx_node rx_ts [0; 0; 1; 1; 1; 1; 0]%nat)) = Some (Some "2", 3) /\
  map t_pc (snd (run_schedule rx_node rx_ts [0; 0; 1; 1; 1; 1; 0]%nat)) =
    [PcPubNotify "d" 2 2 (KFinish (RqUseDb "t1" "d" None) ROk); PcDone] /\
  (* the re-check: publish again *)
  rx_look (fst (run_schedule rx_node rx_ts [0; 0; 1; 1; 1; 1; 0; 0; 0; 0]%nat)) = Some (Some "3", 3) /\
  map (fun t => (t_pc t, t_trace t, t_replies t))
      (snd (run_schedule rx_node rx_ts [0; 0; 1; 1; 1; 1; 0; 0; 0; 0]%nat)) =
    [(PcDone, ["cmd"; "map.read"; "map.write"; "watchers.read"; "map.write"; "watchers.read"], [ROk]);
     (PcDone, ["cmd"; "map.read"; "map.write"; "watchers.read"], [ROk])] /\
  (* run_par from the same prefix ends in the same state *)
  rx_look (fst (run_par rx_node rx_ts [0; 0; 1; 1; 1; 1]%nat)) = Some (Some "3", 3).
Proof. vm_compute. repeat split. Qed.

(* the version side condition of the key theorems is necessary: with the key's version at
   i32::MAX the write is refused (set_value answers a version error that the publish drops),
   the re-check passes (the counter did not move), and the key stays behind *)
Definition sx_node : node := fst (connect (fst kx_sat)).
Definition sx_ts : list thr := [new_thread 1 ["use-db $admin p"] []].

Example C17_sched_key_stuck_saturated :
  Forall usedb_thr sx_ts /\ PubInv sx_node sx_ts /\
  all_done (snd (run_schedule sx_node sx_ts [0; 0; 0; 0]%nat)) /\
  option_map (fun d => (key_of_db d, d_conn d, option_map v_ver (get_value d ckey)))
             (get_db (fst (run_schedule sx_node sx_ts [0; 0; 0; 0]%nat)) "$admin") =
    Some (Some "1", 2, Some i32_max).
Proof.
  split; [|split; [|split]].
  - repeat constructor. exists "p", "$admin", None. vm_compute. reflexivity.
  - apply PubInv_init. intros D d Hd. left. unfold get_db in Hd.
    match type of Hd with assoc_get _ _ ?l = _ => let x := fresh "l" in set (x := l) in Hd; vm_compute in x; subst x end.
    cbn [assoc_get] in Hd. destruct (String.eqb D "$admin"); [|discriminate].
    injection Hd as <-. vm_compute. reflexivity.
  - vm_compute. repeat constructor.
  - vm_compute. reflexivity.
Qed.

(* ====================================================================== *)
(* 6. (a) a use-db released alone is Node.step                              *)
(* ====================================================================== *)

Fixpoint run_alone (k : nat) (n : node) (t : thr) : node * thr :=
  match k with
  | O => (n, t)
  | S k' => let '(n1, t1) := release n t in run_alone k' n1 t1
  end.

Lemma run_alone_S k n t : run_alone (S k) n t = run_alone k (fst (release n t)) (snd (release n t)).
Proof. cbn [run_alone]. now destruct (release n t). Qed.

(* [t'] is [t] with its command finished with reply [r] (only the trace differs otherwise) *)
Definition fin_of (t : thr) (r : resp) (t' : thr) : Prop :=
  exists t0, t_sid t0 = t_sid t /\ t_prog t0 = t_prog t /\ t_replies t0 = t_replies t /\
             t_hints t0 = t_hints t /\ t' = finish t0 r.

Lemma fin_of_park t p s r t' : fin_of (park t p s) r t' -> fin_of t r t'.
Proof. intros (t0 & H1 & H2 & H3 & H4 & H5). exists t0. auto. Qed.

Lemma fin_of_refl t r : fin_of t r (finish t r).
Proof. exists t. auto. Qed.

Lemma scc_pub m D d : get_db m D = Some d -> writable d ->
  set_connection_counter m D =
  sends (put_db (n_set_clock m (n_clock m + 1)) D (put_value d ckey (pubval d (d_conn d) (n_clock m))))
        (notify_msgs d ckey (Z_to_str (d_conn d)) (v_ver (pubval d (d_conn d) (n_clock m)))).
Proof. exact (scc_eq m D d). Qed.

(* a publish that nobody disturbs: three releases (the first is the one that called
   start_publish), after which the node is what set_connection_counter makes of it and the
   thread goes on with the continuation: the re-check succeeds at once *)
Lemma publish_alone m t D k d :
  get_db m D = Some d -> writable d ->
  exists t1 t2,
    start_publish m t D k = (n_set_clock m (n_clock m + 1)%N, t1) /\
    (exists m2, release (n_set_clock m (n_clock m + 1)%N) t1 = (m2, t2) /\
                release m2 t2 = after_publish (set_connection_counter m D) t2 k) /\
    t_sid t2 = t_sid t /\ t_prog t2 = t_prog t /\ t_replies t2 = t_replies t /\ t_hints t2 = t_hints t.
Proof.
  intros Hd Hw.
  set (o := n_clock m). set (m1 := n_set_clock m (o + 1)%N).
  set (t1 := park t (PcPub D (d_conn d) o k) "map.write").
  set (v := pubval d (d_conn d) o).
  set (t2 := park t1 (PcPubNotify D (d_conn d) (v_ver v) k) "watchers.read").
  exists t1, t2. split; [now apply start_publish_some|]. split; [|repeat split].
  exists (put_db m1 D (put_value d ckey v)). split.
  - apply release_pub; auto.
  - unfold release. cbn [t_pc park t2]. rewrite get_db_put_same.
    rewrite conn_put_ckey, Z.eqb_refl. rewrite (scc_pub m D d Hd Hw). reflexivity.
Qed.

Lemma replicate_usedb n tok nm u s :
  (forall p, s = Some p -> get_db n p <> None) ->
  replicate_request n (RqUseDb tok nm u) s ROk = (n, ROk).
Proof.
  intros H. unfold replicate_request. destruct s as [p|]; [|reflexivity].
  unfold has_db. specialize (H p eq_refl). destruct (get_db n p); [reflexivity | congruence].
Qed.

Lemma step_usedb_full n c line tok nm u :
  parse_request (trim_char nl line) = POk (RqUseDb tok nm u) ->
  step n c line =
  replicate_request (fst (handle n c (RqUseDb tok nm u))) (RqUseDb tok nm u) (s_db (get_sess n c))
                    (snd (handle n c (RqUseDb tok nm u))).
Proof.
  intros Hp. unfold step. cbn [process]. rewrite Hp.
  now destruct (handle n c (RqUseDb tok nm u)).
Qed.

Lemma scc_sdbs m D : sdbs (set_connection_counter m D) = sdbs m.
Proof. exact (proj1 (frame_set_connection_counter m m D (frame_refl m))). Qed.

Lemma scc_mono m D : dbs_mono m (set_connection_counter m D).
Proof. apply frame_mono, frame_set_connection_counter, frame_refl. Qed.

Lemma VerInv_scc B n D d z :
  VerInv B n -> 0 <= B < i32_max -> get_db n D = Some d ->
  VerInv (B + 1) (set_connection_counter (put_db n D (db_set_conn d z)) D).
Proof.
  intros Hv HB Hd.
  assert (Hm : get_db (put_db n D (db_set_conn d z)) D = Some (db_set_conn d z)) by apply get_db_put_same.
  assert (Hw : writable (db_set_conn d z)).
  { intros v Hg. change (get_value d ckey = Some v) in Hg. specialize (Hv _ _ _ Hd Hg). lia. }
  intros x dx v. rewrite (scc_get_db _ _ _ _ Hm Hw).
  destruct (String.eqb_spec x D) as [->|Hne].
  - intros [= <-]. rewrite get_put_value_same. intros [= <-].
    unfold new_conn_value. change (get_value (db_set_conn d z) ckey) with (get_value d ckey).
    destruct (get_value d ckey) as [old|] eqn:Hg; cbn [v_ver]; [|lia].
    specialize (Hv _ _ _ Hd Hg). lia.
  - rewrite get_db_put_other by auto. intros Hx Hg. specialize (Hv _ _ _ Hx Hg). lia.
Qed.

(* the last publish of a use-db (the database that is selected), released alone *)
Lemma inc_alone n0 t tok name user d1 :
  let c := t_sid t in
  let rq := RqUseDb tok name user in
  let n1 := sel_sess n0 c name user in
  get_db n0 name = Some d1 -> writable d1 -> (c < List.length (n_sess n0))%nat ->
  exists t', run_alone 2 (fst (use_inc n0 t name user rq)) (snd (use_inc n0 t name user rq)) =
             (set_connection_counter (put_db n1 name (db_set_conn d1 (d_conn d1 + 1))) name, t') /\
             fin_of t ROk t'.
Proof.
  intros c rq n1 Hd Hw Hc.
  set (m := put_db n1 name (db_set_conn d1 (d_conn d1 + 1))).
  assert (Hm : get_db m name = Some (db_set_conn d1 (d_conn d1 + 1))) by apply get_db_put_same.
  destruct (publish_alone m t name (KFinish rq ROk) _ Hm Hw)
    as (t1 & t2 & Hsp & (m2 & R1 & R2) & Hs2 & Hp2 & Hr2 & Hh2).
  assert (Hui : use_inc n0 t name user rq = start_publish m t name (KFinish rq ROk)).
  { unfold use_inc. fold c. fold (sel_sess n0 c name user). fold n1.
    change (get_db n1 name) with (get_db n0 name). now rewrite Hd. }
  rewrite Hui, Hsp. cbn [fst snd]. rewrite run_alone_S, R1. cbn [fst snd].
  rewrite run_alone_S, R2. cbn [after_publish run_alone]. unfold rq.
  rewrite replicate_usedb.
  - cbn [fst snd]. eexists. split; [reflexivity|]. exists t2. auto.
  - intros p Hp. rewrite Hs2 in Hp. fold c in Hp.
    rewrite (sdbs_get_sess _ _ (scc_sdbs m name)) in Hp.
    change (s_db (get_sess n1 c) = Some p) in Hp. unfold n1, sel_sess in Hp.
    rewrite get_sess_put_sess, Nat.eqb_refl in Hp.
    assert (E : Nat.ltb c (List.length (n_sess n0)) = true) by now apply Nat.ltb_lt.
    rewrite E in Hp. cbn in Hp. injection Hp as <-.
    apply scc_mono. congruence.
Qed.

(* (a) *)
Theorem usedb_sequential n t line rest tok name user B :
  let c := t_sid t in
  t_pc t = PcCmd -> t_prog t = line :: rest ->
  parse_request (trim_char nl line) = POk (RqUseDb tok name user) ->
  VerInv B n -> 0 <= B -> B + 1 < i32_max ->
  (c < List.length (n_sess n))%nat ->
  (forall p, s_db (get_sess n c) = Some p -> get_db n p <> None) ->
  exists k t', (k <= 6)%nat /\
    run_alone k n t = (fst (step n c line), t') /\
    t_replies t' = t_replies t ++ [snd (step n c line)] /\
    t_prog t' = rest /\ at_boundary t' /\ t_sid t' = c /\ t_hints t' = t_hints t /\
    (* number of releases: 1 unknown database, 2 wrong token, 4 no previous selection,
       6 with a previous selection: each publish takes its two releases and no more *)
    k = match get_db n name with
        | None => 1%nat
        | Some d =>
            if match get_value d (match user with Some u => "$$user_" +++ u | None => "$$token" end) with
               | Some v => String.eqb (v_val v) tok | None => false end
            then match s_db (get_sess n c) with Some _ => 6%nat | None => 4%nat end
            else 2%nat
        end.
Proof.
  intros c Hpc Hprog Hparse Hv HB0 HB Hc Hsel.
  set (t0 := mkThr (t_sid t) rest (t_pc t) (t_replies t) (t_trace t) (t_hints t)).
  assert (Hfin : forall r t', fin_of t0 r t' ->
            t_replies t' = t_replies t ++ [r] /\ t_prog t' = rest /\ at_boundary t' /\
            t_sid t' = c /\ t_hints t' = t_hints t).
  { intros r t' (tx & H1 & H2 & H3 & H4 & ->).
    rewrite finish_replies, finish_prog, finish_sid, finish_hints, H1, H2, H3, H4.
    repeat split; auto using finish_boundary. }
  rewrite (step_usedb_full n c line tok name user Hparse).
  (* first release: the command starts *)
  assert (R0 : release n t =
               match get_db n name with
               | None => (n, finish t0 (RError "Not a valid database name"))
               | Some _ => (n, park t0 (PcUseTok tok name user) "map.read")
               end).
  { unfold release. rewrite Hpc. unfold start_cmd. rewrite Hprog, Hparse. cbn [key_of]. fold t0.
    destruct (get_db n name); reflexivity. }
  unfold handle. fold c.
  destruct (get_db n name) as [d|] eqn:Hd.
  2:{ exists 1%nat, (finish t0 (RError "Not a valid database name")). cbn [fst snd].
      split; [lia|]. split; [cbn [run_alone]; now rewrite R0|].
      destruct (Hfin _ _ (fin_of_refl t0 (RError "Not a valid database name"))) as (A & B' & C & D' & E).
      repeat split; auto. }
  set (t1 := park t0 (PcUseTok tok name user) "map.read") in *.
  set (valid := match get_value d _ with Some v => String.eqb (v_val v) tok | None => false end).
  (* second release: the token check *)
  assert (R1 : release n t1 =
               if valid then
                 match s_db (get_sess n c) with
                 | Some prev =>
                     match get_db n prev with
                     | Some dp => start_publish (put_db n prev (db_set_conn dp (d_conn dp - 1))) t1 prev
                                                (KUseInc name user (RqUseDb tok name user))
                     | None => use_inc n t1 name user (RqUseDb tok name user)
                     end
                 | None => use_inc n t1 name user (RqUseDb tok name user)
                 end
               else (n, finish t1 (RError "Invalid token"))).
  { unfold release. cbn [t_pc park t1 t_sid t0]. fold c. rewrite Hd. fold valid.
    destruct valid; reflexivity. }
  destruct valid eqn:Hvalid.
  2:{ exists 2%nat, (finish t1 (RError "Invalid token")). cbn [fst snd].
      split; [lia|]. split; [rewrite run_alone_S, R0; cbn [fst snd run_alone]; now rewrite R1|].
      destruct (Hfin _ _ (fin_of_park _ _ _ _ _ (fin_of_refl t1 (RError "Invalid token")))) as (A & B' & C & D' & E).
      repeat split; auto. }
  unfold release_previous, client_left. fold c.
  destruct (s_db (get_sess n c)) as [prev|] eqn:Hs.
  - (* a previous selection: count out, publish, select, count in, publish *)
    destruct (get_db n prev) as [dp|] eqn:Hdp; [|exfalso; exact (Hsel prev eq_refl Hdp)].
    set (mp := put_db n prev (db_set_conn dp (d_conn dp - 1))) in *.
    assert (Hmp : get_db mp prev = Some (db_set_conn dp (d_conn dp - 1))) by apply get_db_put_same.
    assert (Hwp : writable (db_set_conn dp (d_conn dp - 1))).
    { intros v Hg. change (get_value dp ckey = Some v) in Hg. specialize (Hv _ _ _ Hdp Hg). lia. }
    destruct (publish_alone mp t1 prev (KUseInc name user (RqUseDb tok name user)) _ Hmp Hwp)
      as (t2 & t3 & Hsp & (m2 & R2 & R3) & Hs3 & Hp3 & Hr3 & Hh3).
    set (n0 := set_connection_counter mp prev) in *.
    assert (Hv0 : VerInv (B + 1) n0) by (apply VerInv_scc; auto; lia).
    assert (Hd0 : get_db n0 name <> None).
    { apply scc_mono. unfold mp. apply put_db_mono. congruence. }
    destruct (get_db n0 name) as [d1|] eqn:Hd1; [|congruence].
    assert (Hw1 : writable d1) by (eapply VerInv_writable; eauto; lia).
    assert (Hc0 : (t_sid t3 < List.length (n_sess n0))%nat).
    { rewrite Hs3. cbn [t_sid park t1 t0]. fold c.
      unfold n0. rewrite (sdbs_len _ _ (scc_sdbs mp prev)). exact Hc. }
    destruct (inc_alone n0 t3 tok name user d1 Hd1 Hw1 Hc0) as (t' & R4 & Hf).
    cbn zeta in R4.
    assert (Hsid3 : t_sid t3 = c) by (rewrite Hs3; reflexivity).
    rewrite Hsid3 in R4.
    change (get_db (put_sess n0 c _) name) with (get_db n0 name). rewrite Hd1. cbn [fst snd].
    exists 6%nat, t'. split; [lia|]. split.
    + rewrite run_alone_S, R0. cbn [fst snd]. rewrite run_alone_S, R1, Hsp. cbn [fst snd].
      rewrite run_alone_S, R2. cbn [fst snd]. rewrite run_alone_S, R3. cbn [after_publish].
      rewrite R4. f_equal. symmetry. rewrite replicate_usedb; [reflexivity|].
      intros p [= <-].
      apply scc_mono. apply put_db_mono. change (get_db n0 prev <> None).
      apply scc_mono. congruence.
    + assert (Hf0 : fin_of t0 ROk t').
      { destruct Hf as (tx & H1 & H2 & H3 & H4 & ->). exists tx.
        rewrite H1, H2, H3, H4, Hs3, Hp3, Hr3, Hh3. auto. }
      rewrite replicate_usedb.
      * cbn [snd]. destruct (Hfin _ _ Hf0) as (A & B' & C & D' & E). repeat split; auto.
      * intros p [= <-]. apply scc_mono. apply put_db_mono. change (get_db n0 prev <> None).
        apply scc_mono. congruence.
  - (* no previous selection *)
    change (get_db (put_sess n c _) name) with (get_db n name). rewrite Hd. cbn [fst snd].
    assert (Hw : writable d) by (eapply VerInv_writable; eauto; lia).
    assert (Hc1 : (t_sid t1 < List.length (n_sess n))%nat) by exact Hc.
    destruct (inc_alone n t1 tok name user d Hd Hw Hc1) as (t' & R4 & Hf).
    cbn zeta in R4. change (t_sid t1) with c in R4.
    exists 4%nat, t'. split; [lia|]. split.
    + rewrite run_alone_S, R0. cbn [fst snd]. rewrite run_alone_S, R1.
      rewrite R4. reflexivity.
    + rewrite replicate_usedb by discriminate. cbn [snd].
      destruct (Hfin _ _ (fin_of_park _ _ _ _ _ Hf)) as (A & B' & C & D' & E). repeat split; auto.
Qed.

(* ====================================================================== *)
(* 7. termination: run_out finishes every thread                            *)
(* ====================================================================== *)

Lemma boundary_quiet t : at_boundary t -> quiet (t_pc t).
Proof. intros [E|E]; rewrite E; exact I. Qed.

Lemma use_inc_shape n t name user rq :
  t_prog (snd (use_inc n t name user rq)) = t_prog t /\
  (quiet (t_pc (snd (use_inc n t name user rq))) -> at_boundary (snd (use_inc n t name user rq))).
Proof.
  destruct (get_db n name) as [d1|] eqn:E.
  - rewrite (use_inc_some _ _ _ _ _ _ E). cbn [snd park t_prog t_pc quiet]. split; [reflexivity | contradiction].
  - rewrite (use_inc_none _ _ _ _ _ E). cbn [snd]. rewrite finish_prog. split; auto using finish_boundary.
Qed.

Lemma after_publish_shape n t k :
  t_prog (snd (after_publish n t k)) = t_prog t /\
  (quiet (t_pc (snd (after_publish n t k))) -> at_boundary (snd (after_publish n t k))).
Proof.
  destruct k as [nm u rq | rq r]; cbn [after_publish]; [apply use_inc_shape|].
  destruct (replicate_request _ _ _ _). cbn [snd]. rewrite finish_prog. split; auto using finish_boundary.
Qed.

Lemma release_shape n t : usedb_thr t ->
  let t' := snd (release n t) in
  (t_pc t = PcCmd /\ ((t_prog t = [] /\ t_pc t' = PcDone /\ t_prog t' = []) \/ exists l, t_prog t = l :: t_prog t')) \/
  (t_pc t <> PcCmd /\ t_prog t' = t_prog t /\ (quiet (t_pc t') -> at_boundary t')).
Proof.
  intros [Hl Hp]. cbn zeta. unfold release. destruct (t_pc t) eqn:Hpc; try contradiction.
  - left. split; auto. unfold start_cmd. destruct (t_prog t) as [|line rest] eqn:Hpr.
    { left. repeat split; reflexivity. }
    right. exists line. inversion Hl as [|? ? (tk & nm & u & Hparse) _]; subst.
    rewrite Hparse. cbn [key_of]. destruct (get_db n nm).
    + reflexivity.
    + rewrite complete_error. cbn [snd]. now rewrite finish_prog.
  - right. split; [discriminate|].
    destruct (get_db n name) as [d|] eqn:Hd.
    2:{ rewrite complete_error. cbn [snd]. rewrite finish_prog. split; auto using finish_boundary. }
    destruct (negb _).
    { rewrite complete_error. cbn [snd]. rewrite finish_prog. split; auto using finish_boundary. }
    destruct (s_db (get_sess n (t_sid t))) as [prev|]; [|apply use_inc_shape].
    destruct (get_db n prev) as [dp|]; [|apply use_inc_shape].
    erewrite start_publish_some by apply get_db_put_same.
    cbn [snd park t_prog t_pc quiet]. split; [reflexivity | contradiction].
  - right. split; [discriminate|].
    destruct (get_db n dbn) as [d|]; [|apply after_publish_shape].
    destruct (set_value d _) as [[d1 r] msgs]. cbn [snd park t_prog t_pc quiet].
    split; [reflexivity | contradiction].
  - right. split; [discriminate|].
    destruct (get_db n dbn) as [d|] eqn:Hd; [|apply after_publish_shape].
    destruct (Z.eqb _ _); [apply after_publish_shape|].
    erewrite start_publish_some by (rewrite get_db_sends; exact Hd).
    cbn [snd park t_prog t_pc quiet]. split; [reflexivity | contradiction].
  - right. split; [discriminate|]. cbn [snd]. split; auto. intros _. right. exact Hpc.
Qed.

(* the number of releases a thread still needs when it is released alone *)
Definition fresh (n : node) (D : str) (c : Z) : bool :=
  match get_db n D with Some d => Z.eqb (d_conn d) c | None => true end.

Definition wk (k : pubk) : nat := match k with KUseInc _ _ _ => 3 | KFinish _ _ => 1 end.

Definition wpc (n : node) (p : pc) : nat :=
  match p with
  | PcCmd => 1
  | PcUseTok _ _ _ => 6
  | PcPub D c _ k => (if fresh n D c then 2 else 4) + wk k
  | PcPubNotify D c _ k => (if fresh n D c then 1 else 3) + wk k
  | _ => 0
  end.

Definition mu (n : node) (t : thr) : nat := 8 * List.length (t_prog t) + wpc n (t_pc t).

Lemma wpc_le n p : (wpc n p <= 7)%nat.
Proof. destruct p; cbn; try lia; destruct (fresh _ _ _), k; cbn; lia. Qed.

Lemma wpc_boundary n t : at_boundary t -> (wpc n (t_pc t) <= 1)%nat.
Proof. intros [E|E]; rewrite E; cbn; lia. Qed.

Lemma fresh_put n n' D d' c :
  n_dbs n' = n_dbs (put_db n D d') -> fresh n' D c = Z.eqb (d_conn d') c.
Proof. intros H. unfold fresh. now rewrite (eff_put _ _ _ _ H), String.eqb_refl. Qed.

Lemma fresh_dbs n n' D c : n_dbs n' = n_dbs n -> fresh n' D c = fresh n D c.
Proof. intros H. unfold fresh. now rewrite (get_db_dbs _ _ D H). Qed.

Lemma release_mu B n t :
  usedb_thr t -> VerInv B n -> 0 <= B < i32_max -> is_done t = false ->
  (mu (fst (release n t)) (snd (release n t)) < mu n t)%nat.
Proof.
  intros Ht Hv HB Hnd.
  pose proof (release_ustep B n t Ht Hv HB) as Hu.
  pose proof (release_shape n t Ht) as Hsh. cbn zeta in Hsh.
  pose proof (ustep_pc _ _ _ _ Hu) as Hpc1.
  destruct (release n t) as [n' t']. cbn [fst snd] in *. unfold mu.
  destruct Hsh as [[Hc [(Hp0 & Hd0 & Hp1) | (l & Hp)]] | (Hnc & Hprog & Hb)].
  - rewrite Hp0, Hd0, Hp1, Hc. cbn. lia.
  - rewrite Hp, Hc. cbn [List.length wpc]. pose proof (wpc_le n' (t_pc t')). lia.
  - rewrite Hprog. apply Nat.add_lt_mono_l.
    destruct Ht as [_ Hup].
    assert (Hsrc : quiet (t_pc t) -> exists a b c, t_pc t = PcUseTok a b c).
    { unfold is_done in Hnd. destruct (t_pc t); cbn; try contradiction; try congruence; eauto. }
    inv_ustep Hu.
    + specialize (Hb Hq). pose proof (wpc_boundary n' t' Hb).
      unfold is_done in Hnd. destruct (t_pc t); cbn in *; try contradiction; try congruence; try lia;
        destruct (fresh _ _ _), k; cbn; lia.
    + destruct (Hsrc Hq) as (a & b & c0 & E). rewrite E, Hpc'. cbn [wpc wk].
      rewrite (fresh_put _ _ _ _ _ Hd). cbn [d_conn db_set_conn]. rewrite Z.eqb_refl. lia.
    + assert (Hsrc' : (4 <= wpc n (t_pc t))%nat).
      { destruct Hpe as [[Hq _] | [D1 Hp1]].
        - destruct (Hsrc Hq) as (a & b & c0 & E). rewrite E. cbn. lia.
        - destruct (t_pc t); cbn in Hp1; try discriminate; destruct k; try discriminate;
            cbn; destruct (fresh _ _ _); lia. }
      destruct (get_db n name) as [d1|].
      * destruct Hpost as (H2 & o & rq & r & E). rewrite E. cbn [wpc wk].
        rewrite (fresh_put _ _ _ _ _ H2). cbn [d_conn db_set_conn]. rewrite Z.eqb_refl. lia.
      * destruct Hpost as [_ Hq]. pose proof (wpc_boundary n' t' (Hb Hq)). lia.
    + rewrite Hpc, Hpc'. cbn [wpc]. rewrite (fresh_put _ _ _ _ _ Hd), conn_put_ckey.
      unfold fresh. rewrite Hdb. destruct (Z.eqb _ _); lia.
    + rewrite Hpc, Hpc'. cbn [wpc]. rewrite (fresh_dbs _ _ _ _ Hd).
      unfold fresh. rewrite Hdb, Z.eqb_refl.
      destruct (Z.eqb_spec (d_conn d0) c); [contradiction | lia].
Qed.

(* ---- run_out ---------------------------------------------------------------- *)
Lemma SInv_weaken B B' n ts : B <= B' -> SInv B n ts -> SInv B' n ts.
Proof. intros H [A V P]. split; auto. eapply VerInv_weaken; eauto. Qed.

Lemma run_out_SInv fuel : forall B n ts i,
  0 <= B -> B + Z.of_nat fuel <= i32_max -> SInv B n ts ->
  SInv (B + Z.of_nat fuel) (fst (run_out fuel n ts i)) (snd (run_out fuel n ts i)).
Proof.
  induction fuel as [|f IH]; intros B n ts i HB Hf Hi; cbn [run_out].
  - cbn [fst snd]. now replace (B + Z.of_nat 0) with B by lia.
  - destruct (nth_error ts i) as [t|] eqn:E.
    2:{ cbn [fst snd]. eapply SInv_weaken; [|eauto]. lia. }
    replace (B + Z.of_nat (S f)) with (B + 1 + Z.of_nat f) by lia.
    destruct (is_done t).
    + apply IH; try lia. eapply SInv_weaken; [|eauto]. lia.
    + pose proof (release_nth_SInv B n ts i ltac:(lia) Hi) as H1.
      destruct (release_nth n ts i) as [n1 ts1]. cbn [fst snd] in H1. apply IH; auto; lia.
Qed.

Lemma run_out_CntInv fuel : forall B n ts i op,
  0 <= B -> B + Z.of_nat fuel <= i32_max -> SInv B n ts -> CntInv n ts op ->
  CntInv (fst (run_out fuel n ts i)) (snd (run_out fuel n ts i)) op.
Proof.
  induction fuel as [|f IH]; intros B n ts i op HB Hf Hi Hc; cbn [run_out]; auto.
  destruct (nth_error ts i) as [t|] eqn:E; auto.
  destruct (is_done t).
  - apply (IH (B + 1)); try lia; auto. eapply SInv_weaken; [|eauto]. lia.
  - pose proof (release_nth_SInv B n ts i ltac:(lia) Hi) as H1.
    pose proof (release_nth_CntInv B n ts op i ltac:(lia) (si_thr _ _ _ Hi) (si_ver _ _ _ Hi) Hc) as H2.
    destruct (release_nth n ts i) as [n1 ts1]. cbn [fst snd] in *. apply (IH (B + 1)); auto; lia.
Qed.

Definition cmax (t : thr) : nat := 8 * List.length (t_prog t) + 8.
Definition tail_cost (l : list thr) : nat := fold_right (fun t a => (cmax t + a)%nat) 0%nat l.

Lemma mu_cmax n t : (mu n t + 1 <= cmax t)%nat.
Proof. unfold mu, cmax. pose proof (wpc_le n (t_pc t)). lia. Qed.

Lemma skipn_list_update {A} (l : list A) : forall i j x, (i < j)%nat -> skipn j (list_update l i x) = skipn j l.
Proof.
  induction l as [|a r IH]; intros i j x H; destruct j; try lia; destruct i; cbn; auto.
  apply IH. lia.
Qed.

Lemma firstn_list_update {A} (l : list A) : forall i j x, (j <= i)%nat -> firstn j (list_update l i x) = firstn j l.
Proof.
  induction l as [|a r IH]; intros i j x H; destruct j; cbn; auto; destruct i; try lia.
  cbn. f_equal. apply IH. lia.
Qed.

Lemma skipn_nth {A} (l : list A) : forall i x, nth_error l i = Some x -> skipn i l = x :: skipn (S i) l.
Proof.
  induction l as [|a r IH]; intros [|i] x E; try discriminate; cbn in *.
  - now injection E as ->.
  - now apply IH.
Qed.

Lemma firstn_S_nth {A} (l : list A) : forall i x, nth_error l i = Some x -> firstn (S i) l = firstn i l ++ [x].
Proof.
  induction l as [|a r IH]; intros [|i] x E; try discriminate; cbn in *.
  - now injection E as ->.
  - f_equal. now apply IH.
Qed.

(* threads before position i are done and stay as they are; from position i on, the fuel
   covers what each thread can still need *)
Lemma run_out_done fuel : forall B n ts i,
  0 <= B -> B + Z.of_nat fuel <= i32_max -> SInv B n ts ->
  all_done (firstn i ts) ->
  (match nth_error ts i with
   | Some t => mu n t + 1 + tail_cost (skipn (S i) ts)
   | None => 0
   end <= fuel)%nat ->
  all_done (snd (run_out fuel n ts i)).
Proof.
  induction fuel as [|f IH]; intros B n ts i HB Hf Hi Hpre Hfuel; cbn [run_out].
  - destruct (nth_error ts i) eqn:E; [lia|]. cbn [snd].
    rewrite <- (firstn_all2 ts (n := i)); auto. apply nth_error_None. exact E.
  - destruct (nth_error ts i) as [t|] eqn:E.
    2:{ cbn [snd]. rewrite <- (firstn_all2 ts (n := i)); auto. apply nth_error_None. exact E. }
    destruct (is_done t) eqn:Hdn.
    + apply (IH (B + 1)); try lia.
      * eapply SInv_weaken; [|eauto]. lia.
      * rewrite (firstn_S_nth _ _ _ E). apply Forall_app. split; auto.
      * destruct (nth_error ts (S i)) as [t2|] eqn:E2; [|lia].
        rewrite (skipn_nth _ _ _ E2) in Hfuel. cbn [tail_cost fold_right] in Hfuel.
        fold (tail_cost (skipn (S (S i)) ts)) in Hfuel.
        pose proof (mu_cmax n t2). lia.
    + pose proof (release_nth_SInv B n ts i ltac:(lia) Hi) as H1.
      rewrite (release_nth_live n ts i t E Hdn) in *. cbn [fst snd] in *.
      pose proof (release_mu B n t (nth_error_Forall _ _ _ _ (si_thr _ _ _ Hi) E) (si_ver _ _ _ Hi)
                             ltac:(lia) Hdn) as Hmu.
      apply (IH (B + 1)); auto; try lia.
      * now rewrite firstn_list_update.
      * rewrite (nth_error_list_update_same _ _ _ _ E), skipn_list_update by lia. lia.
Qed.

(* (b)+(c) for a run that is followed by run_out with enough fuel: nothing is assumed about
   the threads being done -- they are *)
Theorem C17_run_out_all_done n ts fuel B :
  Forall usedb_thr ts -> VerInv B n -> 0 <= B -> B + Z.of_nat fuel <= i32_max -> PubInv n ts ->
  (tail_cost ts <= fuel)%nat ->
  all_done (snd (run_out fuel n ts 0)).
Proof.
  intros Ht Hv HB Hf Hp Hfuel.
  apply (run_out_done fuel B n ts 0 HB Hf (mkSInv _ _ _ Ht Hv Hp)); [constructor|].
  destruct ts as [|t r]; cbn [nth_error]; [lia|].
  unfold tail_cost in *. cbn [skipn fold_right] in *. pose proof (mu_cmax n t). lia.
Qed.

(* ---- run_par ------------------------------------------------------------------ *)
Definition lines (l : list thr) : nat := fold_right (fun t a => (List.length (t_prog t) + a)%nat) 0%nat l.

Lemma thread_fuel_eq ts : thread_fuel ts = (5 * List.length ts + 64 * lines ts)%nat.
Proof.
  unfold thread_fuel.
  assert (H : forall l a, fold_left (fun a t => (a + 4 + 64 * List.length (t_prog t))%nat) l a =
                          (a + 4 * List.length l + 64 * lines l)%nat).
  { induction l as [|t r IH]; intros a; cbn [fold_left lines fold_right List.length]; [lia|].
    rewrite IH. fold (lines r). lia. }
  rewrite H. lia.
Qed.

Lemma tail_cost_eq ts : tail_cost ts = (8 * List.length ts + 8 * lines ts)%nat.
Proof.
  induction ts as [|t r IH]; cbn [tail_cost fold_right lines List.length]; [lia|].
  fold (tail_cost r). fold (lines r). unfold cmax. lia.
Qed.

Lemma lines_list_update l : forall i t t',
  nth_error l i = Some t -> (List.length (t_prog t') <= List.length (t_prog t))%nat ->
  (lines (list_update l i t') <= lines l)%nat.
Proof.
  induction l as [|a r IH]; intros [|i] t t' E H; try discriminate; cbn [list_update lines fold_right nth_error] in *.
  - injection E as ->. fold (lines r). lia.
  - fold (lines (list_update r i t')). fold (lines r). specialize (IH i t t' E H). lia.
Qed.

Lemma release_nth_lines n ts i :
  List.length (snd (release_nth n ts i)) = List.length ts /\
  (lines (snd (release_nth n ts i)) <= lines ts)%nat.
Proof.
  unfold release_nth. destruct (nth_error ts i) as [t|] eqn:E; auto.
  destruct (is_done t); auto.
  pose proof (release_thr n t) as [_ Hp]. destruct (release n t) as [n1 t1]. cbn [snd] in *.
  split; [apply list_update_length|]. eapply lines_list_update; eauto.
  destruct Hp as [-> | (l & ->)]; cbn [List.length]; lia.
Qed.

Lemma run_schedule_lines sched : forall n ts,
  List.length (snd (run_schedule n ts sched)) = List.length ts /\
  (lines (snd (run_schedule n ts sched)) <= lines ts)%nat.
Proof.
  induction sched as [|i r IH]; intros n ts; [cbn; auto|].
  rewrite run_schedule_cons.
  destruct (IH (fst (release_nth n ts i)) (snd (release_nth n ts i))) as [H1 H2].
  destruct (release_nth_lines n ts i) as [H3 H4]. split; lia.
Qed.

(* C17 for run_par, nothing assumed about termination.  The fuel of run_par allows 5 releases
   for a command that is under way, a use-db may need 7 (a stale write, the re-check, two
   publishes); the slack of 64 covers this for up to 21 threads (or any number of threads
   that have enough lines left: 3 * threads <= 64 + 56 * lines) *)
Theorem C17_run_par n ts sched B op :
  Forall usedb_thr ts -> VerInv B n -> 0 <= B ->
  B + Z.of_nat (List.length sched + thread_fuel ts + 64) <= i32_max ->
  PubInv n ts -> CntInv n ts op ->
  (3 * List.length ts <= 64)%nat ->
  let n' := fst (run_par n ts sched) in
  let ts' := snd (run_par n ts sched) in
  all_done ts' /\
  forall D d, get_db n' D = Some d ->
    key_agrees d /\ d_conn d = Z.of_nat (List.length (selected n' op D)).
Proof.
  intros Ht Hv HB Hbud Hp Hc Hk. cbn zeta. unfold run_par.
  pose proof (run_schedule_SInv sched B n ts HB ltac:(lia) (mkSInv _ _ _ Ht Hv Hp)) as Hi1.
  pose proof (run_schedule_CntInv sched B n ts op HB ltac:(lia) (mkSInv _ _ _ Ht Hv Hp) Hc) as Hc1.
  destruct (run_schedule_lines sched n ts) as [Hlen Hlines].
  destruct (run_schedule n ts sched) as [n1 ts1]. cbn [fst snd] in *.
  set (B1 := B + Z.of_nat (List.length sched)) in *.
  set (fuel := (thread_fuel ts1 + 64)%nat).
  assert (Hfl : (fuel <= thread_fuel ts + 64)%nat).
  { unfold fuel. rewrite !thread_fuel_eq. lia. }
  assert (Hf : B1 + Z.of_nat fuel <= i32_max) by (unfold B1; lia).
  assert (HB1 : 0 <= B1) by (unfold B1; lia).
  pose proof (run_out_SInv fuel B1 n1 ts1 0 HB1 Hf Hi1) as Hi2.
  pose proof (run_out_CntInv fuel B1 n1 ts1 0 op HB1 Hf Hi1 Hc1) as Hc2.
  assert (Hdone : all_done (snd (run_out fuel n1 ts1 0))).
  { destruct Hi1 as [A V P]. apply (C17_run_out_all_done n1 ts1 fuel B1 A V HB1 Hf P).
    unfold fuel. rewrite tail_cost_eq, thread_fuel_eq. lia. }
  split; auto. intros D d Hd. split.
  - destruct Hi2 as [_ _ P]. destruct (P D d Hd) as [Hka | Hw]; auto.
    exfalso. exact (done_no_wit _ _ _ Hdone Hw).
  - destruct Hc2 as (_ & _ & _ & _ & Hcnt). rewrite (Hcnt _ _ Hd), (all_done_pend _ _ Hdone). lia.
Qed.

(* the bound on the number of threads in [C17_run_par] is about run_par's fuel, not about
   use-db: 66 threads that are all parked at their token check (previous selection d, so each
   needs 5 more releases) exhaust it -- the last thread is left parked *)
Definition fx_node (k : nat) : node :=
  let '(n, c) := connect (init_node "u" "p" "a" 1 Primary 0) in
  let n := ex_steps n c ["auth u p"; "create-db d t1 none"] in
  fold_left (fun n _ => let '(n1, c1) := connect n in fst (step n1 c1 "use-db d t1")) (seq 0 k) n.
Definition fx_ts (k : nat) : list thr := map (fun i => new_thread (S i) ["use-db d t1"] []) (seq 0 k).

Example C17_run_par_fuel_short :
  forallb is_done (snd (run_par (fx_node 65) (fx_ts 65) (seq 0 65))) = true /\
  forallb is_done (snd (run_par (fx_node 66) (fx_ts 66) (seq 0 66))) = false.
Proof. vm_compute. split; reflexivity. Qed.

(* the hypotheses are satisfiable: the two sessions of [rx_node], EVERY schedule *)
Definition rx_st : node * list nat :=
  fold_left nstep [EConnect; ECmd 0 "auth u p"; ECmd 0 "create-db d t1 none"; ECmd 0 "use-db d t1";
                   EConnect; EConnect] (init_node "u" "p" "a" 1 Primary 0, []).

Lemma rx_dbs_cases (P : db -> Prop) :
  (forall d, get_db rx_node "$admin" = Some d -> P d) ->
  (forall d, get_db rx_node "d" = Some d -> P d) ->
  forall D d, get_db rx_node D = Some d -> P d.
Proof.
  assert (E : exists da dd, n_dbs rx_node = [("$admin", da); ("d", dd)]) by (vm_compute; eauto).
  destruct E as (da & dd & E). unfold get_db. revert E. generalize (n_dbs rx_node).
  intros l -> Ha Hd D d H. cbn [assoc_get] in *.
  destruct (String.eqb_spec D "$admin") as [->|].
  - apply Ha. now rewrite String.eqb_refl.
  - destruct (String.eqb_spec D "d") as [->|]; [|discriminate].
    apply Hd. exact H.
Qed.

Example C17_two_sessions_any_schedule : forall sched,
  Z.of_nat (List.length sched) <= 2000000000 ->
  let n' := fst (run_par rx_node rx_ts sched) in
  all_done (snd (run_par rx_node rx_ts sched)) /\
  forall D d, get_db n' D = Some d ->
    key_agrees d /\ d_conn d = Z.of_nat (List.length (selected n' [0; 1; 2]%nat D)).
Proof.
  intros sched Hlen.
  assert (Hst : rx_st = (rx_node, [0; 1; 2]%nat)) by (vm_compute; reflexivity).
  assert (HC : ConnInv (rx_node, [0; 1; 2]%nat)).
  { rewrite <- Hst. unfold rx_st. apply conn_run; [apply conn_init | vm_compute; reflexivity]. }
  apply (C17_run_par rx_node rx_ts sched 1 [0; 1; 2]%nat).
  - repeat constructor; exists "t1", "d", None; vm_compute; reflexivity.
  - intros D d v Hd. revert v. revert D d Hd.
    apply (rx_dbs_cases (fun d => forall v, get_value d ckey = Some v -> 0 <= v_ver v <= 1)); intros d Hd v Hg;
      vm_compute in Hd; injection Hd as <-; vm_compute in Hg; try discriminate Hg.
    injection Hg as <-. cbn. lia.
  - lia.
  - assert (E : thread_fuel rx_ts = 138%nat) by (vm_compute; reflexivity).
    rewrite E. unfold i32_max. lia.
  - apply PubInv_init. apply (rx_dbs_cases key_agrees); intros d Hd; vm_compute in Hd; injection Hd as <-.
    + right. split; reflexivity.
    + left. reflexivity.
  - apply CntInv_init; auto.
    + vm_compute. repeat constructor; cbn; intuition discriminate.
    + intros t [<- | [<- | []]]; cbn; intuition.
  - cbn. lia.
Qed.

(* ====================================================================== *)
(* 8. summary                                                              *)
(* ====================================================================== *)
Check C17_sched_key_agrees.
Print Assumptions C17_sched_key_agrees.
Check C17_sched_key_equals.
Print Assumptions C17_sched_key_equals.
Check C17_sched_counter_agrees.
Print Assumptions C17_sched_counter_agrees.
Check usedb_sequential.
Print Assumptions usedb_sequential.
Check C17_run_out_all_done.
Print Assumptions C17_run_out_all_done.
Check C17_run_par.
Print Assumptions C17_run_par.
Check C17_race_without_recheck.
Check C17_run_par_fuel_short.
Check C17_two_sessions_any_schedule.
Print Assumptions C17_two_sessions_any_schedule.
Check C17_sched_key_stuck_saturated.
