(* Proofs about Model/Cluster.v: replication wire format (C04/C05), replay convergence
   (C04), fan-out and the replication thread (C14/C15). *)
From NunDB Require Import Model.Base Model.Pending Model.Parse Model.Node Model.Oplog Model.Cluster
  Proofs.AssocLemmas Proofs.PendingProofs Proofs.DbProofs.
From Coq Require Import DecimalN DecimalPos Sorting.Permutation.
Local Open Scope Z_scope.

(* ================================================================== *)
(* Part 1.  The wire format round-trips                                 *)
(* ================================================================== *)

(* ---- lexical side conditions ------------------------------------- *)
Fixpoint nochar (c : ascii) (s : str) : bool :=
  match s with
  | EmptyString => true
  | String a r => negb (Ascii.eqb a c) && nochar c r
  end.
Definition no_sp (s : str) : Prop := nochar sp s = true.     (* no space byte *)
Definition no_nl (s : str) : Prop := nochar nl s = true.     (* no newline byte *)

Fixpoint last_char (s : str) : option ascii :=
  match s with
  | EmptyString => None
  | String a r => match last_char r with Some x => Some x | None => Some a end
  end.
(* the text does not end with ';' (Request::parse strips trailing ';' of the whole line) *)
Definition no_semi_end (s : str) : Prop := last_char s <> Some ";"%char.

Definition is_i32 (z : Z) : Prop := -2147483648 <= z <= 2147483647.

Lemma nochar_in c s : nochar c s = true <-> ~ In c (list_ascii_of_string s).
Proof.
  induction s as [|a r IH]; cbn; [tauto|].
  rewrite andb_true_iff, negb_true_iff, IH.
  destruct (Ascii.eqb_spec a c); intuition congruence.
Qed.

Lemma nochar_app c a b : nochar c (a +++ b) = nochar c a && nochar c b.
Proof. induction a as [|x a IH]; cbn; auto. now rewrite IH, andb_assoc. Qed.

(* ---- string basics -------------------------------------------------- *)
Lemma app_assoc_s (a b c : str) : (a +++ b) +++ c = a +++ b +++ c.
Proof. induction a as [|x a IH]; cbn; auto. now rewrite IH. Qed.

Lemma app_nil_r_s (a : str) : a +++ "" = a.
Proof. induction a as [|x a IH]; cbn; auto. now rewrite IH. Qed.

Lemma str_rev_acc_spec s : forall acc, str_rev_acc s acc = str_rev s +++ acc.
Proof.
  unfold str_rev. induction s as [|a r IH]; intros acc; cbn [str_rev_acc]; auto.
  rewrite (IH (String a acc)), (IH (String a "")), app_assoc_s. reflexivity.
Qed.

Lemma str_rev_app a b : str_rev (a +++ b) = str_rev b +++ str_rev a.
Proof.
  induction a as [|x a IH]; cbn [append].
  - now rewrite app_nil_r_s.
  - unfold str_rev at 1 3. cbn [str_rev_acc]. rewrite !str_rev_acc_spec, IH, app_assoc_s. reflexivity.
Qed.

Lemma str_rev_invol s : str_rev (str_rev s) = s.
Proof.
  induction s as [|a r IH]; auto.
  change (String a r) with (String a "" +++ r) at 1.
  rewrite str_rev_app, str_rev_app, IH. reflexivity.
Qed.

Lemma rev_rev_acc p cur : str_rev (str_rev_acc p cur) = str_rev cur +++ p.
Proof. now rewrite str_rev_acc_spec, str_rev_app, str_rev_invol. Qed.

(* ---- trailing ';' --------------------------------------------------- *)
Lemma last_char_app a b :
  last_char (a +++ b) = match last_char b with Some x => Some x | None => last_char a end.
Proof.
  induction a as [|x a IH]; cbn [append last_char].
  - now destruct (last_char b).
  - rewrite IH. destruct (last_char b); auto.
Qed.

Lemma last_char_rev s : last_char s = match str_rev s with String x _ => Some x | EmptyString => None end.
Proof.
  induction s as [|a r IH]; auto.
  change (String a r) with (String a "" +++ r) at 2. rewrite str_rev_app.
  cbn [last_char]. rewrite IH. destruct (str_rev r); reflexivity.
Qed.

Lemma trim_end_noop c s : last_char s <> Some c -> trim_end_char c s = s.
Proof.
  intros H. unfold trim_end_char. rewrite last_char_rev in H.
  destruct (str_rev s) as [|x t] eqn:E.
  - rewrite <- (str_rev_invol s), E. reflexivity.
  - cbn [drop_leading]. destruct (Ascii.eqb_spec x c) as [->|_]; [congruence|].
    rewrite <- E. apply str_rev_invol.
Qed.

(* when the text does end with ';' the parser sees a different (shorter) line *)
Lemma trim_end_strips c s : trim_end_char c (s +++ String c "") = trim_end_char c s.
Proof.
  unfold trim_end_char. rewrite str_rev_app. cbn [str_rev str_rev_acc append drop_leading].
  change (str_rev (String c "")) with (String c ""). cbn [append drop_leading].
  now rewrite Ascii.eqb_refl.
Qed.

Lemma no_semi_end_app a b : b <> "" -> no_semi_end b -> no_semi_end (a +++ b).
Proof.
  unfold no_semi_end. intros Hb H. rewrite last_char_app.
  destruct b as [|x b]; [congruence|].
  destruct (last_char (String x b)) eqn:E; auto.
  cbn in E. destruct (last_char b); discriminate.
Qed.

(* value part preceded by a separator: an empty value leaves the separator last *)
Lemma no_semi_end_sep a b : no_semi_end b -> no_semi_end (a +++ " " +++ b).
Proof.
  unfold no_semi_end. intros H. rewrite last_char_app.
  change (" " +++ b) with (String " " b). cbn [last_char].
  destruct (last_char b); auto. discriminate.
Qed.

(* ---- splitn --------------------------------------------------------- *)
Lemma splitn_acc_piece n c p rest : forall cur, nochar c p = true ->
  splitn_acc (S (S n)) c (p +++ String c rest) cur = (str_rev cur +++ p) :: splitn_acc (S n) c rest "".
Proof.
  induction p as [|a p IH]; intros cur H.
  - cbn [append splitn_acc]. rewrite Ascii.eqb_refl, app_nil_r_s. reflexivity.
  - cbn [nochar] in H. apply andb_true_iff in H as [Ha Hp]. apply negb_true_iff in Ha.
    cbn [append]. change (splitn_acc (S (S n)) c (String a (p +++ String c rest)) cur)
      with (if Ascii.eqb a c then str_rev cur :: splitn_acc (S n) c (p +++ String c rest) ""
            else splitn_acc (S (S n)) c (p +++ String c rest) (String a cur)).
    rewrite Ha, IH by assumption. f_equal.
    unfold str_rev at 1. cbn [str_rev_acc]. rewrite str_rev_acc_spec, app_assoc_s. reflexivity.
Qed.

Lemma splitn_acc_end n c p : forall cur, nochar c p = true ->
  splitn_acc (S (S n)) c p cur = [str_rev cur +++ p].
Proof.
  induction p as [|a p IH]; intros cur H.
  - cbn [splitn_acc]. now rewrite app_nil_r_s.
  - cbn [nochar] in H. apply andb_true_iff in H as [Ha Hp]. apply negb_true_iff in Ha.
    change (splitn_acc (S (S n)) c (String a p) cur)
      with (if Ascii.eqb a c then str_rev cur :: splitn_acc (S n) c p ""
            else splitn_acc (S (S n)) c p (String a cur)).
    rewrite Ha, IH by assumption. f_equal.
    unfold str_rev at 1. cbn [str_rev_acc]. rewrite str_rev_acc_spec, app_assoc_s. reflexivity.
Qed.

Lemma splitn_sp_cons n p rest : no_sp p ->
  splitn (S (S n)) sp (p +++ " " +++ rest) = p :: splitn (S n) sp rest.
Proof.
  intros H. unfold splitn. change (" " +++ rest) with (String sp rest).
  now rewrite splitn_acc_piece.
Qed.

Lemma splitn_sp_last s : splitn 1 sp s = [s].
Proof. destruct s; reflexivity. Qed.

Lemma splitn_sp_end n p : no_sp p -> splitn (S (S n)) sp p = [p].
Proof. intros H. unfold splitn. now rewrite splitn_acc_end. Qed.

Lemma strip_nl_noop s : no_nl s -> strip_nl s = s.
Proof.
  unfold no_nl, strip_nl. induction s as [|a r IH]; cbn; auto.
  intros H. apply andb_true_iff in H as [Ha Hr]. apply negb_true_iff in Ha.
  rewrite Ha, IH; auto.
Qed.

(* ---- decimal printing / parsing ------------------------------------- *)
Fixpoint alldigits (s : str) : bool :=
  match s with EmptyString => true | String a r => is_digit a && alldigits r end.

Fixpoint uval (d : Decimal.uint) (acc : N) : N :=
  match d with
  | Decimal.Nil => acc
  | Decimal.D0 l => uval l (acc * 10 + 0)%N
  | Decimal.D1 l => uval l (acc * 10 + 1)%N
  | Decimal.D2 l => uval l (acc * 10 + 2)%N
  | Decimal.D3 l => uval l (acc * 10 + 3)%N
  | Decimal.D4 l => uval l (acc * 10 + 4)%N
  | Decimal.D5 l => uval l (acc * 10 + 5)%N
  | Decimal.D6 l => uval l (acc * 10 + 6)%N
  | Decimal.D7 l => uval l (acc * 10 + 7)%N
  | Decimal.D8 l => uval l (acc * 10 + 8)%N
  | Decimal.D9 l => uval l (acc * 10 + 9)%N
  end.

Lemma digits_val_uint d : forall acc,
  digits_val (NilEmpty.string_of_uint d) acc = Some (uval d acc).
Proof. induction d; intros acc; cbn [NilEmpty.string_of_uint uval]; auto; apply IHd. Qed.

Lemma alldigits_uint d : alldigits (NilEmpty.string_of_uint d) = true.
Proof. induction d; cbn [NilEmpty.string_of_uint alldigits]; auto. Qed.

Lemma uval_pos d : forall acc, uval d (Npos acc) = Npos (Pos.of_uint_acc d acc).
Proof.
  induction d; intros acc; cbn [uval Pos.of_uint_acc]; auto;
    rewrite <- IHd; f_equal; lia.
Qed.

Lemma uval_0 d : uval d 0 = Pos.of_uint d.
Proof.
  induction d; cbn [uval Pos.of_uint]; auto;
    try (rewrite <- uval_pos; reflexivity); exact IHd.
Qed.

Lemma digits_val_N n : digits_val (N_to_str n) 0 = Some n.
Proof.
  unfold N_to_str. rewrite digits_val_uint, uval_0.
  f_equal. apply DecimalN.Unsigned.of_to.
Qed.

Lemma alldigits_N n : alldigits (N_to_str n) = true.
Proof. apply alldigits_uint. Qed.

Lemma N_to_str_cons n : exists a r, N_to_str n = String a r /\ is_digit a = true.
Proof.
  pose proof (alldigits_N n) as H. pose proof (digits_val_N n) as Hv.
  destruct (N_to_str n) as [|a r] eqn:E.
  - (* empty text would be the number 0, printed "0" *)
    cbn in Hv. injection Hv as <-. discriminate E.
  - cbn in H. apply andb_true_iff in H as [Ha _]. eauto.
Qed.

Lemma N_to_str_nonempty n : N_to_str n <> "".
Proof. destruct (N_to_str_cons n) as (a & r & -> & _). discriminate. Qed.

Lemma parse_unsigned_digit bound a r : is_digit a = true ->
  parse_unsigned bound (String a r) =
  match digits_val (String a r) 0%N with
  | Some v => if N.ltb v bound then Some v else None
  | None => None
  end.
Proof.
  intros H. destruct a as [[] [] [] [] [] [] [] []];
    try (vm_compute in H; discriminate H); reflexivity.
Qed.

Lemma parse_i32_digit a r : is_digit a = true ->
  parse_i32 (String a r) =
  match digits_val (String a r) 0%N with
  | Some v => if (Z.leb (-2147483648) (Z.of_N v) && Z.leb (Z.of_N v) 2147483647)%Z
              then Some (Z.of_N v) else None
  | None => None
  end.
Proof.
  intros H. destruct a as [[] [] [] [] [] [] [] []];
    try (vm_compute in H; discriminate H); reflexivity.
Qed.

Lemma parse_unsigned_N bound n : (n < bound)%N -> parse_unsigned bound (N_to_str n) = Some n.
Proof.
  intros Hb. destruct (N_to_str_cons n) as (a & r & E & Ha).
  pose proof (digits_val_N n) as Hv. rewrite E in *.
  rewrite parse_unsigned_digit, Hv by assumption.
  apply N.ltb_lt in Hb. now rewrite Hb.
Qed.

Theorem parse_u64_N n : (n < 2 ^ 64)%N -> parse_u64 (N_to_str n) = Some n.
Proof. apply parse_unsigned_N. Qed.

Theorem parse_u128_N n : (n < 2 ^ 128)%N -> parse_u128 (N_to_str n) = Some n.
Proof. apply parse_unsigned_N. Qed.

Theorem parse_i32_Z z : is_i32 z -> parse_i32 (Z_to_str z) = Some z.
Proof.
  unfold is_i32. intros Hr. destruct z as [|p|p]; cbn [Z_to_str].
  - reflexivity.
  - destruct (N_to_str_cons (Npos p)) as (a & r & E & Ha).
    pose proof (digits_val_N (Npos p)) as Hv. rewrite E in *.
    rewrite parse_i32_digit, Hv by assumption. cbn [Z.of_N].
    replace (_ && _) with true; auto.
    symmetry. apply andb_true_iff. split; apply Z.leb_le; lia.
  - change ("-" +++ N_to_str (N.pos p)) with (String "-" (N_to_str (N.pos p))).
    destruct (N_to_str_cons (Npos p)) as (a & r & E & Ha).
    pose proof (digits_val_N (Npos p)) as Hv. rewrite E in *.
    unfold parse_i32. rewrite Hv. cbn [Z.of_N Z.opp].
    replace (_ && _) with true; auto.
    symmetry. apply andb_true_iff. split; apply Z.leb_le; lia.
Qed.

(* out-of-range numbers are not transported *)
Example parse_i32_out_of_range : parse_i32 (Z_to_str 2147483648) = None.
Proof. vm_compute. reflexivity. Qed.

Lemma alldigits_nochar c s : is_digit c = false -> alldigits s = true -> nochar c s = true.
Proof.
  intros Hc. induction s as [|a r IH]; cbn; auto.
  intros H. apply andb_true_iff in H as [Ha Hr]. rewrite IH by assumption.
  destruct (Ascii.eqb_spec a c) as [->|]; [congruence|reflexivity].
Qed.

Lemma alldigits_last s x : alldigits s = true -> last_char s = Some x -> is_digit x = true.
Proof.
  induction s as [|a r IH]; cbn; [discriminate|].
  intros H. apply andb_true_iff in H as [Ha Hr].
  destruct (last_char r) as [y|]; intros [= <-]; auto.
Qed.

Lemma no_sp_N n : no_sp (N_to_str n).
Proof. apply alldigits_nochar; [reflexivity | apply alldigits_N]. Qed.
Lemma no_nl_N n : no_nl (N_to_str n).
Proof. apply alldigits_nochar; [reflexivity | apply alldigits_N]. Qed.
Lemma no_semi_end_N n : no_semi_end (N_to_str n).
Proof.
  intros H. apply alldigits_last in H; [discriminate H | apply alldigits_N].
Qed.

Lemma no_sp_Z z : no_sp (Z_to_str z).
Proof. destruct z; cbn [Z_to_str]; try reflexivity; [|unfold no_sp; cbn [append nochar]]; apply no_sp_N. Qed.
Lemma no_nl_Z z : no_nl (Z_to_str z).
Proof. destruct z; cbn [Z_to_str]; try reflexivity; [|unfold no_nl; cbn [append nochar]]; apply no_nl_N. Qed.
Lemma Z_to_str_nonempty z : Z_to_str z <> "".
Proof. destruct z; cbn [Z_to_str]; try discriminate. apply N_to_str_nonempty. Qed.
Lemma no_semi_end_Z z : no_semi_end (Z_to_str z).
Proof.
  destruct z; cbn [Z_to_str]; try (intros H; discriminate H); [apply no_semi_end_N|].
  apply no_semi_end_app; [apply N_to_str_nonempty | apply no_semi_end_N].
Qed.

(* ---- the dispatcher at the command words used on links ---------------- *)
Lemma parse_cmd_replicate args : parse_cmd "replicate" args = Some (
    match hd_opt (tl args) with
    | Some cv =>
        let ps := splitn 3 sp cv in
        POk (RqReplicateSet (or_empty (hd_opt args)) (strip_nl (or_empty (hd_opt ps)))
               (strip_nl (or_empty (hd_opt (tl (tl ps))))) (i32_or (-1) (hd_opt (tl ps))))
    | None => PErr "no command sent"
    end).
Proof. reflexivity. Qed.

Lemma parse_cmd_replicate_remove args : parse_cmd "replicate-remove" args =
  Some (POk (RqReplicateRemove (or_empty (hd_opt args)) (strip_nl (or_empty (hd_opt (tl args)))))).
Proof. reflexivity. Qed.

Lemma parse_cmd_replicate_increment args : parse_cmd "replicate-increment" args = Some (
    match hd_opt args with
    | None => PErr "replicate-snapshot must contain a db name"
    | Some dbn =>
        match hd_opt (tl args) with
        | None => PErr "replicate-increment must be followed by a key"
        | Some rest =>
            let ps := splitn 2 sp rest in
            POk (RqReplicateIncrement (strip_nl dbn) (or_empty (hd_opt ps)) (i32_or 1 (hd_opt (tl ps))))
        end
    end).
Proof. reflexivity. Qed.

Lemma parse_cmd_create_db args : parse_cmd "create-db" args = Some (
    match hd_opt (tl args) with
    | Some rest =>
        let ps := splitn 2 sp rest in
        POk (RqCreateDb (strip_nl (or_empty (hd_opt ps))) (or_empty (hd_opt args))
               (strat_of_str (match hd_opt (tl ps) with Some s => strip_nl s | None => "none" end)))
    | None => PErr "create-db must be followed by a token"
    end).
Proof. reflexivity. Qed.

Lemma parse_cmd_rp args : parse_cmd "rp" args = Some (
    match hd_opt args with
    | None => PErr "Invalid request Id"
    | Some ids =>
        match parse_u64 ids with
        | None => PErr "Invalid request Id"
        | Some id => let rs := or_empty (hd_opt (tl args)) in
                     if String.eqb rs "" then PErr "Invalid replication request str"
                     else POk (RqReplicateRequest rs id)
        end
    end).
Proof. reflexivity. Qed.

Lemma parse_cmd_ack args : parse_cmd "ack" args = Some (
    match hd_opt args with
    | Some ids => match parse_u64 ids with
                  | Some id => let sn := or_empty (hd_opt (tl args)) in
                               if String.eqb sn "" then PErr "Invalid server name"
                               else POk (RqAcknowledge id sn)
                  | None => PErr "Invalid request Id"
                  end
    | None => PErr "Invalid request Id"
    end).
Proof. reflexivity. Qed.

(* a line "<word> <a> <rest>" whose first two pieces contain no space *)
Lemma parse_request_3 word a rest :
  no_sp word -> word <> "" -> no_sp a -> no_semi_end (word +++ " " +++ a +++ " " +++ rest) ->
  parse_request (word +++ " " +++ a +++ " " +++ rest) =
  match parse_cmd word [a; rest] with Some r => r | None => PErr ("unknown command: " +++ word) end.
Proof.
  intros Hw Hne Ha Hs. unfold parse_request.
  rewrite trim_end_noop by exact Hs.
  rewrite splitn_sp_cons, splitn_sp_cons, splitn_sp_last by assumption.
  destruct (String.eqb_spec word ""); [contradiction|reflexivity].
Qed.

Lemma eqb_nonempty s : s <> "" -> String.eqb s "" = false.
Proof. intros H. destruct (String.eqb_spec s ""); congruence. Qed.

(* ---- 1. replicate (live set) ------------------------------------------ *)
Theorem replicate_roundtrip db key value ver :
  no_sp db -> no_sp key -> no_nl key -> no_nl value -> no_semi_end value -> is_i32 ver ->
  parse_request (replicate_msg db key value ver) = POk (RqReplicateSet db key value ver).
Proof.
  intros Hdb Hk Hkn Hvn Hvs Hver. unfold replicate_msg.
  change ("replicate " +++ db +++ " " +++ key +++ " " +++ Z_to_str ver +++ " " +++ value)
    with ("replicate" +++ " " +++ db +++ " " +++ key +++ " " +++ Z_to_str ver +++ " " +++ value).
  rewrite parse_request_3; try assumption; try reflexivity; try discriminate.
  2:{ repeat (rewrite <- app_assoc_s); rewrite app_assoc_s; apply no_semi_end_sep, Hvs. }
  rewrite parse_cmd_replicate. cbn [hd_opt tl or_empty]. cbv zeta.
  rewrite splitn_sp_cons, splitn_sp_cons, splitn_sp_last by (assumption || apply no_sp_Z).
  cbn [hd_opt tl or_empty i32_or].
  rewrite !strip_nl_noop by (assumption || apply no_nl_Z).
  now rewrite parse_i32_Z.
Qed.

(* ---- 2. replicate-remove ---------------------------------------------- *)
Theorem replicate_remove_roundtrip db key :
  no_sp db -> no_nl key -> no_semi_end key ->
  parse_request ("replicate-remove " +++ db +++ " " +++ key) = POk (RqReplicateRemove db key).
Proof.
  intros Hdb Hkn Hks.
  change ("replicate-remove " +++ db +++ " " +++ key) with ("replicate-remove" +++ " " +++ db +++ " " +++ key).
  rewrite parse_request_3; try assumption; try reflexivity; try discriminate.
  2:{ repeat (rewrite <- app_assoc_s); rewrite app_assoc_s; apply no_semi_end_sep, Hks. }
  rewrite parse_cmd_replicate_remove. cbn [hd_opt tl or_empty].
  now rewrite strip_nl_noop.
Qed.

(* ---- 3. replicate-increment ------------------------------------------- *)
Theorem replicate_increment_roundtrip db key inc :
  no_sp db -> no_nl db -> no_sp key -> is_i32 inc ->
  parse_request ("replicate-increment " +++ db +++ " " +++ key +++ " " +++ Z_to_str inc)
  = POk (RqReplicateIncrement db key inc).
Proof.
  intros Hdb Hdn Hk Hi.
  change ("replicate-increment " +++ db +++ " " +++ key +++ " " +++ Z_to_str inc)
    with ("replicate-increment" +++ " " +++ db +++ " " +++ key +++ " " +++ Z_to_str inc).
  rewrite parse_request_3; try assumption; try reflexivity; try discriminate.
  2:{ repeat (rewrite <- app_assoc_s); rewrite app_assoc_s; apply no_semi_end_sep, no_semi_end_Z. }
  rewrite parse_cmd_replicate_increment. cbn [hd_opt tl or_empty]. cbv zeta.
  rewrite splitn_sp_cons, splitn_sp_last by assumption.
  cbn [hd_opt tl or_empty i32_or].
  rewrite !strip_nl_noop by (assumption || apply no_nl_Z).
  now rewrite parse_i32_Z.
Qed.

(* ---- 4. create-db ----------------------------------------------------- *)
Theorem create_db_roundtrip name token s :
  no_sp name -> no_sp token -> no_nl token ->
  parse_request ("create-db " +++ name +++ " " +++ token +++ " " +++ strat_to_str s)
  = POk (RqCreateDb token name s).
Proof.
  intros Hn Ht Htn.
  change ("create-db " +++ name +++ " " +++ token +++ " " +++ strat_to_str s)
    with ("create-db" +++ " " +++ name +++ " " +++ token +++ " " +++ strat_to_str s).
  rewrite parse_request_3; try assumption; try reflexivity; try discriminate.
  2:{ repeat (rewrite <- app_assoc_s); rewrite app_assoc_s; apply no_semi_end_sep. destruct s; intros H; discriminate H. }
  rewrite parse_cmd_create_db. cbn [hd_opt tl or_empty]. cbv zeta.
  rewrite splitn_sp_cons, splitn_sp_last by assumption.
  cbn [hd_opt tl or_empty].
  rewrite strip_nl_noop by assumption.
  destruct s; reflexivity.
Qed.

(* ---- 5. rp / ack ------------------------------------------------------- *)
Theorem rp_roundtrip id msg :
  (id < 2 ^ 64)%N -> msg <> "" -> no_semi_end msg ->
  parse_request ("rp " +++ N_to_str id +++ " " +++ msg) = POk (RqReplicateRequest msg id).
Proof.
  intros Hid Hm Hs.
  change ("rp " +++ N_to_str id +++ " " +++ msg) with ("rp" +++ " " +++ N_to_str id +++ " " +++ msg).
  rewrite parse_request_3; try assumption; try reflexivity; try discriminate; try apply no_sp_N.
  2:{ repeat (rewrite <- app_assoc_s); rewrite app_assoc_s; apply no_semi_end_sep, Hs. }
  rewrite parse_cmd_rp. cbn [hd_opt tl or_empty]. cbv zeta.
  now rewrite parse_u64_N, eqb_nonempty.
Qed.

Corollary message_to_replicate_roundtrip id msg :
  (id < 2 ^ 64)%N -> msg <> "" -> no_semi_end msg ->
  parse_request (message_to_replicate id msg) = POk (RqReplicateRequest msg id).
Proof. apply rp_roundtrip. Qed.

Theorem ack_roundtrip id name :
  (id < 2 ^ 64)%N -> name <> "" -> no_semi_end name ->
  parse_request ("ack " +++ N_to_str id +++ " " +++ name) = POk (RqAcknowledge id name).
Proof.
  intros Hid Hm Hs.
  change ("ack " +++ N_to_str id +++ " " +++ name) with ("ack" +++ " " +++ N_to_str id +++ " " +++ name).
  rewrite parse_request_3; try assumption; try reflexivity; try discriminate; try apply no_sp_N.
  2:{ repeat (rewrite <- app_assoc_s); rewrite app_assoc_s; apply no_semi_end_sep, Hs. }
  rewrite parse_cmd_ack. cbn [hd_opt tl or_empty]. cbv zeta.
  now rewrite parse_u64_N, eqb_nonempty.
Qed.

(* the catch-up line of get_pendding_opps_since ("replicate db key value", no version)
   does NOT round-trip: the value is read as the version (unparsable: -1) and the value is lost *)
Example catchup_line_not_roundtrip :
  parse_request "replicate d1 k value3" = POk (RqReplicateSet "d1" "k" "" (-1)).
Proof. vm_compute. reflexivity. Qed.

(* a numeric value in a catch-up line becomes the VERSION *)
Example catchup_line_numeric_value :
  parse_request "replicate d1 k 7" = POk (RqReplicateSet "d1" "k" "" 7).
Proof. vm_compute. reflexivity. Qed.

(* each side condition of [replicate_roundtrip] is needed *)
Example replicate_needs_no_semi_end :
  parse_request (replicate_msg "d" "k" "v;" (-1)) = POk (RqReplicateSet "d" "k" "v" (-1)).
Proof. vm_compute. reflexivity. Qed.
Example replicate_needs_no_nl_key :
  parse_request (replicate_msg "d" ("a" +++ nlS +++ "b") "v" (-1)) = POk (RqReplicateSet "d" "ab" "v" (-1)).
Proof. vm_compute. reflexivity. Qed.
Example replicate_needs_no_sp_key :
  parse_request (replicate_msg "d" "a b" "v" 3) = POk (RqReplicateSet "d" "a" "3 v" (-1)).
Proof. vm_compute. reflexivity. Qed.
Example replicate_needs_no_sp_db :
  parse_request (replicate_msg "d e" "k" "v" 3) = POk (RqReplicateSet "d" "e" "3 v" (-1)).
Proof. vm_compute. reflexivity. Qed.
Example replicate_needs_i32 :
  parse_request (replicate_msg "d" "k" "v" 2147483648) = POk (RqReplicateSet "d" "k" "v" (-1)).
Proof. vm_compute. reflexivity. Qed.

(* a value ending with ';' is reachable at the primary through the parser itself: the
   client line "set k v;<nl>;" stores "v;" and the broadcast line stores "v" at the secondaries *)
Example semi_value_reachable :
  parse_request ("set k v;" +++ nlS +++ ";") = POk (RqSet "k" "v;" (-1)).
Proof. vm_compute. reflexivity. Qed.

Example remove_needs_no_semi_end :
  parse_request ("replicate-remove " +++ "d" +++ " " +++ "k;") = POk (RqReplicateRemove "d" "k").
Proof. vm_compute. reflexivity. Qed.
Example increment_needs_no_sp_key :
  parse_request ("replicate-increment " +++ "d" +++ " " +++ "a b" +++ " " +++ Z_to_str 5)
  = POk (RqReplicateIncrement "d" "a" 1).
Proof. vm_compute. reflexivity. Qed.
Example rp_needs_u64 :
  parse_request ("rp " +++ N_to_str (2 ^ 64) +++ " " +++ "x") = PErr "Invalid request Id".
Proof. vm_compute. reflexivity. Qed.

(* ================================================================== *)
(* Part 2.  Replaying the primary's writes keeps a secondary equal      *)
(* ================================================================== *)

Definition vrel (a b : value) : Prop :=
  v_val a = v_val b /\ v_ver a = v_ver b /\
  (v_st a = VNew <-> v_st b = VNew) /\ (v_st a = VDeleted <-> v_st b = VDeleted).

Definition dbrel (d1 d2 : db) : Prop :=
  forall k, match get_value d1 k, get_value d2 k with
            | Some a, Some b => vrel a b
            | None, None => True
            | _, _ => False
            end.

(* same kind of reply, with the same client-visible content *)
Definition resp_rel (r1 r2 : resp) : Prop :=
  match r1, r2 with
  | RSet k v, RSet k' v' => k = k' /\ v = v'
  | RVersionError k o v old _ st, RVersionError k' o' v' old' _ st' =>
      k = k' /\ o = o' /\ v = v' /\ vrel old old' /\ (st = VNew <-> st' = VNew)
  | ROk, ROk => True
  | RError m, RError m' => m = m'
  | RValue k v ver, RValue k' v' ver' => k = k' /\ v = v' /\ ver = ver'
  | RPanic, RPanic => True
  | _, _ => False
  end.

Definition ch_same (c1 c2 : change) : Prop :=
  c_key c1 = c_key c2 /\ c_val c1 = c_val c2 /\ c_ver c1 = c_ver c2 /\ c_resolve c1 = c_resolve c2.

Lemma vrel_refl a : vrel a a.
Proof. unfold vrel; tauto. Qed.
Lemma vrel_sym a b : vrel a b -> vrel b a.
Proof. unfold vrel; intuition. Qed.
Lemma vrel_trans a b c : vrel a b -> vrel b c -> vrel a c.
Proof. unfold vrel; intuition congruence. Qed.

Lemma dbrel_refl d : dbrel d d.
Proof. intros k. destruct (get_value d k); auto using vrel_refl. Qed.
Lemma dbrel_sym d1 d2 : dbrel d1 d2 -> dbrel d2 d1.
Proof.
  intros H k. specialize (H k). destruct (get_value d1 k), (get_value d2 k); auto using vrel_sym.
Qed.
Lemma dbrel_trans d1 d2 d3 : dbrel d1 d2 -> dbrel d2 d3 -> dbrel d1 d3.
Proof.
  intros H1 H2 k. specialize (H1 k). specialize (H2 k).
  destruct (get_value d1 k), (get_value d2 k), (get_value d3 k); try tauto. eauto using vrel_trans.
Qed.

Lemma vrel_upd a b : vrel a b -> (upd_state a = VNew <-> upd_state b = VNew).
Proof.
  unfold vrel, upd_state. intros (_ & _ & Hn & _).
  destruct (v_st a), (v_st b); intuition congruence.
Qed.

Lemma vrel_deleted_eqb a b : vrel a b -> vstate_eqb (v_st a) VDeleted = vstate_eqb (v_st b) VDeleted.
Proof.
  intros (_ & _ & _ & Hd).
  destruct (vstate_eqb_spec (v_st a) VDeleted), (vstate_eqb_spec (v_st b) VDeleted); intuition.
Qed.

(* what clients can see is the same in related databases *)
Lemma dbrel_live d1 d2 k : dbrel d1 d2 -> live d1 k = live d2 k.
Proof.
  intros H. specialize (H k). unfold live.
  destruct (get_value d1 k) as [a|], (get_value d2 k) as [b|]; try tauto.
  rewrite (vrel_deleted_eqb a b H). destruct H as (-> & _). reflexivity.
Qed.

Lemma dbrel_get d1 d2 k : dbrel d1 d2 -> get_key_value_new d1 k = get_key_value_new d2 k.
Proof.
  intros H. specialize (H k). unfold get_key_value_new.
  destruct (get_value d1 k) as [a|], (get_value d2 k) as [b|]; try tauto.
  destruct H as (-> & -> & _). reflexivity.
Qed.

Lemma dbrel_put d1 d2 k a b : dbrel d1 d2 -> vrel a b -> dbrel (put_value d1 k a) (put_value d2 k b).
Proof.
  intros H Hv k'. destruct (String.eqb_spec k' k) as [->|Hne].
  - now rewrite !gv_put_same.
  - rewrite !gv_put_other by assumption. apply H.
Qed.

Lemma dbrel_del d1 d2 k : dbrel d1 d2 ->
  dbrel (db_set_map d1 (assoc_del String.eqb k (d_map d1))) (db_set_map d2 (assoc_del String.eqb k (d_map d2))).
Proof.
  intros H k'. destruct (String.eqb_spec k' k) as [->|Hne].
  - now rewrite !gv_del_same.
  - rewrite !gv_del_other by assumption. apply H.
Qed.

Lemma next_version_rel c1 c2 a b : ch_same c1 c2 -> vrel a b -> next_version c1 a = next_version c2 b.
Proof.
  intros (_ & _ & Hv & Hr) (_ & Hver & _). unfold next_version, in_conflict.
  now rewrite Hv, Hr, Hver.
Qed.

(* ---- 6. one mutation on related databases ------------------------------ *)
Theorem set_value_rel d1 d2 c1 c2 : dbrel d1 d2 -> ch_same c1 c2 ->
  dbrel (fst (fst (set_value d1 c1))) (fst (fst (set_value d2 c2))) /\
  resp_rel (snd (fst (set_value d1 c1))) (snd (fst (set_value d2 c2))).
Proof.
  intros H Hc. pose proof Hc as (Hk & Hval & Hver & Hres).
  pose proof (H (c_key c1)) as Hg. unfold set_value. rewrite <- Hk.
  destruct (get_value d1 (c_key c1)) as [a|], (get_value d2 (c_key c1)) as [b|]; try tauto.
  - rewrite <- (next_version_rel c1 c2 a b Hc Hg), <- Hver.
    pose proof Hg as (Hva & Hve & _). rewrite <- Hve.
    destruct (_ && _); cbn [fst snd].
    + split; auto. cbn [resp_rel]. repeat split; auto using vrel_upd; try apply Hg; try apply (vrel_upd a b Hg).
    + split; [|cbn; auto]. apply dbrel_put; auto.
      unfold vrel; cbn [v_val v_ver v_st]. repeat split; auto; try apply (vrel_upd a b Hg);
        intros E; exfalso; eapply upd_state_live; eauto.
  - cbn [fst snd]. split; [|cbn; auto]. apply dbrel_put; auto.
    unfold vrel; cbn [v_val v_ver v_st]. rewrite Hver. tauto.
Qed.

Theorem remove_value_rel d1 d2 key : dbrel d1 d2 ->
  dbrel (fst (fst (remove_value d1 key))) (fst (fst (remove_value d2 key))) /\
  resp_rel (snd (fst (remove_value d1 key))) (snd (fst (remove_value d2 key))).
Proof.
  intros H. pose proof (H key) as Hg. unfold remove_value.
  destruct (String.eqb key "$$token"); cbn [fst snd]; [split; cbn; auto|].
  split; [|cbn; auto].
  destruct (get_value d1 key) as [a|], (get_value d2 key) as [b|]; try tauto.
  pose proof Hg as (Hva & Hve & Hn & Hd).
  assert (Hput : dbrel (put_value d1 key (mkV "<Empty>" (sat_succ (v_ver a)) (v_opp a) VDeleted (v_vaddr a) (v_kaddr a)))
                       (put_value d2 key (mkV "<Empty>" (sat_succ (v_ver b)) (v_opp b) VDeleted (v_vaddr b) (v_kaddr b)))).
  { apply dbrel_put; auto. unfold vrel; cbn [v_val v_ver v_st]. rewrite Hve. tauto. }
  destruct (v_st a) eqn:Ea, (v_st b) eqn:Eb; auto;
    try (exfalso; destruct Hn as [Hn1 Hn2]; (specialize (Hn1 eq_refl) || specialize (Hn2 eq_refl)); discriminate).
  now apply dbrel_del.
Qed.

Theorem inc_value_rel d1 d2 key inc o1 o2 : dbrel d1 d2 ->
  dbrel (fst (fst (inc_value d1 key inc o1))) (fst (fst (inc_value d2 key inc o2))) /\
  resp_rel (snd (fst (inc_value d1 key inc o1))) (snd (fst (inc_value d2 key inc o2))).
Proof.
  intros H. pose proof (H key) as Hg. unfold inc_value.
  assert (Hcur : match get_value d1 key with
                 | Some v => if vstate_eqb (v_st v) VDeleted then "0" else v_val v
                 | None => "0" end =
                 match get_value d2 key with
                 | Some v => if vstate_eqb (v_st v) VDeleted then "0" else v_val v
                 | None => "0" end).
  { destruct (get_value d1 key) as [a|], (get_value d2 key) as [b|]; try tauto.
    rewrite (vrel_deleted_eqb a b Hg). destruct Hg as (-> & _). reflexivity. }
  rewrite <- Hcur. destruct (parse_i32 _) as [c|]; cbn [fst snd]; [|split; cbn; auto].
  destruct (_ && _); cbn [fst snd]; [|split; cbn; auto].
  split; [|cbn; auto]. apply dbrel_put; auto.
  destruct (get_value d1 key) as [a|], (get_value d2 key) as [b|]; try tauto.
  - pose proof Hg as (Hva & Hve & _).
    unfold vrel; cbn [v_val v_ver v_st]. rewrite Hve. repeat split; auto; try apply (vrel_upd a b Hg);
      intros E; exfalso; eapply upd_state_live; eauto.
  - unfold vrel; cbn. tauto.
Qed.

(* ---- 7. replay --------------------------------------------------------- *)
Definition same_op (a b : dop) : Prop :=
  match a, b with
  | DSet k v ver _, DSet k' v' ver' _ => k = k' /\ v = v' /\ ver = ver'
  | DRemove k, DRemove k' => k = k'
  | DInc k i _, DInc k' i' _ => k = k' /\ i = i'
  | _, _ => False
  end.
Definition same_ops : list dop -> list dop -> Prop := Forall2 same_op.

Lemma db_apply_rel d1 d2 o1 o2 : dbrel d1 d2 -> same_op o1 o2 ->
  dbrel (db_apply d1 o1) (db_apply d2 o2) /\ resp_rel (dop_resp d1 o1) (dop_resp d2 o2).
Proof.
  intros H Ho. destruct o1 as [k v ver opp | k | k i opp], o2 as [k' v' ver' opp' | k' | k' i' opp'];
    cbn [same_op] in Ho; try contradiction; cbn [db_apply dop_resp].
  - destruct Ho as (-> & -> & ->). apply set_value_rel; auto. unfold ch_same; cbn; auto.
  - subst k'. now apply remove_value_rel.
  - destruct Ho as (-> & ->). now apply inc_value_rel.
Qed.

Theorem replay_converges ms ms' : same_ops ms ms' -> forall d1 d2,
  dbrel d1 d2 -> dbrel (fold_left db_apply ms d1) (fold_left db_apply ms' d2).
Proof.
  induction 1 as [|o1 o2 ms ms' Ho _ IH]; cbn [fold_left]; intros d1 d2 H; auto.
  apply IH. now apply db_apply_rel.
Qed.

(* the replies along the replay are of the same kind too *)
Fixpoint replay_resps (d : db) (ms : list dop) : list resp :=
  match ms with [] => [] | o :: r => dop_resp d o :: replay_resps (db_apply d o) r end.

Theorem replay_same_replies ms ms' : same_ops ms ms' -> forall d1 d2,
  dbrel d1 d2 -> Forall2 resp_rel (replay_resps d1 ms) (replay_resps d2 ms').
Proof.
  induction 1 as [|o1 o2 ms ms' Ho _ IH]; cbn [replay_resps]; intros d1 d2 H; constructor.
  - now apply db_apply_rel.
  - apply IH. now apply db_apply_rel.
Qed.

Corollary replay_same_content ms ms' d1 d2 k : same_ops ms ms' -> dbrel d1 d2 ->
  live (fold_left db_apply ms d1) k = live (fold_left db_apply ms' d2) k /\
  get_key_value_new (fold_left db_apply ms d1) k = get_key_value_new (fold_left db_apply ms' d2) k.
Proof.
  intros Hs H. pose proof (replay_converges ms ms' Hs d1 d2 H). split; [now apply dbrel_live | now apply dbrel_get].
Qed.

(* order matters: the hypothesis "in order" cannot be dropped *)
Example replay_order_matters :
  let d := empty_db 1 SNone in
  live (fold_left db_apply [DSet "k" "a" (-1) 1; DSet "k" "b" (-1) 2] d) "k" = Some "b" /\
  live (fold_left db_apply [DSet "k" "b" (-1) 2; DSet "k" "a" (-1) 1] d) "k" = Some "a".
Proof. vm_compute. auto. Qed.

(* ---- projections of the node setters ------------------------------------ *)
Lemma n_dbs_send n c m : n_dbs (send n c m) = n_dbs n.
Proof. reflexivity. Qed.
Lemma n_dbs_sends l : forall n, n_dbs (sends n l) = n_dbs n.
Proof. unfold sends. induction l as [|p r IH]; cbn [fold_left]; intros n; auto. now rewrite IH. Qed.
Lemma n_role_sends l : forall n, n_role (sends n l) = n_role n.
Proof. unfold sends. induction l as [|p r IH]; cbn [fold_left]; intros n; auto. now rewrite IH. Qed.
Lemma n_clock_sends l : forall n, n_clock (sends n l) = n_clock n.
Proof. unfold sends. induction l as [|p r IH]; cbn [fold_left]; intros n; auto. now rewrite IH. Qed.
Lemma n_members_sends l : forall n, n_members (sends n l) = n_members n.
Proof. unfold sends. induction l as [|p r IH]; cbn [fold_left]; intros n; auto. now rewrite IH. Qed.
Lemma n_pending_sends l : forall n, n_pending (sends n l) = n_pending n.
Proof. unfold sends. induction l as [|p r IH]; cbn [fold_left]; intros n; auto. now rewrite IH. Qed.
Lemma n_repl_sends l : forall n, n_repl (sends n l) = n_repl n.
Proof. unfold sends. induction l as [|p r IH]; cbn [fold_left]; intros n; auto. now rewrite IH. Qed.
Lemma is_primary_sends l n : is_primary (sends n l) = is_primary n.
Proof. unfold is_primary. now rewrite n_role_sends. Qed.

(* "database [dbn] becomes [d'] and no other database changes" *)
Definition dbs_updated (n n' : node) (dbn : str) (d' : db) : Prop :=
  n_dbs n' = assoc_set String.eqb dbn d' (n_dbs n).

Lemma dbs_updated_get n n' dbn d' : dbs_updated n n' dbn d' ->
  get_db n' dbn = Some d' /\ forall x, x <> dbn -> get_db n' x = get_db n x.
Proof.
  unfold dbs_updated, get_db. intros ->. split.
  - apply get_set_same, String.eqb_spec.
  - intros x Hx. apply get_set_other; auto. apply String.eqb_spec.
Qed.

Lemma dbs_updated_same n dbn d : get_db n dbn = Some d -> dbs_updated n n dbn d.
Proof. unfold dbs_updated, get_db. intros H. symmetry. now apply set_same_id. Qed.

(* ---- apply_change without a conflict strategy is set_value ---------------- *)
Lemma apply_change_none n dbn d ch : get_db n dbn = Some d -> d_strat d = SNone ->
  apply_change n dbn ch =
  (if resp_ok (snd (fst (set_value d ch)))
   then sends (put_db n dbn (fst (fst (set_value d ch)))) (snd (set_value d ch)) else n,
   snd (fst (set_value d ch))).
Proof.
  intros Hdb Hs. unfold apply_change. rewrite Hdb. unfold set_value.
  destruct (get_value d (c_key ch)) as [old|]; [destruct (_ && _)|]; cbn [fst snd resp_ok]; auto.
  now rewrite Hs.
Qed.

Lemma set_value_refused_same d ch : resp_ok (snd (fst (set_value d ch))) = false -> fst (fst (set_value d ch)) = d.
Proof.
  unfold set_value. destruct (get_value d (c_key ch)); [destruct (_ && _)|]; cbn; auto; discriminate.
Qed.

Theorem apply_change_none_effect n dbn d ch : get_db n dbn = Some d -> d_strat d = SNone ->
  let res := apply_change n dbn ch in
  dbs_updated n (fst res) dbn (fst (fst (set_value d ch))) /\
  snd res = snd (fst (set_value d ch)) /\
  n_role (fst res) = n_role n /\ n_clock (fst res) = n_clock n /\
  n_members (fst res) = n_members n /\ n_pending (fst res) = n_pending n /\ n_repl (fst res) = n_repl n.
Proof.
  intros Hdb Hs. cbv zeta. rewrite (apply_change_none n dbn d ch Hdb Hs).
  destruct (resp_ok _) eqn:E; cbn [fst snd].
  - unfold dbs_updated.
    rewrite n_dbs_sends, n_role_sends, n_clock_sends, n_members_sends, n_pending_sends, n_repl_sends.
    repeat split; reflexivity.
  - rewrite (set_value_refused_same _ _ E). repeat split; auto. now apply dbs_updated_same.
Qed.

Lemma set_key_value_none_effect n dbn d k v ver : get_db n dbn = Some d -> d_strat d = SNone ->
  let ch := mkCh k v ver (n_clock n) false in
  let res := set_key_value n dbn k v ver in
  dbs_updated n (fst res) dbn (fst (fst (set_value d ch))) /\
  snd res = snd (fst (set_value d ch)) /\
  n_role (fst res) = n_role n /\ n_clock (fst res) = (n_clock n + 1)%N /\
  n_members (fst res) = n_members n /\ n_pending (fst res) = n_pending n /\ n_repl (fst res) = n_repl n.
Proof.
  intros Hdb Hs. cbv zeta. unfold set_key_value, tick.
  apply (apply_change_none_effect (n_set_clock n (n_clock n + 1)%N) dbn d (mkCh k v ver (n_clock n) false) Hdb Hs).
Qed.

Lemma guard_safe_go n c key req dbn d : guard_safe n c key req = GGo dbn d ->
  s_db (get_sess n c) = Some dbn /\ get_db n dbn = Some d.
Proof.
  unfold guard_safe. destruct (_ && _); [discriminate|].
  destruct (s_db (get_sess n c)) as [nm|]; [|discriminate].
  unfold guard_db_name. destruct (get_db n nm) as [d0|] eqn:E; [|discriminate].
  destruct (has_permission n c key d0 req); [|discriminate].
  intros [= <- <-]. auto.
Qed.

(* ---- 8. the handler link -------------------------------------------------- *)
(* at a secondary: the link's server-side session is authenticated *)
Theorem handle_replicate_set_effect n c dbn k v ver d :
  s_auth (get_sess n c) = true -> get_db n dbn = Some d -> d_strat d = SNone ->
  let ch := mkCh k v ver (n_clock n) false in
  let res := handle n c (RqReplicateSet dbn k v ver) in
  dbs_updated n (fst res) dbn (fst (fst (set_value d ch))) /\
  snd res = snd (fst (set_value d ch)) /\
  n_members (fst res) = n_members n /\ n_pending (fst res) = n_pending n.
Proof.
  intros Ha Hdb Hs. cbv zeta.
  change (handle n c (RqReplicateSet dbn k v ver)) with
    (if negb (s_auth (get_sess n c)) then (n, not_auth) else
     match get_db n dbn with
     | Some _ => set_key_value n dbn k v ver
     | None => (n, RError "Not a valid database name")
     end).
  rewrite Ha, Hdb. cbn [negb].
  destruct (set_key_value_none_effect n dbn d k v ver Hdb Hs) as (H1 & H2 & _ & _ & H3 & H4 & _). auto.
Qed.

Theorem handle_replicate_remove_effect n c dbn k d :
  s_auth (get_sess n c) = true -> get_db n dbn = Some d ->
  let res := handle n c (RqReplicateRemove dbn k) in
  dbs_updated n (fst res) dbn (fst (fst (remove_value d k))) /\
  snd res = snd (fst (remove_value d k)) /\
  n_members (fst res) = n_members n /\ n_pending (fst res) = n_pending n.
Proof.
  intros Ha Hdb. cbv zeta.
  change (handle n c (RqReplicateRemove dbn k)) with
    (if negb (s_auth (get_sess n c)) then (n, not_auth) else
     match get_db n dbn with
     | Some d => let '(d', r, msgs) := remove_value d k in (sends (put_db n dbn d') msgs, r)
     | None => (n, RError "Not a valid database name")
     end).
  rewrite Ha, Hdb. cbn [negb].
  destruct (remove_value d k) as [[d' r] msgs]. cbn [fst snd].
  unfold dbs_updated. rewrite n_dbs_sends, n_members_sends, n_pending_sends. auto.
Qed.

(* note: the reply of a replicated increment is always ROk, whatever inc_value answered *)
Theorem handle_replicate_increment_effect n c dbn k i d :
  s_auth (get_sess n c) = true -> get_db n dbn = Some d ->
  let res := handle n c (RqReplicateIncrement dbn k i) in
  dbs_updated n (fst res) dbn (fst (fst (inc_value d k i (n_clock n)))) /\
  snd res = ROk /\
  n_members (fst res) = n_members n /\ n_pending (fst res) = n_pending n.
Proof.
  intros Ha Hdb. cbv zeta.
  change (handle n c (RqReplicateIncrement dbn k i)) with
    (if negb (s_auth (get_sess n c)) then (n, not_auth) else
     match get_db n dbn with
     | Some d =>
         let '(n1, id) := tick n in
         let '(d', _, msgs) := inc_value d k i id in
         (sends (put_db n1 dbn d') msgs, ROk)
     | None => (n, RError "Not a valid database name")
     end).
  rewrite Ha, Hdb. cbn [negb]. unfold tick.
  destruct (inc_value d k i (n_clock n)) as [[d' r] msgs]. cbn [fst snd].
  unfold dbs_updated. rewrite n_dbs_sends, n_members_sends, n_pending_sends. auto.
Qed.

(* at the node that receives the client command: database selected, permission granted *)
Theorem handle_set_effect n c k v ver dbn d :
  guard_safe n c k PWrite = GGo dbn d -> d_strat d = SNone ->
  let ch := mkCh k v ver (n_clock n) false in
  let res := handle n c (RqSet k v ver) in
  get_db n dbn = Some d /\
  dbs_updated n (fst res) dbn (fst (fst (set_value d ch))) /\
  snd res = snd (fst (set_value d ch)) /\
  (is_primary n = true -> n_members (fst res) = n_members n).
Proof.
  intros Hg Hs. cbv zeta.
  change (handle n c (RqSet k v ver)) with
    (match guard_safe n c k PWrite with
     | GStop n' r => (n', r)
     | GGo dbn d =>
         let '(n1, r) := set_key_value n dbn k v ver in
         let n2 := if is_primary n1 then n1 else send_to_primary n1 (replicate_msg dbn k v ver) in
         (n2, r)
     end).
  rewrite Hg. destruct (guard_safe_go _ _ _ _ _ _ Hg) as [_ Hdb].
  destruct (set_key_value_none_effect n dbn d k v ver Hdb Hs) as (H1 & H2 & H3 & _ & H4 & _).
  destruct (set_key_value n dbn k v ver) as [n1 r]. cbn [fst snd] in *. cbv zeta.
  assert (Hp1 : is_primary n1 = is_primary n) by (unfold is_primary; now rewrite H3).
  rewrite Hp1.
  split; auto. destruct (is_primary n); cbn [fst snd].
  - repeat split; auto.
  - split; [exact H1|]. split; [exact H2|]. intros Hf; discriminate Hf.
Qed.

Theorem handle_remove_effect n c k dbn d :
  guard_safe n c k PRemove = GGo dbn d ->
  let res := handle n c (RqRemove k) in
  get_db n dbn = Some d /\
  dbs_updated n (fst res) dbn (fst (fst (remove_value d k))) /\
  snd res = snd (fst (remove_value d k)) /\
  (is_primary n = true -> n_members (fst res) = n_members n).
Proof.
  intros Hg. cbv zeta.
  change (handle n c (RqRemove k)) with
    (match guard_safe n c k PRemove with
     | GStop n' r => (n', r)
     | GGo dbn d =>
         let '(d', r, msgs) := remove_value d k in
         let n1 := sends (put_db n dbn d') msgs in
         ((match r with
           | ROk => if is_primary n1 then n1 else send_to_primary n1 ("replicate-remove " +++ dbn +++ " " +++ k)
           | _ => n1 end), r)
     end).
  rewrite Hg. destruct (guard_safe_go _ _ _ _ _ _ Hg) as [_ Hdb]. split; auto.
  destruct (remove_value d k) as [[d' r] msgs]. cbn [fst snd]. cbv zeta.
  rewrite is_primary_sends. change (is_primary (put_db n dbn d')) with (is_primary n).
  assert (H1 : n_dbs (sends (put_db n dbn d') msgs) = assoc_set String.eqb dbn d' (n_dbs n))
    by now rewrite n_dbs_sends.
  assert (H2 : n_members (sends (put_db n dbn d') msgs) = n_members n) by now rewrite n_members_sends.
  unfold dbs_updated.
  destruct r; cbn [fst snd]; auto.
  destruct (is_primary n); cbn [fst snd].
  - repeat split; auto.
  - split; [exact H1|]. split; [reflexivity|]. intros Hf; discriminate Hf.
Qed.

(* an increment is applied locally only at the primary (a secondary just forwards it) *)
Theorem handle_increment_effect n c k i dbn d :
  is_primary n = true -> guard_safe n c k PIncrement = GGo dbn d ->
  let res := handle n c (RqIncrement k i) in
  get_db n dbn = Some d /\
  dbs_updated n (fst res) dbn (fst (fst (inc_value d k i (n_clock n)))) /\
  snd res = snd (fst (inc_value d k i (n_clock n))) /\
  n_members (fst res) = n_members n.
Proof.
  intros Hp Hg. cbv zeta.
  change (handle n c (RqIncrement k i)) with
    (match guard_safe n c k PIncrement with
     | GStop n' r => (n', r)
     | GGo dbn d =>
         if is_primary n then
           let '(n1, id) := tick n in
           let '(d', r, msgs) := inc_value d k i id in
           (sends (put_db n1 dbn d') msgs, r)
         else
           (send_to_primary n ("replicate-increment " +++ dbn +++ " " +++ k +++ " " +++ Z_to_str i), ROk)
     end).
  rewrite Hg, Hp. destruct (guard_safe_go _ _ _ _ _ _ Hg) as [_ Hdb]. split; auto.
  unfold tick. destruct (inc_value d k i (n_clock n)) as [[d' r] msgs]. cbn [fst snd].
  unfold dbs_updated. rewrite n_dbs_sends, n_members_sends. auto.
Qed.

Example secondary_increment_not_applied_locally :
  let n0 := n_set_role (init_node "u" "p" "a" 1 Secondary 0) Secondary in
  let n1 := put_db n0 "d" (empty_db 1 SNone) in
  let '(n2, c) := connect n1 in
  let n3 := put_sess n2 c (mkSess true (Some "d") None None []) in
  n_dbs (fst (handle n3 c (RqIncrement "k" 1))) = n_dbs n3.
Proof. vm_compute. reflexivity. Qed.

(* one live step at the primary and its replay at a secondary keep the databases related *)
Theorem live_set_converges n1 c1 n2 c2 k v ver dbn d1 d2 :
  guard_safe n1 c1 k PWrite = GGo dbn d1 -> d_strat d1 = SNone ->
  s_auth (get_sess n2 c2) = true -> get_db n2 dbn = Some d2 -> d_strat d2 = SNone ->
  dbrel d1 d2 ->
  exists d1' d2',
    get_db (fst (handle n1 c1 (RqSet k v ver))) dbn = Some d1' /\
    get_db (fst (handle n2 c2 (RqReplicateSet dbn k v ver))) dbn = Some d2' /\
    dbrel d1' d2' /\
    resp_rel (snd (handle n1 c1 (RqSet k v ver))) (snd (handle n2 c2 (RqReplicateSet dbn k v ver))).
Proof.
  intros Hg Hs1 Ha Hdb2 Hs2 Hrel.
  destruct (handle_set_effect n1 c1 k v ver dbn d1 Hg Hs1) as (_ & U1 & R1 & _).
  destruct (handle_replicate_set_effect n2 c2 dbn k v ver d2 Ha Hdb2 Hs2) as (U2 & R2 & _).
  apply dbs_updated_get in U1 as [G1 _]. apply dbs_updated_get in U2 as [G2 _].
  eexists _, _. split; [exact G1|]. split; [exact G2|]. rewrite R1, R2.
  apply set_value_rel; auto. unfold ch_same; cbn; auto.
Qed.

Theorem live_remove_converges n1 c1 n2 c2 k dbn d1 d2 :
  guard_safe n1 c1 k PRemove = GGo dbn d1 ->
  s_auth (get_sess n2 c2) = true -> get_db n2 dbn = Some d2 ->
  dbrel d1 d2 ->
  exists d1' d2',
    get_db (fst (handle n1 c1 (RqRemove k))) dbn = Some d1' /\
    get_db (fst (handle n2 c2 (RqReplicateRemove dbn k))) dbn = Some d2' /\
    dbrel d1' d2' /\
    resp_rel (snd (handle n1 c1 (RqRemove k))) (snd (handle n2 c2 (RqReplicateRemove dbn k))).
Proof.
  intros Hg Ha Hdb2 Hrel.
  destruct (handle_remove_effect n1 c1 k dbn d1 Hg) as (_ & U1 & R1 & _).
  destruct (handle_replicate_remove_effect n2 c2 dbn k d2 Ha Hdb2) as (U2 & R2 & _).
  apply dbs_updated_get in U1 as [G1 _]. apply dbs_updated_get in U2 as [G2 _].
  eexists _, _. split; [exact G1|]. split; [exact G2|]. rewrite R1, R2.
  now apply remove_value_rel.
Qed.

Theorem live_increment_converges n1 c1 n2 c2 k i dbn d1 d2 :
  is_primary n1 = true -> guard_safe n1 c1 k PIncrement = GGo dbn d1 ->
  s_auth (get_sess n2 c2) = true -> get_db n2 dbn = Some d2 ->
  dbrel d1 d2 ->
  exists d1' d2',
    get_db (fst (handle n1 c1 (RqIncrement k i))) dbn = Some d1' /\
    get_db (fst (handle n2 c2 (RqReplicateIncrement dbn k i))) dbn = Some d2' /\
    dbrel d1' d2'.
Proof.
  intros Hp Hg Ha Hdb2 Hrel.
  destruct (handle_increment_effect n1 c1 k i dbn d1 Hp Hg) as (_ & U1 & _).
  destruct (handle_replicate_increment_effect n2 c2 dbn k i d2 Ha Hdb2) as (U2 & _).
  apply dbs_updated_get in U1 as [G1 _]. apply dbs_updated_get in U2 as [G2 _].
  eexists _, _. split; [exact G1|]. split; [exact G2|].
  now apply inc_value_rel.
Qed.

(* ================================================================== *)
(* Part 3.  Fan-out and the replication thread                          *)
(* ================================================================== *)

(* ---- 9. a secondary's replication thread never fans out ----------------- *)
Lemma key_id_node x key : cn_node (fst (key_id x key)) = cn_node x.
Proof. unfold key_id. destruct (assoc_get _ _ _); reflexivity. Qed.

Lemma repl_oplog_node x rq id : cn_node (fst (repl_oplog x rq id)) = cn_node x.
Proof.
  destruct rq; cbn [repl_oplog fst]; auto.
  - (* replicate-remove *)
    pose proof (key_id_node x key) as Hk. destruct (key_id x key) as [x1 kid]. cbn [fst] in Hk.
    destruct (db_id_of (cn_node x) db); cbn [fst]; auto.
  - pose proof (key_id_node x key) as Hk. destruct (key_id x key) as [x1 kid]. cbn [fst] in Hk.
    destruct (db_id_of (cn_node x) db); cbn [fst]; auto.
  - pose proof (key_id_node x key) as Hk. destruct (key_id x key) as [x1 kid]. cbn [fst] in Hk.
    destruct (db_id_of (cn_node x) db); cbn [fst]; auto.
  - destruct (db_id_of (cn_node x) name); reflexivity.
  - (* replicate-snapshot: a fold over the names *)
    set (f := fun (acc : cnode * option N) (nm : str) =>
                let '(x0, r0) := acc in
                match db_id_of (cn_node x0) nm with
                | Some d => (log_append x0 (mkRec id marker_snapshot d 3), r0)
                | None => (x0, None)
                end).
    assert (H : forall l acc, cn_node (fst (fold_left f l acc)) = cn_node (fst acc)).
    { induction l as [|nm l IH]; intros acc; cbn [fold_left]; auto.
      rewrite IH. destruct acc as [x0 r0]; cbn [f fst]; auto.
      destruct (db_id_of (cn_node x0) nm); reflexivity. }
    apply (H db_names (x, Some id)).
Qed.

Theorem secondary_repl_one_node x msg :
  n_role (cn_node x) = Secondary -> cn_node (repl_one x msg) = cn_node x.
Proof.
  intros Hr. unfold repl_one. destruct (cn_dead x); auto.
  destruct (parse_request msg) as [rq| |]; auto.
  destruct rq; auto.
  destruct (parse_request request_str) as [rq| |]; auto.
  pose proof (repl_oplog_node x rq opp_id) as Hn.
  destruct (repl_oplog x rq opp_id) as [x1 oid]. cbn [fst] in Hn.
  rewrite Hn, Hr. exact Hn.
Qed.

Theorem secondary_never_fans_out x msg :
  n_role (cn_node x) = Secondary ->
  let x' := repl_one x msg in
  n_members (cn_node x') = n_members (cn_node x) /\ n_pending (cn_node x') = n_pending (cn_node x).
Proof. intros Hr. cbv zeta. now rewrite secondary_repl_one_node. Qed.

Theorem secondary_poll_repl_node x :
  n_role (cn_node x) = Secondary -> cn_node (poll_repl x) = n_set_repl (cn_node x) [].
Proof.
  intros Hr. unfold poll_repl.
  set (x0 := cn_set_node x (n_set_repl (cn_node x) [])).
  assert (H : forall q y, n_role (cn_node y) = Secondary -> cn_node (fold_left repl_one q y) = cn_node y).
  { induction q as [|m q IH]; intros y Hy; cbn [fold_left]; auto.
    rewrite IH; rewrite secondary_repl_one_node; auto. }
  rewrite H; auto.
Qed.

Theorem secondary_poll_never_fans_out x :
  n_role (cn_node x) = Secondary ->
  let x' := poll_repl x in
  n_members (cn_node x') = n_members (cn_node x) /\ n_pending (cn_node x') = n_pending (cn_node x) /\
  n_dbs (cn_node x') = n_dbs (cn_node x) /\ n_repl (cn_node x') = [].
Proof. intros Hr. cbv zeta. rewrite secondary_poll_repl_node by assumption. auto. Qed.

(* ---- 10. fan_out ---------------------------------------------------------- *)
Local Notation member := (str * (role * list str))%type.

Definition is_target (addr : str) (all : bool) (m : member) : bool :=
  negb (String.eqb (fst m) addr) && (all || role_eqb (fst (snd m)) Secondary).

Definition targets_of (addr : str) (all : bool) (ms : list member) : list str :=
  map fst (filter (is_target addr all) ms).

(* the members fan_out sends to, in table order *)
Definition targets (n : node) (all : bool) : list str := targets_of (n_addr n) all (n_members n).

(* the text first registered under [id] ([req] when [id] is not pending) *)
Definition reg_text (p : pstate) (id : N) (req : str) : str :=
  match assoc_get N.eqb id p with Some m => p_msg m | None => req end.

Definition reg_all (p : pstate) (id : N) (req : str) (ts : list str) : pstate :=
  fold_left (fun p m => fst (register p id req m)) ts p.

Definition push_line (addr : str) (all : bool) (txt : str) (m : member) : member :=
  if is_target addr all m then (fst m, (fst (snd m), if is_nosender (snd (snd m)) then snd (snd m) else snd (snd m) ++ [txt])) else m.

Definition fan_step (id : N) (req : str) (all : bool) (n0 : node) (m : member) : node :=
  let '(name, (r, _)) := m in
  if String.eqb name (n_addr n0) then n0
  else if all || role_eqb r Secondary then
    let '(p', txt) := register (n_pending n0) id req name in
    push_member (n_set_pending n0 p') name txt
  else n0.

Lemma fan_out_fold n id req all : fan_out n id req all = fold_left (fan_step id req all) (n_members n) n.
Proof. reflexivity. Qed.

Lemma register_text p id req node : snd (register p id req node) = message_to_replicate id (reg_text p id req).
Proof. unfold register, reg_text. destruct (assoc_get N.eqb id p); reflexivity. Qed.

Lemma register_reg_text p id req node : reg_text (fst (register p id req node)) id req = reg_text p id req.
Proof.
  unfold register, reg_text. destruct (assoc_get N.eqb id p) as [m|] eqn:E; cbn [fst];
    rewrite (get_set_same _ N.eqb_spec); reflexivity.
Qed.

Lemma get_app_skip {B} k (v : B) P rest : ~ In k (map fst P) ->
  assoc_get String.eqb k (P ++ (k, v) :: rest) = Some v.
Proof.
  induction P as [|[k' v'] P IH]; cbn; intros H.
  - now rewrite String.eqb_refl.
  - destruct (String.eqb_spec k k') as [->|Hne]; [tauto|]. apply IH. tauto.
Qed.

Lemma set_app_skip {B} k (v v' : B) P rest : ~ In k (map fst P) ->
  assoc_set String.eqb k v' (P ++ (k, v) :: rest) = P ++ (k, v') :: rest.
Proof.
  induction P as [|[k' v0] P IH]; cbn; intros H.
  - now rewrite String.eqb_refl.
  - destruct (String.eqb_spec k k') as [->|Hne]; [tauto|]. f_equal. apply IH. tauto.
Qed.

Lemma node_eta n : n_set_members (n_set_pending n (n_pending n)) (n_members n) = n.
Proof. destruct n; reflexivity. Qed.

Lemma fan_step_alt id req all n0 (m : member) :
  fan_step id req all n0 m =
  if is_target (n_addr n0) all m then
    push_member (n_set_pending n0 (fst (register (n_pending n0) id req (fst m)))) (fst m)
                (snd (register (n_pending n0) id req (fst m)))
  else n0.
Proof.
  destruct m as [name [r q]]. unfold fan_step, is_target. cbn [fst snd].
  destruct (String.eqb name (n_addr n0)); cbn [negb andb]; auto.
  destruct (all || role_eqb r Secondary); auto.
  destruct (register (n_pending n0) id req name); reflexivity.
Qed.

Lemma targets_of_cons addr all (m : member) l :
  targets_of addr all (m :: l) =
  if is_target addr all m then fst m :: targets_of addr all l else targets_of addr all l.
Proof. unfold targets_of. cbn [filter]. destruct (is_target addr all m); reflexivity. Qed.

Lemma fan_fold id req all l : forall P n0,
  n_members n0 = P ++ l -> NoDup (map fst (P ++ l)) ->
  fold_left (fan_step id req all) l n0 =
  n_set_members
    (n_set_pending n0 (reg_all (n_pending n0) id req (targets_of (n_addr n0) all l)))
    (P ++ map (push_line (n_addr n0) all (message_to_replicate id (reg_text (n_pending n0) id req))) l).
Proof.
  induction l as [|[name [r q]] l IH]; intros P n0 Hm Hnd.
  - cbn [fold_left map targets_of filter reg_all]. rewrite <- Hm. symmetry. apply node_eta.
  - assert (Hnin : ~ In name (map fst P)).
    { rewrite map_app in Hnd. apply NoDup_remove_2 in Hnd. intros Hin. apply Hnd.
      apply in_or_app. now left. }
    assert (Hskip : fold_left (fan_step id req all) l n0 =
      n_set_members
        (n_set_pending n0 (reg_all (n_pending n0) id req (targets_of (n_addr n0) all l)))
        ((P ++ [(name, (r, q))]) ++
         map (push_line (n_addr n0) all (message_to_replicate id (reg_text (n_pending n0) id req))) l)).
    { apply IH; rewrite <- app_assoc; assumption. }
    rewrite <- app_assoc in Hskip.
    cbn [fold_left map]. rewrite fan_step_alt, targets_of_cons. unfold push_line at 1.
    destruct (is_target (n_addr n0) all (name, (r, q))) eqn:Et; [|exact Hskip].
    cbn [fst snd reg_all fold_left].
    pose proof (register_text (n_pending n0) id req name) as Htxt.
    pose proof (register_reg_text (n_pending n0) id req name) as Hrt.
    destruct (register (n_pending n0) id req name) as [p' txt]. cbn [fst snd] in *.
    unfold push_member. cbn [n_members n_set_pending]. rewrite Hm, get_app_skip by assumption.
    destruct (is_nosender q) eqn:Ens.
    { rewrite (IH (P ++ [(name, (r, q))])).
      + cbn [n_pending n_addr n_set_members n_set_pending]. rewrite Hrt, <- app_assoc. reflexivity.
      + cbn [n_members n_set_pending]. rewrite Hm. now rewrite <- app_assoc.
      + rewrite <- app_assoc. cbn [app]. exact Hnd. }
    rewrite set_app_skip by assumption.
    rewrite (IH (P ++ [(name, (r, q ++ [txt]))])).
    + cbn [n_pending n_addr n_set_members n_set_pending]. rewrite Hrt, <- app_assoc, Htxt. reflexivity.
    + cbn [n_members n_set_members]. now rewrite <- app_assoc.
    + rewrite <- app_assoc. cbn [app]. rewrite map_app in *. exact Hnd.
Qed.

(* exact description of the node after fan_out *)
Theorem fan_out_exact n id req all : NoDup (map fst (n_members n)) ->
  fan_out n id req all =
  n_set_members
    (n_set_pending n (reg_all (n_pending n) id req (targets n all)))
    (map (push_line (n_addr n) all (message_to_replicate id (reg_text (n_pending n) id req))) (n_members n)).
Proof. intros Hnd. rewrite fan_out_fold. apply (fan_fold id req all (n_members n) [] n); auto. Qed.

Lemma get_map_members (f : member -> member) (k : str) (ms : list member) :
  (forall m, fst (f m) = fst m) ->
  assoc_get String.eqb k (map f ms) =
  match assoc_get String.eqb k ms with Some v => Some (snd (f (k, v))) | None => None end.
Proof.
  intros Hf. induction ms as [|[k' v'] ms IH]; cbn [map assoc_get]; auto.
  pose proof (Hf (k', v')) as Hk. destruct (f (k', v')) as [k2 v2] eqn:E. cbn [fst] in Hk. subst k2.
  destruct (String.eqb_spec k k') as [->|Hne].
  - now rewrite E.
  - exact IH.
Qed.

Lemma in_targets_of addr all ms name : NoDup (map fst ms) ->
  (In name (targets_of addr all ms) <->
   exists r q, assoc_get String.eqb name ms = Some (r, q) /\ name <> addr /\ (all = true \/ r = Secondary)).
Proof.
  intros Hnd. unfold targets_of. rewrite in_map_iff. split.
  - intros ([nm [r q]] & <- & Hin). apply filter_In in Hin as [Hin Ht]. cbn [fst].
    exists r, q. split; [now apply in_get|].
    unfold is_target in Ht. cbn [fst snd] in Ht. apply andb_true_iff in Ht as [H1 H2].
    apply negb_true_iff in H1. split; [now apply String.eqb_neq|].
    apply orb_true_iff in H2 as [H2|H2]; auto. right. now destruct r.
  - intros (r & q & Hg & Hne & Hr). exists (name, (r, q)). split; auto.
    apply filter_In. split; [now apply get_in'|].
    unfold is_target. cbn [fst snd]. apply andb_true_iff. split.
    + apply negb_true_iff. now apply String.eqb_neq.
    + destruct Hr as [->| ->]; auto. apply orb_true_r.
Qed.

(* the requested per-member reading *)
Theorem fan_out_spec n id req all : NoDup (map fst (n_members n)) ->
  let n' := fan_out n id req all in
  let line := message_to_replicate id (reg_text (n_pending n) id req) in
  (* outboxes *)
  (forall name,
     match assoc_get String.eqb name (n_members n) with
     | Some (r, q) =>
         assoc_get String.eqb name (n_members n') =
         Some (r, if negb (String.eqb name (n_addr n)) && (all || role_eqb r Secondary)
                  then (if is_nosender q then q else q ++ [line]) else q)
     | None => assoc_get String.eqb name (n_members n') = None
     end) /\
  map fst (n_members n') = map fst (n_members n) /\
  (* registrations, in table order *)
  n_pending n' = fold_left (fun p m => fst (register p id req m)) (targets n all) (n_pending n) /\
  (forall name, In name (targets n all) <->
     exists r q, assoc_get String.eqb name (n_members n) = Some (r, q) /\
                 name <> n_addr n /\ (all = true \/ r = Secondary)) /\
  (* nothing else changes *)
  n_dbs n' = n_dbs n /\ n_sess n' = n_sess n /\ n_role n' = n_role n /\ n_clock n' = n_clock n /\
  n_addr n' = n_addr n /\ n_repl n' = n_repl n /\ n_sup n' = n_sup n /\ n_snap n' = n_snap n /\
  n_idmap n' = n_idmap n.
Proof.
  intros Hnd. cbv zeta. rewrite (fan_out_exact n id req all Hnd).
  cbn [n_members n_pending n_set_members n_set_pending n_dbs n_sess n_role n_clock n_addr n_repl n_sup n_snap n_idmap].
  split; [|split; [|split; [reflexivity|split; [|repeat split; reflexivity]]]].
  - intros name. rewrite get_map_members.
    2:{ intros m. unfold push_line. destruct (is_target _ _ m); reflexivity. }
    destruct (assoc_get String.eqb name (n_members n)) as [[r q]|]; auto.
    unfold push_line, is_target. cbn [fst snd].
    destruct (negb (String.eqb name (n_addr n)) && (all || role_eqb r Secondary)); reflexivity.
  - rewrite map_map. apply map_ext. intros m. unfold push_line. destruct (is_target _ _ m); reflexivity.
  - intros name. now apply in_targets_of.
Qed.

(* ---- 11. fan_out is a well-formed registration history -------------------- *)
(* operations on op [id] only look at the entry of [id]: restrict the table to it *)
Definition only (id : N) (s : pstate) : pstate :=
  match assoc_get N.eqb id s with Some m => [(id, m)] | None => [] end.

Lemma only_get id s : assoc_get N.eqb id (only id s) = assoc_get N.eqb id s.
Proof.
  unfold only. destruct (assoc_get N.eqb id s) eqn:E; cbn; auto. now rewrite N.eqb_refl.
Qed.

Lemma only_set id m s : only id (assoc_set N.eqb id m s) = [(id, m)].
Proof. unfold only. now rewrite (get_set_same _ N.eqb_spec). Qed.

Lemma only_del id s : only id (assoc_del N.eqb id s) = [].
Proof. unfold only. now rewrite get_del_same. Qed.

Lemma set_only id m s : assoc_set N.eqb id m (only id s) = [(id, m)].
Proof.
  unfold only. destruct (assoc_get N.eqb id s); cbn; auto. now rewrite N.eqb_refl.
Qed.

Lemma del_only id s : assoc_del N.eqb id (only id s) = [].
Proof.
  unfold only. destruct (assoc_get N.eqb id s); cbn; auto. now rewrite N.eqb_refl.
Qed.

Lemma is_pending_only id s : is_pending (only id s) id = is_pending s id.
Proof. unfold is_pending. now rewrite only_get. Qed.

Lemma only_register id s msg node :
  only id (fst (register s id msg node)) = fst (register (only id s) id msg node).
Proof.
  unfold register. rewrite only_get.
  destruct (assoc_get N.eqb id s); cbn [fst]; now rewrite only_set, set_only.
Qed.

Lemma only_acknowledge id s node :
  only id (fst (acknowledge s id node)) = fst (acknowledge (only id s) id node) /\
  snd (acknowledge s id node) = snd (acknowledge (only id s) id node).
Proof.
  unfold acknowledge. rewrite only_get.
  destruct (assoc_get N.eqb id s) as [m|] eqn:E; cbn [fst snd].
  - destruct (ack_msg m node) as [m' r]. destruct r; [destruct (full_ack m')|]; cbn [fst snd];
      rewrite ?only_set, ?set_only, ?only_del, ?del_only; auto.
  - split; auto.
Qed.

Definition ev_id (e : pev) : N := match e with Reg id _ _ => id | Ack id _ => id end.

Lemma only_run id evs : Forall (fun e => ev_id e = id) evs -> forall s,
  only id (fold_left (fun s e => fst (pstep s e)) evs s) =
  fold_left (fun s e => fst (pstep s e)) evs (only id s).
Proof.
  induction 1 as [|e evs He _ IH]; intros s; cbn [fold_left]; auto.
  rewrite IH. f_equal. destruct e as [i msg node | i node]; cbn [ev_id] in He; subst i; cbn [pstep].
  - pose proof (only_register id s msg node) as H.
    destruct (register s id msg node), (register (only id s) id msg node). exact H.
  - pose proof (only_acknowledge id s node) as [H _].
    destruct (acknowledge s id node), (acknowledge (only id s) id node). exact H.
Qed.

Definition reg_evs (id : N) (req : str) (ts : list str) : list pev := map (fun m => Reg id req m) ts.
Definition ack_evs (id : N) (acks : list str) : list pev := map (fun m => Ack id m) acks.

Lemma reg_all_run id req ts : forall p,
  reg_all p id req ts = fold_left (fun s e => fst (pstep s e)) (reg_evs id req ts) p.
Proof.
  unfold reg_all, reg_evs. induction ts as [|t ts IH]; intros p; cbn [fold_left map]; auto.
  rewrite IH. f_equal. cbn [pstep]. now destruct (register p id req t).
Qed.

Definition ack_all (p : pstate) (id : N) (acks : list str) : pstate :=
  fold_left (fun p m => fst (acknowledge p id m)) acks p.

Lemma ack_all_run id acks : forall p,
  ack_all p id acks = fold_left (fun s e => fst (pstep s e)) (ack_evs id acks) p.
Proof.
  unfold ack_all, ack_evs. induction acks as [|t ts IH]; intros p; cbn [fold_left map]; auto.
  rewrite IH. f_equal. cbn [pstep]. now destruct (acknowledge p id t).
Qed.

(* registrations of distinct members under one op: well formed, and they are all outstanding *)
Lemma reg_evs_wf id req ts : forall t,
  NoDup (outstanding t id ++ ts) ->
  wf_from t (reg_evs id req ts) = true /\
  outstanding (fold_left sstep (reg_evs id req ts) t) id = outstanding t id ++ ts.
Proof.
  unfold reg_evs. induction ts as [|x ts IH]; intros t Hnd; cbn [map wf_from fold_left].
  - now rewrite app_nil_r.
  - assert (Hx : mem_str x (outstanding t id) = false).
    { destruct (mem_str x (outstanding t id)) eqn:E; auto. apply mem_str_in in E.
      apply NoDup_remove_2 in Hnd. exfalso. apply Hnd. apply in_or_app. now left. }
    assert (Ho : outstanding (sstep t (Reg id req x)) id = outstanding t id ++ [x]).
    { cbn [sstep]. unfold sreg. rewrite Hx, outstanding_set, N.eqb_refl. reflexivity. }
    rewrite Hx. cbn [negb andb].
    destruct (IH (sstep t (Reg id req x))) as [H1 H2].
    { rewrite Ho, <- app_assoc. exact Hnd. }
    split; auto. rewrite H2, Ho, <- app_assoc. reflexivity.
Qed.

Lemma ack_evs_wf id acks : forall t, wf_from t (ack_evs id acks) = true.
Proof.
  unfold ack_evs. induction acks as [|x acks IH]; intros t; cbn [map wf_from andb]; [reflexivity | apply IH].
Qed.

Lemma ack_evs_outstanding id acks x : forall t,
  mem_str x (outstanding (fold_left sstep (ack_evs id acks) t) id) =
  mem_str x (outstanding t id) && negb (mem_str x acks).
Proof.
  unfold ack_evs. induction acks as [|a acks IH]; intros t; cbn [map fold_left].
  - cbn. now rewrite andb_true_r.
  - rewrite IH. cbn [sstep]. rewrite spec_ack, N.eqb_refl. cbn [andb].
    unfold mem_str at 4. cbn [existsb]. fold (mem_str x acks).
    rewrite negb_orb, andb_assoc. reflexivity.
Qed.

Lemma targets_nodup n all : NoDup (map fst (n_members n)) -> NoDup (targets n all).
Proof. intros H. unfold targets, targets_of. now apply nodup_filter_keys. Qed.

(* the event history performed on op [id] by fan_out and later acknowledgements *)
Theorem fan_out_wf n id req all acks :
  NoDup (map fst (n_members n)) -> is_pending (n_pending n) id = false ->
  let evs := reg_evs id req (targets n all) ++ ack_evs id acks in
  wf evs = true /\
  only id (ack_all (n_pending (fan_out n id req all)) id acks) = prun evs /\
  forall x, mem_str x (outstanding (srun evs) id) = mem_str x (targets n all) && negb (mem_str x acks).
Proof.
  intros Hnd Hfresh. cbv zeta.
  pose proof (targets_nodup n all Hnd) as Htn.
  destruct (reg_evs_wf id req (targets n all) []) as [W1 O1]; [exact Htn|].
  split; [|split].
  - unfold wf. rewrite wf_from_app, W1. apply ack_evs_wf.
  - rewrite (fan_out_exact n id req all Hnd). cbn [n_pending n_set_members n_set_pending].
    rewrite ack_all_run, reg_all_run, <- fold_left_app.
    rewrite only_run.
    + unfold prun. f_equal. unfold only. unfold is_pending in Hfresh.
      destruct (assoc_get N.eqb id (n_pending n)); [discriminate|reflexivity].
    + apply Forall_app. unfold reg_evs, ack_evs. split; apply Forall_forall; intros e He;
        apply in_map_iff in He as (m & <- & _); reflexivity.
  - intros x. unfold srun. rewrite fold_left_app, ack_evs_outstanding, O1. reflexivity.
Qed.

(* op [id] stays pending exactly while some targeted member has not acknowledged;
   [acks] is ANY list of acknowledging names (any order, duplicates and strangers allowed) *)
Theorem fan_out_pending_iff n id req all acks :
  NoDup (map fst (n_members n)) -> is_pending (n_pending n) id = false ->
  (is_pending (ack_all (n_pending (fan_out n id req all)) id acks) id = true <->
   exists m, In m (targets n all) /\ ~ In m acks).
Proof.
  intros Hnd Hfresh.
  destruct (fan_out_wf n id req all acks Hnd Hfresh) as (W & Hrun & Hout).
  rewrite <- is_pending_only, Hrun, pending_iff by exact W.
  set (o := outstanding (srun (reg_evs id req (targets n all) ++ ack_evs id acks)) id) in *.
  split.
  - intros H. destruct o as [|m o'] eqn:Eo; [discriminate|].
    exists m. specialize (Hout m). cbn [mem_str existsb] in Hout. rewrite String.eqb_refl in Hout.
    cbn [orb] in Hout. symmetry in Hout. apply andb_true_iff in Hout as [H1 H2].
    apply mem_str_in in H1. split; auto. intros Hin. apply mem_str_in in Hin. now rewrite Hin in H2.
  - intros (m & H1 & H2). specialize (Hout m).
    apply mem_str_in in H1. rewrite H1 in Hout.
    destruct (mem_str m acks) eqn:E; [apply mem_str_in in E; contradiction|].
    cbn in Hout. destruct o; [discriminate Hout | reflexivity].
Qed.

Corollary fan_out_pending n id req all :
  NoDup (map fst (n_members n)) -> is_pending (n_pending n) id = false -> targets n all <> [] ->
  is_pending (n_pending (fan_out n id req all)) id = true.
Proof.
  intros Hnd Hfresh Hne.
  apply (fan_out_pending_iff n id req all [] Hnd Hfresh).
  destruct (targets n all) as [|m ts]; [congruence|]. exists m. split; [now left | auto].
Qed.

Corollary fan_out_no_targets n id req all :
  NoDup (map fst (n_members n)) -> is_pending (n_pending n) id = false -> targets n all = [] ->
  is_pending (n_pending (fan_out n id req all)) id = false.
Proof.
  intros Hnd Hfresh He.
  destruct (is_pending (n_pending (fan_out n id req all)) id) eqn:E; auto.
  apply (fan_out_pending_iff n id req all [] Hnd Hfresh) in E as (m & Hin & _).
  rewrite He in Hin. destruct Hin.
Qed.

Corollary fan_out_all_acked n id req all acks :
  NoDup (map fst (n_members n)) -> is_pending (n_pending n) id = false ->
  Permutation acks (targets n all) ->
  is_pending (fold_left (fun p m => fst (acknowledge p id m)) acks (n_pending (fan_out n id req all))) id = false.
Proof.
  intros Hnd Hfresh Hp. change (fold_left _ acks ?p) with (ack_all p id acks).
  destruct (is_pending (ack_all _ id acks) id) eqn:E; auto.
  apply (fan_out_pending_iff n id req all acks Hnd Hfresh) in E as (m & Hin & Hn).
  exfalso. apply Hn. eapply Permutation_in; [apply Permutation_sym; exact Hp | exact Hin].
Qed.

(* one missing acknowledgement keeps the op pending *)
Corollary fan_out_missing_ack n id req all acks m :
  NoDup (map fst (n_members n)) -> is_pending (n_pending n) id = false ->
  In m (targets n all) -> ~ In m acks ->
  is_pending (ack_all (n_pending (fan_out n id req all)) id acks) id = true.
Proof. intros Hnd Hfresh H1 H2. apply fan_out_pending_iff; eauto. Qed.

(* a re-used (still pending) op id: the line carries the OLD text, not the new request *)
Example fan_out_reused_id_sends_old_text :
  let n0 := init_node "u" "p" "a" 1 Primary 0 in
  let n1 := n_set_members n0 [("a", (Primary, [])); ("b", (Secondary, []))] in
  let n2 := fan_out n1 7 "set k old" false in
  let n3 := fan_out n2 7 "set k new" false in
  assoc_get String.eqb "b" (n_members n3) =
  Some (Secondary, ["rp 7 set k old"; "rp 7 set k old"]).
Proof. vm_compute. reflexivity. Qed.

(* ---- the replication thread at a primary / starting node: one queued line ---- *)
Lemma repl_oplog_id x rq id :
  snd (repl_oplog x rq id) = None \/ snd (repl_oplog x rq id) = Some id.
Proof.
  destruct rq; cbn [repl_oplog snd]; auto.
  - destruct (key_id x key) as [x1 kid]. destruct (db_id_of (cn_node x) db); cbn [snd]; auto.
  - destruct (key_id x key) as [x1 kid]. destruct (db_id_of (cn_node x) db); cbn [snd]; auto.
  - destruct (key_id x key) as [x1 kid]. destruct (db_id_of (cn_node x) db); cbn [snd]; auto.
  - destruct (db_id_of (cn_node x) name); cbn [snd]; auto.
  - set (f := fun (acc : cnode * option N) (nm : str) =>
                let '(x0, r0) := acc in
                match db_id_of (cn_node x0) nm with
                | Some d => (log_append x0 (mkRec id marker_snapshot d 3), r0)
                | None => (x0, None)
                end).
    assert (H : forall l acc, (snd acc = None \/ snd acc = Some id) ->
                snd (fold_left f l acc) = None \/ snd (fold_left f l acc) = Some id).
    { induction l as [|nm l IH]; intros acc Ha; cbn [fold_left]; auto.
      apply IH. destruct acc as [x0 r0]; cbn [f snd] in *; auto.
      destruct (db_id_of (cn_node x0) nm); cbn [snd]; auto. }
    apply (H db_names (x, Some id)). now right.
Qed.

Lemma repl_oplog_dead x rq id : cn_dead (fst (repl_oplog x rq id)) = cn_dead x.
Proof.
  destruct rq; cbn [repl_oplog fst]; auto;
      try (unfold key_id; destruct (assoc_get String.eqb key (cn_keymap x));
           destruct (db_id_of (cn_node x) db); reflexivity).
    - destruct (db_id_of (cn_node x) name); reflexivity.
    - set (f := fun (acc : cnode * option N) (nm : str) => _).
      assert (H : forall l acc, cn_dead (fst (fold_left f l acc)) = cn_dead (fst acc)).
      { induction l as [|nm l IH]; intros acc; cbn [fold_left]; auto.
        rewrite IH. destruct acc as [x0 r0]; cbn [f fst]; auto.
        destruct (db_id_of (cn_node x0) nm); reflexivity. }
      apply (H db_names (x, Some id)).
Qed.

Definition fan_all (r : role) : bool := match r with StartingUp => true | _ => false end.

(* a live node that is not a secondary: the queued line "rp <id> <req>" is fanned out under
   [id] with the request text [req] (to the secondaries; to everybody while starting up) *)
Theorem leader_repl_one x id req rq :
  cn_dead x = false -> n_role (cn_node x) <> Secondary ->
  (id < 2 ^ 64)%N -> req <> "" -> no_semi_end req -> parse_request req = POk rq ->
  snd (repl_oplog x rq id) <> None ->
  cn_node (repl_one x ("rp " +++ N_to_str id +++ " " +++ req)) =
    fan_out (cn_node x) id req (fan_all (n_role (cn_node x))) /\
  cn_dead (repl_one x ("rp " +++ N_to_str id +++ " " +++ req)) = false.
Proof.
  intros Hd Hr Hid Hne Hs Hp Ho. unfold repl_one.
  rewrite Hd, rp_roundtrip, Hp by assumption.
  pose proof (repl_oplog_node x rq id) as Hn. pose proof (repl_oplog_id x rq id) as Hi.
  pose proof (repl_oplog_dead x rq id) as Hdd.
  destruct (repl_oplog x rq id) as [x1 oid]. cbn [fst snd] in *.
  destruct Hi as [Hi|Hi]; [contradiction|]. subst oid. rewrite Hn.
  destruct (n_role (cn_node x)); cbn [fan_all]; try congruence; cbn [cn_set_node cn_node cn_dead]; rewrite Hdd; auto.
Qed.

(* "Missing DB Id": the line is dropped (fix: the replication future used to panic here) *)
Theorem leader_repl_one_missing_db x id req rq :
  cn_dead x = false -> n_role (cn_node x) <> Secondary ->
  (id < 2 ^ 64)%N -> req <> "" -> no_semi_end req -> parse_request req = POk rq ->
  snd (repl_oplog x rq id) = None ->
  cn_dead (repl_one x ("rp " +++ N_to_str id +++ " " +++ req)) = false /\
  cn_node (repl_one x ("rp " +++ N_to_str id +++ " " +++ req)) = cn_node x.
Proof.
  intros Hd Hr Hid Hne Hs Hp Ho. unfold repl_one.
  rewrite Hd, rp_roundtrip, Hp by assumption.
  pose proof (repl_oplog_node x rq id) as Hn. pose proof (repl_oplog_dead x rq id) as Hdd.
  destruct (repl_oplog x rq id) as [x1 oid]. cbn [fst snd] in *. subst oid. rewrite Hn.
  destruct (n_role (cn_node x)); try congruence; cbn [cn_node cn_dead]; rewrite Hdd; auto.
Qed.

(* what a member then receives parses back into the registered request *)
Corollary fanned_line_parses n id req :
  (id < 2 ^ 64)%N -> reg_text (n_pending n) id req <> "" -> no_semi_end (reg_text (n_pending n) id req) ->
  parse_request (message_to_replicate id (reg_text (n_pending n) id req)) =
  POk (RqReplicateRequest (reg_text (n_pending n) id req) id).
Proof. apply message_to_replicate_roundtrip. Qed.
