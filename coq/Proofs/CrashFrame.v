(* CrashFrame.v -- C11 (frame part): a crash at ANY point of an INCREMENTAL snapshot
   (reclaim = false) never damages a key that the snapshot does not touch.

   Writer side (sections 3-5): every prefix of the plan leaves the keys file as
       kcat recs' +++ (whole write() fields of the appended key records)
   where recs' are the old records with the (version, address) fields of touched keys possibly
   rewritten, and the values file as  old +++ (whole write() fields of the appended value records).
   The BufWriter only ever hands WHOLE write() calls to the OS, so both appended streams are cut at
   a FIELD boundary, never inside a length, a key or a value.
   Loader side (sections 6-8): the walk over such a file visits the old records at the old offsets,
   an untouched key's record is intact, and nothing after it can overwrite the key: appended records
   carry VNew keys; a torn tail decodes to the new key itself or -- when only the 8-byte length
   field made it to disk -- to a run of NUL bytes of the new key's length.

   Main results:
     incr_plan_shape                               (goal 1)
     incr_plan_states / incr_prefix_files(_bytes)  (goal 2)
     C11_incr_untouched_keys_survive(_gen/_kill/_whole_appends/_total)   (goal 3)
     C11_incr_no_panic, C11_incr_no_panic_ascii    (goal 4; the ASCII condition is not needed)
     C11_frame_demo, demo_all_cuts_load            (goal 5)
   Findings (vm_compute witnesses):
     C11_nul_key_overwritten            an untouched key made of NUL bytes only CAN be overwritten
     C11_fresh_db_create_window_panics  keys file created before the values file: start panics *)
From NunDB Require Import Model.Base Model.Pending Model.Parse Model.Node Model.Disk
  Proofs.AssocLemmas Proofs.DiskProofs Proofs.CrashProofs.
From Coq Require Import Lia.
Open Scope string_scope.
Open Scope list_scope.
Local Open Scope N_scope.

(* ====================================================================== *)
(* 1. list prefixes                                                        *)
(* ====================================================================== *)
Definition lprefix {A} (p l : list A) : Prop := exists rest, l = p ++ rest.

Lemma lprefix_refl {A} (l : list A) : lprefix l l.
Proof. exists []. now rewrite app_nil_r. Qed.
Lemma lprefix_nil {A} (l : list A) : lprefix [] l.
Proof. now exists l. Qed.
Lemma lprefix_app {A} (p a b : list A) : lprefix p a -> lprefix p (a ++ b).
Proof. intros [r ->]. exists (r ++ b). now rewrite app_assoc. Qed.
Lemma lprefix_app_l {A} (a b : list A) : lprefix a (a ++ b).
Proof. now exists b. Qed.
Lemma lprefix_app_same {A} (a p b : list A) : lprefix p b -> lprefix (a ++ p) (a ++ b).
Proof. intros [r ->]. exists r. now rewrite app_assoc. Qed.
Lemma lprefix_trans {A} (a b c : list A) : lprefix a b -> lprefix b c -> lprefix a c.
Proof. intros [r ->] [r' ->]. exists (r ++ r'). now rewrite app_assoc. Qed.
Lemma lprefix_nil_inv {A} (p : list A) : lprefix p [] -> p = [].
Proof. intros [r H]. destruct p; [reflexivity|discriminate]. Qed.
Lemma lprefix_cons_inv {A} (p : list A) x l : lprefix p (x :: l) -> p = [] \/ exists p0, p = x :: p0 /\ lprefix p0 l.
Proof.
  intros [r H]. destruct p as [|y p0]; [now left|right].
  cbn in H. inversion H; subst. exists p0. split; auto. now exists r.
Qed.
Lemma lprefix_app_inv {A} (a : list A) : forall p b, lprefix p (a ++ b) ->
  lprefix p a \/ exists p', p = a ++ p' /\ lprefix p' b.
Proof.
  induction a as [|x a IH]; intros p b H.
  - right. exists p. auto.
  - cbn [app] in H. apply lprefix_cons_inv in H. destruct H as [->|(p0 & -> & H)].
    + left. apply lprefix_nil.
    + destruct (IH _ _ H) as [H1|(p' & -> & H1)].
      * left. destruct H1 as [r ->]. now exists r.
      * right. exists p'. auto.
Qed.
Lemma lprefix_Forall {A} (P : A -> Prop) p l : Forall P l -> lprefix p l -> Forall P p.
Proof. intros H [r ->]. apply Forall_app in H. tauto. Qed.

Lemma Forall2_imp {A B} (R R' : A -> B -> Prop) l l' :
  (forall a b, R a b -> R' a b) -> Forall2 R l l' -> Forall2 R' l l'.
Proof. intros H. induction 1; constructor; auto. Qed.

Lemma take_before_lprefix s i ops : lprefix (take_before s i ops) ops.
Proof. destruct (take_before_prefix s ops i) as [r H]. now exists r. Qed.
Lemma firstn_lprefix {A} n (l : list A) : lprefix (firstn n l) l.
Proof. exists (skipn n l). now rewrite firstn_skipn. Qed.

(* ====================================================================== *)
(* 2. file contents under single operations                                *)
(* ====================================================================== *)
Lemma fcontent_create fs f g : fcontent (apply_fop fs (OpCreate f)) g = fcontent fs g.
Proof.
  unfold fcontent at 1. destruct (fname_eqb_spec g f) as [->|Hn].
  - now rewrite fget_create_same.
  - rewrite fget_create_other by auto. reflexivity.
Qed.
Lemma fcontent_append_same fs f d : fcontent (apply_fop fs (OpAppend f d)) f = fcontent fs f +++ d.
Proof. unfold fcontent. cbn [apply_fop]. rewrite fget_set_same. destruct (fget fs f); reflexivity. Qed.
Lemma fcontent_append_other fs f g d : g <> f -> fcontent (apply_fop fs (OpAppend f d)) g = fcontent fs g.
Proof. intros H. unfold fcontent. now rewrite fget_append_other. Qed.
Lemma fcontent_writeat_same fs f off d :
  fcontent (apply_fop fs (OpWriteAt f off d)) f = write_at (fcontent fs f) (N.to_nat off) d.
Proof. unfold fcontent. cbn [apply_fop]. rewrite fget_set_same. destruct (fget fs f); reflexivity. Qed.
Lemma fcontent_writeat_other fs f g off d : g <> f -> fcontent (apply_fop fs (OpWriteAt f off d)) g = fcontent fs g.
Proof. intros H. unfold fcontent. now rewrite fget_writeat_other. Qed.
Lemma fcontent_remove_other fs f g : g <> f -> fcontent (apply_fop fs (OpRemove f)) g = fcontent fs g.
Proof. intros H. unfold fcontent. cbn [apply_fop]. now rewrite fget_del_other. Qed.

(* the BufWriter hands over whole write() calls only *)
Lemma bw_write_cases buf data b out : bw_write buf data = (b, out) ->
  (out = [] /\ b = buf +++ data) \/ (out = [buf] /\ b = data) \/ (out = [buf; data] /\ b = "") \/
  (out = [data] /\ b = "" /\ buf = "").
Proof.
  unfold bw_write. intros H.
  destruct (Nat.ltb_spec (len data) (bw_cap - len buf)).
  - inversion H; subst. now left.
  - destruct (Nat.ltb_spec (bw_cap - len buf) (len data)).
    + destruct (String.eqb_spec buf "") as [->|Hne].
      * destruct (Nat.leb_spec bw_cap (len data)); inversion H; subst; cbn; auto 10.
      * destruct (Nat.leb_spec bw_cap (len data)); inversion H; subst; cbn; auto 10.
    + destruct (Nat.leb_spec bw_cap (len data)); inversion H; subst; auto.
      assert (len b = 0%nat) by (unfold bw_cap in *; lia).
      rewrite (len0_empty b) by auto. auto 10.
Qed.

Definition kfields (r : arec) : list str :=
  [le_bytes 8 (slen (r_key r)); r_key r; i32_bytes (r_ver r); le_bytes 8 (r_va r)].
Lemma scat_kfields r : scat (kfields r) = krec r.
Proof. unfold kfields, krec. cbn [scat]. now rewrite app_nil_r_s. Qed.
Lemma scat_flat_kfields l : scat (flat_map kfields l) = kcat l.
Proof. induction l as [|r t IH]; cbn [flat_map kcat]; [reflexivity|]. now rewrite scat_app, scat_kfields, IH. Qed.

(* ====================================================================== *)
(* 3. the crash-state relation                                              *)
(* ====================================================================== *)
(* the write() calls of one value record, and the appended value stream *)
Definition vfields (v : str) : list str := [le_bytes 8 (slen v); v; le_bytes 4 0].
Definition vcat (l : list str) : str := scat (flat_map vfields l).
Lemma scat_vfields v : scat (vfields v) = vrec v.
Proof. unfold vfields, vrec. cbn [scat]. now rewrite app_nil_r_s. Qed.
Lemma vcat_app a b : vcat (a ++ b) = vcat a +++ vcat b.
Proof. unfold vcat. now rewrite flat_map_app, scat_app. Qed.
Lemma vcat_snoc l v : vcat (l ++ [v]) = vcat l +++ vrec v.
Proof. rewrite vcat_app. unfold vcat at 2. cbn [flat_map]. now rewrite app_nil_r, scat_vfields. Qed.
Lemma slen_vrec v : slen (vrec v) = 8 + slen v + 4.
Proof. unfold vrec, slen. rewrite !len_app, !len_le_bytes. lia. Qed.

Section Frame.
Variable mem0 : list (str * value).     (* the memory map when the snapshot starts *)
Variable recs : list arec.              (* the records of the keys file then *)
Variable V0 : str.                      (* the values file then *)

Definition touched (k : str) : Prop :=
  exists v, assoc_get String.eqb k mem0 = Some v /\ (v_st v = VUpdated \/ v_st v = VDeleted).
Definition newkey (k : str) : Prop :=
  exists v, assoc_get String.eqb k mem0 = Some v /\ v_st v = VNew.

(* [bnd VS a]: a is the address of a record boundary of the appended value stream VS *)
Definition bnd (VS : list str) (a : N) : Prop :=
  exists l1 l2, VS = l1 ++ l2 /\ a = slen V0 + slen (vcat l1).
Lemma bnd_mono VS VS' a : lprefix VS VS' -> bnd VS a -> bnd VS' a.
Proof. intros [r ->] (l1 & l2 & -> & ->). exists l1, (l2 ++ r). now rewrite app_assoc. Qed.

(* an old record and what a crash can leave in its place: same key (hence same length and same
   position of every later record); the 12-byte (version, address) field may differ, and only if
   the key is being updated or deleted by this snapshot; its address is the old one, 0 (deleted)
   or a record boundary of the appended value stream *)
Definition frame1 (VS : list str) (r r' : arec) : Prop :=
  r_key r' = r_key r /\ (r' = r \/ touched (r_key r)) /\
  (r_va r' = r_va r \/ r_va r' = 0 \/ bnd VS (r_va r')).

(* [CS VS fs' F1 G1]: keys file = framed old records followed by the whole fields F1 of the
   appended key stream; values file = old values file followed by the whole fields G1 *)
Definition CS (VS : list str) (fs' : files) (F1 G1 : list str) : Prop :=
  exists recs', fcontent fs' FKeys = kcat recs' +++ scat F1 /\ Forall2 (frame1 VS) recs recs' /\
                fcontent fs' FVals = V0 +++ scat G1.

Lemma frame1_refl VS r : frame1 VS r r.
Proof. repeat split; auto. Qed.
Lemma Forall2_frame_refl VS l : Forall2 (frame1 VS) l l.
Proof. induction l; constructor; auto using frame1_refl. Qed.
Lemma frame1_mono VS VS' r r' : lprefix VS VS' -> frame1 VS r r' -> frame1 VS' r r'.
Proof. intros H (a & b & [c|[c|c]]); repeat split; eauto using bnd_mono. Qed.
Lemma CS_mono VS VS' fs' F G : lprefix VS VS' -> CS VS fs' F G -> CS VS' fs' F G.
Proof.
  intros H (recs' & a & b & c). exists recs'. split; auto. split; auto.
  eapply Forall2_imp; [|exact b]. intros; eapply frame1_mono; eauto.
Qed.

Definition neutral (o : fop) : Prop :=
  match o with
  | OpCreate _ => True
  | OpWriteAt FMeta _ _ => True
  | OpRemove FKeysOld => True
  | _ => False
  end.

Lemma CS_neutral VS fs' F G o : neutral o -> CS VS fs' F G -> CS VS (apply_fop fs' o) F G.
Proof.
  intros Hn (recs' & HK & HF & HV).
  destruct o as [a b|f|f|f d|f off d]; cbn [neutral] in Hn; try contradiction.
  - destruct f; try contradiction. exists recs'.
    rewrite !fcontent_remove_other by discriminate. auto.
  - exists recs'. rewrite !fcontent_create. auto.
  - destruct f; try contradiction. exists recs'.
    rewrite !fcontent_writeat_other by discriminate. auto.
Qed.

Lemma CS_neutrals VS ops : forall fs' F G, Forall neutral ops -> CS VS fs' F G -> CS VS (apply_fops fs' ops) F G.
Proof.
  induction ops as [|o t IH]; intros fs' F G Hn H; cbn [apply_fops fold_left]; auto.
  apply Forall_cons_iff in Hn. destruct Hn as [Ho Ht]. apply IH; auto. now apply CS_neutral.
Qed.

Lemma CS_append_keys VS fs' F G X : CS VS fs' F G -> CS VS (apply_fop fs' (OpAppend FKeys (scat X))) (F ++ X) G.
Proof.
  intros (recs' & HK & HF & HV). exists recs'.
  rewrite fcontent_append_same, fcontent_append_other by discriminate.
  rewrite HK, scat_app, app_assoc_s. auto.
Qed.
Lemma CS_append_vals VS fs' F G X : CS VS fs' F G -> CS VS (apply_fop fs' (OpAppend FVals (scat X))) F (G ++ X).
Proof.
  intros (recs' & HK & HF & HV). exists recs'.
  rewrite fcontent_append_same, fcontent_append_other by discriminate.
  rewrite HV, scat_app, app_assoc_s. auto.
Qed.
Lemma scat_single d : scat [d] = d.
Proof. cbn [scat]. apply app_nil_r_s. Qed.
Lemma CS_append_keys1 VS fs' F G d : CS VS fs' F G -> CS VS (apply_fop fs' (OpAppend FKeys d)) (F ++ [d]) G.
Proof. intros H. rewrite <- (scat_single d) at 1. now apply CS_append_keys. Qed.
Lemma CS_append_vals1 VS fs' F G d : CS VS fs' F G -> CS VS (apply_fop fs' (OpAppend FVals d)) F (G ++ [d]).
Proof. intros H. rewrite <- (scat_single d) at 1. now apply CS_append_vals. Qed.

(* one pwrite of update_key: the version field ... *)
Lemma frame_wver VS : forall l l', Forall2 (frame1 VS) l l' -> forall s off r pre post z,
  rec_at l s off r -> touched (r_key r) -> slen pre = s ->
  exists l'', write_at (pre +++ kcat l' +++ post) (N.to_nat (off + 8 + slen (r_key r))) (i32_bytes z)
              = pre +++ kcat l'' +++ post /\ Forall2 (frame1 VS) l l''.
Proof.
  induction 1 as [|x x' t t' Hx Ht IH]; intros s off r pre post z Hr Htouch Hs; cbn [rec_at] in Hr; [tauto|].
  destruct Hx as (Hk & Hor & Hva). subst s.
  destruct Hr as [[-> ->]|Hr].
  - exists (mkR (r_key x') z (r_va x') (r_val x') :: t'). split.
    + cbn [kcat]. unfold krec. cbn [r_key r_ver r_va r_val]. rewrite Hk.
      set (A := le_bytes 8 (slen (r_key x))).
      replace (pre +++ ((A +++ r_key x +++ i32_bytes (r_ver x') +++ le_bytes 8 (r_va x')) +++ kcat t') +++ post)
        with ((pre +++ A +++ r_key x) +++ i32_bytes (r_ver x') +++ (le_bytes 8 (r_va x') +++ kcat t' +++ post))
        by now rewrite !app_assoc_s.
      replace (N.to_nat (slen pre + 8 + slen (r_key x))) with (len (pre +++ A +++ r_key x)).
      2:{ rewrite !len_app. unfold A. rewrite len_le_bytes. unfold slen in *. lia. }
      rewrite write_at_mid by now rewrite !len_i32_bytes.
      now rewrite !app_assoc_s.
    + constructor; auto. repeat split; cbn [r_key r_va]; auto.
  - destruct (IH (slen pre + rsize x) off r (pre +++ krec x') post z Hr Htouch) as (l'' & Hw & HF).
    { rewrite slen_app, slen_krec, (rsize_key x x' Hk). lia. }
    exists (x' :: l''). split.
    + cbn [kcat]. rewrite !app_assoc_s in *. exact Hw.
    + constructor; auto. repeat split; auto.
Qed.

(* ... and the address field *)
Lemma frame_wva VS : forall l l', Forall2 (frame1 VS) l l' -> forall s off r pre post a,
  rec_at l s off r -> touched (r_key r) -> slen pre = s -> (a = 0 \/ bnd VS a) ->
  exists l'', write_at (pre +++ kcat l' +++ post) (N.to_nat (off + 8 + slen (r_key r) + 4)) (le_bytes 8 a)
              = pre +++ kcat l'' +++ post /\ Forall2 (frame1 VS) l l''.
Proof.
  induction 1 as [|x x' t t' Hx Ht IH]; intros s off r pre post a Hr Htouch Hs Ha; cbn [rec_at] in Hr; [tauto|].
  destruct Hx as (Hk & Hor & Hva). subst s.
  destruct Hr as [[-> ->]|Hr].
  - exists (mkR (r_key x') (r_ver x') a (r_val x') :: t'). split.
    + cbn [kcat]. unfold krec. cbn [r_key r_ver r_va r_val]. rewrite Hk.
      set (A := le_bytes 8 (slen (r_key x))).
      replace (pre +++ ((A +++ r_key x +++ i32_bytes (r_ver x') +++ le_bytes 8 (r_va x')) +++ kcat t') +++ post)
        with ((pre +++ A +++ r_key x +++ i32_bytes (r_ver x')) +++ le_bytes 8 (r_va x') +++ (kcat t' +++ post))
        by now rewrite !app_assoc_s.
      replace (N.to_nat (slen pre + 8 + slen (r_key x) + 4)) with (len (pre +++ A +++ r_key x +++ i32_bytes (r_ver x'))).
      2:{ rewrite !len_app. unfold A. rewrite len_le_bytes, len_i32_bytes. unfold slen in *. lia. }
      rewrite write_at_mid by now rewrite !len_le_bytes.
      now rewrite !app_assoc_s.
    + constructor; auto. repeat split; cbn [r_key r_va]; auto; try tauto.
  - destruct (IH (slen pre + rsize x) off r (pre +++ krec x') post a Hr Htouch) as (l'' & Hw & HF); auto.
    { rewrite slen_app, slen_krec, (rsize_key x x' Hk). lia. }
    exists (x' :: l''). split.
    + cbn [kcat]. rewrite !app_assoc_s in *. exact Hw.
    + constructor; auto. repeat split; auto.
Qed.

Lemma CS_wver VS fs' F G off r z : CS VS fs' F G -> rec_at recs 0 off r -> touched (r_key r) ->
  CS VS (apply_fop fs' (OpWriteAt FKeys (off + 8 + slen (r_key r)) (i32_bytes z))) F G.
Proof.
  intros (recs' & HK & HF & HV) Hr Ht.
  destruct (frame_wver VS _ _ HF 0 off r "" (scat F) z Hr Ht eq_refl) as (l'' & Hw & HF').
  exists l''. rewrite fcontent_writeat_same, fcontent_writeat_other by discriminate.
  rewrite HK. cbn [String.append] in Hw. auto.
Qed.
Lemma CS_wva VS fs' F G off r a : CS VS fs' F G -> rec_at recs 0 off r -> touched (r_key r) ->
  (a = 0 \/ bnd VS a) ->
  CS VS (apply_fop fs' (OpWriteAt FKeys (off + 8 + slen (r_key r) + 4) (le_bytes 8 a))) F G.
Proof.
  intros (recs' & HK & HF & HV) Hr Ht Ha.
  destruct (frame_wva VS _ _ HF 0 off r "" (scat F) a Hr Ht eq_refl Ha) as (l'' & Hw & HF').
  exists l''. rewrite fcontent_writeat_same, fcontent_writeat_other by discriminate.
  rewrite HK. cbn [String.append] in Hw. auto.
Qed.

(* ====================================================================== *)
(* 4. the writer: every prefix of the operations issued so far              *)
(* ====================================================================== *)
Variable fs : files.                    (* the files when the snapshot starts *)

(* after ALL operations issued so far: fields F1 / G1 are in the files, F2 / G2 in the BufWriters *)
Definition End (VS : list str) (w : wstate) (F G : list str) : Prop :=
  exists F1 F2 G1 G2, F1 ++ F2 = F /\ G1 ++ G2 = G /\ CS VS (apply_fops fs (w_ops w)) F1 G1 /\
                      w_kbuf w = scat F2 /\ w_vbuf w = scat G2.
(* after any prefix of them *)
Definition AllP (VS : list str) (ops : list fop) (F G : list str) : Prop :=
  forall p, lprefix p ops -> exists F1 G1, lprefix F1 F /\ lprefix G1 G /\ CS VS (apply_fops fs p) F1 G1.
Definition WI (VS : list str) (w : wstate) (F G : list str) : Prop := End VS w F G /\ AllP VS (w_ops w) F G.

Lemma AllP_weaken VS VS' ops F F' G G' :
  lprefix VS VS' -> lprefix F F' -> lprefix G G' -> AllP VS ops F G -> AllP VS' ops F' G'.
Proof.
  intros HV HF HG HA p Hp. destruct (HA p Hp) as (F1 & G1 & a & b & c).
  exists F1, G1. split; [eapply lprefix_trans; eauto|]. split; [eapply lprefix_trans; eauto|].
  eapply CS_mono; eauto.
Qed.
Lemma AllP_snoc VS ops o F G F1 G1 :
  AllP VS ops F G -> lprefix F1 F -> lprefix G1 G -> CS VS (apply_fops fs (ops ++ [o])) F1 G1 ->
  AllP VS (ops ++ [o]) F G.
Proof.
  intros HA HF HG HC p Hp. apply lprefix_app_inv in Hp. destruct Hp as [Hp|(p' & -> & Hp')]; auto.
  apply lprefix_cons_inv in Hp'. destruct Hp' as [->|(p0 & -> & Hp0)].
  - rewrite app_nil_r. apply HA, lprefix_refl.
  - apply lprefix_nil_inv in Hp0. subst p0. eauto.
Qed.
Lemma AllP_app_neutral VS ops new F G F1 G1 :
  AllP VS ops F G -> lprefix F1 F -> lprefix G1 G -> CS VS (apply_fops fs ops) F1 G1 -> Forall neutral new ->
  AllP VS (ops ++ new) F G.
Proof.
  intros HA HF HG HC Hn p Hp. apply lprefix_app_inv in Hp. destruct Hp as [Hp|(p' & -> & Hp')]; auto.
  exists F1, G1. split; auto. split; auto. rewrite apply_fops_app. apply CS_neutrals; auto.
  eapply lprefix_Forall; eauto.
Qed.
Lemma apply_snoc fs0 ops o : apply_fops fs0 (ops ++ [o]) = apply_fop (apply_fops fs0 ops) o.
Proof. now rewrite apply_fops_app. Qed.

Lemma WI_ext VS w w' F G : w_ops w' = w_ops w -> w_kbuf w' = w_kbuf w -> w_vbuf w' = w_vbuf w ->
  WI VS w F G -> WI VS w' F G.
Proof. unfold WI, End. intros -> -> ->. auto. Qed.
Lemma WI_mono VS VS' w F G : lprefix VS VS' -> WI VS w F G -> WI VS' w F G.
Proof.
  intros H [(F1 & F2 & G1 & G2 & a & b & c & d & e) HA]. split.
  - exists F1, F2, G1, G2. eauto 10 using CS_mono.
  - eapply AllP_weaken; eauto using lprefix_refl.
Qed.

Lemma scat_snoc F d : scat (F ++ [d]) = scat F +++ d.
Proof. rewrite scat_app. cbn [scat]. now rewrite app_nil_r_s. Qed.

Lemma WI_write_keys VS w d F G : WI VS w F G -> WI VS (w_write_keys w d) (F ++ [d]) G.
Proof.
  intros [(F1 & F2 & G1 & G2 & HF & HG & HC & HB & HB2) HA].
  assert (HA' : AllP VS (w_ops w) (F ++ [d]) G).
  { eapply AllP_weaken; eauto using lprefix_refl, lprefix_app_l. }
  assert (PG : lprefix G1 G) by (rewrite <- HG; apply lprefix_app_l).
  unfold w_write_keys. destruct (bw_write (w_kbuf w) d) as [b out] eqn:E.
  apply bw_write_cases in E. rewrite HB in E.
  destruct E as [[-> ->]|[[-> ->]|[[-> ->]|(-> & -> & E0)]]]; cbn [emit map]; (split; [unfold End|]); cbn [w_ops w_kbuf w_vbuf].
  - exists F1, (F2 ++ [d]), G1, G2. rewrite app_nil_r, scat_snoc, app_assoc, HF. auto 10.
  - now rewrite app_nil_r.
  - exists (F1 ++ F2), [d], G1, G2. rewrite apply_snoc, HF, scat_single. repeat split; auto.
    rewrite <- HF. now apply CS_append_keys.
  - apply (AllP_snoc VS _ _ _ _ (F1 ++ F2) G1); auto; [rewrite HF; apply lprefix_app_l|].
    rewrite apply_snoc. now apply CS_append_keys.
  - exists ((F1 ++ F2) ++ [d]), [], G1, G2.
    change [OpAppend FKeys (scat F2); OpAppend FKeys d] with ([OpAppend FKeys (scat F2)] ++ [OpAppend FKeys d]).
    rewrite app_assoc, !apply_snoc, app_nil_r, HF. repeat split; auto.
    rewrite <- HF. apply CS_append_keys1. now apply CS_append_keys.
  - change [OpAppend FKeys (scat F2); OpAppend FKeys d] with ([OpAppend FKeys (scat F2)] ++ [OpAppend FKeys d]).
    rewrite app_assoc.
    apply (AllP_snoc VS _ _ _ _ ((F1 ++ F2) ++ [d]) G1); auto; [|rewrite HF; apply lprefix_refl|].
    + apply (AllP_snoc VS _ _ _ _ (F1 ++ F2) G1); auto; [rewrite HF; apply lprefix_app_l|].
      rewrite apply_snoc. now apply CS_append_keys.
    + rewrite !apply_snoc. apply CS_append_keys1. now apply CS_append_keys.
  - assert (Ed : d = scat (F2 ++ [d])) by (rewrite scat_snoc, E0; reflexivity).
    exists (F1 ++ F2 ++ [d]), [], G1, G2. rewrite apply_snoc, app_nil_r, app_assoc, HF. repeat split; auto.
    rewrite <- HF, <- app_assoc. rewrite Ed at 1. now apply CS_append_keys.
  - assert (Ed : d = scat (F2 ++ [d])) by (rewrite scat_snoc, E0; reflexivity).
    apply (AllP_snoc VS _ _ _ _ (F1 ++ F2 ++ [d]) G1); auto; [rewrite app_assoc, HF; apply lprefix_refl|].
    rewrite apply_snoc. rewrite Ed at 1. now apply CS_append_keys.
Qed.

Lemma WI_write_vals VS w d F G : WI VS w F G -> WI VS (w_write_vals w d) F (G ++ [d]).
Proof.
  intros [(F1 & F2 & G1 & G2 & HF & HG & HC & HB & HB2) HA].
  assert (HA' : AllP VS (w_ops w) F (G ++ [d])).
  { eapply AllP_weaken; eauto using lprefix_refl, lprefix_app_l. }
  assert (PF : lprefix F1 F) by (rewrite <- HF; apply lprefix_app_l).
  unfold w_write_vals. destruct (bw_write (w_vbuf w) d) as [b out] eqn:E.
  apply bw_write_cases in E. rewrite HB2 in E.
  destruct E as [[-> ->]|[[-> ->]|[[-> ->]|(-> & -> & E0)]]]; cbn [emit map]; (split; [unfold End|]); cbn [w_ops w_kbuf w_vbuf].
  - exists F1, F2, G1, (G2 ++ [d]). rewrite app_nil_r, scat_snoc, app_assoc, HG. auto 10.
  - now rewrite app_nil_r.
  - exists F1, F2, (G1 ++ G2), [d]. rewrite apply_snoc, HG, scat_single. repeat split; auto.
    rewrite <- HG. now apply CS_append_vals.
  - apply (AllP_snoc VS _ _ _ _ F1 (G1 ++ G2)); auto; [rewrite HG; apply lprefix_app_l|].
    rewrite apply_snoc. now apply CS_append_vals.
  - exists F1, F2, ((G1 ++ G2) ++ [d]), [].
    change [OpAppend FVals (scat G2); OpAppend FVals d] with ([OpAppend FVals (scat G2)] ++ [OpAppend FVals d]).
    rewrite app_assoc, !apply_snoc, app_nil_r, HG. repeat split; auto.
    rewrite <- HG. apply CS_append_vals1. now apply CS_append_vals.
  - change [OpAppend FVals (scat G2); OpAppend FVals d] with ([OpAppend FVals (scat G2)] ++ [OpAppend FVals d]).
    rewrite app_assoc.
    apply (AllP_snoc VS _ _ _ _ F1 ((G1 ++ G2) ++ [d])); auto; [|rewrite HG; apply lprefix_refl|].
    + apply (AllP_snoc VS _ _ _ _ F1 (G1 ++ G2)); auto; [rewrite HG; apply lprefix_app_l|].
      rewrite apply_snoc. now apply CS_append_vals.
    + rewrite !apply_snoc. apply CS_append_vals1. now apply CS_append_vals.
  - assert (Ed : d = scat (G2 ++ [d])) by (rewrite scat_snoc, E0; reflexivity).
    exists F1, F2, (G1 ++ G2 ++ [d]), []. rewrite apply_snoc, app_nil_r, app_assoc, HG. repeat split; auto.
    rewrite <- HG, <- app_assoc. rewrite Ed at 1. now apply CS_append_vals.
  - assert (Ed : d = scat (G2 ++ [d])) by (rewrite scat_snoc, E0; reflexivity).
    apply (AllP_snoc VS _ _ _ _ F1 (G1 ++ G2 ++ [d])); auto; [rewrite app_assoc, HG; apply lprefix_refl|].
    rewrite apply_snoc. rewrite Ed at 1. now apply CS_append_vals.
Qed.

Lemma WI_update_key VS w k ver va ka r F G :
  WI VS w F G -> rec_at recs 0 ka r -> r_key r = k -> touched k -> (va = 0 \/ bnd VS va) ->
  WI VS (w_update_key w k ver va ka) F G.
Proof.
  intros [(F1 & F2 & G1 & G2 & HF & HG & HC & HB & HB2) HA] Hr Hk Ht Hva. subst k.
  assert (PF : lprefix F1 F) by (rewrite <- HF; apply lprefix_app_l).
  assert (PG : lprefix G1 G) by (rewrite <- HG; apply lprefix_app_l).
  unfold w_update_key. set (o1 := OpWriteAt FKeys _ (i32_bytes ver)). set (o2 := OpWriteAt FKeys _ (le_bytes 8 va)).
  change [o1; o2] with ([o1] ++ [o2]). rewrite app_assoc.
  assert (C1 : CS VS (apply_fops fs (w_ops w ++ [o1])) F1 G1) by (rewrite apply_snoc; apply CS_wver; auto).
  assert (C2 : CS VS (apply_fops fs ((w_ops w ++ [o1]) ++ [o2])) F1 G1) by (rewrite apply_snoc; apply CS_wva; auto).
  (split; [unfold End|]); cbn [w_ops w_kbuf w_vbuf].
  - exists F1, F2, G1, G2. auto 10.
  - apply (AllP_snoc VS _ _ _ _ F1 G1); auto. apply (AllP_snoc VS _ _ _ _ F1 G1); auto.
Qed.

Lemma WI_value VS w v w1 rs F G : w_value w v = (w1, rs) -> WI VS w F G -> WI VS w1 F (G ++ vfields (v_val v)).
Proof.
  unfold w_value. intros E HW. apply pair_equal_spec in E. destruct E as [<- _].
  unfold vfields.
  replace (G ++ [le_bytes 8 (slen (v_val v)); v_val v; le_bytes 4 0])
    with (((G ++ [le_bytes 8 (slen (v_val v))]) ++ [v_val v]) ++ [le_bytes 4 (status_code VOk)])
    by (now rewrite <- !app_assoc).
  auto using WI_write_vals.
Qed.

Lemma WI_key VS w k v va w1 ks F G val : w_key w k v va = (w1, ks) -> WI VS w F G ->
  WI VS w1 (F ++ kfields (mkR k (v_ver v) va val)) G.
Proof.
  unfold w_key. intros E HW. apply pair_equal_spec in E. destruct E as [<- _].
  unfold kfields. cbn [r_key r_ver r_va].
  replace (F ++ [le_bytes 8 (slen k); k; i32_bytes (v_ver v); le_bytes 8 va])
    with ((((F ++ [le_bytes 8 (slen k)]) ++ [k]) ++ [i32_bytes (v_ver v)]) ++ [le_bytes 8 va])
    by (now rewrite <- !app_assoc).
  auto using WI_write_keys.
Qed.

Lemma w_vaddr_write_vals w d : w_vaddr (w_write_vals w d) = w_vaddr w.
Proof. unfold w_write_vals. now destruct (bw_write (w_vbuf w) d). Qed.
Lemma w_vaddr_write_keys w d : w_vaddr (w_write_keys w d) = w_vaddr w.
Proof. unfold w_write_keys. now destruct (bw_write (w_kbuf w) d). Qed.
Lemma w_vaddr_value w v w1 rs : w_value w v = (w1, rs) -> w_vaddr w1 = w_vaddr w /\ rs = slen (vrec (v_val v)).
Proof.
  unfold w_value. intros E. apply pair_equal_spec in E. destruct E as [<- <-].
  rewrite !w_vaddr_write_vals, slen_vrec. auto.
Qed.
Lemma w_vaddr_key w k v va w1 ks : w_key w k v va = (w1, ks) -> w_vaddr w1 = w_vaddr w.
Proof.
  unfold w_key. intros E. apply pair_equal_spec in E. destruct E as [<- _].
  now rewrite !w_vaddr_write_keys.
Qed.

(* what the frame argument needs to know about one selected (key, value) *)
Definition todo_ok (kv : str * value) : Prop :=
  assoc_get String.eqb (fst kv) mem0 = Some (snd kv) /\
  (v_st (snd kv) = VUpdated \/ v_st (snd kv) = VDeleted ->
   exists q, rec_at recs 0 (v_kaddr (snd kv)) q /\ r_key q = fst kv) /\
  str_ok (v_val (snd kv)).

(* a record appended for a new key: its value address is a boundary of the value stream *)
Definition newrec (VS : list str) (r : arec) : Prop := newkey (r_key r) /\ bnd VS (r_va r).
Lemma newrec_mono VS VS' r : lprefix VS VS' -> newrec VS r -> newrec VS' r.
Proof. intros H [a b]. split; eauto using bnd_mono. Qed.

(* the invariant between two iterations of the loop *)
Definition WJ (w : wstate) (news : list arec) (VS : list str) : Prop :=
  WI VS w (flat_map kfields news) (flat_map vfields VS) /\ w_vaddr w = slen V0 + slen (vcat VS) /\
  Forall (newrec VS) news /\ Forall str_ok VS.

Lemma bnd_end VS v : bnd (VS ++ [v]) (slen V0 + slen (vcat VS)).
Proof. exists VS, [v]. auto. Qed.

Lemma WJ_snap_one w news VS kv :
  WJ w news VS -> todo_ok kv -> exists news' VS', WJ (snap_one false w kv) news' VS'.
Proof.
  destruct kv as [k v]. intros (HW & Hva & Hn & Hs) (Hg & Hd & Hsv). cbn [fst snd] in *. unfold snap_one.
  destruct (v_st v) eqn:Est.
  - exists news, VS. exact (conj HW (conj Hva (conj Hn Hs))).
  - (* VDeleted *)
    destruct Hd as (q & Hq & Hqk); auto.
    exists news, VS. cbv zeta. split; [|exact (conj Hva (conj Hn Hs))].
    eapply WI_ext; [| | |eapply (WI_update_key VS w k (-1)%Z 0 (v_kaddr v) q); eauto]; try reflexivity.
    exists v. auto.
  - (* VUpdated *)
    destruct Hd as (q & Hq & Hqk); auto.
    exists news, (VS ++ [v_val v]).
    destruct (w_value w v) as [w1 rs] eqn:E1. cbv zeta.
    destruct (w_vaddr_value _ _ _ _ E1) as [Hv1 Hrs].
    assert (HP : lprefix VS (VS ++ [v_val v])) by apply lprefix_app_l.
    split; [|split; [|split]].
    + eapply WI_ext; [| | |eapply (WI_update_key (VS ++ [v_val v]) w1 k (v_ver v) (w_vaddr w) (v_kaddr v) q); eauto];
        try reflexivity.
      * rewrite flat_map_app. cbn [flat_map]. rewrite app_nil_r.
        eapply WI_value; eauto. eapply WI_mono; eauto.
      * exists v. auto.
      * right. rewrite Hva. apply bnd_end.
    + cbn [w_set_addrs w_vaddr]. rewrite vcat_snoc, slen_app, Hva, Hrs. lia.
    + eapply Forall_impl; [|exact Hn]. intros r. now apply newrec_mono.
    + apply Forall_app. auto.
  - (* VNew *)
    exists (news ++ [mkR k (v_ver v) (w_vaddr w) (v_val v)]), (VS ++ [v_val v]).
    unfold new_key_value. destruct (w_value w v) as [w1 rs] eqn:E1.
    destruct (w_key w1 k v (w_vaddr w)) as [w2 ks] eqn:E2.
    destruct (w_vaddr_value _ _ _ _ E1) as [Hv1 Hrs].
    assert (HP : lprefix VS (VS ++ [v_val v])) by apply lprefix_app_l.
    split; [|split; [|split]].
    + rewrite !flat_map_app. cbn [flat_map]. rewrite !app_nil_r.
      eapply WI_ext; [| | |eapply WI_key; [exact E2|eapply WI_value; [exact E1|eapply WI_mono; eauto]]]; reflexivity.
    + cbn [w_set_addrs w_vaddr]. rewrite vcat_snoc, slen_app, Hva, Hrs. lia.
    + apply Forall_app. split.
      * eapply Forall_impl; [|exact Hn]. intros r. now apply newrec_mono.
      * constructor; auto. split; cbn [r_key r_va]; [exists v; auto|]. rewrite Hva. apply bnd_end.
    + apply Forall_app. auto.
Qed.

Lemma WJ_fold : forall todo w news VS,
  WJ w news VS -> Forall todo_ok todo -> exists news' VS', WJ (fold_left (snap_one false) todo w) news' VS'.
Proof.
  induction todo as [|kv t IH]; intros w news VS HW Ht; cbn [fold_left]; eauto.
  apply Forall_cons_iff in Ht. destruct Ht as [Hkv Ht].
  destruct (WJ_snap_one w news VS kv HW Hkv) as (n1 & V1 & HW1). eauto.
Qed.

(* flushing the two BufWriters and the final neutral operations *)
Lemma WI_close VS w F G tail : WI VS w F G -> Forall neutral tail ->
  let ops := w_ops w ++ emit FKeys (bw_flush (w_kbuf w)) ++ emit FVals (bw_flush (w_vbuf w)) ++ tail in
  AllP VS ops F G /\ CS VS (apply_fops fs ops) F G.
Proof.
  intros [(F1 & F2 & G1 & G2 & HF & HG & HC & HB & HB2) HA] Hn. cbv zeta.
  assert (PG : lprefix G1 G) by (rewrite <- HG; apply lprefix_app_l).
  (* keys *)
  assert (K : AllP VS (w_ops w ++ emit FKeys (bw_flush (w_kbuf w))) F G /\
              CS VS (apply_fops fs (w_ops w ++ emit FKeys (bw_flush (w_kbuf w)))) F G1).
  { unfold bw_flush. rewrite HB. destruct (String.eqb_spec (scat F2) "") as [E|E]; cbn [emit map].
    - rewrite app_nil_r. split; auto. destruct HC as (recs' & a & b & c). exists recs'.
      rewrite <- HF, scat_app, E, app_nil_r_s. auto.
    - assert (C : CS VS (apply_fops fs (w_ops w ++ [OpAppend FKeys (scat F2)])) F G1).
      { rewrite apply_snoc, <- HF. now apply CS_append_keys. }
      split; auto. apply (AllP_snoc VS _ _ _ _ F G1); auto using lprefix_refl. }
  destruct K as [KA KC]. set (ops1 := w_ops w ++ emit FKeys (bw_flush (w_kbuf w))) in *.
  assert (V : AllP VS (ops1 ++ emit FVals (bw_flush (w_vbuf w))) F G /\
              CS VS (apply_fops fs (ops1 ++ emit FVals (bw_flush (w_vbuf w)))) F G).
  { unfold bw_flush. rewrite HB2. destruct (String.eqb_spec (scat G2) "") as [E|E]; cbn [emit map].
    - rewrite app_nil_r. split; auto. destruct KC as (recs' & a & b & c). exists recs'.
      rewrite <- HG, scat_app, E, app_nil_r_s. auto.
    - assert (C : CS VS (apply_fops fs (ops1 ++ [OpAppend FVals (scat G2)])) F G).
      { rewrite apply_snoc, <- HG. now apply CS_append_vals. }
      split; auto. apply (AllP_snoc VS _ _ _ _ F G); auto using lprefix_refl. }
  destruct V as [VA VC]. unfold ops1 in *. rewrite <- app_assoc in VA, VC.
  set (eK := emit FKeys (bw_flush (w_kbuf w))) in *. set (eV := emit FVals (bw_flush (w_vbuf w))) in *.
  replace (w_ops w ++ eK ++ eV ++ tail) with ((w_ops w ++ eK ++ eV) ++ tail) by (now rewrite <- !app_assoc).
  split.
  - apply (AllP_app_neutral VS _ tail F G F G); auto using lprefix_refl.
  - rewrite apply_fops_app. apply CS_neutrals; auto.
Qed.

End Frame.

(* ====================================================================== *)
(* 5. the whole incremental plan                                            *)
(* ====================================================================== *)
Definition incr_plan (d : db) (order : list str) (fs : files) (clock : N) : list fop :=
  fst (fst (snapshot_plan d order false fs clock)).

Definition plan_open4 (d : db) : list fop :=
  [OpCreate FMeta; OpWriteAt FMeta 0 (le_bytes 8 (d_id d) +++ le_bytes 4 (strat_code (d_strat d)));
   OpCreate FKeys; OpCreate FVals].

Lemma incr_w0_ops d fs clock : w_ops (plan_w0 d false fs clock) = plan_open4 d.
Proof. reflexivity. Qed.

Lemma neutral_open4 d : Forall neutral (plan_open4 d).
Proof. unfold plan_open4. repeat constructor. Qed.

Lemma incr_fs2_old d fs : fget (plan_fs2 d false fs) FKeysOld = fget fs FKeysOld.
Proof.
  unfold plan_fs2, plan_open1, plan_open0, plan_open1', plan_open2. cbn [andb app apply_fops fold_left].
  rewrite !fget_create_other by discriminate. rewrite fget_writeat_other by discriminate.
  now rewrite fget_create_other by discriminate.
Qed.

Definition close_tail (fs : files) : list fop :=
  match fget fs FKeysOld with Some _ => [OpRemove FKeysOld] | None => [] end.
Lemma neutral_close_tail fs : Forall neutral (close_tail fs).
Proof. unfold close_tail. destruct (fget fs FKeysOld); repeat constructor. Qed.

Lemma todo_ok_incr mem recs V order :
  Inv mem recs V -> Forall (todo_ok mem recs) (keys_to_update mem order false).
Proof.
  intros HI. apply Forall_forall. intros [k v] Hin.
  apply todo_sound in Hin; [|apply (inv_nodup _ _ _ HI)]. destruct Hin as [Hg _].
  split; [|split]; cbn [fst snd]; auto.
  - intros Hst.
    pose proof (inv_keys _ _ _ HI k) as Hk. unfold key_ok in Hk. rewrite Hg in Hk.
    assert (Hod : on_disk (v_st v) = true) by (destruct Hst as [-> | ->]; reflexivity).
    rewrite Hod in Hk. destruct Hk as [(q & Hq & Hqk & _) _]. eauto.
  - apply (inv_mem _ _ _ HI _ _ Hg).
Qed.

(* THE WRITER-SIDE THEOREM (full form): all prefixes of the plan, and its end *)
Theorem incr_plan_states d order fs clock recs :
  fcontent fs FKeys = kcat recs -> Inv (d_map d) recs (fcontent fs FVals) ->
  exists news VS,
    Forall (newrec (d_map d) (fcontent fs FVals) VS) news /\ Forall str_ok VS /\
    AllP (d_map d) recs (fcontent fs FVals) fs VS (incr_plan d order fs clock)
         (flat_map kfields news) (flat_map vfields VS) /\
    CS (d_map d) recs (fcontent fs FVals) VS (apply_fops fs (incr_plan d order fs clock))
       (flat_map kfields news) (flat_map vfields VS).
Proof.
  intros HK HI. unfold incr_plan. rewrite snapshot_plan_unfold. cbn [fst].
  set (mem0 := d_map d) in *. set (V0 := fcontent fs FVals) in *.
  assert (HC0 : CS mem0 recs V0 [] fs [] []).
  { exists recs. cbn [scat]. rewrite !app_nil_r_s. split; auto. split; auto. apply Forall2_frame_refl. }
  assert (HJ0 : WJ mem0 recs V0 fs (plan_w0 d false fs clock) [] []).
  { split; [split|split; [|split]]; auto.
    - exists [], [], [], []. rewrite incr_w0_ops. repeat split; auto.
      apply CS_neutrals; auto using neutral_open4.
    - intros q Hq. rewrite incr_w0_ops in Hq. exists [], []. split; [apply lprefix_nil|]. split; [apply lprefix_nil|].
      apply CS_neutrals; auto. eapply lprefix_Forall; eauto using neutral_open4.
    - cbn [plan_w0 w_vaddr]. fold (plan_fs2 d false fs). unfold fsize.
      destruct (plan_open_files d false fs) as [_ E]. rewrite E. unfold vcat. cbn. unfold V0. lia. }
  destruct (WJ_fold mem0 recs V0 fs (keys_to_update mem0 order false) _ [] [] HJ0
              (todo_ok_incr _ _ _ order HI)) as (news & VS & HW1 & _ & Hnews & HVS).
  change (fold_left (snap_one false) (keys_to_update mem0 order false) (plan_w0 d false fs clock))
    with (plan_w1 d order false fs clock) in HW1.
  exists news, VS. split; auto. split; auto.
  unfold plan_close. rewrite incr_fs2_old. fold (close_tail fs).
  apply (WI_close mem0 recs V0 fs VS _ _ _ (close_tail fs) HW1 (neutral_close_tail fs)).
Qed.

(* every prefix: the projection used by the frame theorem *)
Theorem incr_prefix_state d order fs clock recs p :
  fcontent fs FKeys = kcat recs -> Inv (d_map d) recs (fcontent fs FVals) ->
  lprefix p (incr_plan d order fs clock) ->
  exists news VS F1 G1, Forall (fun r => newkey (d_map d) (r_key r)) news /\
                  lprefix F1 (flat_map kfields news) /\
                  CS (d_map d) recs (fcontent fs FVals) VS (apply_fops fs p) F1 G1.
Proof.
  intros HK HI Hp. destruct (incr_plan_states d order fs clock recs HK HI) as (news & VS & Hn & _ & HA & _).
  destruct (HA p Hp) as (F1 & G1 & a & b & c). exists news, VS, F1, G1. split; auto.
  eapply Forall_impl; [|exact Hn]. intros r Hr. apply Hr.
Qed.

(* GOAL 2 *)
Theorem incr_prefix_files d order fs clock p :
  DiskInv (d_map d) fs -> lprefix p (incr_plan d order fs clock) ->
  exists recs recs' A B VS,
    fcontent fs FKeys = kcat recs /\
    fcontent (apply_fops fs p) FVals = fcontent fs FVals +++ B /\
    fcontent (apply_fops fs p) FKeys = kcat recs' +++ A /\
    Forall2 (frame1 (d_map d) (fcontent fs FVals) VS) recs recs'.
Proof.
  intros (recs & HK & HI & _ & _) Hp.
  destruct (incr_prefix_state d order fs clock recs p HK HI Hp) as (news & VS & F1 & G1 & _ & _ & (recs' & H1 & H2 & H3)).
  exists recs, recs', (scat F1), (scat G1), VS. auto.
Qed.

(* ====================================================================== *)
(* 6. the loader, one step, on arbitrary bytes                              *)
(* ====================================================================== *)
Lemma len_take_le n : forall s, (len (str_take n s) <= n)%nat.
Proof. induction n; intros [|a s]; cbn; try lia. specialize (IHn s). lia. Qed.

Lemma read_into_len file pos buf : len (fst (read_into file pos buf)) = len buf.
Proof.
  unfold read_into. cbn [fst]. rewrite len_app, len_drop.
  pose proof (len_take_le (len buf) (str_drop pos file)). lia.
Qed.

Definition st_ok (st : lstate) : Prop :=
  len (l_lenbuf st) = 8%nat /\ len (l_verbuf st) = 4%nat /\ len (l_addrbuf st) = 8%nat.

(* whatever the values file holds: a step whose four reads are known either panics or moves on,
   touching at most the entry of the key bytes it read *)
Lemma load_step_shape K V st lb n kb kn vb vn ab an :
  read_into K (l_pos st) (l_lenbuf st) = (lb, n) -> n <> 0%nat ->
  le_decode lb <= max_alloc ->
  read_into K (l_pos st + n) (zeros (N.to_nat (le_decode lb))) = (kb, kn) ->
  read_into K (l_pos st + n + kn) (l_verbuf st) = (vb, vn) ->
  read_into K (l_pos st + n + kn + vn) (l_addrbuf st) = (ab, an) ->
  load_step K V st = inr LPanic \/
  exists st', load_step K V st = inl st' /\ l_pos st' = (l_pos st + n + kn + vn + an)%nat /\
    len (l_lenbuf st') = len lb /\ l_verbuf st' = vb /\ l_addrbuf st' = ab /\
    l_kaddr st' = l_kaddr st + (8 + le_decode lb + 8 + 4) /\ l_clock st' = l_clock st + 1 /\
    ((i32_decode vb = (-1)%Z /\ l_map st' = l_map st) \/
     (i32_decode vb <> (-1)%Z /\ exists v, l_map st' = assoc_set String.eqb kb v (l_map st))).
Proof.
  intros H1 Hn Hle H2 H3 H4. unfold load_step. rewrite H1. cbv beta iota zeta.
  destruct n as [|n']; [contradiction|]. cbn [Nat.eqb].
  destruct (N.ltb_spec max_alloc (le_decode lb)); [lia|].
  rewrite H2. cbv beta iota zeta.
  destruct (utf8_valid kb); cbn [negb]; [|now left].
  rewrite H3. cbv beta iota zeta. rewrite H4. cbv beta iota zeta.
  pose proof (read_into_len V (N.to_nat (le_decode ab)) lb) as HL.
  destruct (read_into V (N.to_nat (le_decode ab)) lb) as [lb2 x]. cbn [fst] in HL.
  destruct (N.ltb max_alloc (le_decode lb2)); [now left|].
  destruct (read_into V (N.to_nat (le_decode ab) + 8) (zeros (N.to_nat (le_decode lb2)))) as [vbytes y].
  destruct (utf8_valid vbytes); cbn [negb]; [|now left].
  right. eexists. split; [reflexivity|]. cbn [l_pos l_lenbuf l_verbuf l_addrbuf l_kaddr l_clock l_map].
  repeat (split; [auto; fail|]).
  destruct (Z.eqb_spec (i32_decode vb) (-1)); [left; auto|right; eauto].
Qed.

(* a whole key record with a well-formed key: the step lands on the next record *)
Lemma load_step_krec K V st pre r post :
  K = pre +++ krec r +++ post -> l_pos st = len pre -> st_ok st -> slen (r_key r) <= max_alloc ->
  load_step K V st = inr LPanic \/
  exists st', load_step K V st = inl st' /\ l_pos st' = len (pre +++ krec r) /\ st_ok st' /\
    l_kaddr st' = l_kaddr st + rsize r /\ l_clock st' = l_clock st + 1 /\
    ((i32_decode (i32_bytes (r_ver r)) = (-1)%Z /\ l_map st' = l_map st) \/
     (i32_decode (i32_bytes (r_ver r)) <> (-1)%Z /\ exists v, l_map st' = assoc_set String.eqb (r_key r) v (l_map st))).
Proof.
  intros HK Hpos (Hl & Hv & Ha) Hkl.
  destruct r as [k ver va v]. cbn [r_key r_ver r_va r_val] in *.
  pose proof max_alloc_lt as Hma.
  unfold krec in HK. cbn [r_key r_ver r_va r_val] in HK.
  set (A := le_bytes 8 (slen k)) in *. set (C := i32_bytes ver) in *. set (D := le_bytes 8 va) in *.
  assert (LA : len A = 8%nat) by apply len_le_bytes.
  assert (LC : len C = 4%nat) by apply len_i32_bytes.
  assert (LD : len D = 8%nat) by apply len_le_bytes.
  assert (EA : le_decode A = slen k) by (apply le_decode_8; lia).
  assert (H1 : read_into K (l_pos st) (l_lenbuf st) = (A, 8%nat)).
  { rewrite <- LA. apply (read_into_exact _ _ _ pre A (k +++ C +++ D +++ post)); try lia.
    rewrite HK. now rewrite !app_assoc_s. }
  assert (H2 : read_into K (l_pos st + 8) (zeros (N.to_nat (le_decode A))) = (k, len k)).
  { rewrite EA. apply (read_into_exact _ _ _ (pre +++ A) k (C +++ D +++ post)).
    - rewrite HK. now rewrite !app_assoc_s.
    - rewrite len_app. lia.
    - rewrite len_zeros. unfold slen. lia. }
  assert (H3 : read_into K (l_pos st + 8 + len k) (l_verbuf st) = (C, 4%nat)).
  { rewrite <- LC. apply (read_into_exact _ _ _ (pre +++ A +++ k) C (D +++ post)); try lia.
    - rewrite HK. now rewrite !app_assoc_s.
    - rewrite !len_app. lia. }
  assert (H4 : read_into K (l_pos st + 8 + len k + 4) (l_addrbuf st) = (D, 8%nat)).
  { rewrite <- LD. apply (read_into_exact _ _ _ (pre +++ A +++ k +++ C) D post); try lia.
    - rewrite HK. now rewrite !app_assoc_s.
    - rewrite !len_app. lia. }
  destruct (load_step_shape K V st A 8 k (len k) C 4 D 8 H1) as [Hp|(st' & E & P1 & P2 & P3 & P4 & P5 & P6 & P7)];
    auto; [lia|].
  right. exists st'. split; auto. split; [|split; [|split; [|split]]]; auto.
  - rewrite P1, len_app, len_krec. unfold rsize. cbn [r_key]. unfold slen. lia.
  - unfold st_ok. rewrite P2, P3, P4. auto.
  - rewrite P5, EA. unfold rsize. cbn [r_key]. lia.
Qed.

(* the record of a live, intact key whose value is where it says (load_step_rec, with the bound on
   the address instead of on the whole values file) *)
Lemma load_step_rec' K V st pre r post :
  K = pre +++ krec r +++ post -> l_pos st = len pre -> st_ok st ->
  rec_ok V r -> r_va r < two64 ->
  load_step K V st =
  inl (mkL (len (pre +++ krec r)) (le_bytes 8 (slen (r_val r))) (i32_bytes (r_ver r)) (le_bytes 8 (r_va r))
           (l_kaddr st + rsize r)
           (if Z.eqb (r_ver r) (-1) then l_map st
            else assoc_set String.eqb (r_key r) (mkV (r_val r) (r_ver r) (l_clock st) VOk (r_va r) (l_kaddr st)) (l_map st))
           (l_clock st + 1)).
Proof.
  intros HK Hpos (Hl & Hv & Ha) (Hk & Hval & Hat & Hver) Hva.
  destruct r as [k ver va v]. cbn [r_key r_ver r_va r_val] in *.
  destruct Hk as [Hku Hkl]. destruct Hval as [Hvu Hvl].
  pose proof max_alloc_lt as Hma. unfold two64 in Hva.
  destruct Hat as (vp & vq & HVeq & Hvp).
  unfold krec in HK. cbn [r_key r_ver r_va r_val] in HK.
  set (A := le_bytes 8 (slen k)) in *. set (C := i32_bytes ver) in *. set (D := le_bytes 8 va) in *.
  set (E := le_bytes 8 (slen v)) in *.
  assert (LA : len A = 8%nat) by apply len_le_bytes.
  assert (LC : len C = 4%nat) by apply len_i32_bytes.
  assert (LD : len D = 8%nat) by apply len_le_bytes.
  assert (LE : len E = 8%nat) by apply len_le_bytes.
  assert (H1 : read_into K (l_pos st) (l_lenbuf st) = (A, 8%nat)).
  { rewrite <- LA. apply (read_into_exact _ _ _ pre A (k +++ C +++ D +++ post)); try lia.
    rewrite HK. now rewrite !app_assoc_s. }
  assert (H2 : read_into K (l_pos st + 8) (zeros (N.to_nat (slen k))) = (k, len k)).
  { apply (read_into_exact _ _ _ (pre +++ A) k (C +++ D +++ post)).
    - rewrite HK. now rewrite !app_assoc_s.
    - rewrite len_app. lia.
    - rewrite len_zeros. unfold slen. lia. }
  assert (H3 : read_into K (l_pos st + 8 + len k) (l_verbuf st) = (C, 4%nat)).
  { rewrite <- LC. apply (read_into_exact _ _ _ (pre +++ A +++ k) C (D +++ post)); try lia.
    - rewrite HK. now rewrite !app_assoc_s.
    - rewrite !len_app. lia. }
  assert (H4 : read_into K (l_pos st + 8 + len k + 4) (l_addrbuf st) = (D, 8%nat)).
  { rewrite <- LD. apply (read_into_exact _ _ _ (pre +++ A +++ k +++ C) D post); try lia.
    - rewrite HK. now rewrite !app_assoc_s.
    - rewrite !len_app. lia. }
  assert (H5 : read_into V (N.to_nat va) A = (E, 8%nat)).
  { rewrite <- LE. apply (read_into_exact _ _ _ vp E (v +++ le_bytes 4 0 +++ vq)); try lia.
    - rewrite HVeq. unfold vrec. now rewrite !app_assoc_s.
    - unfold slen in Hvp. lia. }
  assert (H6 : read_into V (N.to_nat va + 8) (zeros (N.to_nat (slen v))) = (v, len v)).
  { apply (read_into_exact _ _ _ (vp +++ E) v (le_bytes 4 0 +++ vq)).
    - rewrite HVeq. unfold vrec. now rewrite !app_assoc_s.
    - rewrite len_app. unfold slen in Hvp. lia.
    - rewrite len_zeros. unfold slen. lia. }
  unfold load_step. rewrite H1. cbv iota beta. cbn [Nat.eqb].
  assert (EA : le_decode A = slen k) by (apply le_decode_8; lia).
  rewrite EA.
  destruct (N.ltb_spec max_alloc (slen k)); [lia|].
  rewrite H2. cbv iota beta. rewrite Hku. cbn [negb].
  rewrite H3. cbv iota beta. rewrite H4. cbv iota beta.
  assert (ED : le_decode D = va) by (apply le_decode_8; lia).
  rewrite ED. rewrite H5. cbv iota beta.
  assert (EE : le_decode E = slen v) by (apply le_decode_8; lia).
  rewrite EE.
  destruct (N.ltb_spec max_alloc (slen v)); [lia|].
  rewrite H6. cbv iota beta. rewrite Hvu. cbn [negb].
  unfold C. rewrite i32_decode_bytes by (apply rver_ok_range; exact Hver).
  f_equal. f_equal.
  rewrite len_app, len_krec. unfold rsize. cbn [r_key]. unfold slen. lia.
Qed.

(* ====================================================================== *)
(* 7. the loader's walk                                                     *)
(* ====================================================================== *)
(* a record that cannot change the entry of k0: another key, or a tombstone *)
Definition good (k0 : str) (r : arec) : Prop :=
  slen (r_key r) <= max_alloc /\ (r_key r <> k0 \/ r_ver r = (-1)%Z).

Lemma walk_good k0 V : forall l fuel K pre post st,
  K = pre +++ kcat l +++ post -> l_pos st = len pre -> st_ok st -> Forall (good k0) l ->
  load_loop (length l + fuel) K V st = LPanic \/
  exists st', load_loop (length l + fuel) K V st = load_loop fuel K V st' /\
    l_pos st' = len (pre +++ kcat l) /\ st_ok st' /\ l_kaddr st' = l_kaddr st + ksize l /\
    assoc_get String.eqb k0 (l_map st') = assoc_get String.eqb k0 (l_map st).
Proof.
  induction l as [|r t IH]; intros fuel K pre post st HK Hpos Hst Hg.
  - right. exists st. cbn [length Nat.add kcat ksize]. rewrite app_nil_r_s, N.add_0_r. auto.
  - apply Forall_cons_iff in Hg. destruct Hg as [[Hkl Hr] Ht].
    cbn [length Nat.add load_loop kcat ksize].
    destruct (load_step_krec K V st pre r (kcat t +++ post)) as [Hp|(st' & E & P1 & P2 & P3 & P4 & P5)]; auto.
    { rewrite HK. cbn [kcat]. now rewrite !app_assoc_s. }
    { rewrite Hp. now left. }
    rewrite E.
    destruct (IH fuel K (pre +++ krec r) post st') as [Hp|(st2 & E2 & Q1 & Q2 & Q3 & Q4)]; auto.
    { rewrite HK. cbn [kcat]. now rewrite !app_assoc_s. }
    right. exists st2. split; auto. split; [now rewrite Q1, !app_assoc_s|]. split; auto.
    split; [rewrite Q3, P3; lia|]. rewrite Q4.
    destruct P5 as [[_ ->]|(Hne & v & ->)]; auto.
    destruct Hr as [Hr|Hr].
    + apply get_set_other; auto using String.eqb_spec.
    + exfalso. apply Hne. rewrite Hr. reflexivity.
Qed.

(* the torn tail: nothing, or the first 1, 2 or 3 write() calls of one new key's record *)
Definition tail_ok (k0 T : str) : Prop :=
  T = "" \/
  exists kn, slen kn <= max_alloc /\ kn <> k0 /\ zeros (len kn) <> k0 /\
    (T = le_bytes 8 (slen kn) \/ T = le_bytes 8 (slen kn) +++ kn \/
     exists z, T = le_bytes 8 (slen kn) +++ kn +++ i32_bytes z).

Lemma tail_finish k0 K V st f lb n kb kn vb vn ab an :
  read_into K (l_pos st) (l_lenbuf st) = (lb, n) -> n <> 0%nat ->
  le_decode lb <= max_alloc ->
  read_into K (l_pos st + n) (zeros (N.to_nat (le_decode lb))) = (kb, kn) ->
  read_into K (l_pos st + n + kn) (l_verbuf st) = (vb, vn) ->
  read_into K (l_pos st + n + kn + vn) (l_addrbuf st) = (ab, an) ->
  (l_pos st + n + kn + vn + an)%nat = len K -> kb <> k0 ->
  load_loop (S (S f)) K V st = LPanic \/
  exists m clk, load_loop (S (S f)) K V st = LOk m clk /\
                assoc_get String.eqb k0 m = assoc_get String.eqb k0 (l_map st).
Proof.
  intros H1 Hn Hle H2 H3 H4 Hend Hkb. cbn [load_loop].
  destruct (load_step_shape K V st lb n kb kn vb vn ab an H1 Hn Hle H2 H3 H4)
    as [Hp|(st' & E & P1 & P2 & P3 & P4 & P5 & P6 & P7)].
  - rewrite Hp. now left.
  - rewrite E. unfold load_step. rewrite read_into_eof by lia. cbn [Nat.eqb].
    right. eexists. eexists. split; [reflexivity|].
    destruct P7 as [[_ ->]|(_ & v & ->)]; auto.
    apply get_set_other; auto using String.eqb_spec.
Qed.

Lemma load_tail k0 K V st pre T fuel :
  K = pre +++ T -> l_pos st = len pre -> st_ok st -> tail_ok k0 T -> (2 <= fuel)%nat ->
  load_loop fuel K V st = LPanic \/
  exists m clk, load_loop fuel K V st = LOk m clk /\
                assoc_get String.eqb k0 m = assoc_get String.eqb k0 (l_map st).
Proof.
  intros HK Hpos (Hl & Hv & Ha) HT Hf. destruct fuel as [|[|f]]; try lia.
  destruct HT as [->|(kn & Hkl & Hne & Hz & HT)].
  - rewrite app_nil_r_s in HK. subst K. cbn [load_loop]. rewrite load_step_end by auto.
    right. eauto.
  - pose proof max_alloc_lt as Hma.
    set (A := le_bytes 8 (slen kn)) in *.
    assert (LA : len A = 8%nat) by apply len_le_bytes.
    assert (EA : le_decode A = slen kn) by (apply le_decode_8; lia).
    destruct HT as [->|[->|(z & ->)]].
    + (* only the length field *)
      apply (tail_finish k0 K V st f A 8 (zeros (len kn)) 0 (l_verbuf st) 0 (l_addrbuf st) 0); try lia.
      * rewrite <- LA. apply (read_into_exact _ _ _ pre A ""); try lia. now rewrite app_nil_r_s.
      * rewrite EA. replace (N.to_nat (slen kn)) with (len kn) by (unfold slen; lia).
        apply read_into_eof. rewrite HK, len_app. lia.
      * apply read_into_eof. rewrite HK, len_app. lia.
      * apply read_into_eof. rewrite HK, len_app. lia.
      * rewrite HK, len_app. lia.
      * exact Hz.
    + (* length and key *)
      apply (tail_finish k0 K V st f A 8 kn (len kn) (l_verbuf st) 0 (l_addrbuf st) 0); try lia.
      * rewrite <- LA. apply (read_into_exact _ _ _ pre A kn); try lia. exact HK.
      * rewrite EA. apply (read_into_exact _ _ _ (pre +++ A) kn "").
        -- rewrite HK. now rewrite !app_assoc_s, app_nil_r_s.
        -- rewrite len_app. lia.
        -- rewrite len_zeros. unfold slen. lia.
      * apply read_into_eof. rewrite HK, !len_app. lia.
      * apply read_into_eof. rewrite HK, !len_app. lia.
      * rewrite HK, !len_app. lia.
      * exact Hne.
    + (* length, key and version *)
      pose proof (len_i32_bytes z) as LC.
      apply (tail_finish k0 K V st f A 8 kn (len kn) (i32_bytes z) 4 (l_addrbuf st) 0); try lia.
      * rewrite <- LA. apply (read_into_exact _ _ _ pre A (kn +++ i32_bytes z)); try lia. exact HK.
      * rewrite EA. apply (read_into_exact _ _ _ (pre +++ A) kn (i32_bytes z)).
        -- rewrite HK. now rewrite !app_assoc_s.
        -- rewrite len_app. lia.
        -- rewrite len_zeros. unfold slen. lia.
      * rewrite <- LC at 2. apply (read_into_exact _ _ _ (pre +++ A +++ kn) (i32_bytes z) ""); try lia.
        -- rewrite HK. now rewrite !app_assoc_s, app_nil_r_s.
        -- rewrite !len_app. lia.
      * apply read_into_eof. rewrite HK, !len_app. lia.
      * rewrite HK, !len_app. lia.
      * exact Hne.
Qed.

Lemma walk_key k0 V K l1 r0 l2 T fuel clk :
  K = kcat l1 +++ krec r0 +++ kcat l2 +++ T ->
  Forall (good k0) l1 -> Forall (good k0) l2 ->
  rec_ok V r0 -> r_va r0 < two64 -> r_key r0 = k0 -> r_ver r0 <> (-1)%Z ->
  tail_ok k0 T -> (2 <= fuel)%nat ->
  let res := load_loop (length l1 + S (length l2 + fuel)) K V (mkL 0 (zeros 8) (zeros 4) (zeros 8) 0 [] clk) in
  res = LPanic \/
  exists m clk', res = LOk m clk' /\
    exists x, assoc_get String.eqb k0 m = Some x /\ v_val x = r_val r0 /\ v_ver x = r_ver r0 /\
              v_st x = VOk /\ v_vaddr x = r_va r0 /\ v_kaddr x = ksize l1.
Proof.
  intros HK G1 G2 Hok Hva Hk0 Hver HT Hf. cbv zeta.
  set (st0 := mkL 0 (zeros 8) (zeros 4) (zeros 8) 0 [] clk).
  destruct (walk_good k0 V l1 (S (length l2 + fuel)) K "" (krec r0 +++ kcat l2 +++ T) st0)
    as [Hp|(st1 & E1 & P1 & P2 & P3 & P4)]; auto.
  { repeat split. }
  rewrite E1. cbn [String.append] in P1. cbn [load_loop].
  rewrite (load_step_rec' K V st1 (kcat l1) r0 (kcat l2 +++ T)); auto.
  set (st2 := mkL _ _ _ _ _ _ _).
  destruct (walk_good k0 V l2 fuel K (kcat l1 +++ krec r0) T st2)
    as [Hp|(st3 & E3 & Q1 & Q2 & Q3 & Q4)]; auto.
  { rewrite HK. now rewrite !app_assoc_s. }
  { unfold st2, st_ok. cbn [l_lenbuf l_verbuf l_addrbuf]. rewrite !len_le_bytes, len_i32_bytes. auto. }
  rewrite E3.
  destruct (load_tail k0 K V st3 ((kcat l1 +++ krec r0) +++ kcat l2) T fuel)
    as [Hp|(m & clk' & E4 & R)]; auto.
  { rewrite HK. now rewrite !app_assoc_s. }
  right. exists m, clk'. split; auto. rewrite R, Q4. unfold st2. cbn [l_map].
  destruct (Z.eqb_spec (r_ver r0) (-1)); [contradiction|].
  rewrite Hk0, get_set_same by apply String.eqb_spec.
  eexists. split; [reflexivity|]. cbn [v_val v_ver v_st v_vaddr v_kaddr].
  repeat split. rewrite P3. reflexivity.
Qed.

(* ====================================================================== *)
(* 8. putting both sides together                                           *)
(* ====================================================================== *)
Definition part_of (r : arec) (part : list str) : Prop :=
  part = [le_bytes 8 (slen (r_key r))] \/ part = [le_bytes 8 (slen (r_key r)); r_key r] \/
  part = [le_bytes 8 (slen (r_key r)); r_key r; i32_bytes (r_ver r)].

Lemma fields_prefix : forall news F1, lprefix F1 (flat_map kfields news) ->
  exists news1 part, F1 = flat_map kfields news1 ++ part /\ lprefix news1 news /\
    (part = [] \/ exists r, In r news /\ part_of r part).
Proof.
  unfold part_of. induction news as [|r t IH]; intros F1 H.
  - cbn [flat_map] in H. apply lprefix_nil_inv in H. subst. exists [], []. cbn. auto using lprefix_nil.
  - cbn [flat_map] in H. unfold kfields at 1 in H. cbn [app] in H.
    apply lprefix_cons_inv in H. destruct H as [->|(p1 & -> & H)].
    { exists [], []. cbn. auto using lprefix_nil. }
    apply lprefix_cons_inv in H. destruct H as [->|(p2 & -> & H)].
    { exists [], [le_bytes 8 (slen (r_key r))]. split; auto. split; [apply lprefix_nil|].
      right. exists r. split; [now left|auto]. }
    apply lprefix_cons_inv in H. destruct H as [->|(p3 & -> & H)].
    { exists [], [le_bytes 8 (slen (r_key r)); r_key r]. split; auto. split; [apply lprefix_nil|].
      right. exists r. split; [now left|auto]. }
    apply lprefix_cons_inv in H. destruct H as [->|(p4 & -> & H)].
    { exists [], [le_bytes 8 (slen (r_key r)); r_key r; i32_bytes (r_ver r)]. split; auto. split; [apply lprefix_nil|].
      right. exists r. split; [now left|auto]. }
    destruct (IH _ H) as (n1 & part & -> & Hn1 & Hpart).
    exists (r :: n1), part. split; [reflexivity|]. split.
    + destruct Hn1 as [rest ->]. now exists rest.
    + destruct Hpart as [->|(r' & Hin & Hc)]; auto. right. exists r'. split; [now right|auto].
Qed.

Lemma rec_at_split : forall l s off q, rec_at l s off q -> exists l1 l2, l = l1 ++ q :: l2 /\ off = s + ksize l1.
Proof.
  induction l as [|x t IH]; intros s off q H; cbn [rec_at] in H; [tauto|].
  destruct H as [[-> ->]|H].
  - exists [], t. cbn. split; auto. lia.
  - destruct (IH _ _ _ H) as (l1 & l2 & -> & ->). exists (x :: l1), l2. cbn [app ksize]. split; auto. lia.
Qed.
Lemma rec_at_app_l : forall l1 l2 s o r, rec_at l1 s o r -> rec_at (l1 ++ l2) s o r.
Proof.
  induction l1 as [|x t IH]; intros l2 s o r H; cbn [rec_at app] in *; [tauto|].
  destruct H as [H|H]; [now left|right; auto].
Qed.
Lemma rec_at_app_r : forall l1 l2 s o r, rec_at l2 (s + ksize l1) o r -> rec_at (l1 ++ l2) s o r.
Proof.
  induction l1 as [|x t IH]; intros l2 s o r H; cbn [rec_at app ksize] in *.
  - now rewrite N.add_0_r in H.
  - right. apply IH. now rewrite <- N.add_assoc.
Qed.

Lemma frame_good_list mem0 V0 VS k0 : ~ touched mem0 k0 ->
  forall l l', Forall2 (frame1 mem0 V0 VS) l l' -> forall s,
  (forall o r, rec_at l s o r -> slen (r_key r) <= max_alloc /\ (r_key r = k0 -> r_ver r = (-1)%Z)) ->
  Forall (good k0) l'.
Proof.
  intros Hnt. induction 1 as [|x x' t t' (Hk & Hor & _) Ht IH]; intros s H; constructor.
  - destruct (H s x) as [Hl Hd]; [cbn [rec_at]; now left|].
    destruct (String.eqb_spec (r_key x) k0) as [E|E].
    + destruct Hor as [->|Hto]; [|rewrite E in Hto; contradiction]. split; auto.
    + split; [now rewrite Hk|left; now rewrite Hk].
  - apply (IH (s + rsize x)). intros o r Hr. apply (H o r). cbn [rec_at]. now right.
Qed.

Lemma Forall2_cons_inv_l {A B} (R : A -> B -> Prop) x l l' :
  Forall2 R (x :: l) l' -> exists x' t', l' = x' :: t' /\ R x x' /\ Forall2 R l t'.
Proof. intros H. inversion H; subst. eauto. Qed.

Lemma length_le_len_kcat l : (length l <= len (kcat l))%nat.
Proof. pose proof (length_le_ksize l) as H. rewrite <- slen_kcat in H. unfold slen in H. lia. Qed.

Definition same_entry (mv mv' : value) : Prop :=
  v_val mv' = v_val mv /\ v_ver mv' = v_ver mv /\ v_st mv' = VOk /\
  v_vaddr mv' = v_vaddr mv /\ v_kaddr mv' = v_kaddr mv.

Definition kbounded (r : arec) : Prop := slen (r_key r) <= max_alloc.

(* the core: [Hnul] is the only thing needed about a torn tail *)
Lemma C11_core d order fs clock p clk m clk' k mv :
  DiskInv (d_map d) fs ->
  lprefix p (incr_plan d order fs clock) ->
  load_db (apply_fops fs p) clk = Some (LOk m clk') ->
  assoc_get String.eqb k (d_map d) = Some mv -> v_st mv = VOk ->
  (forall L part r, Forall kbounded L -> fcontent (apply_fops fs p) FKeys = kcat L +++ scat part ->
                    newkey (d_map d) (r_key r) -> part_of r part -> zeros (len (r_key r)) <> k) ->
  exists mv', assoc_get String.eqb k m = Some mv' /\ same_entry mv mv'.
Proof.
  intros (recs & HK & HI & HF & HV64) Hp HL Hg Hst Hnul.
  set (mem0 := d_map d) in *. set (V0 := fcontent fs FVals) in *.
  destruct (incr_prefix_state d order fs clock recs p HK HI Hp)
    as (news & VS & F1 & Gv & Hnews & HF1 & (recs' & HK' & HFr & HV')).
  fold mem0 V0 in Hnews, HK', HFr, HV'.
  destruct (fields_prefix _ _ HF1) as (news1 & part & -> & Hn1 & Hpart).
  (* the loader runs on the two files *)
  unfold load_db in HL.
  destruct (fget (apply_fops fs p) FKeys) as [K'|] eqn:EK; [|discriminate].
  destruct (fget (apply_fops fs p) FVals) as [V'|] eqn:EV; [|discriminate].
  unfold fcontent in HK', HV'. rewrite EK in HK'. rewrite EV in HV'.
  (* the record of k *)
  assert (Hnt : ~ touched mem0 k).
  { intros (v & Hv & Hs). rewrite Hg in Hv. inversion Hv; subst v. rewrite Hst in Hs. destruct Hs; discriminate. }
  pose proof (inv_keys _ _ _ HI k) as Hk. unfold key_ok in Hk. rewrite Hg, Hst in Hk. cbn [on_disk] in Hk.
  destruct Hk as [(q & Hq & Hqk & Hag) Hd]. destruct (Hag eq_refl) as (Ever & Eva & Eval).
  destruct (inv_mem _ _ _ HI _ _ Hg) as (_ & _ & Hvok).
  pose proof (proj1 (Forall_forall _ _) (inv_recs _ _ _ HI)) as Hrok.
  destruct (rec_at_split _ _ _ _ Hq) as (l1 & l2 & El & Eoff). cbn in Eoff.
  rewrite El in HFr. apply Forall2_app_inv_l in HFr. destruct HFr as (l1' & rest & H1 & H2 & ->).
  apply Forall2_cons_inv_l in H2. destruct H2 as (q' & l2' & -> & Hqq & H2').
  assert (q' = q).
  { destruct Hqq as (_ & [E|E] & _); auto. rewrite Hqk in E. contradiction. }
  subst q'.
  assert (Hin : forall o r, rec_at (l1 ++ q :: l2) 0 o r -> slen (r_key r) <= max_alloc).
  { intros o r Hr. apply rec_at_in in Hr. rewrite <- El in Hr. apply Hrok in Hr. apply Hr. }
  assert (G1 : Forall (good k) l1').
  { apply (frame_good_list mem0 V0 VS k Hnt l1 l1' H1 0). intros o r Hr.
    pose proof (rec_at_end _ _ _ _ Hr) as Hend. pose proof (rsize_pos r).
    apply (rec_at_app_l l1 (q :: l2)) in Hr. split; [eapply Hin; eauto|].
    intros Hrk. rewrite <- El in Hr. apply (Hd o r Hr Hrk). lia. }
  assert (G2 : Forall (good k) l2').
  { apply (frame_good_list mem0 V0 VS k Hnt l2 l2' H2' (0 + ksize l1 + rsize q)). intros o r Hr.
    pose proof (rec_at_ge _ _ _ _ Hr) as Hge. pose proof (rsize_pos q).
    assert (Hr' : rec_at (l1 ++ q :: l2) 0 o r).
    { apply rec_at_app_r. cbn [rec_at]. now right. }
    split; [eapply Hin; eauto|].
    intros Hrk. rewrite <- El in Hr'. apply (Hd o r Hr' Hrk). lia. }
  assert (Hnewprop : forall r, In r news -> slen (r_key r) <= max_alloc /\ r_key r <> k).
  { intros r Hr. pose proof (proj1 (Forall_forall _ _) Hnews r Hr) as (vn & Hvn & Hsn).
    destruct (inv_mem _ _ _ HI _ _ Hvn) as ((_ & Hl) & _). split; auto.
    intros E. rewrite E, Hg in Hvn. inversion Hvn; subst vn. rewrite Hst in Hsn. discriminate. }
  assert (G3 : Forall (good k) news1).
  { apply Forall_forall. intros r Hr. destruct Hn1 as [rest ->].
    destruct (Hnewprop r) as (a & b); [apply in_or_app; now left|]. split; auto. }
  pose proof (Hrok q) as Hqok. rewrite El in Hqok. specialize (Hqok (in_elt q l1 l2)).
  assert (HT : tail_ok k (scat part)).
  { destruct Hpart as [->|(r & Hr & Hc)]; [now left|right].
    destruct (Hnewprop r Hr) as (a & b). exists (r_key r). split; auto. split; auto. split.
    - apply (Hnul ((l1' ++ q :: l2') ++ news1) part r); auto.
      + assert (GB : forall l, Forall (good k) l -> Forall kbounded l).
        { intros l Hl. eapply Forall_impl; [|exact Hl]. intros x Hx. apply Hx. }
        repeat (apply Forall_app; split); auto. constructor; auto. apply Hqok.
      + unfold fcontent. rewrite EK, HK', scat_app, scat_flat_kfields, !kcat_app. now rewrite !app_assoc_s.
      + apply (proj1 (Forall_forall _ _) Hnews r Hr).
    - destruct Hc as [-> | [-> | ->]]; cbn [scat]; rewrite ?app_nil_r_s; eauto. }
  (* the shape of the keys file *)
  assert (EK' : K' = kcat l1' +++ krec q +++ kcat (l2' ++ news1) +++ scat part).
  { rewrite HK', scat_app, scat_flat_kfields, !kcat_app. cbn [kcat]. now rewrite !app_assoc_s. }
  assert (Hva : r_va q < two64).
  { destruct Hqok as (_ & _ & Hat & _). apply has_at_bound in Hat. fold V0 in HV64. lia. }
  assert (Hqok' : rec_ok V' q) by (rewrite HV'; now apply rec_ok_app).
  assert (Hlen : (length l1' + S (length (l2' ++ news1) + 2) <= S (len K'))%nat).
  { rewrite EK', !len_app, len_krec. pose proof (rsize_pos q).
    pose proof (length_le_len_kcat l1'). pose proof (length_le_len_kcat (l2' ++ news1)). lia. }
  assert (HL' : load_loop (S (len K')) K' V' (mkL 0 (zeros 8) (zeros 4) (zeros 8) 0 [] clk) = LOk m clk') by congruence.
  clear HL.
  replace (S (len K')) with (length l1' + S (length (l2' ++ news1) + (S (len K') - length l1' - S (length (l2' ++ news1)))))%nat
    in HL' by lia.
  assert (Hverq : r_ver q <> (-1)%Z) by (rewrite Ever; now apply ver_ok_not_dead).
  destruct (walk_key k V' K' l1' q (l2' ++ news1) (scat part)
              (S (len K') - length l1' - S (length (l2' ++ news1))) clk EK' G1) as [Hpanic|(m0 & c0 & E0 & x & X1 & X2 & X3 & X4 & X5 & X6)];
    auto.
  { apply Forall_app. auto. }
  { lia. }
  { cbv zeta in Hpanic. rewrite Hpanic in HL'. discriminate. }
  cbv zeta in E0. rewrite E0 in HL'. inversion HL'; subst m0 c0.
  exists x. split; auto. unfold same_entry. rewrite X2, X3, X5, X6, X4.
  repeat split; auto.
  rewrite Eoff. symmetry. clear - H1.
  induction H1 as [|a a' t t' [Ha _] _ IH]; cbn [ksize]; auto. rewrite IH, (rsize_key a a' Ha). reflexivity.
Qed.

(* GOAL 3, sharpest form: the only way a key the snapshot does not touch can be damaged is a key
   made of NUL bytes only, exactly as long as a key that is being created *)
Theorem C11_incr_untouched_keys_survive_gen d order fs clock p clk m clk' k mv :
  DiskInv (d_map d) fs ->
  lprefix p (incr_plan d order fs clock) ->
  load_db (apply_fops fs p) clk = Some (LOk m clk') ->
  assoc_get String.eqb k (d_map d) = Some mv -> v_st mv = VOk ->
  (forall kn vn, assoc_get String.eqb kn (d_map d) = Some vn -> v_st vn = VNew -> zeros (len kn) <> k) ->
  exists mv', assoc_get String.eqb k m = Some mv' /\ same_entry mv mv'.
Proof.
  intros HD Hp HL Hg Hst Hnul. eapply C11_core; eauto.
  intros L part r _ _ (vn & Hvn & Hsn) _. eauto.
Qed.

(* a key that is not a non-empty run of NUL bytes *)
Definition not_nul_run (k : str) : Prop := k = "" \/ k <> zeros (len k).

Lemma not_nul_run_head a r : a <> zero -> not_nul_run (String a r).
Proof. intros H. right. cbn [String.length zeros]. congruence. Qed.

(* GOAL 3 (headline) *)
Theorem C11_incr_untouched_keys_survive d order fs clock p clk m clk' k mv :
  DiskInv (d_map d) fs ->
  lprefix p (incr_plan d order fs clock) ->
  load_db (apply_fops fs p) clk = Some (LOk m clk') ->
  assoc_get String.eqb k (d_map d) = Some mv -> v_st mv = VOk ->
  not_nul_run k ->
  exists mv', assoc_get String.eqb k m = Some mv' /\ same_entry mv mv'.
Proof.
  intros HD Hp HL Hg Hst Hk. eapply C11_incr_untouched_keys_survive_gen; eauto.
  intros kn vn Hkn Hsn E. destruct Hk as [->|Hk].
  - destruct kn; [|discriminate]. rewrite Hg in Hkn. inversion Hkn; subst vn. rewrite Hst in Hsn. discriminate.
  - apply Hk. rewrite <- E at 2. rewrite len_zeros. auto.
Qed.

(* the same for the crash semantics of Model/Disk.v: the process is killed on entering its i-th
   system call of kind s *)
Corollary C11_incr_untouched_keys_survive_kill d order fs clock s i clk m clk' k mv :
  DiskInv (d_map d) fs ->
  load_db (apply_fops fs (take_before s i (incr_plan d order fs clock))) clk = Some (LOk m clk') ->
  assoc_get String.eqb k (d_map d) = Some mv -> v_st mv = VOk -> not_nul_run k ->
  exists mv', assoc_get String.eqb k m = Some mv' /\ same_entry mv mv'.
Proof. intros HD HL. eapply C11_incr_untouched_keys_survive; eauto using take_before_lprefix. Qed.

(* ---- crash states whose keys file is a whole number of records ------------------------------- *)
Lemma app_inj_len a : forall a' b b', len a = len a' -> a +++ b = a' +++ b' -> a = a' /\ b = b'.
Proof.
  induction a as [|c a IH]; intros [|c' a'] b b' Hl H; cbn in *; try discriminate; auto.
  inversion H; subst. destruct (IH a' b b') as [-> ->]; auto.
Qed.

Lemma le8_inj a b : a < two64 -> b < two64 -> le_bytes 8 a = le_bytes 8 b -> a = b.
Proof. intros Ha Hb H. rewrite <- (le_decode_8 a Ha), <- (le_decode_8 b Hb). now rewrite H. Qed.

Lemma krec_head_inj x y s t : kbounded x -> kbounded y -> krec x +++ s = krec y +++ t ->
  slen (r_key x) = slen (r_key y).
Proof.
  unfold kbounded. intros Hx Hy H. pose proof max_alloc_lt. unfold krec in H. rewrite !app_assoc_s in H.
  apply app_inj_len in H; [|now rewrite !len_le_bytes]. destruct H as [H _].
  apply le8_inj in H; auto; unfold two64; lia.
Qed.

Lemma part_split r part : part_of r part ->
  exists rest, scat part = le_bytes 8 (slen (r_key r)) +++ rest /\ (len rest <= len (r_key r) + 4)%nat.
Proof.
  intros [-> | [-> | ->]]; cbn [scat]; eexists; (split; [reflexivity|]);
    rewrite ?len_app, ?len_i32_bytes; cbn [len]; lia.
Qed.

Lemma parse_unique : forall L nl r part, Forall kbounded L -> Forall kbounded nl -> kbounded r ->
  part_of r part -> kcat L +++ scat part = kcat nl -> False.
Proof.
  pose proof max_alloc_lt as Hma.
  induction L as [|x L IH]; intros nl r part HL Hnl Hr Hpart H.
  - cbn [kcat String.append] in H. destruct (part_split r part Hpart) as (rest & E & Hlen). rewrite E in H.
    destruct nl as [|y nl].
    + cbn [kcat] in H. apply (f_equal len) in H. rewrite len_app, len_le_bytes in H. cbn in H. lia.
    + apply Forall_cons_iff in Hnl. destruct Hnl as [Hy _]. cbn [kcat] in H. unfold krec in H.
      rewrite !app_assoc_s in H. apply app_inj_len in H; [|now rewrite !len_le_bytes].
      destruct H as [H1 H2]. unfold kbounded in *. apply le8_inj in H1; [|unfold two64; lia..].
      apply (f_equal len) in H2. rewrite !len_app, len_i32_bytes, len_le_bytes in H2.
      unfold slen in H1. lia.
  - apply Forall_cons_iff in HL. destruct HL as [Hx HL]. cbn [kcat] in H. rewrite app_assoc_s in H.
    destruct nl as [|y nl].
    + cbn [kcat] in H. apply (f_equal len) in H. rewrite len_app, len_krec in H. pose proof (rsize_pos x). cbn in H. lia.
    + apply Forall_cons_iff in Hnl. destruct Hnl as [Hy Hnl]. cbn [kcat] in H.
      pose proof (krec_head_inj _ _ _ _ Hx Hy H) as E.
      apply app_inj_len in H; [|rewrite !len_krec; unfold rsize; lia].
      destruct H as [_ H]. eapply IH; eauto.
Qed.

(* GOAL 3, variant: if the crash leaves a keys file that is a whole number of (length-bounded)
   records -- the cut fell on a record boundary of the appended stream -- NO condition on the key
   is needed *)
Theorem C11_incr_untouched_keys_survive_whole_appends d order fs clock p clk m clk' k mv :
  DiskInv (d_map d) fs ->
  lprefix p (incr_plan d order fs clock) ->
  load_db (apply_fops fs p) clk = Some (LOk m clk') ->
  assoc_get String.eqb k (d_map d) = Some mv -> v_st mv = VOk ->
  (exists nl, fcontent (apply_fops fs p) FKeys = kcat nl /\ Forall kbounded nl) ->
  exists mv', assoc_get String.eqb k m = Some mv' /\ same_entry mv mv'.
Proof.
  intros HD Hp HL Hg Hst (nl & Hnl & Hb). pose proof HD as (recs & _ & HI & _ & _).
  eapply C11_core; eauto.
  intros L part r HLb HK (vn & Hvn & _) Hpart. exfalso.
  rewrite Hnl in HK. symmetry in HK.
  eapply (parse_unique L nl r part); eauto.
  destruct (inv_mem _ _ _ HI _ _ Hvn) as ((_ & Hl) & _). exact Hl.
Qed.

(* ====================================================================== *)
(* 9. examples: non-vacuity, and the NUL-key corner                          *)
(* ====================================================================== *)
Fixpoint srep (n : nat) (c : Ascii.ascii) : str := match n with O => "" | S k => String c (srep k c) end.

Lemma history_DiskInv evs m fs clk :
  devs_ok dinit evs -> druns dinit evs = Some (m, fs, clk) -> DiskInv m fs.
Proof.
  intros Hok E. destruct (C06_history_inv evs dinit DiskInv_init Hok) as (s' & E' & HD).
  rewrite E in E'. inversion E'; subst. exact HD.
Qed.

(* a and b persisted; then a updated and a new 300-byte key created; incremental snapshot *)
Definition demo_new : str := srep 300 "c"%char.
Definition demo_evs : list dev :=
  [DvSet "a" "1" (-1) 1; DvSet "b" "2" (-1) 2; DvSnap false ["a"; "b"];
   DvSet "a" "11" (-1) 3; DvSet demo_new "3" (-1) 4].
Definition demo_state : dstate := match druns dinit demo_evs with Some s => s | None => dinit end.
Definition demo_mem := ds_mem demo_state.
Definition demo_fs := ds_files demo_state.
Definition demo_plan : list fop := incr_plan (db_of demo_mem) [demo_new; "a"] demo_fs (ds_clock demo_state).

Example demo_states :
  option_map v_st (assoc_get String.eqb "a" demo_mem) = Some VUpdated /\
  option_map v_st (assoc_get String.eqb "b" demo_mem) = Some VOk /\
  option_map v_st (assoc_get String.eqb demo_new demo_mem) = Some VNew /\
  length demo_plan = 10%nat.
Proof. vm_compute. auto. Qed.

Lemma demo_devs_ok : devs_ok dinit demo_evs.
Proof.
  vm_compute. repeat split; try (intros; discriminate); try reflexivity;
    repeat constructor; cbn; intuition discriminate.
Qed.

Lemma demo_DiskInv : DiskInv demo_mem demo_fs.
Proof.
  apply (history_DiskInv demo_evs demo_mem demo_fs (ds_clock demo_state) demo_devs_ok).
  vm_compute. reflexivity.
Qed.

(* GOAL 5: the headline instantiated: at EVERY cut of the plan, b survives *)
Example C11_frame_demo : forall i m c,
  load_db (apply_fops demo_fs (firstn i demo_plan)) 7 = Some (LOk m c) ->
  exists mv', assoc_get String.eqb "b" m = Some mv' /\ v_val mv' = "2" /\ v_ver mv' = 0%Z.
Proof.
  intros i m c HL.
  destruct (C11_incr_untouched_keys_survive (db_of demo_mem) [demo_new; "a"] demo_fs (ds_clock demo_state)
              (firstn i demo_plan) 7 m c "b" (mkV "2" 0 1 VOk 13 21)) as (mv' & Hg & Hs & Hv & _); auto.
  - apply demo_DiskInv.
  - apply firstn_lprefix.
  - right. discriminate.
  - exists mv'. auto.
Qed.

(* ... and the hypothesis "the loader does not panic" holds at every cut; the cuts 5..9 fall inside
   the plan: after the torn length field of the new key record, after its key bytes, between the
   two pwrites of a's record, ...; a itself loads with old, mixed or fabricated contents *)
Definition demo_view (i : nat) : option (option (str * Z) * option (str * Z)) :=
  match load_db (apply_fops demo_fs (firstn i demo_plan)) 7 with
  | Some (LOk m _) =>
      Some (option_map (fun v => (v_val v, v_ver v)) (assoc_get String.eqb "a" m),
            option_map (fun v => (v_val v, v_ver v)) (assoc_get String.eqb "b" m))
  | _ => None
  end.
Example demo_all_cuts_load :
  forallb (fun i => match demo_view i with Some (_, Some ("2", 0%Z)) => true | _ => false end)
          (seq 0 11) = true.
Proof. vm_compute. reflexivity. Qed.

(* WHY [not_nul_run] IS NEEDED (a corner of the real loader, exotic but real): the BufWriter can
   cut the appended key stream right after the 8-byte length field of a new key's record.  The
   loader then allocates vec![0; len], reads 0 bytes into it, and reuses the version and address
   buffers of the PREVIOUS record: it inserts the key "\0\0...\0" (len NUL bytes) with the previous
   record's value.  An untouched, persisted key that is exactly that run of NUL bytes is overwritten. *)
Definition nul_key : str := zeros 300.
Definition nul_evs : list dev :=
  [DvSet nul_key "1" (-1) 1; DvSet "b" "2" (-1) 2; DvSnap false [nul_key; "b"];
   DvSet (srep 300 "x"%char) "3" (-1) 3].
Definition nul_state : dstate := match druns dinit nul_evs with Some s => s | None => dinit end.
Definition nul_plan : list fop :=
  incr_plan (db_of (ds_mem nul_state)) [srep 300 "x"%char] (ds_files nul_state) (ds_clock nul_state).

Lemma nul_devs_ok : devs_ok dinit nul_evs.
Proof.
  vm_compute. repeat split; try (intros; discriminate); try reflexivity;
    repeat constructor; cbn; intuition discriminate.
Qed.

Example C11_nul_key_overwritten :
  DiskInv (ds_mem nul_state) (ds_files nul_state) /\
  option_map (fun v => (v_val v, v_st v)) (assoc_get String.eqb nul_key (ds_mem nul_state)) = Some ("1", VOk) /\
  exists m c, load_db (apply_fops (ds_files nul_state) (firstn 5 nul_plan)) 7 = Some (LOk m c) /\
              option_map v_val (assoc_get String.eqb nul_key m) = Some "2".
Proof.
  split; [|split].
  - apply (history_DiskInv nul_evs _ _ (ds_clock nul_state) nul_devs_ok). vm_compute. reflexivity.
  - vm_compute. reflexivity.
  - eexists. eexists. split; vm_compute; reflexivity.
Qed.

(* ====================================================================== *)
(* 10. GOAL 1: the shape of the incremental plan                             *)
(* ====================================================================== *)
(* where a record sits in the file *)
Lemma rec_at_has : forall l s off q, rec_at l s off q ->
  exists pre post, kcat l = pre +++ krec q +++ post /\ s + slen pre = off.
Proof.
  induction l as [|x t IH]; intros s off q H; cbn [rec_at] in H; [tauto|].
  destruct H as [[-> ->]|H].
  - exists "", (kcat t). cbn. split; auto. lia.
  - destruct (IH _ _ _ H) as (pre & post & E & Hs). exists (krec x +++ pre), post. cbn [kcat].
    rewrite E, slen_app, slen_krec, !app_assoc_s. split; auto. lia.
Qed.

Section Shape.
Variable mem0 : list (str * value).
Variable recs : list arec.

(* one pwrite into the 12-byte (version, address) field -- at offset kaddr + 8 + len(key) of the
   record -- of a key that is VUpdated or VDeleted in memory: 4 bytes at the start of the field
   or 8 bytes at its offset 4 *)
Definition field_write (o : fop) : Prop :=
  exists k v q, assoc_get String.eqb k mem0 = Some v /\ (v_st v = VUpdated \/ v_st v = VDeleted) /\
    rec_at recs 0 (v_kaddr v) q /\ r_key q = k /\
    ((exists z, o = OpWriteAt FKeys (v_kaddr v + 8 + slen k) (i32_bytes z)) \/
     (exists a, o = OpWriteAt FKeys (v_kaddr v + 8 + slen k + 4) (le_bytes 8 a))).
Definition incr_body_op (o : fop) : Prop :=
  (exists c, o = OpAppend FKeys c) \/ (exists c, o = OpAppend FVals c) \/ field_write o.

Definition Ext (w w' : wstate) : Prop := exists new, w_ops w' = w_ops w ++ new /\ Forall incr_body_op new.

Lemma Ext_refl w w' : w_ops w' = w_ops w -> Ext w w'.
Proof. intros H. exists []. rewrite app_nil_r. auto. Qed.
Lemma Ext_trans a b c : Ext a b -> Ext b c -> Ext a c.
Proof.
  intros (n1 & E1 & F1) (n2 & E2 & F2). exists (n1 ++ n2). rewrite E2, E1, app_assoc. split; auto.
  apply Forall_app. auto.
Qed.
Lemma Forall_emit f out : (f = FKeys \/ f = FVals) -> Forall incr_body_op (emit f out).
Proof.
  intros Hf. apply Forall_forall. intros o Hin. apply in_map_iff in Hin. destruct Hin as (c & <- & _).
  destruct Hf as [-> | ->]; [left|right; left]; eauto.
Qed.
Lemma Ext_write_vals w d : Ext w (w_write_vals w d).
Proof. unfold w_write_vals. destruct (bw_write (w_vbuf w) d) as [b out]. exists (emit FVals out). split; auto using Forall_emit. Qed.
Lemma Ext_write_keys w d : Ext w (w_write_keys w d).
Proof. unfold w_write_keys. destruct (bw_write (w_kbuf w) d) as [b out]. exists (emit FKeys out). split; auto using Forall_emit. Qed.
Lemma Ext_update_key w k v q ver va :
  assoc_get String.eqb k mem0 = Some v -> (v_st v = VUpdated \/ v_st v = VDeleted) ->
  rec_at recs 0 (v_kaddr v) q -> r_key q = k -> Ext w (w_update_key w k ver va (v_kaddr v)).
Proof.
  intros Hg Hs Hq Hk. eexists. split; [reflexivity|].
  constructor; [|constructor; [|constructor]]; right; right; exists k, v, q; repeat (split; auto); eauto.
Qed.
Lemma Ext_value w v w1 rs : w_value w v = (w1, rs) -> Ext w w1.
Proof.
  unfold w_value. intros E. apply pair_equal_spec in E. destruct E as [<- _].
  eauto using Ext_trans, Ext_write_vals.
Qed.
Lemma Ext_key w k v va w1 ks : w_key w k v va = (w1, ks) -> Ext w w1.
Proof.
  unfold w_key. intros E. apply pair_equal_spec in E. destruct E as [<- _].
  eauto 6 using Ext_trans, Ext_write_keys.
Qed.
Lemma Ext_snap_one w kv : todo_ok mem0 recs kv -> Ext w (snap_one false w kv).
Proof.
  destruct kv as [k v]. intros (Hg & Hd & _). cbn [fst snd] in *. unfold snap_one.
  destruct (v_st v) eqn:Est.
  - now apply Ext_refl.
  - destruct Hd as (q & Hq & Hqk); auto. cbv zeta.
    eapply Ext_trans; [eapply (Ext_update_key w k v q); eauto; rewrite Est; auto|]. now apply Ext_refl.
  - destruct Hd as (q & Hq & Hqk); auto.
    destruct (w_value w v) as [w1 rs] eqn:E1. cbv zeta.
    eapply Ext_trans; [eapply Ext_value; eauto|].
    eapply Ext_trans; [eapply (Ext_update_key w1 k v q); eauto; rewrite Est; auto|]. now apply Ext_refl.
  - unfold new_key_value. destruct (w_value w v) as [w1 rs] eqn:E1.
    destruct (w_key w1 k v (w_vaddr w)) as [w2 ks] eqn:E2.
    eapply Ext_trans; [eapply Ext_value; eauto|].
    eapply Ext_trans; [eapply Ext_key; eauto|]. now apply Ext_refl.
Qed.
Lemma Ext_fold : forall todo w, Forall (todo_ok mem0 recs) todo -> Ext w (fold_left (snap_one false) todo w).
Proof.
  induction todo as [|kv t IH]; intros w H; cbn [fold_left]; [now apply Ext_refl|].
  apply Forall_cons_iff in H. destruct H as [Hkv Ht].
  eapply Ext_trans; [apply Ext_snap_one; eauto|]. auto.
Qed.
End Shape.

Theorem incr_plan_shape d order fs clock :
  DiskInv (d_map d) fs ->
  exists recs body,
    fcontent fs FKeys = kcat recs /\
    incr_plan d order fs clock = plan_open4 d ++ body ++ close_tail fs /\
    Forall (incr_body_op (d_map d) recs) body.
Proof.
  intros (recs & HK & HI & _ & _). exists recs.
  unfold incr_plan. rewrite snapshot_plan_unfold. cbn [fst].
  destruct (Ext_fold (d_map d) recs (keys_to_update (d_map d) order false) (plan_w0 d false fs clock)
              (todo_ok_incr _ _ _ order HI)) as (new & E & HF).
  change (fold_left (snap_one false) (keys_to_update (d_map d) order false) (plan_w0 d false fs clock))
    with (plan_w1 d order false fs clock) in E.
  set (w1 := plan_w1 d order false fs clock) in *.
  exists (new ++ emit FKeys (bw_flush (w_kbuf w1)) ++ emit FVals (bw_flush (w_vbuf w1))).
  split; auto. split.
  - rewrite E, incr_w0_ops. unfold plan_close. rewrite incr_fs2_old. fold (close_tail fs).
    now rewrite <- !app_assoc.
  - repeat (apply Forall_app; split); auto using Forall_emit.
Qed.

(* ====================================================================== *)
(* 11. GOAL 4: the loader does not panic on a crash state                    *)
(* ====================================================================== *)
(* [vsafe V a]: fetching the value at address a cannot panic, whatever (small) number the
   8-byte length buffer holds before *)
Definition vsafe (V : str) (a : N) : Prop :=
  forall lb, len lb = 8%nat -> le_decode lb <= max_alloc ->
    le_decode (fst (read_into V (N.to_nat a) lb)) <= max_alloc /\
    utf8_valid (fst (read_into V (N.to_nat a + 8)
                       (zeros (N.to_nat (le_decode (fst (read_into V (N.to_nat a) lb))))))) = true.

Lemma all_ascii_zeros n : all_ascii (zeros n) = true.
Proof. induction n; cbn; auto. Qed.
Lemma utf8_zeros n : utf8_valid (zeros n) = true.
Proof. apply utf8_valid_ascii, all_ascii_zeros. Qed.

Lemma vsafe_eof V a : slen V <= a -> vsafe V a.
Proof.
  intros H lb Hl Hd. unfold slen in H.
  rewrite (read_into_eof V (N.to_nat a) lb) by lia. cbn [fst]. split; auto.
  rewrite read_into_eof by lia. cbn [fst]. apply utf8_zeros.
Qed.
Lemma vsafe_lenonly pre v : slen v <= max_alloc -> vsafe (pre +++ le_bytes 8 (slen v)) (slen pre).
Proof.
  intros Hv lb Hl Hd. pose proof max_alloc_lt.
  assert (EA : le_decode (le_bytes 8 (slen v)) = slen v) by (apply le_decode_8; lia).
  set (A := le_bytes 8 (slen v)) in *.
  assert (LA : len A = 8%nat) by apply len_le_bytes.
  assert (E : read_into (pre +++ A) (N.to_nat (slen pre)) lb = (A, 8%nat)).
  { rewrite <- LA. apply (read_into_exact _ _ _ pre A ""); rewrite ?app_nil_r_s; auto; unfold slen; lia. }
  rewrite E. cbn [fst]. rewrite EA. split; auto.
  rewrite read_into_eof; [cbn [fst]; apply utf8_zeros|]. rewrite len_app, LA. unfold slen. lia.
Qed.
Lemma vsafe_lenval pre v post : str_ok v -> vsafe (pre +++ le_bytes 8 (slen v) +++ v +++ post) (slen pre).
Proof.
  intros [Hu Hv] lb Hl Hd. pose proof max_alloc_lt.
  assert (EA : le_decode (le_bytes 8 (slen v)) = slen v) by (apply le_decode_8; lia).
  set (A := le_bytes 8 (slen v)) in *.
  assert (LA : len A = 8%nat) by apply len_le_bytes.
  set (V := pre +++ A +++ v +++ post).
  assert (E : read_into V (N.to_nat (slen pre)) lb = (A, 8%nat)).
  { rewrite <- LA. apply (read_into_exact _ _ _ pre A (v +++ post)); auto; unfold slen; lia. }
  rewrite E. cbn [fst]. rewrite EA. split; auto.
  rewrite (read_into_exact V _ _ (pre +++ A) v post); auto.
  - unfold V. now rewrite !app_assoc_s.
  - rewrite len_app, LA. unfold slen. lia.
  - rewrite len_zeros. unfold slen. lia.
Qed.
Lemma vsafe_has_at V a v : str_ok v -> has_at V a (vrec v) -> vsafe V a.
Proof.
  intros Hv (pre & post & -> & <-). unfold vrec. rewrite !app_assoc_s. now apply vsafe_lenval.
Qed.

Lemma lprefix_cmp {A} : forall (l a b : list A), lprefix a l -> lprefix b l -> lprefix a b \/ lprefix b a.
Proof.
  induction l as [|x l IH]; intros a b Ha Hb.
  - apply lprefix_nil_inv in Ha. subst. left. apply lprefix_nil.
  - apply lprefix_cons_inv in Ha. apply lprefix_cons_inv in Hb.
    destruct Ha as [->|(a0 & -> & Ha)]; [left; apply lprefix_nil|].
    destruct Hb as [->|(b0 & -> & Hb)]; [right; apply lprefix_nil|].
    destruct (IH _ _ Ha Hb) as [[r ->]|[r ->]]; [left|right]; now exists r.
Qed.
Lemma lprefix_scat_len a b : lprefix a b -> (len (scat a) <= len (scat b))%nat.
Proof. intros [r ->]. rewrite scat_app, len_app. lia. Qed.

(* a record boundary of the value stream is safe in every crash state of the values file *)
Lemma bnd_vsafe V0 VS G1 a : bnd V0 VS a -> lprefix G1 (flat_map vfields VS) -> Forall str_ok VS ->
  vsafe (V0 +++ scat G1) a.
Proof.
  intros (l1 & l2 & -> & ->) HG Hs. rewrite flat_map_app in HG.
  apply Forall_app in Hs. destruct Hs as [_ Hs2].
  destruct (lprefix_cmp _ G1 (flat_map vfields l1) HG (lprefix_app_l _ _)) as [H|[G' E]].
  - apply vsafe_eof. apply lprefix_scat_len in H. unfold vcat. rewrite slen_app. unfold slen. lia.
  - subst G1. destruct HG as [rest HG]. rewrite <- app_assoc in HG. apply app_inv_head in HG.
    assert (HG' : lprefix G' (flat_map vfields l2)) by now exists rest.
    clear HG rest. rewrite scat_app, <- app_assoc_s. fold (vcat l1).
    replace (slen V0 + slen (vcat l1)) with (slen (V0 +++ vcat l1)) by apply slen_app.
    set (pre := V0 +++ vcat l1).
    destruct l2 as [|v l2].
    + apply lprefix_nil_inv in HG'. subst G'. cbn [scat]. rewrite app_nil_r_s. apply vsafe_eof. lia.
    + apply Forall_cons_iff in Hs2. destruct Hs2 as [Hv _].
      cbn [flat_map] in HG'. unfold vfields at 1 in HG'. cbn [app] in HG'.
      apply lprefix_cons_inv in HG'. destruct HG' as [->|(g1 & -> & HG')].
      { cbn [scat]. rewrite app_nil_r_s. apply vsafe_eof. lia. }
      apply lprefix_cons_inv in HG'. destruct HG' as [->|(g2 & -> & HG')].
      { cbn [scat]. rewrite app_nil_r_s. apply vsafe_lenonly. apply Hv. }
      cbn [scat]. now apply vsafe_lenval.
Qed.

(* a step whose four reads are known, on a safe address: no panic *)
Lemma load_step_safe K V st lb n kb kn vb vn ab an :
  read_into K (l_pos st) (l_lenbuf st) = (lb, n) -> n <> 0%nat -> len lb = 8%nat ->
  le_decode lb <= max_alloc ->
  read_into K (l_pos st + n) (zeros (N.to_nat (le_decode lb))) = (kb, kn) -> utf8_valid kb = true ->
  read_into K (l_pos st + n + kn) (l_verbuf st) = (vb, vn) ->
  read_into K (l_pos st + n + kn + vn) (l_addrbuf st) = (ab, an) ->
  vsafe V (le_decode ab) ->
  exists st', load_step K V st = inl st' /\ l_pos st' = (l_pos st + n + kn + vn + an)%nat /\
    len (l_lenbuf st') = 8%nat /\ l_verbuf st' = vb /\ l_addrbuf st' = ab.
Proof.
  intros H1 Hn Hlb Hle H2 Hu H3 H4 Hs. unfold load_step. rewrite H1. cbv beta iota zeta.
  destruct n as [|n']; [contradiction|]. cbn [Nat.eqb].
  destruct (N.ltb_spec max_alloc (le_decode lb)); [lia|].
  rewrite H2. cbv beta iota zeta. rewrite Hu. cbn [negb].
  rewrite H3. cbv beta iota zeta. rewrite H4. cbv beta iota zeta.
  destruct (Hs lb Hlb Hle) as [S1 S2].
  pose proof (read_into_len V (N.to_nat (le_decode ab)) lb) as HL.
  destruct (read_into V (N.to_nat (le_decode ab)) lb) as [lb2 x]. cbn [fst] in *.
  destruct (N.ltb_spec max_alloc (le_decode lb2)); [lia|].
  destruct (read_into V (N.to_nat (le_decode ab) + 8) (zeros (N.to_nat (le_decode lb2)))) as [vbytes y].
  cbn [fst] in S2. rewrite S2. cbn [negb].
  eexists. split; [reflexivity|]. cbn [l_pos l_lenbuf l_verbuf l_addrbuf]. repeat split; auto. lia.
Qed.

Definition safe_rec (V : str) (r : arec) : Prop :=
  str_ok (r_key r) /\ r_va r < two64 /\ vsafe V (r_va r).

Lemma load_step_krec_safe K V st pre r post :
  K = pre +++ krec r +++ post -> l_pos st = len pre -> st_ok st -> safe_rec V r ->
  exists st', load_step K V st = inl st' /\ l_pos st' = len (pre +++ krec r) /\ st_ok st' /\
              l_addrbuf st' = le_bytes 8 (r_va r).
Proof.
  intros HK Hpos (Hl & Hv & Ha) ((Hku & Hkl) & Hva & Hsafe).
  destruct r as [k ver va v]. cbn [r_key r_ver r_va r_val] in *.
  pose proof max_alloc_lt as Hma. unfold two64 in Hva.
  unfold krec in HK. cbn [r_key r_ver r_va r_val] in HK.
  set (A := le_bytes 8 (slen k)) in *. set (C := i32_bytes ver) in *. set (D := le_bytes 8 va) in *.
  assert (LA : len A = 8%nat) by apply len_le_bytes.
  assert (LC : len C = 4%nat) by apply len_i32_bytes.
  assert (LD : len D = 8%nat) by apply len_le_bytes.
  assert (EA : le_decode A = slen k) by (apply le_decode_8; lia).
  assert (ED : le_decode D = va) by (apply le_decode_8; lia).
  assert (H1 : read_into K (l_pos st) (l_lenbuf st) = (A, 8%nat)).
  { rewrite <- LA. apply (read_into_exact _ _ _ pre A (k +++ C +++ D +++ post)); try lia.
    rewrite HK. now rewrite !app_assoc_s. }
  assert (H2 : read_into K (l_pos st + 8) (zeros (N.to_nat (le_decode A))) = (k, len k)).
  { rewrite EA. apply (read_into_exact _ _ _ (pre +++ A) k (C +++ D +++ post)).
    - rewrite HK. now rewrite !app_assoc_s.
    - rewrite len_app. lia.
    - rewrite len_zeros. unfold slen. lia. }
  assert (H3 : read_into K (l_pos st + 8 + len k) (l_verbuf st) = (C, 4%nat)).
  { rewrite <- LC. apply (read_into_exact _ _ _ (pre +++ A +++ k) C (D +++ post)); try lia.
    - rewrite HK. now rewrite !app_assoc_s.
    - rewrite !len_app. lia. }
  assert (H4 : read_into K (l_pos st + 8 + len k + 4) (l_addrbuf st) = (D, 8%nat)).
  { rewrite <- LD. apply (read_into_exact _ _ _ (pre +++ A +++ k +++ C) D post); try lia.
    - rewrite HK. now rewrite !app_assoc_s.
    - rewrite !len_app. lia. }
  destruct (load_step_safe K V st A 8 k (len k) C 4 D 8 H1) as (st' & E & P1 & P2 & P3 & P4); auto; try lia.
  { now rewrite ED. }
  exists st'. split; auto. split; [|split]; auto.
  - rewrite P1, len_app, len_krec. unfold rsize. cbn [r_key]. unfold slen. lia.
  - unfold st_ok. rewrite P2, P3, P4. auto.
Qed.

Lemma walk_safe V : forall l fuel K pre post st,
  K = pre +++ kcat l +++ post -> l_pos st = len pre -> st_ok st -> Forall (safe_rec V) l ->
  vsafe V (le_decode (l_addrbuf st)) ->
  exists st', load_loop (length l + fuel) K V st = load_loop fuel K V st' /\
    l_pos st' = len (pre +++ kcat l) /\ st_ok st' /\ vsafe V (le_decode (l_addrbuf st')).
Proof.
  induction l as [|r t IH]; intros fuel K pre post st HK Hpos Hst Hg Hs.
  - exists st. cbn [length Nat.add kcat]. rewrite app_nil_r_s. auto.
  - apply Forall_cons_iff in Hg. destruct Hg as [Hr Ht].
    cbn [length Nat.add load_loop kcat].
    destruct (load_step_krec_safe K V st pre r (kcat t +++ post)) as (st' & E & P1 & P2 & P3); auto.
    { rewrite HK. cbn [kcat]. now rewrite !app_assoc_s. }
    rewrite E.
    destruct (IH fuel K (pre +++ krec r) post st') as (st2 & E2 & Q1 & Q2 & Q3); auto.
    { rewrite HK. cbn [kcat]. now rewrite !app_assoc_s. }
    { rewrite P3. destruct Hr as (_ & Hva & Hsafe). rewrite le_decode_8 by exact Hva. exact Hsafe. }
    exists st2. split; auto. split; [now rewrite Q1, !app_assoc_s|]. auto.
Qed.

Definition tail_shape (T : str) : Prop :=
  T = "" \/
  exists kn, str_ok kn /\
    (T = le_bytes 8 (slen kn) \/ T = le_bytes 8 (slen kn) +++ kn \/
     exists z, T = le_bytes 8 (slen kn) +++ kn +++ i32_bytes z).

Lemma tail_finish_safe K V st f lb n kb kn vb vn ab an :
  read_into K (l_pos st) (l_lenbuf st) = (lb, n) -> n <> 0%nat -> len lb = 8%nat ->
  le_decode lb <= max_alloc ->
  read_into K (l_pos st + n) (zeros (N.to_nat (le_decode lb))) = (kb, kn) -> utf8_valid kb = true ->
  read_into K (l_pos st + n + kn) (l_verbuf st) = (vb, vn) ->
  read_into K (l_pos st + n + kn + vn) (l_addrbuf st) = (ab, an) ->
  vsafe V (le_decode ab) ->
  (l_pos st + n + kn + vn + an)%nat = len K ->
  exists m clk, load_loop (S (S f)) K V st = LOk m clk.
Proof.
  intros H1 Hn Hlb Hle H2 Hu H3 H4 Hs Hend. cbn [load_loop].
  destruct (load_step_safe K V st lb n kb kn vb vn ab an) as (st' & E & P1 & _); auto.
  rewrite E. unfold load_step. rewrite read_into_eof by lia. cbn [Nat.eqb]. eauto.
Qed.

Lemma load_tail_safe K V st pre T fuel :
  K = pre +++ T -> l_pos st = len pre -> st_ok st -> tail_shape T ->
  (1 <= fuel)%nat -> (T <> "" -> (2 <= fuel)%nat) ->
  vsafe V (le_decode (l_addrbuf st)) ->
  exists m clk, load_loop fuel K V st = LOk m clk.
Proof.
  intros HK Hpos (Hl & Hv & Ha) HT Hf1 Hf2 Hs.
  destruct HT as [->|(kn & (Hku & Hkl) & HT)].
  - destruct fuel as [|f]; [lia|].
    rewrite app_nil_r_s in HK. subst K. cbn [load_loop]. rewrite load_step_end by auto. eauto.
  - assert (Hne : T <> "").
    { destruct HT as [-> | [-> | (z & ->)]]; intros E; apply (f_equal len) in E;
        rewrite ?len_app, len_le_bytes in E; cbn in E; lia. }
    specialize (Hf2 Hne). destruct fuel as [|[|f]]; try lia.
    pose proof max_alloc_lt as Hma.
    set (A := le_bytes 8 (slen kn)) in *.
    assert (LA : len A = 8%nat) by apply len_le_bytes.
    assert (EA : le_decode A = slen kn) by (apply le_decode_8; lia).
    destruct HT as [->|[->|(z & ->)]].
    + apply (tail_finish_safe K V st f A 8 (zeros (len kn)) 0 (l_verbuf st) 0 (l_addrbuf st) 0); auto; try lia.
      * rewrite <- LA. apply (read_into_exact _ _ _ pre A ""); try lia. now rewrite app_nil_r_s.
      * rewrite EA. replace (N.to_nat (slen kn)) with (len kn) by (unfold slen; lia).
        apply read_into_eof. rewrite HK, len_app. lia.
      * apply utf8_zeros.
      * apply read_into_eof. rewrite HK, len_app. lia.
      * apply read_into_eof. rewrite HK, len_app. lia.
      * rewrite HK, len_app. lia.
    + apply (tail_finish_safe K V st f A 8 kn (len kn) (l_verbuf st) 0 (l_addrbuf st) 0); auto; try lia.
      * rewrite <- LA. apply (read_into_exact _ _ _ pre A kn); try lia. exact HK.
      * rewrite EA. apply (read_into_exact _ _ _ (pre +++ A) kn "").
        -- rewrite HK. now rewrite !app_assoc_s, app_nil_r_s.
        -- rewrite len_app. lia.
        -- rewrite len_zeros. unfold slen. lia.
      * apply read_into_eof. rewrite HK, !len_app. lia.
      * apply read_into_eof. rewrite HK, !len_app. lia.
      * rewrite HK, !len_app. lia.
    + pose proof (len_i32_bytes z) as LC.
      apply (tail_finish_safe K V st f A 8 kn (len kn) (i32_bytes z) 4 (l_addrbuf st) 0); auto; try lia.
      * rewrite <- LA. apply (read_into_exact _ _ _ pre A (kn +++ i32_bytes z)); try lia. exact HK.
      * rewrite EA. apply (read_into_exact _ _ _ (pre +++ A) kn (i32_bytes z)).
        -- rewrite HK. now rewrite !app_assoc_s.
        -- rewrite len_app. lia.
        -- rewrite len_zeros. unfold slen. lia.
      * rewrite <- LC at 2. apply (read_into_exact _ _ _ (pre +++ A +++ kn) (i32_bytes z) ""); try lia.
        -- rewrite HK. now rewrite !app_assoc_s, app_nil_r_s.
        -- rewrite !len_app. lia.
      * apply read_into_eof. rewrite HK, !len_app. lia.
      * rewrite HK, !len_app. lia.
Qed.

Lemma fsize_fcontent fs f : fsize fs f = slen (fcontent fs f).
Proof. unfold fsize, fcontent. destruct (fget fs f); reflexivity. Qed.

Lemma vsafe_zero V0 VS G1 : vhead_ok V0 -> lprefix G1 (flat_map vfields VS) -> Forall str_ok VS ->
  vsafe (V0 +++ scat G1) 0.
Proof.
  intros [->|(v & Hv & Hat)] HG Hs.
  - apply (bnd_vsafe "" VS G1 0); auto. exists [], VS. split; auto.
  - apply (vsafe_has_at _ 0 v); auto. now apply has_at_app.
Qed.

Lemma bnd_bound V0 VS a : bnd V0 VS a -> a <= slen V0 + slen (vcat VS).
Proof. intros (l1 & l2 & -> & ->). rewrite vcat_app, slen_app. lia. Qed.

Lemma frame_safe mem0 V0 VS G1 :
  vhead_ok V0 -> slen V0 + slen (vcat VS) < two64 ->
  lprefix G1 (flat_map vfields VS) -> Forall str_ok VS ->
  forall l l', Forall2 (frame1 mem0 V0 VS) l l' -> Forall (rec_ok V0) l ->
  Forall (safe_rec (V0 +++ scat G1)) l'.
Proof.
  intros Hh Hsz HG Hs. induction 1 as [|x x' t t' (Hk & _ & Hva) Ht IH]; intros Hok; constructor.
  - apply Forall_cons_iff in Hok. destruct Hok as [(Hxk & Hxv & Hat & _) _].
    split; [now rewrite Hk|].
    destruct Hva as [E|[E|E]].
    + rewrite E. split; [apply has_at_bound in Hat; lia|].
      apply (vsafe_has_at _ _ (r_val x)); auto. now apply has_at_app.
    + rewrite E. split; [unfold two64; lia|]. now apply (vsafe_zero V0 VS).
    + split; [apply bnd_bound in E; lia|]. now apply (bnd_vsafe V0 VS).
  - apply IH. apply Forall_cons_iff in Hok. tauto.
Qed.

(* GOAL 4: the loader never panics on a crash state of an incremental snapshot -- no ASCII
   condition is needed, because the BufWriter hands whole write() calls to the OS, so keys and values
   are never cut in the middle.  Side conditions: the values file of the COMPLETED snapshot is
   shorter than 2^64 bytes (as in C06_one_snapshot), and the values file exists whenever the keys
   file does (false only in the create window of a brand-new database, see below). *)
Theorem C11_incr_no_panic d order fs clock p clk :
  DiskInv (d_map d) fs ->
  lprefix p (incr_plan d order fs clock) ->
  fsize (apply_fops fs (incr_plan d order fs clock)) FVals < two64 ->
  (fget (apply_fops fs p) FKeys <> None -> fget (apply_fops fs p) FVals <> None) ->
  load_db (apply_fops fs p) clk <> Some LPanic.
Proof.
  intros (recs & HK & HI & HF & HV64) Hp Hsz Hex.
  set (mem0 := d_map d) in *. set (V0 := fcontent fs FVals) in *.
  destruct (incr_plan_states d order fs clock recs HK HI) as (news & VS & Hnews & HVS & HA & (rf & _ & _ & HVf)).
  fold mem0 V0 in Hnews, HA, HVf.
  rewrite fsize_fcontent, HVf, slen_app in Hsz. fold (vcat VS) in Hsz.
  destruct (HA p Hp) as (F1 & G1 & HF1 & HG1 & (recs' & HK' & HFr & HV')).
  destruct (fields_prefix _ _ HF1) as (news1 & part & -> & Hn1 & Hpart).
  unfold load_db.
  destruct (fget (apply_fops fs p) FKeys) as [K'|] eqn:EK; [|discriminate].
  destruct (fget (apply_fops fs p) FVals) as [V'|] eqn:EV; [|exfalso; apply Hex; congruence].
  unfold fcontent in HK', HV'. rewrite EK in HK'. rewrite EV in HV'.
  assert (Hkey : forall r, In r news -> str_ok (r_key r)).
  { intros r Hr. destruct (proj1 (Forall_forall _ _) Hnews r Hr) as ((vn & Hvn & _) & _).
    apply (inv_mem _ _ _ HI _ _ Hvn). }
  assert (S1 : Forall (safe_rec V') recs').
  { rewrite HV'. eapply (frame_safe mem0 V0 VS G1); eauto; [apply (inv_vhead _ _ _ HI)|apply (inv_recs _ _ _ HI)]. }
  assert (S2 : Forall (safe_rec V') news1).
  { apply Forall_forall. intros r Hr. destruct Hn1 as [rest ->].
    assert (Hin : In r (news1 ++ rest)) by (apply in_or_app; now left).
    destruct (proj1 (Forall_forall _ _) Hnews r Hin) as (_ & Hb).
    split; [now apply Hkey|]. split; [apply bnd_bound in Hb; lia|]. rewrite HV'. now apply (bnd_vsafe V0 VS). }
  assert (HT : tail_shape (scat part)).
  { destruct Hpart as [->|(r & Hr & Hc)]; [now left|right]. exists (r_key r). split; [now apply Hkey|].
    destruct Hc as [-> | [-> | ->]]; cbn [scat]; rewrite ?app_nil_r_s; eauto. }
  assert (EK' : K' = "" +++ kcat (recs' ++ news1) +++ scat part).
  { rewrite HK', scat_app, scat_flat_kfields, kcat_app. cbn [String.append]. now rewrite !app_assoc_s. }
  set (st0 := mkL 0 (zeros 8) (zeros 4) (zeros 8) 0 [] clk).
  assert (Hz : vsafe V' (le_decode (l_addrbuf st0))).
  { change (le_decode (l_addrbuf st0)) with 0. rewrite HV'. apply (vsafe_zero V0 VS); auto. apply (inv_vhead _ _ _ HI). }
  pose proof (length_le_len_kcat (recs' ++ news1)) as Hlen.
  assert (HlenK : len K' = (len (kcat (recs' ++ news1)) + len (scat part))%nat).
  { rewrite EK'. cbn [String.append]. now rewrite len_app. }
  replace (S (len K')) with (length (recs' ++ news1) + (S (len K') - length (recs' ++ news1)))%nat by lia.
  destruct (walk_safe V' (recs' ++ news1) (S (len K') - length (recs' ++ news1)) K' "" (scat part) st0)
    as (st1 & E1 & P1 & P2 & P3); auto.
  { repeat split. }
  { apply Forall_app. auto. }
  rewrite E1.
  destruct (load_tail_safe K' V' st1 ("" +++ kcat (recs' ++ news1)) (scat part)
              (S (len K') - length (recs' ++ news1))) as (m & c & E2); auto.
  { lia. }
  { intros Hne. destruct (scat part); [contradiction|]. cbn [len] in HlenK. lia. }
  rewrite E2. discriminate.
Qed.

(* the values file never disappears during an incremental snapshot *)
Definition keeps (f : fname) (o : fop) : Prop :=
  match o with OpRename a _ => a <> f | OpRemove g => g <> f | _ => True end.

Lemma fget_set_some f g s fs : fget fs f <> None -> fget (assoc_set fname_eqb g s fs) f <> None.
Proof.
  intros H. destruct (fname_eqb_spec f g) as [->|Hn].
  - rewrite fget_set_same. discriminate.
  - now rewrite fget_set_other.
Qed.

Lemma keeps_fop f o fs : keeps f o -> fget fs f <> None -> fget (apply_fop fs o) f <> None.
Proof.
  intros Hk H. destruct o as [a b|g|g|g d|g off d]; cbn [apply_fop keeps] in *.
  - destruct (fget fs a); auto. destruct (fname_eqb_spec f b) as [->|Hn].
    + rewrite fget_set_same. discriminate.
    + rewrite fget_set_other, fget_del_other; auto.
  - rewrite fget_del_other; auto.
  - destruct (fget fs g); auto using fget_set_some.
  - now apply fget_set_some.
  - now apply fget_set_some.
Qed.
Lemma keeps_fops f ops : forall fs, Forall (keeps f) ops -> fget fs f <> None -> fget (apply_fops fs ops) f <> None.
Proof.
  induction ops as [|o t IH]; intros fs Hk H; cbn [apply_fops fold_left]; auto.
  apply Forall_cons_iff in Hk. destruct Hk as [Ho Ht]. apply IH; auto. now apply keeps_fop.
Qed.

Lemma incr_plan_keeps_vals d order fs clock : DiskInv (d_map d) fs -> Forall (keeps FVals) (incr_plan d order fs clock).
Proof.
  intros HD. destruct (incr_plan_shape d order fs clock HD) as (recs & body & _ & -> & Hb).
  repeat (apply Forall_app; split).
  - unfold plan_open4. repeat constructor.
  - eapply Forall_impl; [|exact Hb]. intros o [(c & ->)|[(c & ->)|(k & v & q & _ & _ & _ & _ & [(z & ->)|(a & ->)])]]; exact I.
  - unfold close_tail. destruct (fget fs FKeysOld); repeat constructor. discriminate.
Qed.

Lemma incr_vals_exists d order fs clock p :
  DiskInv (d_map d) fs -> lprefix p (incr_plan d order fs clock) ->
  fget fs FVals <> None -> fget (apply_fops fs p) FVals <> None.
Proof.
  intros HD Hp H. apply keeps_fops; auto.
  apply (lprefix_Forall _ p (incr_plan d order fs clock)); auto. now apply incr_plan_keeps_vals.
Qed.

(* the requested name: with or without the ASCII condition (it is not needed) *)
Corollary C11_incr_no_panic_ascii d order fs clock p clk :
  DiskInv (d_map d) fs ->
  (forall k v, assoc_get String.eqb k (d_map d) = Some v -> all_ascii k = true /\ all_ascii (v_val v) = true) ->
  lprefix p (incr_plan d order fs clock) ->
  fsize (apply_fops fs (incr_plan d order fs clock)) FVals < two64 ->
  fget fs FVals <> None ->
  load_db (apply_fops fs p) clk <> Some LPanic.
Proof.
  intros HD _ Hp Hsz Hv. apply (C11_incr_no_panic d order fs clock p clk HD Hp Hsz).
  intros _. eapply incr_vals_exists; eauto.
Qed.

(* frame and no-panic together: for a database that already has its files, EVERY crash point of
   an incremental snapshot leaves files that load, and the load contains every untouched key *)
Theorem C11_incr_untouched_keys_survive_total d order fs clock p clk k mv :
  DiskInv (d_map d) fs ->
  lprefix p (incr_plan d order fs clock) ->
  fsize (apply_fops fs (incr_plan d order fs clock)) FVals < two64 ->
  fget fs FKeys <> None ->
  assoc_get String.eqb k (d_map d) = Some mv -> v_st mv = VOk -> not_nul_run k ->
  exists m clk' mv', load_db (apply_fops fs p) clk = Some (LOk m clk') /\
                     assoc_get String.eqb k m = Some mv' /\ same_entry mv mv'.
Proof.
  intros HD Hp Hsz HKx Hg Hst Hk.
  assert (HVx : fget fs FVals <> None) by (destruct HD as (_ & _ & _ & H & _); auto).
  pose proof (C11_incr_no_panic d order fs clock p clk HD Hp Hsz
                (fun _ => incr_vals_exists d order fs clock p HD Hp HVx)) as Hnp.
  assert (HKp : fget (apply_fops fs p) FKeys <> None).
  { apply keeps_fops; auto. eapply lprefix_Forall; [|exact Hp].
    destruct (incr_plan_shape d order fs clock HD) as (recs & body & _ & -> & Hb).
    repeat (apply Forall_app; split).
    - unfold plan_open4. repeat constructor.
    - eapply Forall_impl; [|exact Hb]. intros o [(c & ->)|[(c & ->)|(k0 & v & q & _ & _ & _ & _ & [(z & ->)|(a & ->)])]]; exact I.
    - unfold close_tail. destruct (fget fs FKeysOld); repeat constructor. discriminate. }
  destruct (load_db (apply_fops fs p) clk) as [[m c|]|] eqn:EL.
  - destruct (C11_incr_untouched_keys_survive d order fs clock p clk m c k mv HD Hp EL Hg Hst Hk) as (mv' & a & b).
    eauto 6.
  - contradiction.
  - unfold load_db in EL. destruct (fget (apply_fops fs p) FKeys); [|contradiction].
    destruct (fget (apply_fops fs p) FVals); discriminate.
Qed.

(* the create window of a brand-new database: the keys file is created before the values file; a
   kill between the two open() calls leaves a directory the next start panics on (the strace-style
   crash semantics of Model/Disk.v never stops there: open is not one of its counted calls) *)
Example C11_fresh_db_create_window_panics :
  let d := db_of [("a", mkV "1" 0 0 VNew 0 0)] in
  DiskInv (d_map d) [] /\
  load_db (apply_fops [] (firstn 3 (incr_plan d ["a"] [] 5))) 9 = Some LPanic /\
  forall s i, load_db (apply_fops [] (take_before s i (incr_plan d ["a"] [] 5))) 9 <> Some LPanic.
Proof.
  cbv zeta. split; [|split].
  - apply (history_DiskInv [DvSet "a" "1" (-1) 0] _ [] 0).
    + vm_compute. repeat split; try (intros; discriminate); try reflexivity.
    + reflexivity.
  - vm_compute. reflexivity.
  - intros s i.
    destruct s; do 12 (destruct i as [|i]; [vm_compute; discriminate|]); vm_compute; discriminate.
Qed.

(* ====================================================================== *)
(* 12. GOAL 2 at the level of bytes                                         *)
(* ====================================================================== *)
Lemma get_app_l a b i : (i < len a)%nat -> String.get i (a +++ b) = String.get i a.
Proof. intros H. symmetry. now apply String.append_correct1. Qed.
Lemma get_app_r a b j : String.get (len a + j) (a +++ b) = String.get j b.
Proof. rewrite Nat.add_comm. symmetry. apply String.append_correct2. Qed.

(* framed records have the same total length, and differ from the old ones only inside the 12-byte
   (version, address) field -- bytes [off + 8 + len key, off + rsize) -- of records whose key is
   VUpdated or VDeleted in memory *)
Lemma frame_bytes mem0 V0 VS : forall l l', Forall2 (frame1 mem0 V0 VS) l l' ->
  len (kcat l') = len (kcat l) /\
  forall s i, String.get i (kcat l') <> String.get i (kcat l) ->
    exists off r, rec_at l s off r /\ touched mem0 (r_key r) /\
                  off + 8 + slen (r_key r) <= s + N.of_nat i < off + rsize r.
Proof.
  induction 1 as [|x x' t t' (Hk & Hor & _) Ht [IHl IH]].
  - split; auto. intros s i H. now elim H.
  - assert (Hlen : len (krec x') = len (krec x)) by (rewrite !len_krec, (rsize_key x x' Hk); reflexivity).
    split; [cbn [kcat]; rewrite !len_app; lia|].
    intros s i H. cbn [kcat] in H.
    destruct (Nat.lt_ge_cases i (len (krec x))) as [Hi|Hi].
    + rewrite !get_app_l in H by lia.
      destruct Hor as [->|Hto]; [now elim H|].
      exists s, x. split; [cbn [rec_at]; now left|]. split; auto.
      rewrite len_krec in Hi. split; [|lia].
      destruct (Nat.lt_ge_cases i (8 + len (r_key x))) as [Hj|Hj]; [|unfold slen; lia].
      exfalso. apply H.
      assert (E : forall y, r_key y = r_key x ->
                String.get i (krec y) = String.get i (le_bytes 8 (slen (r_key x)) +++ r_key x)).
      { intros y Hy. unfold krec. rewrite Hy, <- app_assoc_s. apply get_app_l.
        rewrite len_app, len_le_bytes. lia. }
      now rewrite (E x' Hk), (E x eq_refl).
    + replace i with (len (krec x) + (i - len (krec x)))%nat in H at 2 by lia.
      replace i with (len (krec x') + (i - len (krec x)))%nat in H at 1 by lia.
      rewrite !get_app_r in H.
      destruct (IH (s + rsize x) _ H) as (off & r & Hr & Hto & Hb).
      exists off, r. split; [cbn [rec_at]; now right|]. split; auto.
      rewrite len_krec in *. lia.
Qed.

Theorem incr_prefix_files_bytes d order fs clock p :
  DiskInv (d_map d) fs -> lprefix p (incr_plan d order fs clock) ->
  exists recs K0' A B,
    fcontent fs FKeys = kcat recs /\
    fcontent (apply_fops fs p) FVals = fcontent fs FVals +++ B /\
    fcontent (apply_fops fs p) FKeys = K0' +++ A /\
    len K0' = len (fcontent fs FKeys) /\
    forall i, String.get i K0' <> String.get i (fcontent fs FKeys) ->
      exists off r, rec_at recs 0 off r /\ touched (d_map d) (r_key r) /\
                    off + 8 + slen (r_key r) <= N.of_nat i < off + rsize r.
Proof.
  intros HD Hp. destruct (incr_prefix_files d order fs clock p HD Hp) as (recs & recs' & A & B & VS & H1 & H2 & H3 & H4).
  destruct (frame_bytes _ _ _ _ _ H4) as [Hl Hb].
  exists recs, (kcat recs'), A, B. rewrite H1. repeat split; auto.
  intros i Hi. destruct (Hb 0 i Hi) as (off & r & a & b & c). exists off, r. auto.
Qed.
