(* PatternProofs.v -- C01: the semantic characterisation of the key patterns of `keys`.

   [pattern_match] (Model/Node.v) transcribes get_function_by_pattern and the three matchers of
   db_ops.rs.  DbProofs.list_keys_spec says which keys `keys` lists *in terms of* pattern_match;
   this file says what pattern_match means: "ab*" = starts with "ab", "*ab" = ends with "ab",
   "ab" = contains "ab"; and it keeps the corner cases of the real code visible as Examples.

   Argument order (follows the model, = Rust method order): [starts_with s p] is s.starts_with(p),
   [ends_with s p] is s.ends_with(p), [contains s p] is s.contains(p), [pattern_match key pattern]. *)
From NunDB Require Import Model.Base Model.Pending Model.Parse Model.Node
     Proofs.AssocLemmas Proofs.DbProofs Proofs.ClusterProofs Proofs.S3Proofs.
From Coq Require Import Lia.
Require Import String List Bool Ascii. Import ListNotations.
Open Scope N_scope. Open Scope Z_scope. Open Scope list_scope. Open Scope string_scope.

(* ====================================================================== *)
(* 1. starts_with / ends_with / contains                                   *)
(* ====================================================================== *)

Lemma pp_prefix_spec p : forall s, str_eqb_prefix p s = true <-> exists r, s = p +++ r.
Proof.
  induction p as [|a p IH]; intros s.
  - cbn. split; [intros _; now exists s|reflexivity].
  - destruct s as [|b s]; cbn [str_eqb_prefix String.append].
    + split; [discriminate|]. intros [r Hr]. discriminate Hr.
    + rewrite andb_true_iff, IH. split.
      * intros [Hab [r Hr]]. apply Ascii.eqb_eq in Hab. subst. now exists r.
      * intros [r Hr]. injection Hr as -> ->. split; [apply Ascii.eqb_refl|now exists r].
Qed.

Theorem starts_with_spec k p : starts_with k p = true <-> exists r, k = p +++ r.
Proof. unfold starts_with. apply pp_prefix_spec. Qed.

Theorem ends_with_spec k p : ends_with k p = true <-> exists l, k = l +++ p.
Proof.
  unfold ends_with. rewrite pp_prefix_spec. split.
  - intros [r Hr]. exists (str_rev r).
    rewrite <- (str_rev_invol k), Hr, str_rev_app, str_rev_invol. reflexivity.
  - intros [l ->]. exists (str_rev l). apply str_rev_app.
Qed.

Lemma pp_contains_unfold s p :
  contains s p = str_eqb_prefix p s || match s with EmptyString => false | String _ r => contains r p end.
Proof. destruct s; reflexivity. Qed.

Theorem contains_spec k p : contains k p = true <-> exists l r, k = l +++ p +++ r.
Proof.
  split.
  - induction k as [|a k IH]; rewrite pp_contains_unfold; intros H; apply orb_true_iff in H.
    + destruct H as [H|H]; [|discriminate]. apply pp_prefix_spec in H. destruct H as [r Hr].
      exists "", r. exact Hr.
    + destruct H as [H|H].
      * apply pp_prefix_spec in H. destruct H as [r Hr]. exists "", r. exact Hr.
      * destruct (IH H) as (l & r & ->). exists (String a l), r. reflexivity.
  - intros (l & r & ->). induction l as [|a l IH].
    + cbn [String.append]. rewrite pp_contains_unfold. apply orb_true_iff. left.
      apply pp_prefix_spec. now exists r.
    + cbn [String.append]. rewrite pp_contains_unfold. apply orb_true_iff. right. exact IH.
Qed.

(* ====================================================================== *)
(* 2. remove_char                                                          *)
(* ====================================================================== *)

Lemma remove_char_nochar c s : nochar c s = true -> remove_char c s = s.
Proof.
  induction s as [|a s IH]; cbn [nochar remove_char]; [reflexivity|].
  intros H. apply andb_true_iff in H. destruct H as [H1 H2].
  apply negb_true_iff in H1. rewrite H1, IH by exact H2. reflexivity.
Qed.

Lemma remove_char_app c a b : remove_char c (a +++ b) = remove_char c a +++ remove_char c b.
Proof.
  induction a as [|x a IH]; cbn [String.append remove_char]; [reflexivity|].
  destruct (Ascii.eqb x c); [exact IH|]. cbn [String.append]. now rewrite IH.
Qed.

(* what remove_char leaves has no c; it is idempotent *)
Lemma nochar_remove_char c s : nochar c (remove_char c s) = true.
Proof.
  induction s as [|a s IH]; cbn [remove_char nochar]; [reflexivity|].
  destruct (Ascii.eqb a c) eqn:E; [exact IH|]. cbn [nochar]. now rewrite E, IH.
Qed.

(* a string without c cannot be cut around a c *)
Lemma pp_nochar_split c s l r : nochar c s = true -> s <> l +++ String c r.
Proof.
  intros H ->. rewrite nochar_app in H. cbn [nochar] in H. rewrite Ascii.eqb_refl in H.
  cbn in H. rewrite andb_false_r in H. discriminate.
Qed.

Lemma pp_ends_star_false p : nochar "*" p = true -> ends_with p "*" = false.
Proof.
  intros H. destruct (ends_with p "*") eqn:E; [|reflexivity].
  apply ends_with_spec in E. destruct E as [l E]. exfalso. exact (pp_nochar_split _ _ _ _ H E).
Qed.

Lemma pp_starts_star_false p : nochar "*" p = true -> starts_with p "*" = false.
Proof.
  intros H. destruct (starts_with p "*") eqn:E; [|reflexivity].
  apply starts_with_spec in E. destruct E as [r E]. exfalso.
  exact (pp_nochar_split "*" p "" r H E).
Qed.

Lemma pp_ends_app_star a : ends_with (a +++ "*") "*" = true.
Proof. apply ends_with_spec. now exists a. Qed.

(* ====================================================================== *)
(* 3. the general shape of pattern_match (any pattern, stars anywhere)      *)
(* ====================================================================== *)

(* a pattern ENDING in a star is a prefix pattern for the pattern with ALL stars removed *)
Lemma pattern_match_ends_star k q :
  pattern_match k (q +++ "*") = starts_with k (remove_char "*" q).
Proof.
  unfold pattern_match. rewrite pp_ends_app_star, remove_char_app. cbn [remove_char].
  rewrite Ascii.eqb_refl, app_nil_r_s. reflexivity.
Qed.

(* a pattern that does not end in a star but BEGINS with one is a suffix pattern for the pattern
   with ALL stars removed *)
Lemma pattern_match_starts_star k q : ends_with ("*" +++ q) "*" = false ->
  pattern_match k ("*" +++ q) = ends_with k (remove_char "*" q).
Proof.
  intros H. unfold pattern_match. rewrite H. reflexivity.
Qed.

(* anything else (stars in the middle included) is a literal substring pattern *)
Lemma pattern_match_other k p : ends_with p "*" = false -> starts_with p "*" = false ->
  pattern_match k p = contains k p.
Proof. intros H1 H2. unfold pattern_match. now rewrite H1, H2. Qed.

(* the complete classification, in one statement *)
Theorem pattern_match_classify k pat :
  (exists q, pat = q +++ "*" /\
             (pattern_match k pat = true <-> exists r, k = remove_char "*" q +++ r)) \/
  (ends_with pat "*" = false /\ exists q, pat = "*" +++ q /\
             (pattern_match k pat = true <-> exists l, k = l +++ remove_char "*" q)) \/
  (ends_with pat "*" = false /\ starts_with pat "*" = false /\
             (pattern_match k pat = true <-> exists l r, k = l +++ pat +++ r)).
Proof.
  destruct (ends_with pat "*") eqn:E1.
  - left. apply ends_with_spec in E1. destruct E1 as [q ->]. exists q. split; [reflexivity|].
    rewrite pattern_match_ends_star. apply starts_with_spec.
  - right. destruct (starts_with pat "*") eqn:E2.
    + left. split; [reflexivity|]. apply starts_with_spec in E2. destruct E2 as [q ->].
      exists q. split; [reflexivity|].
      rewrite pattern_match_starts_star by exact E1. apply ends_with_spec.
    + right. split; [reflexivity|]. split; [reflexivity|].
      rewrite pattern_match_other by assumption. apply contains_spec.
Qed.

(* ====================================================================== *)
(* 4. the three documented pattern forms                                   *)
(* ====================================================================== *)

Theorem pattern_prefix_spec k p : nochar "*" p = true ->
  (pattern_match k (p +++ "*") = true <-> exists r, k = p +++ r).
Proof.
  intros H. rewrite pattern_match_ends_star, remove_char_nochar by exact H.
  apply starts_with_spec.
Qed.

Theorem pattern_suffix_spec k p : nochar "*" p = true -> p <> "" ->
  (pattern_match k ("*" +++ p) = true <-> exists l, k = l +++ p).
Proof.
  intros H Hne.
  assert (E : ends_with ("*" +++ p) "*" = false).
  { destruct (ends_with ("*" +++ p) "*") eqn:E; [|reflexivity]. exfalso.
    apply ends_with_spec in E. destruct E as [l E].
    destruct l as [|a l]; cbn [String.append] in E.
    - injection E as E. now apply Hne.
    - injection E as _ E. exact (pp_nochar_split _ _ _ _ H E). }
  rewrite pattern_match_starts_star, remove_char_nochar by assumption.
  apply ends_with_spec.
Qed.

(* the side condition p <> "" is necessary: "*" +++ "" is the pattern "*", which ends in a star,
   so it is the PREFIX pattern for "": everything matches (which is also what "ends with the
   empty string" would have given: the two readings agree on "*") *)
Theorem pattern_star_all k : pattern_match k "*" = true.
Proof. apply (pattern_prefix_spec k ""); [reflexivity|]. now exists k. Qed.

(* so the suffix form in fact holds without the side condition *)
Corollary pattern_suffix_spec_gen k p : nochar "*" p = true ->
  (pattern_match k ("*" +++ p) = true <-> exists l, k = l +++ p).
Proof.
  intros H. destruct p as [|a p].
  - split; [intros _; exists k; now rewrite app_nil_r_s|intros _; apply pattern_star_all].
  - apply pattern_suffix_spec; [exact H|discriminate].
Qed.

Theorem pattern_contains_spec k p : nochar "*" p = true ->
  (pattern_match k p = true <-> exists l r, k = l +++ p +++ r).
Proof.
  intros H. rewrite pattern_match_other by (now apply pp_ends_star_false || now apply pp_starts_star_false).
  apply contains_spec.
Qed.

Corollary pattern_empty_all k : pattern_match k "" = true.
Proof. apply (pattern_contains_spec k ""); [reflexivity|]. now exists "", k. Qed.

(* star at both ends: NOT a substring pattern but the prefix pattern for p *)
Theorem pattern_star_both_prefix k p : nochar "*" p = true ->
  (pattern_match k ("*" +++ p +++ "*") = true <-> exists r, k = p +++ r).
Proof.
  intros H. change ("*" +++ p +++ "*") with (("*" +++ p) +++ "*").
  rewrite pattern_match_ends_star. cbn [String.append remove_char]. rewrite Ascii.eqb_refl.
  rewrite remove_char_nochar by exact H. apply starts_with_spec.
Qed.

(* ====================================================================== *)
(* 5. corner cases of the real code, documented (not judged)               *)
(* ====================================================================== *)

(* "a*b": a star in the middle is no wildcard: the pattern neither ends nor starts with a star, so
   it is the literal substring "a*b" *)
Example pattern_star_middle_literal :
  pattern_match "xa*by" "a*b" = true /\
  pattern_match "ab" "a*b" = false /\
  pattern_match "axb" "a*b" = false /\
  pattern_match "a*b" "a*b" = true.
Proof. vm_compute. repeat split. Qed.

(* "*a*": ends in a star, so it is a PREFIX pattern, for the text with all stars removed = "a";
   it is not "contains a" *)
Example pattern_star_both_is_prefix :
  pattern_match "ab" "*a*" = true /\
  pattern_match "a" "*a*" = true /\
  pattern_match "ba" "*a*" = false /\
  pattern_match "bab" "*a*" = false.
Proof. vm_compute. repeat split. Qed.

(* "**": ends in a star: prefix pattern for "" : every key matches, like "*" and "" *)
Example pattern_two_stars_all :
  pattern_match "" "**" = true /\ pattern_match "ab" "**" = true /\ pattern_match "*" "**" = true.
Proof. vm_compute. repeat split. Qed.
Lemma pattern_two_stars_all_gen k : pattern_match k "**" = true.
Proof. apply (pattern_star_both_prefix k ""); [reflexivity|]. now exists k. Qed.

(* "a*b*": ends in a star: ALL stars are removed, so it is the prefix pattern for "ab": it matches
   "abc" and does not match the key "a*bc" that literally begins with "a*b" *)
Example pattern_inner_star_removed :
  pattern_match "abc" "a*b*" = true /\
  pattern_match "a*bc" "a*b*" = false /\
  pattern_match "axb" "a*b*" = false.
Proof. vm_compute. repeat split. Qed.

(* "*a*b": begins with a star (and does not end with one): suffix pattern for "ab" *)
Example pattern_inner_star_removed_suffix :
  pattern_match "xab" "*a*b" = true /\
  pattern_match "xa*b" "*a*b" = false /\
  pattern_match "xayb" "*a*b" = false.
Proof. vm_compute. repeat split. Qed.

(* consequently a key that itself contains a star can not be selected by a prefix pattern that
   spells it out: no pattern of the prefix form means "starts with a*" *)
Example pattern_key_with_star :
  pattern_match "a*" "a**" = true /\       (* prefix "a": matches, but so does ... *)
  pattern_match "ab" "a**" = true /\
  pattern_match "a*" "a*" = true /\        (* prefix "a" *)
  pattern_match "a*" "*a*" = true.         (* prefix "a" *)
Proof. vm_compute. repeat split. Qed.

(* ====================================================================== *)
(* 6. `keys` with the three pattern forms                                  *)
(* ====================================================================== *)

Theorem list_keys_prefix_spec d p sys k : wf_db d -> nochar "*" p = true ->
  (In k (list_keys d (p +++ "*") sys) <->
   live d k <> None /\ (exists r, k = p +++ r) /\ (sys = true \/ starts_with k "$$" = false)).
Proof.
  intros Hwf Hp. rewrite (list_keys_spec d (p +++ "*") sys k Hwf).
  rewrite (pattern_prefix_spec k p Hp). reflexivity.
Qed.

Theorem list_keys_suffix_spec d p sys k : wf_db d -> nochar "*" p = true ->
  (In k (list_keys d ("*" +++ p) sys) <->
   live d k <> None /\ (exists l, k = l +++ p) /\ (sys = true \/ starts_with k "$$" = false)).
Proof.
  intros Hwf Hp. rewrite (list_keys_spec d ("*" +++ p) sys k Hwf).
  rewrite (pattern_suffix_spec_gen k p Hp). reflexivity.
Qed.

Theorem list_keys_contains_spec d p sys k : wf_db d -> nochar "*" p = true ->
  (In k (list_keys d p sys) <->
   live d k <> None /\ (exists l r, k = l +++ p +++ r) /\ (sys = true \/ starts_with k "$$" = false)).
Proof.
  intros Hwf Hp. rewrite (list_keys_spec d p sys k Hwf).
  rewrite (pattern_contains_spec k p Hp). reflexivity.
Qed.

(* `keys` with "*" or "" or no pattern: every live key the caller may see *)
Corollary list_keys_all_spec d sys k : wf_db d ->
  (In k (list_keys d "*" sys) <-> live d k <> None /\ (sys = true \/ starts_with k "$$" = false)) /\
  (In k (list_keys d "" sys) <-> live d k <> None /\ (sys = true \/ starts_with k "$$" = false)).
Proof.
  intros Hwf. rewrite !(list_keys_spec d _ sys k Hwf), pattern_star_all, pattern_empty_all.
  tauto.
Qed.

(* ====================================================================== *)
(* 7. concrete examples                                                    *)
(* ====================================================================== *)

Definition pp_empty_db : db := mkDb [] [] 0 0 SNone.
Definition pp_set (d : db) (k : str) : db := fst (fst (set_value d (mkCh k "v" (-1) 0 false))).
(* keys ab, aba, bab live; "gone" set and then removed; one system key *)
Definition pp_db : db :=
  fst (fst (remove_value
    (pp_set (pp_set (pp_set (pp_set (pp_set pp_empty_db "bab") "gone") "aba") "$$token") "ab") "gone")).

Example pattern_examples :
  (* directly on pattern_match *)
  filter (fun k => pattern_match k "ab*") ["ab"; "aba"; "bab"] = ["ab"; "aba"] /\
  filter (fun k => pattern_match k "*ab") ["ab"; "aba"; "bab"] = ["ab"; "bab"] /\
  filter (fun k => pattern_match k "ab") ["ab"; "aba"; "bab"] = ["ab"; "aba"; "bab"] /\
  (* through list_keys on a database built with set_value / remove_value *)
  list_keys pp_db "ab*" false = ["ab"; "aba"] /\
  list_keys pp_db "*ab" false = ["ab"; "bab"] /\
  list_keys pp_db "ab" false = ["ab"; "aba"; "bab"] /\
  list_keys pp_db "*" false = ["ab"; "aba"; "bab"] /\
  list_keys pp_db "" true = ["$$token"; "ab"; "aba"; "bab"] /\
  list_keys pp_db "gone" true = [].
Proof. vm_compute. repeat split. Qed.

(* ====================================================================== *)
Check starts_with_spec. Check ends_with_spec. Check contains_spec.
Check remove_char_nochar. Check remove_char_app.
Check pattern_prefix_spec. Check pattern_suffix_spec. Check pattern_suffix_spec_gen.
Check pattern_star_all. Check pattern_contains_spec. Check pattern_empty_all.
Check pattern_star_both_prefix. Check pattern_match_classify.
Check list_keys_prefix_spec. Check list_keys_suffix_spec. Check list_keys_contains_spec.
Check list_keys_all_spec.
Print Assumptions starts_with_spec.
Print Assumptions ends_with_spec.
Print Assumptions contains_spec.
Print Assumptions pattern_prefix_spec.
Print Assumptions pattern_suffix_spec.
Print Assumptions pattern_contains_spec.
Print Assumptions pattern_match_classify.
Print Assumptions list_keys_prefix_spec.
Print Assumptions list_keys_suffix_spec.
Print Assumptions list_keys_contains_spec.
