(* ArbiterClusterProofs.v -- property C13, last clause, on two nodes:
   what the primary queues for replication when it holds a conflicting write for the
   arbiter and when it applies a resolution, and what a secondary's database looks like
   after executing the queued lines. *)
From NunDB Require Import Model.Base Model.Pending Model.Parse Model.Node Model.Oplog Model.Cluster
  Proofs.AssocLemmas Proofs.PendingProofs Proofs.DbProofs Proofs.ClusterProofs
  Proofs.ArbiterHttpProofs Proofs.ConvergeProofs.
Local Open Scope Z_scope.

(* ================================================================== *)
(* Part A.  Wire texts                                                  *)
(* ================================================================== *)

(* "$conflicts_<key>_<opid>" *)
Definition rec_key (key : str) (opid : N) : str := "$conflicts_" +++ key +++ "_" +++ N_to_str opid.

Lemma rec_key_conflict_key ch : conflict_key ch = rec_key (c_key ch) (c_opp ch).
Proof. reflexivity. Qed.

(* the text of a resolve request (what RqResolve queues and what a secondary forwards) *)
Definition resolve_text (opid : N) (dbn key : str) (ver : Z) (value : str) : str :=
  "resolve " +++ N_to_str opid +++ " " +++ dbn +++ " " +++ key +++ " " +++ Z_to_str ver +++ " " +++ value.

(* the line that carries a "$conflicts_" record *)
Definition rec_text (dbn key : str) (opid : N) (txt : str) : str :=
  replicate_msg dbn (rec_key key opid) txt (-1).

Lemma last_sep_nl x v : no_nl v -> last_char (x +++ " " +++ v) <> Some nl.
Proof.
  intros Hv. rewrite last_char_app. change (" " +++ v) with (String " " v). cbn [last_char].
  pose proof (last_char_nochar nl v Hv) as H.
  destruct (last_char v) as [y|]; [exact H|discriminate].
Qed.

Lemma sep_ne x v : x +++ " " +++ v <> "".
Proof. destruct x; discriminate. Qed.

Lemma no_sp_rec_key key opid : no_sp key -> no_sp (rec_key key opid).
Proof.
  intros H. unfold no_sp, rec_key. rewrite !nochar_app. rewrite H, (no_sp_N opid). reflexivity.
Qed.
Lemma no_nl_rec_key key opid : no_nl key -> no_nl (rec_key key opid).
Proof.
  intros H. unfold no_nl, rec_key. rewrite !nochar_app. rewrite H, (no_nl_N opid). reflexivity.
Qed.

Lemma parse_cmd_resolve args : parse_cmd "resolve" args = Some (
    match hd_opt args with
    | None => PErr "opp id mandatory"
    | Some ids =>
        match parse_u64 ids with
        | None => PErr "Invalid opp_id"
        | Some id =>
            match hd_opt (tl args) with
            | None => PErr "resoved must be followed by db_name, key version and value"
            | Some rest =>
                let ps := splitn 4 sp rest in
                match ps with
                | dbn :: key :: more =>
                    let version := i32_or (-1) (hd_opt more) in
                    match hd_opt (tl more) with
                    | Some v => POk (RqResolve id (strip_nl dbn) (strip_nl key) (strip_nl v) version)
                    | None => PErr "set-safe must be followed by a key"
                    end
                | [_] => PErr "key must be provided"
                | [] => PErr "db_name must be provided"
                end
            end
        end
    end).
Proof. reflexivity. Qed.

Theorem resolve_roundtrip opid dbn key ver value :
  (opid < 2 ^ 64)%N -> no_sp dbn -> no_nl dbn -> no_sp key -> no_nl key ->
  no_nl value -> no_semi_end value -> is_i32 ver ->
  parse_request (resolve_text opid dbn key ver value) = POk (RqResolve opid dbn key value ver).
Proof.
  intros Hid Hd Hdn Hk Hkn Hvn Hvs Hver. unfold resolve_text.
  change ("resolve " +++ N_to_str opid +++ " " +++ dbn +++ " " +++ key +++ " " +++ Z_to_str ver +++ " " +++ value)
    with ("resolve" +++ " " +++ N_to_str opid +++ " " +++ dbn +++ " " +++ key +++ " " +++ Z_to_str ver +++ " " +++ value).
  rewrite parse_request_3; try assumption; try reflexivity; try discriminate; try apply no_sp_N.
  2:{ repeat (rewrite <- app_assoc_s); rewrite app_assoc_s; apply no_semi_end_sep, Hvs. }
  rewrite parse_cmd_resolve. cbn [hd_opt tl]. rewrite parse_u64_N by assumption. cbv zeta.
  rewrite splitn_sp_cons, splitn_sp_cons, splitn_sp_cons, splitn_sp_last by (assumption || apply no_sp_Z).
  cbn [hd_opt tl i32_or].
  rewrite !strip_nl_noop by (assumption || apply no_nl_Z).
  now rewrite parse_i32_Z.
Qed.

Lemma resolve_text_trim opid dbn key ver value : no_nl value ->
  trim_char nl (resolve_text opid dbn key ver value) = resolve_text opid dbn key ver value.
Proof.
  intros Hv. unfold resolve_text.
  change ("resolve " +++ N_to_str opid +++ " " +++ dbn +++ " " +++ key +++ " " +++ Z_to_str ver +++ " " +++ value)
    with (String "r" "esolve " +++ (N_to_str opid +++ " " +++ dbn +++ " " +++ key +++ " " +++ Z_to_str ver +++ " " +++ value)).
  apply trim_nl_line; [reflexivity|apply sep_ne|].
  repeat (rewrite <- app_assoc_s). rewrite app_assoc_s. now apply last_sep_nl.
Qed.

Lemma replicate_msg_trim dbn k txt ver : no_nl txt ->
  trim_char nl (replicate_msg dbn k txt ver) = replicate_msg dbn k txt ver.
Proof.
  intros Hv. unfold replicate_msg.
  change ("replicate " +++ dbn +++ " " +++ k +++ " " +++ Z_to_str ver +++ " " +++ txt)
    with (String "r" "eplicate " +++ (dbn +++ " " +++ k +++ " " +++ Z_to_str ver +++ " " +++ txt)).
  apply trim_nl_line; [reflexivity|apply sep_ne|].
  repeat (rewrite <- app_assoc_s). rewrite app_assoc_s. now apply last_sep_nl.
Qed.

Lemma rec_text_parse dbn key opid txt :
  no_sp dbn -> no_sp key -> no_nl key -> no_nl txt -> no_semi_end txt ->
  parse_request (trim_char nl (rec_text dbn key opid txt)) =
  POk (RqReplicateSet dbn (rec_key key opid) txt (-1)).
Proof.
  intros Hd Hk Hkn Ht Hs. unfold rec_text. rewrite replicate_msg_trim by assumption.
  apply replicate_roundtrip; auto using no_sp_rec_key, no_nl_rec_key. unfold is_i32; lia.
Qed.

Lemma no_nl_resolved value : no_nl value -> no_nl ("resolved " +++ value).
Proof. intros H. unfold no_nl. rewrite nochar_app, H. reflexivity. Qed.
Lemma no_semi_resolved value : no_semi_end value -> no_semi_end ("resolved " +++ value).
Proof. intros H. change ("resolved " +++ value) with ("resolved" +++ " " +++ value). now apply no_semi_end_sep. Qed.

(* ================================================================== *)
(* Part B.  Database level: the effect of the steps                     *)
(* ================================================================== *)

Definition db_set (d : db) (ch : change) : db := fst (fst (set_value d ch)).

(* the change that marks a record as resolved *)
Definition reg_ch (key value : str) (opid clk : N) : change :=
  mkCh (rec_key key opid) ("resolved " +++ value) (-1) clk false.

(* Database::resolve_conflit on the database *)
Definition db_resolve (d : db) (key value : str) (ver : Z) (opid clk : N) : db :=
  let d1 := db_set d (reg_ch key value opid clk) in
  db_set d1 (if has_pending_conflict d1 key then mkCh key value (-2) opid true
             else mkCh key value ver opid true).

(* the SArbiter branch of apply_change on the database *)
Definition db_conflict (d : db) (key : str) (old : value) (ck rmsg : str) (clk : N) : db :=
  db_set (mark_conflict d key old) (mkCh ck rmsg (-1) clk false).

Definition kstate (d : db) (k : str) : option (str * Z) :=
  option_map (fun v => (v_val v, v_ver v)) (get_value d k).
Definition kval (d : db) (k : str) : option str := option_map v_val (get_value d k).
Definition kver (d : db) (k : str) : option Z := option_map v_ver (get_value d k).

Definition ver_refused (ch : change) (old : value) : bool :=
  Z.leb (next_version ch old) (v_ver old) && negb (Z.eqb (c_ver ch) (-2)).

Definition nodup_db (d : db) : Prop := NoDup (map fst (d_map d)).

Lemma db_set_some d ch old : get_value d (c_key ch) = Some old ->
  db_set d ch = if ver_refused ch old then d
                else put_value d (c_key ch) (mkV (c_val ch) (next_version ch old) (c_opp ch) (upd_state old) (v_vaddr old) (v_kaddr old)).
Proof.
  intros E. unfold db_set, set_value, ver_refused. rewrite E. destruct (_ && _); reflexivity.
Qed.

Lemma db_set_none d ch : get_value d (c_key ch) = None ->
  db_set d ch = put_value d (c_key ch) (mkV (c_val ch) (sat_succ (c_ver ch)) (c_opp ch) VNew 0 0).
Proof. intros E. unfold db_set, set_value. rewrite E. reflexivity. Qed.

Lemma db_set_other d ch k : k <> c_key ch -> get_value (db_set d ch) k = get_value d k.
Proof.
  intros H. unfold db_set. destruct (set_value d ch) as [[d' r] m] eqn:E. cbn [fst].
  eapply set_value_other; eauto.
Qed.

(* either nothing changed, or the key now holds the text, live *)
Lemma db_set_cases d ch :
  db_set d ch = d \/
  exists v, db_set d ch = put_value d (c_key ch) v /\ v_val v = c_val ch /\ vstate_eqb (v_st v) VDeleted = false.
Proof.
  destruct (get_value d (c_key ch)) as [old|] eqn:E.
  - rewrite (db_set_some _ _ _ E). destruct (ver_refused ch old); [now left|right].
    eexists. split; [reflexivity|]. cbn. split; auto. apply upd_state_eqb.
  - rewrite (db_set_none _ _ E). right. eexists. split; [reflexivity|]. cbn. auto.
Qed.

Lemma nodup_put d k v : nodup_db d -> nodup_db (put_value d k v).
Proof. unfold nodup_db, put_value, db_set_map. cbn [d_map]. apply nodup_set. apply String.eqb_spec. Qed.

Lemma nodup_db_set d ch : nodup_db d -> nodup_db (db_set d ch).
Proof.
  intros H. destruct (db_set_cases d ch) as [->|(v & -> & _)]; auto using nodup_put.
Qed.

Lemma db_set_strat d ch : d_strat (db_set d ch) = d_strat d /\ d_watch (db_set d ch) = d_watch d.
Proof. destruct (db_set_cases d ch) as [->|(v & -> & _)]; auto. Qed.

(* a plain write on a writable record key succeeds *)
Lemma db_set_plain d k txt clk : rec_writable d k ->
  set_value d (mkCh k txt (-1) clk false) =
    (db_set d (mkCh k txt (-1) clk false), RSet k txt, snd (set_value d (mkCh k txt (-1) clk false))) /\
  exists v, db_set d (mkCh k txt (-1) clk false) = put_value d k v /\ v_val v = txt /\
            vstate_eqb (v_st v) VDeleted = false /\
            v_ver v = match get_value d k with Some r => v_ver r + 1 | None => 0 end.
Proof.
  intros Hw. unfold rec_writable in Hw. unfold db_set, set_value. cbn [c_key c_ver c_val c_opp c_resolve].
  destruct (get_value d k) as [r|] eqn:E.
  - destruct Hw as [H1 H2]. unfold next_version, in_conflict, sat_succ. cbn [c_ver c_resolve].
    change (-1 =? -2) with false. change (-1 =? -1) with true. cbn [negb andb].
    destruct (Z.eqb_spec (v_ver r) (-2)) as [|_]; [contradiction|].
    destruct (Z.ltb_spec (v_ver r) i32_max) as [_|]; [|lia].
    destruct (Z.leb_spec (v_ver r + 1) (v_ver r)) as [|_]; [lia|]. cbn [andb fst snd].
    split; [reflexivity|]. eexists. split; [reflexivity|]. cbn. repeat split; auto. apply upd_state_eqb.
  - cbn [fst snd]. split; [reflexivity|]. eexists. split; [reflexivity|]. cbn. auto.
Qed.

(* ---- the key's (value, version) after a write --------------------------- *)
Definition kset (o : option (str * Z)) (ch : change) : option (str * Z) :=
  match o with
  | Some (val, ver) =>
      let old := mkV val ver 0 VOk 0 0 in
      if ver_refused ch old then Some (val, ver) else Some (c_val ch, next_version ch old)
  | None => Some (c_val ch, sat_succ (c_ver ch))
  end.

Lemma next_version_ver ch o1 o2 : v_ver o1 = v_ver o2 -> next_version ch o1 = next_version ch o2.
Proof. intros H. unfold next_version, in_conflict. now rewrite H. Qed.

Lemma ver_refused_ver ch o1 o2 : v_ver o1 = v_ver o2 -> ver_refused ch o1 = ver_refused ch o2.
Proof. intros H. unfold ver_refused. now rewrite (next_version_ver ch o1 o2 H), H. Qed.

Lemma kstate_db_set d ch : kstate (db_set d ch) (c_key ch) = kset (kstate d (c_key ch)) ch.
Proof.
  unfold kstate at 2. destruct (get_value d (c_key ch)) as [old|] eqn:E; cbn [option_map kset].
  - rewrite (db_set_some _ _ _ E).
    rewrite (ver_refused_ver ch (mkV (v_val old) (v_ver old) 0 VOk 0 0) old) by reflexivity.
    rewrite (next_version_ver ch (mkV (v_val old) (v_ver old) 0 VOk 0 0) old) by reflexivity.
    destruct (ver_refused ch old).
    + unfold kstate. now rewrite E.
    + unfold kstate. now rewrite gv_put_same.
  - rewrite (db_set_none _ _ E). unfold kstate. now rewrite gv_put_same.
Qed.

Lemma kstate_db_set_other d ch k : k <> c_key ch -> kstate (db_set d ch) k = kstate d k.
Proof. intros H. unfold kstate. now rewrite db_set_other. Qed.

(* ---- pending records ------------------------------------------------------- *)
(* the prefix of the records of [key] (list_conflicts_keys; the empty key stands for "all keys") *)
Definition rec_prefix (key : str) : str :=
  if String.eqb key "" then "$conflicts_" else "$conflicts_" +++ key +++ "_".

Definition pend_of_text (key ck txt : str) : option str :=
  if starts_with ck (rec_prefix key) && negb (starts_with txt "resolved") then Some txt else None.

(* the text of record [ck] when it is a live, unresolved record of [key] *)
Definition pend_text (d : db) (key ck : str) : option str :=
  match get_value d ck with
  | Some v => if vstate_eqb (v_st v) VDeleted then None else pend_of_text key ck (v_val v)
  | None => None
  end.

(* [list_conflicts_keys d key] lists exactly the live keys of [d] that start with "$conflicts_<key>_",
   for EVERY key (no restriction on its characters) *)
Lemma list_conflicts_keys_iff d key k : nodup_db d ->
  In k (list_conflicts_keys d key) <->
  exists v, get_value d k = Some v /\ vstate_eqb (v_st v) VDeleted = false /\
            starts_with k (rec_prefix key) = true.
Proof.
  intros Hnd.
  change (list_conflicts_keys d key) with
    (sort_strs (map fst (filter (fun kv : str * value =>
        negb (vstate_eqb (v_st (snd kv)) VDeleted) && starts_with (fst kv) (rec_prefix key)) (d_map d)))).
  rewrite in_sort_strs, in_map_iff. split.
  - intros ([k0 v] & E & Hin). cbn in E. subst k0. apply filter_In in Hin as [Hin Hf]. cbn [fst snd] in Hf.
    apply andb_true_iff in Hf as [Hl Hp].
    exists v. split; [now apply in_get|]. split; auto. now apply negb_true_iff in Hl.
  - intros (v & Hg & Hl & Hp). exists (k, v). split; auto. apply filter_In. split.
    + apply (get_in String.eqb String.eqb_spec). exact Hg.
    + cbn [fst snd]. rewrite Hl, Hp. reflexivity.
Qed.

Lemma hpc_iff d key : nodup_db d ->
  has_pending_conflict d key = true <-> exists ck, pend_text d key ck <> None.
Proof.
  intros Hnd. unfold has_pending_conflict. rewrite existsb_exists. split.
  - intros (ck & Hin & Hv). apply (list_conflicts_keys_iff d key ck Hnd) in Hin as (v & Hg & Hl & Hp).
    exists ck. unfold pend_text, pend_of_text. rewrite Hg in *. rewrite Hl, Hp, Hv. discriminate.
  - intros (ck & Hne). unfold pend_text, pend_of_text in Hne. destruct (get_value d ck) as [v|] eqn:Hg; [|congruence].
    destruct (vstate_eqb (v_st v) VDeleted) eqn:Hl; [congruence|].
    destruct (starts_with ck (rec_prefix key)) eqn:Hp; [|cbn in Hne; congruence].
    destruct (starts_with (v_val v) "resolved") eqn:Hr; [cbn in Hne; congruence|].
    exists ck. split; [apply (list_conflicts_keys_iff d key ck Hnd); eauto|]. now rewrite Hg, Hr.
Qed.

Lemma hpc_agree dp ds key : nodup_db dp -> nodup_db ds ->
  (forall ck, pend_text dp key ck = pend_text ds key ck) ->
  has_pending_conflict dp key = has_pending_conflict ds key.
Proof.
  intros Hp Hs H.
  destruct (has_pending_conflict dp key) eqn:E1, (has_pending_conflict ds key) eqn:E2; auto.
  - apply (hpc_iff dp key Hp) in E1 as (ck & Hne). rewrite H in Hne.
    assert (has_pending_conflict ds key = true) by (apply (hpc_iff ds key Hs); eauto). congruence.
  - apply (hpc_iff ds key Hs) in E2 as (ck & Hne). rewrite <- H in Hne.
    assert (has_pending_conflict dp key = true) by (apply (hpc_iff dp key Hp); eauto). congruence.
Qed.

Lemma pend_text_other d ch key ck : ck <> c_key ch -> pend_text (db_set d ch) key ck = pend_text d key ck.
Proof. intros H. unfold pend_text. now rewrite db_set_other. Qed.

Lemma pend_text_put_same d key k v : vstate_eqb (v_st v) VDeleted = false ->
  pend_text (put_value d k v) key k = pend_of_text key k (v_val v).
Proof. intros H. unfold pend_text. now rewrite gv_put_same, H. Qed.

Lemma pend_text_put_other d key k v ck : ck <> k -> pend_text (put_value d k v) key ck = pend_text d key ck.
Proof. intros H. unfold pend_text. now rewrite gv_put_other. Qed.

(* writing again the text a record already shows changes no pending text *)
Lemma pend_text_reset d ch key :
  pend_text d key (c_key ch) = pend_of_text key (c_key ch) (c_val ch) ->
  forall ck, pend_text (db_set d ch) key ck = pend_text d key ck.
Proof.
  intros H ck. destruct (String.eqb_spec ck (c_key ch)) as [->|Hne]; [|now apply pend_text_other].
  destruct (db_set_cases d ch) as [->|(v & -> & Hv & Hl)]; auto.
  rewrite pend_text_put_same, Hv by assumption. now rewrite H.
Qed.

(* ---- a key is never one of its own records; its records always are ---------------------- *)
Lemma prefix_split p : forall s, str_eqb_prefix p s = true -> exists r, s = p +++ r.
Proof.
  induction p as [|a p IH]; intros s H; cbn in *.
  - now exists s.
  - destruct s as [|b s]; [discriminate|]. apply andb_true_iff in H as [Hab Hp].
    apply Ascii.eqb_eq in Hab. subst b. destruct (IH s Hp) as [r ->]. now exists r.
Qed.

Lemma prefix_app p r : str_eqb_prefix p (p +++ r) = true.
Proof. induction p as [|a p IH]; cbn; auto. now rewrite Ascii.eqb_refl, IH. Qed.

Lemma key_not_own_record key : starts_with key (rec_prefix key) = false.
Proof.
  unfold rec_prefix. destruct (String.eqb_spec key "") as [->|Hne]; [reflexivity|].
  destruct (starts_with key ("$conflicts_" +++ key +++ "_")) eqn:E; auto.
  exfalso. unfold starts_with in E. apply prefix_split in E as [r Hr].
  apply (f_equal String.length) in Hr. rewrite !str_length_app in Hr. cbn [String.length] in Hr. lia.
Qed.

(* every record key "$conflicts_<key>_<opid>" is found, whatever characters the key contains *)
Lemma rec_key_matches key opid : starts_with (rec_key key opid) (rec_prefix key) = true.
Proof.
  unfold rec_prefix, rec_key, starts_with. destruct (String.eqb_spec key "") as [->|Hne].
  - apply (prefix_app "$conflicts_" ("" +++ "_" +++ N_to_str opid)).
  - rewrite <- !app_assoc_s. apply prefix_app.
Qed.

Lemma pend_text_self d key : pend_text d key key = None.
Proof.
  unfold pend_text, pend_of_text. rewrite key_not_own_record.
  destruct (get_value d key) as [v|]; auto. destruct (vstate_eqb _ _); reflexivity.
Qed.

Lemma rec_key_neq key opid : rec_key key opid <> key.
Proof. apply conflict_key_neq_k. Qed.

(* ================================================================== *)
(* Part C.  Agreement of a primary and a replica database on one key    *)
(* ================================================================== *)

(* strict agreement: the key has the same value and version; the same records of the key
   are pending (live, not marked "resolved"), with the same text.  Versions, op ids,
   disk addresses of records are not compared. *)
Record agree (key : str) (dp ds : db) : Prop := {
  ag_key : kstate dp key = kstate ds key;
  ag_pend : forall ck, pend_text dp key ck = pend_text ds key ck }.

(* agreement on values only *)
Record vagree (key : str) (dp ds : db) : Prop := {
  va_val : kval dp key = kval ds key;
  va_pend : forall ck, pend_text dp key ck = pend_text ds key ck }.

Lemma kval_kstate d k : kval d k = option_map fst (kstate d k).
Proof. unfold kval, kstate. destruct (get_value d k); reflexivity. Qed.
Lemma kver_kstate d k : kver d k = option_map snd (kstate d k).
Proof. unfold kver, kstate. destruct (get_value d k); reflexivity. Qed.

Lemma agree_vagree key dp ds : agree key dp ds -> vagree key dp ds.
Proof. intros [H1 H2]. split; auto. now rewrite !kval_kstate, H1. Qed.

Lemma agree_refl key d : agree key d d.
Proof. split; auto. Qed.

(* ---- marking the record on both sides ---------------------------------------- *)
Lemma pend_after_plain d key ck0 txt clk : rec_writable d ck0 ->
  forall ck, pend_text (db_set d (mkCh ck0 txt (-1) clk false)) key ck =
             if String.eqb ck ck0 then pend_of_text key ck0 txt else pend_text d key ck.
Proof.
  intros Hw ck. destruct (db_set_plain d ck0 txt clk Hw) as (_ & v & -> & Hv & Hl & _).
  destruct (String.eqb_spec ck ck0) as [->|Hne].
  - now rewrite pend_text_put_same, Hv.
  - now apply pend_text_put_other.
Qed.

Lemma pend_same_plain dp ds key ck0 txt c1 c2 :
  rec_writable dp ck0 -> rec_writable ds ck0 ->
  (forall ck, pend_text dp key ck = pend_text ds key ck) ->
  forall ck, pend_text (db_set dp (mkCh ck0 txt (-1) c1 false)) key ck =
             pend_text (db_set ds (mkCh ck0 txt (-1) c2 false)) key ck.
Proof.
  intros Hp Hs H ck. rewrite !pend_after_plain by assumption. now rewrite H.
Qed.

(* the record written a second time (what the "resolve" line does on the replica after the
   "replicate" line already wrote it) *)
Lemma pend_twice d key ck0 txt c1 c2 : rec_writable d ck0 ->
  forall ck, pend_text (db_set (db_set d (mkCh ck0 txt (-1) c1 false)) (mkCh ck0 txt (-1) c2 false)) key ck =
             pend_text (db_set d (mkCh ck0 txt (-1) c1 false)) key ck.
Proof.
  intros Hw. apply pend_text_reset. cbn [c_key c_val].
  rewrite pend_after_plain by assumption. now rewrite String.eqb_refl.
Qed.

(* ---- db_resolve: key and pending texts ------------------------------------------- *)
Definition res_ch (P : bool) (key value : str) (ver : Z) (opid : N) : change :=
  if P then mkCh key value (-2) opid true else mkCh key value ver opid true.

Lemma res_ch_key P key value ver opid : c_key (res_ch P key value ver opid) = key.
Proof. destruct P; reflexivity. Qed.

Lemma db_resolve_eq d key value ver opid clk :
  db_resolve d key value ver opid clk =
  db_set (db_set d (reg_ch key value opid clk))
         (res_ch (has_pending_conflict (db_set d (reg_ch key value opid clk)) key) key value ver opid).
Proof. reflexivity. Qed.

Lemma pend_db_resolve d key value ver opid clk ck :
  pend_text (db_resolve d key value ver opid clk) key ck =
  pend_text (db_set d (reg_ch key value opid clk)) key ck.
Proof.
  rewrite db_resolve_eq. set (d1 := db_set d _). set (ch := res_ch _ _ _ _ _).
  destruct (String.eqb_spec ck key) as [->|Hne].
  - now rewrite !pend_text_self.
  - apply pend_text_other. unfold ch. now rewrite res_ch_key.
Qed.

Lemma kstate_db_resolve d key value ver opid clk :
  kstate (db_resolve d key value ver opid clk) key =
  kset (kstate d key) (res_ch (has_pending_conflict (db_set d (reg_ch key value opid clk)) key) key value ver opid).
Proof.
  rewrite db_resolve_eq. set (d1 := db_set d _). set (ch := res_ch _ _ _ _ _).
  assert (Hk : c_key ch = key) by apply res_ch_key.
  rewrite <- Hk at 1. rewrite kstate_db_set, Hk. f_equal.
  unfold d1. apply kstate_db_set_other. cbn [reg_ch c_key]. intros E. symmetry in E. revert E. apply rec_key_neq.
Qed.

Lemma nodup_db_resolve d key value ver opid clk : nodup_db d -> nodup_db (db_resolve d key value ver opid clk).
Proof. intros H. rewrite db_resolve_eq. auto using nodup_db_set. Qed.

(* has_pending_conflict after the resolve = the test the resolve made *)
Lemma hpc_db_resolve d key value ver opid clk : nodup_db d ->
  has_pending_conflict (db_resolve d key value ver opid clk) key =
  has_pending_conflict (db_set d (reg_ch key value opid clk)) key.
Proof.
  intros H. apply hpc_agree; auto using nodup_db_resolve, nodup_db_set.
  intros ck. apply pend_db_resolve.
Qed.

(* the replica's database after the two queued lines of a resolve *)
Definition db_resolve_replica (ds : db) (key value : str) (ver : Z) (opid c2 c3 : N) : db :=
  db_resolve (db_set ds (reg_ch key value opid c2)) key value ver opid c3.

Lemma resolve_pend_agree dp ds key value ver opid c1 c2 c3 :
  nodup_db dp -> nodup_db ds ->
  (forall ck, pend_text dp key ck = pend_text ds key ck) ->
  rec_writable dp (rec_key key opid) -> rec_writable ds (rec_key key opid) ->
  (forall ck, pend_text (db_resolve dp key value ver opid c1) key ck =
              pend_text (db_resolve_replica ds key value ver opid c2 c3) key ck) /\
  has_pending_conflict (db_set dp (reg_ch key value opid c1)) key =
  has_pending_conflict (db_set (db_set ds (reg_ch key value opid c2)) (reg_ch key value opid c3)) key.
Proof.
  intros Np Ns H Wp Ws.
  assert (A : forall ck, pend_text (db_set dp (reg_ch key value opid c1)) key ck =
                         pend_text (db_set (db_set ds (reg_ch key value opid c2)) (reg_ch key value opid c3)) key ck).
  { intros ck. unfold reg_ch. rewrite pend_twice by assumption. now apply pend_same_plain. }
  split.
  - intros ck. unfold db_resolve_replica. rewrite !pend_db_resolve. apply A.
  - apply hpc_agree; auto using nodup_db_set.
Qed.

(* THEOREM (database level, strict): a replica that agrees with the primary before the resolve
   agrees with it after executing the two queued lines *)
Theorem db_resolve_agree dp ds key value ver opid c1 c2 c3 :
  nodup_db dp -> nodup_db ds -> agree key dp ds ->
  rec_writable dp (rec_key key opid) -> rec_writable ds (rec_key key opid) ->
  agree key (db_resolve dp key value ver opid c1) (db_resolve_replica ds key value ver opid c2 c3).
Proof.
  intros Np Ns [Hk Hpd] Wp Ws.
  destruct (resolve_pend_agree dp ds key value ver opid c1 c2 c3 Np Ns Hpd Wp Ws) as [A B].
  split; auto.
  unfold db_resolve_replica. rewrite !kstate_db_resolve, <- B. f_equal.
  rewrite Hk. symmetry. apply kstate_db_set_other. cbn [reg_ch c_key].
  intros E. symmetry in E. revert E. apply rec_key_neq.
Qed.

(* ---- the version the key ends with -------------------------------------------------- *)
Definition res_ver (P : bool) (o ver : Z) : Z :=
  if P then -2 else if Z.eqb ver (-2) then -2 else if Z.eqb o (-2) then sat_succ ver else o + 1.

Lemma kset_res val o P key value ver opid :
  -2 <= ver -> (o <> -2 -> o < i32_max) ->
  kset (Some (val, o)) (res_ch P key value ver opid) = Some (value, res_ver P o ver).
Proof.
  intros Hv Ho. unfold res_ver, res_ch. destruct P.
  - cbn [kset]. unfold ver_refused, next_version. cbn [c_ver c_val]. change (-2 =? -2) with true.
    cbn [negb]. now rewrite andb_false_r.
  - cbn [kset]. unfold ver_refused, next_version, in_conflict. cbn [c_ver c_val c_resolve v_ver].
    destruct (Z.eqb_spec ver (-2)) as [->|Hne].
    + cbn [negb]. now rewrite andb_false_r.
    + cbn [negb]. rewrite andb_true_r.
      destruct (Z.eqb_spec o (-2)) as [->|Hno].
      * unfold sat_succ. destruct (Z.ltb_spec ver i32_max).
        -- destruct (Z.leb_spec (ver + 1) (-2)); [lia|reflexivity].
        -- destruct (Z.leb_spec i32_max (-2)); [unfold i32_max in *; lia|reflexivity].
      * specialize (Ho Hno). unfold sat_succ. destruct (Z.ltb_spec o i32_max); [|lia].
        destruct (Z.leb_spec (o + 1) o); [lia|reflexivity].
Qed.

(* THEOREM (database level, values): the replica may lag in marking the key (version differs);
   after the lines of a resolve both hold the resolved value, and the versions are
   [res_ver] of each side's previous version *)
Theorem db_resolve_vagree dp ds key value ver opid c1 c2 c3 vp op vs os :
  nodup_db dp -> nodup_db ds -> vagree key dp ds ->
  rec_writable dp (rec_key key opid) -> rec_writable ds (rec_key key opid) ->
  kstate dp key = Some (vp, op) -> kstate ds key = Some (vs, os) ->
  -2 <= ver -> (op <> -2 -> op < i32_max) -> (os <> -2 -> os < i32_max) ->
  let dp' := db_resolve dp key value ver opid c1 in
  let ds' := db_resolve_replica ds key value ver opid c2 c3 in
  let P := has_pending_conflict dp' key in
  has_pending_conflict ds' key = P /\
  kstate dp' key = Some (value, res_ver P op ver) /\
  kstate ds' key = Some (value, res_ver P os ver) /\
  vagree key dp' ds'.
Proof.
  intros Np Ns [Hv Hpd] Wp Ws Kp Ks Hver Hop Hos. cbv zeta.
  destruct (resolve_pend_agree dp ds key value ver opid c1 c2 c3 Np Ns Hpd Wp Ws) as [A B].
  assert (Ks1 : kstate (db_set ds (reg_ch key value opid c2)) key = Some (vs, os)).
  { rewrite <- Ks. apply kstate_db_set_other. cbn [reg_ch c_key].
    intros E. symmetry in E. revert E. apply rec_key_neq. }
  assert (Hp' : has_pending_conflict (db_resolve dp key value ver opid c1) key =
                has_pending_conflict (db_set dp (reg_ch key value opid c1)) key)
    by now apply hpc_db_resolve.
  assert (Hs' : has_pending_conflict (db_resolve_replica ds key value ver opid c2 c3) key =
                has_pending_conflict (db_set dp (reg_ch key value opid c1)) key).
  { unfold db_resolve_replica. rewrite hpc_db_resolve by auto using nodup_db_set. now rewrite B. }
  assert (K1 : kstate (db_resolve dp key value ver opid c1) key =
               Some (value, res_ver (has_pending_conflict (db_resolve dp key value ver opid c1) key) op ver)).
  { rewrite kstate_db_resolve, Kp, Hp'. now apply kset_res. }
  assert (K2 : kstate (db_resolve_replica ds key value ver opid c2 c3) key =
               Some (value, res_ver (has_pending_conflict (db_resolve dp key value ver opid c1) key) os ver)).
  { unfold db_resolve_replica. rewrite kstate_db_resolve, Ks1, <- B, Hp'. now apply kset_res. }
  split; [now rewrite Hs', Hp'|]. split; [exact K1|]. split; [exact K2|].
  split; auto. now rewrite !kval_kstate, K1, K2.
Qed.

(* ---- the conflicting write --------------------------------------------------------- *)
Lemma pend_mark d key old ck : pend_text (mark_conflict d key old) key ck = pend_text d key ck.
Proof.
  destruct (String.eqb_spec ck key) as [->|Hne].
  - now rewrite !pend_text_self.
  - unfold mark_conflict. now apply pend_text_put_other.
Qed.

Lemma writable_mark d key old ck : ck <> key -> rec_writable d ck -> rec_writable (mark_conflict d key old) ck.
Proof. intros Hne H. unfold rec_writable, mark_conflict in *. now rewrite gv_put_other. Qed.

(* THEOREM (database level): the primary marks the key (-2, value kept) and stores the record; the
   replica, executing the one queued line, stores the record with the same text and leaves the key
   as it was *)
Theorem db_conflict_vagree dp ds key old ck rmsg c1 c2 :
  nodup_db dp -> nodup_db ds -> vagree key dp ds ->
  get_value dp key = Some old -> ck <> key ->
  rec_writable dp ck -> rec_writable ds ck ->
  let dp' := db_conflict dp key old ck rmsg c1 in
  let ds' := db_set ds (mkCh ck rmsg (-1) c2 false) in
  kstate dp' key = Some (v_val old, -2) /\
  kstate ds' key = kstate ds key /\
  kval dp' ck = Some rmsg /\ kval ds' ck = Some rmsg /\
  (forall ck', pend_text dp' key ck' = if String.eqb ck' ck then pend_of_text key ck rmsg else pend_text dp key ck') /\
  vagree key dp' ds'.
Proof.
  intros Np Ns [Hv Hpd] Eo Hne Wp Ws. cbv zeta. unfold db_conflict.
  assert (Wp2 := writable_mark dp key old ck Hne Wp).
  assert (Kp : kstate (db_set (mark_conflict dp key old) (mkCh ck rmsg (-1) c1 false)) key = Some (v_val old, -2)).
  { rewrite kstate_db_set_other by (cbn; congruence). unfold kstate, mark_conflict. now rewrite gv_put_same. }
  assert (Ksd : kstate (db_set ds (mkCh ck rmsg (-1) c2 false)) key = kstate ds key).
  { apply kstate_db_set_other. cbn; congruence. }
  assert (Pp : forall ck', pend_text (db_set (mark_conflict dp key old) (mkCh ck rmsg (-1) c1 false)) key ck' =
                           if String.eqb ck' ck then pend_of_text key ck rmsg else pend_text dp key ck').
  { intros ck'. rewrite pend_after_plain by assumption. now rewrite pend_mark. }
  split; [exact Kp|]. split; [exact Ksd|].
  split. { destruct (db_set_plain (mark_conflict dp key old) ck rmsg c1 Wp2) as (_ & v & -> & Hvv & _).
           unfold kval. rewrite gv_put_same. cbn [option_map]. now rewrite Hvv. }
  split. { destruct (db_set_plain ds ck rmsg c2 Ws) as (_ & v & -> & Hvv & _).
           unfold kval. rewrite gv_put_same. cbn [option_map]. now rewrite Hvv. }
  split; [exact Pp|]. split.
  - rewrite !kval_kstate, Kp, Ksd, <- kval_kstate, <- Hv. unfold kval. now rewrite Eo.
  - intros ck'. rewrite Pp, pend_after_plain by assumption. now rewrite Hpd.
Qed.

(* for EVERY key (also one that contains '*'): the record stored by a conflicting write is found by
   has_pending_conflict, i.e. the key stays in conflict until that record is resolved *)
Theorem conflict_record_pending d key old opid rmsg clk :
  nodup_db d -> rec_writable d (rec_key key opid) -> starts_with rmsg "resolved" = false ->
  let d' := db_conflict d key old (rec_key key opid) rmsg clk in
  In (rec_key key opid) (list_conflicts_keys d' key) /\ has_pending_conflict d' key = true.
Proof.
  intros Nd Hw Hr. cbv zeta. unfold db_conflict.
  assert (Hw2 := writable_mark d key old _ (rec_key_neq key opid) Hw).
  assert (Nd2 : nodup_db (db_set (mark_conflict d key old) (mkCh (rec_key key opid) rmsg (-1) clk false)))
    by (apply nodup_db_set; unfold mark_conflict; now apply nodup_put).
  destruct (db_set_plain (mark_conflict d key old) (rec_key key opid) rmsg clk Hw2) as (_ & v & E & Hv & Hl & _).
  split.
  - apply (list_conflicts_keys_iff _ key _ Nd2). exists v. rewrite E, gv_put_same.
    split; auto. split; auto. apply rec_key_matches.
  - apply (hpc_iff _ key Nd2). exists (rec_key key opid).
    rewrite E, pend_text_put_same, Hv by assumption.
    unfold pend_of_text. rewrite rec_key_matches, Hr. discriminate.
Qed.

(* ================================================================== *)
(* Part D.  Node level: the primary                                     *)
(* ================================================================== *)
Local Open Scope N_scope.

(* what [process] does with a parsed request that is not an "rp" envelope *)
Definition exec (n : node) (c : nat) (rq : request) : node * resp :=
  let '(n1, r) := handle n c rq in replicate_request n1 rq (s_db (get_sess n c)) r.

Lemma step_exec n c line rq : parse_request (trim_char nl line) = POk rq ->
  (forall r i, rq <> RqReplicateRequest r i) -> step n c line = exec n c rq.
Proof. intros Hp Hne. unfold step. now rewrite (process_plain _ _ _ _ rq). Qed.

(* session attributes (auth, selected database, user, member) of every session kept *)
Definition same_sess (n n' : node) : Prop := forall c, sattr (get_sess n' c) = sattr (get_sess n c).

Lemma same_sess_refl n : same_sess n n.
Proof. intros c. reflexivity. Qed.
Lemma same_sess_trans a b c : same_sess a b -> same_sess b c -> same_sess a c.
Proof. intros H1 H2 x. now rewrite H2, H1. Qed.
Lemma same_sess_frame n n' : frame n n' -> same_sess n n'.
Proof. intros H c. apply (fr_sess _ _ H). Qed.
Lemma same_sess_core n n' : n_sess n' = n_sess n -> same_sess n n'.
Proof. intros H c. unfold get_sess. now rewrite H. Qed.

Lemma same_sess_auth n n' c : same_sess n n' -> s_auth (get_sess n' c) = s_auth (get_sess n c).
Proof. intros H. specialize (H c). unfold sattr in H. congruence. Qed.
Lemma same_sess_db n n' c : same_sess n n' -> s_db (get_sess n' c) = s_db (get_sess n c).
Proof. intros H. specialize (H c). unfold sattr in H. congruence. Qed.
Lemma same_sess_member n n' c : same_sess n n' -> s_member (get_sess n' c) = s_member (get_sess n c).
Proof. intros H. specialize (H c). unfold sattr in H. congruence. Qed.
Lemma same_sess_is_primary n n' c : same_sess n n' -> sess_is_primary (get_sess n' c) = sess_is_primary (get_sess n c).
Proof. intros H. unfold sess_is_primary. now rewrite (same_sess_member _ _ _ H). Qed.

(* replicate_change: to the replication queue on a primary / starting node, else to the primary *)
Lemma replicate_change_primary n dbn ch : is_primary n = true ->
  replicate_change n dbn ch = replicate_web n (replicate_msg dbn (c_key ch) (c_val ch) (c_ver ch)).
Proof. intros H. unfold replicate_change. now rewrite H. Qed.

Lemma replicate_change_secondary n dbn ch : n_role n = Secondary ->
  replicate_change n dbn ch = send_to_primary n (replicate_msg dbn (c_key ch) (c_val ch) (c_ver ch)).
Proof. intros H. unfold replicate_change, is_primary, is_eligible. now rewrite H. Qed.

Lemma replicate_change_dbs n dbn ch : n_dbs (replicate_change n dbn ch) = n_dbs n.
Proof. unfold replicate_change. destruct (_ || _); reflexivity. Qed.
Lemma replicate_change_sess n dbn ch : n_sess (replicate_change n dbn ch) = n_sess n.
Proof. unfold replicate_change. destruct (_ || _); reflexivity. Qed.
Lemma replicate_change_role n dbn ch : n_role (replicate_change n dbn ch) = n_role n.
Proof. unfold replicate_change. destruct (_ || _); reflexivity. Qed.

(* ---- resolve_conflict, unfolded once and for all ------------------------------------ *)
Lemma resolve_conflict_shape n dbn d key value ver opid :
  get_db n dbn = Some d ->
  exists msgs1 msgs2 r,
    resolve_conflict n dbn (mkCh key value ver opid true) =
    (sends (put_db (replicate_change
                      (sends (put_db (n_set_clock n (n_clock n + 1)) dbn (db_set d (reg_ch key value opid (n_clock n)))) msgs1)
                      dbn (reg_ch key value opid (n_clock n)))
                   dbn (db_resolve d key value ver opid (n_clock n))) msgs2, r).
Proof.
  intros Ed. unfold resolve_conflict. rewrite Ed. unfold tick; cbv beta iota.
  unfold db_resolve, db_set.
  change (mkCh (conflict_key (mkCh key value ver opid true)) ("resolved " +++ c_val (mkCh key value ver opid true)) (-1) (n_clock n) false)
    with (reg_ch key value opid (n_clock n)).
  cbn [c_key c_val c_ver c_opp].
  destruct (set_value d (reg_ch key value opid (n_clock n))) as [[d1 r1] msgs1]. cbn [fst snd].
  destruct (has_pending_conflict d1 key);
    match goal with |- context [set_value d1 ?x] => destruct (set_value d1 x) as [[d2 r2] msgs2] end;
    cbn [fst snd]; do 3 eexists; reflexivity.
Qed.

(* on a primary: one line queued (the record), two ticks *)
Lemma resolve_conflict_primary n dbn d key value ver opid :
  is_primary n = true -> get_db n dbn = Some d ->
  let n' := fst (resolve_conflict n dbn (mkCh key value ver opid true)) in
  get_db n' dbn = Some (db_resolve d key value ver opid (n_clock n)) /\
  n_repl n' = n_repl n ++ [rp_line (n_clock n + 1) (rec_text dbn key opid ("resolved " +++ value))] /\
  n_clock n' = n_clock n + 2 /\ frame n n'.
Proof.
  intros Hp Ed. cbv zeta.
  destruct (resolve_conflict_shape n dbn d key value ver opid Ed) as (msgs1 & msgs2 & r & ->). cbn [fst].
  set (na := sends (put_db (n_set_clock n (n_clock n + 1)) dbn _) msgs1).
  assert (Hpa : is_primary na = true) by (unfold na; rewrite is_primary_sends; exact Hp).
  rewrite (replicate_change_primary na dbn _ Hpa).
  destruct (upd_node (n_set_clock n (n_clock n + 1)) dbn (db_set d (reg_ch key value opid (n_clock n))) msgs1)
    as (Fa & Ra & Ca & Da). fold na in Fa, Ra, Ca, Da.
  set (nb := replicate_web na _).
  destruct (upd_node nb dbn (db_resolve d key value ver opid (n_clock n)) msgs2) as (Fc & Rc & Cc & Dc).
  split; [exact Dc|]. split; [|split].
  - rewrite Rc. unfold nb. rewrite n_repl_replicate_web, Ra, Ca. reflexivity.
  - rewrite Cc. unfold nb. rewrite n_clock_replicate_web, Ca. cbn [n_clock n_set_clock]. lia.
  - eapply frame_trans; [apply (frame_set_clock n (n_clock n + 1))|].
    eapply frame_trans; [exact Fa|]. eapply frame_trans; [apply frame_replicate_web|exact Fc].
Qed.

(* ---- the resolve request at the primary -------------------------------------------------- *)
Lemma handle_resolve_ok n c opid dbn key value ver d :
  is_primary n = true -> s_db (get_sess n c) = Some dbn -> get_db n dbn = Some d ->
  snd (handle n c (RqResolve opid dbn key value ver)) = ROk ->
  handle n c (RqResolve opid dbn key value ver) =
    (fst (resolve_conflict n dbn (mkCh key value ver opid true)), ROk).
Proof.
  intros Hp Hs Ed. cbn [handle]. rewrite Hp. cbn [orb].
  destruct (s_auth (get_sess n c)).
  - unfold guard_db_name. rewrite Ed. reflexivity.
  - destruct (guard_safe n c key PWrite) as [dbn0 d0|n' r] eqn:G.
    + apply guard_safe_go in G as [G1 G2]. rewrite Hs in G1. injection G1 as <-. reflexivity.
    + apply guard_safe_stop in G as (_ & _ & _ & _ & Hno & _). cbn [snd]. intros ->. discriminate Hno.
Qed.

Lemma has_db_get n x d : get_db n x = Some d -> has_db n x = true.
Proof. unfold has_db. now intros ->. Qed.

(* GOAL 1.  What an accepted resolve leaves on the primary: two queued lines, in this order -
   the record, then the resolve itself - and the database changed by [db_resolve] *)
Theorem resolve_queues_lines n c opid dbn key value ver d :
  is_primary n = true -> s_db (get_sess n c) = Some dbn -> get_db n dbn = Some d ->
  snd (handle n c (RqResolve opid dbn key value ver)) = ROk ->
  let res := exec n c (RqResolve opid dbn key value ver) in
  snd res = ROk /\
  n_repl (fst res) = n_repl n ++ [rp_line (n_clock n + 1) (rec_text dbn key opid ("resolved " +++ value));
                                  rp_line (n_clock n + 2) (resolve_text opid dbn key ver value)] /\
  get_db (fst res) dbn = Some (db_resolve d key value ver opid (n_clock n)) /\
  n_clock (fst res) = n_clock n + 3 /\ frame n (fst res).
Proof.
  intros Hp Hs Ed Hok. cbv zeta. unfold exec.
  rewrite (handle_resolve_ok n c opid dbn key value ver d Hp Hs Ed Hok), Hs.
  destruct (resolve_conflict_primary n dbn d key value ver opid Hp Ed) as (D1 & R1 & C1 & F1).
  set (n1 := fst (resolve_conflict n dbn _)) in *.
  unfold replicate_request. cbn [or_empty]. rewrite (has_db_get _ _ _ D1). cbn [negb].
  cbn [fst snd]. split; [reflexivity|]. split; [|split; [|split]].
  - rewrite n_repl_replicate_web, R1, C1, <- app_assoc. reflexivity.
  - exact D1.
  - rewrite n_clock_replicate_web, C1. lia.
  - eapply frame_trans; [exact F1|apply frame_replicate_web].
Qed.

(* the request text of the client parses to this request: [step] on the text is [exec] *)
Corollary resolve_text_step n c opid dbn key value ver :
  (opid < 2 ^ 64) -> simple_tok dbn -> simple_tok key -> no_nl value -> no_semi_end value -> is_i32 ver ->
  step n c (resolve_text opid dbn key ver value) = exec n c (RqResolve opid dbn key value ver).
Proof.
  intros Hid Hd Hk Hvn Hvs Hver. apply step_exec; [|discriminate].
  rewrite resolve_text_trim by assumption.
  apply resolve_roundtrip; auto using tok_no_sp, tok_no_nl.
Qed.

(* how [db_resolve] changes the database: record marked, key set, nothing else *)
Theorem db_resolve_effect d key value ver opid clk old :
  nodup_db d -> rec_writable d (rec_key key opid) -> get_value d key = Some old ->
  (-2 <= ver)%Z -> (v_ver old <> -2 -> v_ver old < i32_max)%Z ->
  let d' := db_resolve d key value ver opid clk in
  kval d' (rec_key key opid) = Some ("resolved " +++ value) /\
  kstate d' key = Some (value, res_ver (has_pending_conflict d' key) (v_ver old) ver) /\
  (forall k, k <> key -> k <> rec_key key opid -> get_value d' k = get_value d k).
Proof.
  intros Nd Hw Eo Hv Ho. cbv zeta. split; [|split].
  - rewrite db_resolve_eq. unfold kval. rewrite db_set_other.
    2:{ rewrite res_ch_key. apply rec_key_neq. }
    unfold reg_ch. destruct (db_set_plain d (rec_key key opid) ("resolved " +++ value) clk Hw) as (_ & v & -> & Hvv & _).
    rewrite gv_put_same. cbn [option_map]. now rewrite Hvv.
  - rewrite kstate_db_resolve, hpc_db_resolve by assumption.
    unfold kstate at 1. rewrite Eo. cbn [option_map]. now apply kset_res.
  - intros k Hk1 Hk2. rewrite db_resolve_eq. rewrite db_set_other by (now rewrite res_ch_key).
    now apply db_set_other.
Qed.

(* ---- the conflicting write at the primary ---------------------------------------------- *)
Lemma set_value_refused d ch old : get_value d (c_key ch) = Some old -> ver_refused ch old = true ->
  set_value d ch = (d, RVersionError (c_key ch) (v_ver old) (c_ver ch) old ch (upd_state old), []).
Proof. intros E H. unfold set_value. rewrite E. unfold ver_refused in H. now rewrite H. Qed.

Lemma apply_change_arbiter n dbn d ch old :
  get_db n dbn = Some d -> d_strat d = SArbiter -> has_arbiter d = true ->
  get_value d (c_key ch) = Some old -> ver_refused ch old = true ->
  let rmsg := conflict_notice dbn d ch old in
  let d2 := mark_conflict d (c_key ch) old in
  let n1 := sends (put_db n dbn d2) (arbiter_msgs d2 rmsg) in
  let ch2 := mkCh (conflict_key ch) rmsg (-1) (n_clock n1) false in
  exists msgs3,
    apply_change n dbn ch =
    (replicate_change (sends (put_db (n_set_clock n1 (n_clock n1 + 1)) dbn (db_set d2 ch2)) msgs3) dbn ch2,
     RError ("$$conflitct unresolved " +++ conflict_key ch)).
Proof.
  intros Ed Hst Ha Eo Hr. cbv zeta.
  unfold apply_change. rewrite Ed, (set_value_refused d ch old Eo Hr), Hst, Ha. cbn [negb].
  fold (mark_conflict d (c_key ch) old).
  rewrite (model_info_eq old (v_ver old) (c_ver ch) (list_conflicts_keys (mark_conflict d (c_key ch) old) (c_key ch))).
  unfold conflict_notice.
  destruct (conflict_info old (v_ver old) (c_ver ch) (list_conflicts_keys (mark_conflict d (c_key ch) old) (c_key ch))) as [prev cver].
  set (rmsg := "resolve " +++ _).
  unfold tick; cbv beta iota. unfold db_set.
  match goal with |- context [set_value ?a ?x] => destruct (set_value a x) as [[d3 r3] msgs3] end.
  cbn [fst]. exists msgs3. reflexivity.
Qed.

(* GOAL 3, primary half.  A versioned write that conflicts on an arbiter database with a registered
   arbiter: the answer, the one queued line (the record), the database *)
Theorem conflict_queues_lines n c key value ver dbn d old :
  is_primary n = true -> guard_safe n c key PWrite = GGo dbn d ->
  d_strat d = SArbiter -> has_arbiter d = true -> get_value d key = Some old ->
  ver_refused (mkCh key value ver (n_clock n) false) old = true ->
  let rmsg := conflict_notice dbn d (mkCh key value ver (n_clock n) false) old in
  let res := exec n c (RqSet key value ver) in
  snd res = RError ("$$conflitct unresolved " +++ rec_key key (n_clock n)) /\
  n_repl (fst res) = n_repl n ++ [rp_line (n_clock n + 2) (rec_text dbn key (n_clock n) rmsg)] /\
  get_db (fst res) dbn = Some (db_conflict d key old (rec_key key (n_clock n)) rmsg (n_clock n + 1)) /\
  n_clock (fst res) = n_clock n + 3 /\ frame n (fst res).
Proof.
  intros Hp G Hst Ha Eo Hr. cbv zeta.
  destruct (guard_safe_go _ _ _ _ _ _ G) as [Hs Ed].
  unfold exec. cbn [handle]. rewrite G. unfold set_key_value, tick. cbv beta iota.
  set (ch := mkCh key value ver (n_clock n) false) in *.
  set (nc := n_set_clock n (n_clock n + 1)).
  assert (Edc : get_db nc dbn = Some d) by exact Ed.
  destruct (apply_change_arbiter nc dbn d ch old Edc Hst Ha Eo Hr) as (msgs3 & ->).
  set (rmsg := conflict_notice dbn d ch old).
  set (d2 := mark_conflict d (c_key ch) old).
  destruct (upd_node nc dbn d2 (arbiter_msgs d2 rmsg)) as (F1 & R1 & C1 & D1).
  set (n1 := sends (put_db nc dbn d2) (arbiter_msgs d2 rmsg)) in *.
  set (ch2 := mkCh (conflict_key ch) rmsg (-1) (n_clock n1) false).
  destruct (upd_node (n_set_clock n1 (n_clock n1 + 1)) dbn (db_set d2 ch2) msgs3) as (F3 & R3 & C3 & D3).
  set (n3 := sends (put_db (n_set_clock n1 (n_clock n1 + 1)) dbn (db_set d2 ch2)) msgs3) in *.
  assert (Fn3 : frame n n3).
  { eapply frame_trans; [apply (frame_set_clock n (n_clock n + 1))|]. eapply frame_trans; [exact F1|].
    eapply frame_trans; [apply (frame_set_clock n1 (n_clock n1 + 1))|exact F3]. }
  assert (Hp3 : is_primary n3 = true) by (rewrite (is_primary_frame n n3 Fn3); exact Hp).
  rewrite (replicate_change_primary n3 dbn ch2 Hp3).
  set (n4 := replicate_web n3 _).
  assert (Fn4 : frame n n4) by (eapply frame_trans; [exact Fn3|apply frame_replicate_web]).
  rewrite (is_primary_frame n n4 Fn4), Hp. cbn [fst snd replicate_request].
  assert (Ck : n_clock n1 = n_clock n + 1) by (rewrite C1; reflexivity).
  split; [reflexivity|]. split; [|split; [|split]].
  - unfold n4. rewrite n_repl_replicate_web, R3, C3. cbn [n_repl n_set_clock n_clock]. rewrite R1, Ck.
    cbn [n_repl n_set_clock]. replace (n_clock n + 1 + 1) with (n_clock n + 2) by lia. reflexivity.
  - unfold n4. change (get_db (replicate_web n3 (replicate_msg dbn (c_key ch2) (c_val ch2) (c_ver ch2))) dbn) with (get_db n3 dbn).
    rewrite D3. unfold ch2. rewrite Ck. reflexivity.
  - unfold n4. rewrite n_clock_replicate_web, C3. cbn [n_clock n_set_clock]. lia.
  - exact Fn4.
Qed.

(* the answer "$$conflitct unresolved ..." identifies this branch: the hypotheses of
   [conflict_queues_lines] follow from it *)
Lemma guard_safe_stop_msg n c key req n' r : guard_safe n c key req = GStop n' r ->
  r = RError "To read security keys you must auth as an admin!" \/ r = RError no_db_msg \/ r = RError denied_msg.
Proof.
  unfold guard_safe, guard_db_name, reject_no_db.
  destruct (_ && _); [intros [= <- <-]; auto|].
  destruct (s_db (get_sess n c)) as [nm|]; [|intros [= <- <-]; auto].
  destruct (get_db n nm) as [d0|]; [|intros [= <- <-]; auto].
  destruct (has_permission n c key d0 req); [discriminate|]. intros [= <- <-]; auto.
Qed.

Theorem conflict_answer_inv n c key value ver ck :
  snd (handle n c (RqSet key value ver)) = RError ("$$conflitct unresolved " +++ ck) ->
  exists dbn d old,
    guard_safe n c key PWrite = GGo dbn d /\ d_strat d = SArbiter /\ has_arbiter d = true /\
    get_value d key = Some old /\ ver_refused (mkCh key value ver (n_clock n) false) old = true.
Proof.
  cbn [handle]. destruct (guard_safe n c key PWrite) as [dbn d|n' r] eqn:G.
  2:{ cbn [snd]. intros ->. apply guard_safe_stop_msg in G as [G|[G|G]]; discriminate G. }
  destruct (guard_safe_go _ _ _ _ _ _ G) as [Hs Ed].
  unfold set_key_value, tick. cbv beta iota.
  set (ch := mkCh key value ver (n_clock n) false).
  set (nc := n_set_clock n (n_clock n + 1)).
  destruct (apply_change nc dbn ch) as [n1 r] eqn:EA. cbn [snd]. intros ->.
  exists dbn, d. unfold apply_change in EA. change (get_db nc dbn) with (get_db n dbn) in EA. rewrite Ed in EA.
  destruct (get_value d key) as [old|] eqn:Eo.
  2:{ unfold set_value in EA. cbn [c_key ch] in EA. rewrite Eo in EA. injection EA as _ E. discriminate E. }
  exists old.
  destruct (ver_refused ch old) eqn:Hr.
  2:{ unfold set_value in EA. cbn [c_key ch] in EA. rewrite Eo in EA. unfold ver_refused in Hr. rewrite Hr in EA.
      injection EA as _ E. discriminate E. }
  rewrite (set_value_refused d ch old Eo Hr) in EA.
  destruct (d_strat d) eqn:Hst.
  - injection EA as _ E. discriminate E.
  - exfalso. destruct (N.ltb (v_opp old) (c_opp ch)).
    + unfold tick in EA. cbv beta iota in EA.
      match type of EA with context [set_value d ?x] => destruct (set_value d x) as [[d2 r2] m2] eqn:E2 end.
      injection EA as _ E. subst r2. unfold set_value in E2.
      destruct (get_value d _); [destruct (_ && _)|]; injection E2 as _ E2 _; discriminate E2.
    + injection EA as _ E. discriminate E.
  - destruct (has_arbiter d) eqn:Ha; cbn [negb] in EA.
    + repeat split; auto.
    + injection EA as _ E. discriminate E.
Qed.

(* ================================================================== *)
(* Part E.  Node level: the replica                                     *)
(* ================================================================== *)

Lemma rr_replicate_set n dbn k v ver sd r :
  let n' := fst (replicate_request n (RqReplicateSet dbn k v ver) sd r) in
  n_dbs n' = n_dbs n /\ n_sess n' = n_sess n /\ n_role n' = n_role n /\ n_members n' = n_members n /\
  n_clock n <= n_clock n' <= n_clock n + 1.
Proof.
  cbv zeta. unfold replicate_request.
  destruct r; destruct sd as [nm|]; try destruct (negb (has_db n nm)); cbn; repeat split; lia.
Qed.

Lemma rr_resolve n opid dbn k v ver sd r :
  let n' := fst (replicate_request n (RqResolve opid dbn k v ver) sd r) in
  n_dbs n' = n_dbs n /\ n_sess n' = n_sess n /\ n_role n' = n_role n /\ n_members n' = n_members n /\
  n_clock n <= n_clock n' <= n_clock n + 1.
Proof.
  cbv zeta. unfold replicate_request.
  destruct r; destruct sd as [nm|]; try destruct (negb (has_db n nm)); cbn; repeat split; lia.
Qed.

(* the "replicate <db> $conflicts_<key>_<opid> -1 <text>" line on the replica *)
Lemma sec_record_step s l dbn ds key opid txt :
  simple_tok dbn -> simple_tok key -> no_nl txt -> no_semi_end txt ->
  s_auth (get_sess s l) = true -> get_db s dbn = Some ds -> rec_writable ds (rec_key key opid) ->
  let s' := fst (step s l (rec_text dbn key opid txt)) in
  get_db s' dbn = Some (db_set ds (mkCh (rec_key key opid) txt (-1) (n_clock s) false)) /\
  same_sess s s' /\ n_role s' = n_role s /\ n_members s' = n_members s /\
  n_clock s <= n_clock s' <= n_clock s + 2.
Proof.
  intros Hd Hk Htn Hts Ha Ed Hw. cbv zeta.
  rewrite (step_exec _ _ _ (RqReplicateSet dbn (rec_key key opid) txt (-1)));
    [|apply rec_text_parse; auto using tok_no_sp, tok_no_nl|discriminate].
  unfold exec. cbn [handle]. rewrite Ha, Ed. cbn [negb].
  unfold set_key_value, tick. cbv beta iota. unfold apply_change.
  change (get_db (n_set_clock s (n_clock s + 1)) dbn) with (get_db s dbn). rewrite Ed.
  destruct (db_set_plain ds (rec_key key opid) txt (n_clock s) Hw) as (E & _). rewrite E.
  set (d1 := db_set ds _). set (msgs := snd (set_value ds _)).
  destruct (upd_node (n_set_clock s (n_clock s + 1)) dbn d1 msgs) as (F1 & R1 & C1 & D1).
  set (s1 := sends (put_db (n_set_clock s (n_clock s + 1)) dbn d1) msgs) in *.
  destruct (rr_replicate_set s1 dbn (rec_key key opid) txt (-1) (s_db (get_sess s l)) (RSet (rec_key key opid) txt))
    as (Q1 & Q2 & Q3 & Q4 & Q5). cbv zeta in Q1, Q2, Q3, Q4, Q5.
  set (s2 := fst (replicate_request s1 _ _ _)) in *.
  assert (Fs1 : frame s s1) by (eapply frame_trans; [apply (frame_set_clock s (n_clock s + 1))|exact F1]).
  split; [|split; [|split; [|split]]].
  - unfold get_db. rewrite Q1. exact D1.
  - eapply same_sess_trans; [apply (same_sess_frame _ _ Fs1)|now apply same_sess_core].
  - rewrite Q3. apply (fr_role _ _ Fs1).
  - rewrite Q4. apply (fr_members _ _ Fs1).
  - rewrite C1 in Q5. cbn [n_clock n_set_clock] in Q5. lia.
Qed.

(* the "resolve ..." line on the replica: its link session is authenticated and is the primary's *)
Lemma sec_resolve_step s l opid dbn key value ver ds :
  (opid < 2 ^ 64) -> simple_tok dbn -> simple_tok key -> no_nl value -> no_semi_end value -> is_i32 ver ->
  s_auth (get_sess s l) = true -> sess_is_primary (get_sess s l) = true -> get_db s dbn = Some ds ->
  let s' := fst (step s l (resolve_text opid dbn key ver value)) in
  get_db s' dbn = Some (db_resolve ds key value ver opid (n_clock s)) /\
  same_sess s s' /\ n_role s' = n_role s /\ n_clock s <= n_clock s' <= n_clock s + 3 /\
  (* the replica sends the record line back to the primary (replicate_change on a non-primary) *)
  (n_role s = Secondary ->
   n_members s' = n_members (send_to_primary s (rec_text dbn key opid ("resolved " +++ value)))).
Proof.
  intros Hid Hd Hk Hvn Hvs Hver Ha Hm Ed. cbv zeta.
  rewrite (step_exec _ _ _ (RqResolve opid dbn key value ver));
    [|rewrite resolve_text_trim by assumption; apply resolve_roundtrip; auto using tok_no_sp, tok_no_nl|discriminate].
  unfold exec. cbn [handle]. rewrite Ha, Hm. cbn [andb]. rewrite orb_true_r.
  unfold guard_db_name. rewrite Ed.
  destruct (resolve_conflict_shape s dbn ds key value ver opid Ed) as (msgs1 & msgs2 & r & ->). cbn [fst].
  set (reg := reg_ch key value opid (n_clock s)).
  destruct (upd_node (n_set_clock s (n_clock s + 1)) dbn (db_set ds reg) msgs1) as (Fa & Ra & Ca & Da).
  set (sa := sends (put_db (n_set_clock s (n_clock s + 1)) dbn (db_set ds reg)) msgs1) in *.
  set (sb := replicate_change sa dbn reg).
  destruct (upd_node sb dbn (db_resolve ds key value ver opid (n_clock s)) msgs2) as (Fc & Rc & Cc & Dc).
  set (sc := sends (put_db sb dbn (db_resolve ds key value ver opid (n_clock s))) msgs2) in *.
  destruct (rr_resolve sc opid dbn key value ver (s_db (get_sess s l)) ROk) as (Q1 & Q2 & Q3 & Q4 & Q5).
  cbv zeta in Q1, Q2, Q3, Q4, Q5.
  set (sd := fst (replicate_request sc _ _ _)) in *.
  assert (Fsa : frame s sa) by (eapply frame_trans; [apply (frame_set_clock s (n_clock s + 1))|exact Fa]).
  assert (Hcb : n_clock sa <= n_clock sb <= n_clock sa + 1).
  { unfold sb, replicate_change. destruct (_ || _); cbn; lia. }
  split; [|split; [|split; [|split]]].
  - unfold get_db. rewrite Q1. exact Dc.
  - eapply same_sess_trans; [apply (same_sess_frame _ _ Fsa)|].
    eapply same_sess_trans; [apply (same_sess_core sa sb); apply replicate_change_sess|].
    eapply same_sess_trans; [apply (same_sess_frame _ _ Fc)|now apply same_sess_core].
  - rewrite Q3, (fr_role _ _ Fc). unfold sb. rewrite replicate_change_role. apply (fr_role _ _ Fsa).
  - rewrite Cc in Q5. rewrite Ca in Hcb. cbn [n_clock n_set_clock] in Hcb. lia.
  - intros Hr.
    assert (Hra : n_role sa = Secondary) by (rewrite (fr_role _ _ Fsa); exact Hr).
    assert (Esb : sb = send_to_primary sa (rec_text dbn key opid ("resolved " +++ value))).
    { unfold sb. now rewrite (replicate_change_secondary sa dbn reg Hra). }
    rewrite Q4, (fr_members _ _ Fc), Esb. unfold send_to_primary. cbn [n_members n_set_members].
    now rewrite (fr_members _ _ Fsa).
Qed.

(* executing request texts, in order, on the link session [l] of the replica *)
Definition run_reqs (s : node) (l : nat) (reqs : list str) : node :=
  fold_left (fun s t => fst (step s l t)) reqs s.

(* the two queued lines of a resolve on the replica (node part) *)
Lemma sec_resolve_lines s l opid dbn key value ver ds :
  (opid < 2 ^ 64) -> simple_tok dbn -> simple_tok key -> no_nl value -> no_semi_end value -> is_i32 ver ->
  s_auth (get_sess s l) = true -> sess_is_primary (get_sess s l) = true ->
  get_db s dbn = Some ds -> rec_writable ds (rec_key key opid) ->
  let s' := run_reqs s l [rec_text dbn key opid ("resolved " +++ value); resolve_text opid dbn key ver value] in
  exists c3, get_db s' dbn = Some (db_resolve_replica ds key value ver opid (n_clock s) c3) /\
    same_sess s s' /\ n_role s' = n_role s /\ n_clock s <= n_clock s' <= n_clock s + 5.
Proof.
  intros Hid Hd Hk Hvn Hvs Hver Ha Hm Ed Hw. cbv zeta. unfold run_reqs. cbn [fold_left].
  destruct (sec_record_step s l dbn ds key opid ("resolved " +++ value) Hd Hk (no_nl_resolved _ Hvn)
              (no_semi_resolved _ Hvs) Ha Ed Hw) as (D1 & S1 & R1 & _ & C1).
  set (s1 := fst (step s l (rec_text dbn key opid ("resolved " +++ value)))) in *.
  assert (Ha1 : s_auth (get_sess s1 l) = true) by (rewrite (same_sess_auth _ _ _ S1); exact Ha).
  assert (Hm1 : sess_is_primary (get_sess s1 l) = true) by (rewrite (same_sess_is_primary _ _ _ S1); exact Hm).
  destruct (sec_resolve_step s1 l opid dbn key value ver _ Hid Hd Hk Hvn Hvs Hver Ha1 Hm1 D1) as (D2 & S2 & R2 & C2 & _).
  exists (n_clock s1). split; [exact D2|]. split; [eapply same_sess_trans; eauto|]. split; [congruence|lia].
Qed.

(* GOAL 2.  A replica that agrees with the primary on the key and on its pending records before the
   resolve agrees with it after executing the two queued request texts: same value, same version
   (in particular -2 exactly when the primary keeps the key in conflict), same pending records *)
Theorem resolve_lines_apply_on_secondary s l opid dbn key value ver dp ds cp :
  (opid < 2 ^ 64) -> simple_tok dbn -> simple_tok key -> no_nl value -> no_semi_end value -> is_i32 ver ->
  s_auth (get_sess s l) = true -> sess_is_primary (get_sess s l) = true ->
  get_db s dbn = Some ds -> nodup_db dp -> nodup_db ds ->
  rec_writable dp (rec_key key opid) -> rec_writable ds (rec_key key opid) ->
  agree key dp ds ->
  let s' := run_reqs s l [rec_text dbn key opid ("resolved " +++ value); resolve_text opid dbn key ver value] in
  exists ds', get_db s' dbn = Some ds' /\ nodup_db ds' /\
    agree key (db_resolve dp key value ver opid cp) ds' /\
    has_pending_conflict ds' key = has_pending_conflict (db_resolve dp key value ver opid cp) key /\
    same_sess s s' /\ n_role s' = n_role s.
Proof.
  intros Hid Hd Hk Hvn Hvs Hver Ha Hm Ed Np Ns Wp Ws Hag. cbv zeta.
  destruct (sec_resolve_lines s l opid dbn key value ver ds Hid Hd Hk Hvn Hvs Hver Ha Hm Ed Ws)
    as (c3 & D & S & R & _).
  exists (db_resolve_replica ds key value ver opid (n_clock s) c3).
  pose proof (db_resolve_agree dp ds key value ver opid cp (n_clock s) c3 Np Ns Hag Wp Ws) as A.
  split; [exact D|]. split; [unfold db_resolve_replica; auto using nodup_db_resolve, nodup_db_set|].
  split; [exact A|]. split; [|auto].
  symmetry. apply hpc_agree; [now apply nodup_db_resolve|unfold db_resolve_replica; auto using nodup_db_resolve, nodup_db_set|].
  apply (ag_pend _ _ _ A).
Qed.

(* the same when the replica only agrees on the VALUE of the key (it may not have marked the key as in
   conflict, see [conflict_lines_apply_on_secondary]): both end with the resolved value; each side's
   version is [res_ver] of its own previous version *)
Theorem resolve_lines_apply_lagging s l opid dbn key value ver dp ds cp vp op vs os :
  (opid < 2 ^ 64) -> simple_tok dbn -> simple_tok key -> no_nl value -> no_semi_end value -> is_i32 ver ->
  s_auth (get_sess s l) = true -> sess_is_primary (get_sess s l) = true ->
  get_db s dbn = Some ds -> nodup_db dp -> nodup_db ds ->
  rec_writable dp (rec_key key opid) -> rec_writable ds (rec_key key opid) ->
  vagree key dp ds ->
  kstate dp key = Some (vp, op) -> kstate ds key = Some (vs, os) ->
  (-2 <= ver)%Z -> (op <> -2 -> op < i32_max)%Z -> (os <> -2 -> os < i32_max)%Z ->
  let s' := run_reqs s l [rec_text dbn key opid ("resolved " +++ value); resolve_text opid dbn key ver value] in
  let dp' := db_resolve dp key value ver opid cp in
  let P := has_pending_conflict dp' key in
  exists ds', get_db s' dbn = Some ds' /\ nodup_db ds' /\
    has_pending_conflict ds' key = P /\
    kstate dp' key = Some (value, res_ver P op ver) /\
    kstate ds' key = Some (value, res_ver P os ver) /\
    vagree key dp' ds' /\ same_sess s s' /\ n_role s' = n_role s.
Proof.
  intros Hid Hd Hk Hvn Hvs Hver Ha Hm Ed Np Ns Wp Ws Hag Kp Ks Hv Hop Hos. cbv zeta.
  destruct (sec_resolve_lines s l opid dbn key value ver ds Hid Hd Hk Hvn Hvs Hver Ha Hm Ed Ws)
    as (c3 & D & S & R & _).
  exists (db_resolve_replica ds key value ver opid (n_clock s) c3).
  destruct (db_resolve_vagree dp ds key value ver opid cp (n_clock s) c3 vp op vs os Np Ns Hag Wp Ws Kp Ks Hv Hop Hos)
    as (A1 & A2 & A3 & A4).
  split; [exact D|]. split; [unfold db_resolve_replica; auto using nodup_db_resolve, nodup_db_set|].
  repeat (split; auto).
Qed.

(* GOAL 3, replica half.  The one queued line of a conflicting write stores the record with the same
   text on the replica; the replica's KEY is left as it was (value kept - equal to the primary's - but
   NOT marked -2: nothing that is replicated touches it) *)
Theorem conflict_lines_apply_on_secondary s l dbn key opid rmsg dp ds old cp :
  simple_tok dbn -> simple_tok key -> no_nl rmsg -> no_semi_end rmsg ->
  s_auth (get_sess s l) = true -> get_db s dbn = Some ds ->
  nodup_db dp -> nodup_db ds -> vagree key dp ds -> get_value dp key = Some old ->
  rec_writable dp (rec_key key opid) -> rec_writable ds (rec_key key opid) ->
  let s' := run_reqs s l [rec_text dbn key opid rmsg] in
  let dp' := db_conflict dp key old (rec_key key opid) rmsg cp in
  exists ds', get_db s' dbn = Some ds' /\ nodup_db ds' /\ nodup_db dp' /\
    kstate dp' key = Some (v_val old, (-2)%Z) /\
    kstate ds' key = kstate ds key /\
    kval dp' (rec_key key opid) = Some rmsg /\ kval ds' (rec_key key opid) = Some rmsg /\
    vagree key dp' ds' /\ same_sess s s' /\ n_role s' = n_role s.
Proof.
  intros Hd Hk Hrn Hrs Ha Ed Np Ns Hag Eo Wp Ws. cbv zeta. unfold run_reqs. cbn [fold_left].
  destruct (sec_record_step s l dbn ds key opid rmsg Hd Hk Hrn Hrs Ha Ed Ws) as (D1 & S1 & R1 & _ & _).
  eexists. split; [exact D1|].
  destruct (db_conflict_vagree dp ds key old (rec_key key opid) rmsg cp (n_clock s) Np Ns Hag Eo (rec_key_neq key opid) Wp Ws)
    as (A1 & A2 & A3 & A4 & _ & A6).
  split; [now apply nodup_db_set|]. split; [unfold db_conflict; apply nodup_db_set; unfold mark_conflict; now apply nodup_put|].
  repeat (split; auto).
Qed.

(* ---- primary and replica together: the queued lines are read off the replication queue ---------- *)
Definition line_req (line : str) : str :=
  match parse_request line with POk (RqReplicateRequest req _) => req | _ => "" end.

(* the request texts of the lines [n'] has queued beyond those of [n] *)
Definition queued_reqs (n n' : node) : list str :=
  map line_req (skipn (List.length (n_repl n)) (n_repl n')).

Lemma line_req_rp id msg : id < 2 ^ 64 -> msg <> "" -> no_semi_end msg -> line_req (rp_line id msg) = msg.
Proof. intros Hid Hm Hs. unfold line_req, rp_line. now rewrite rp_roundtrip. Qed.

Lemma queued_reqs_app n n' ls : n_repl n' = n_repl n ++ ls -> queued_reqs n n' = map line_req ls.
Proof.
  intros H. unfold queued_reqs. rewrite H, skipn_app, skipn_all, Nat.sub_diag. reflexivity.
Qed.

Lemma replicate_msg_ne dbn k txt ver : replicate_msg dbn k txt ver <> "".
Proof. discriminate. Qed.
Lemma replicate_msg_semi dbn k txt ver : no_semi_end txt -> no_semi_end (replicate_msg dbn k txt ver).
Proof.
  intros H. unfold replicate_msg. repeat (rewrite <- app_assoc_s). rewrite app_assoc_s. now apply no_semi_end_sep.
Qed.
Lemma resolve_text_semi opid dbn key ver value : no_semi_end value -> no_semi_end (resolve_text opid dbn key ver value).
Proof.
  intros H. unfold resolve_text. repeat (rewrite <- app_assoc_s). rewrite app_assoc_s. now apply no_semi_end_sep.
Qed.

(* GOALS 1+2 together: the resolve handled by the primary, its queued lines executed by the replica *)
Theorem resolve_replicates n c s l opid dbn key value ver dp ds :
  (opid < 2 ^ 64) -> simple_tok dbn -> simple_tok key -> no_nl value -> no_semi_end value -> is_i32 ver ->
  n_clock n + 3 <= 2 ^ 64 ->
  is_primary n = true -> s_db (get_sess n c) = Some dbn -> get_db n dbn = Some dp ->
  snd (handle n c (RqResolve opid dbn key value ver)) = ROk ->
  s_auth (get_sess s l) = true -> sess_is_primary (get_sess s l) = true -> get_db s dbn = Some ds ->
  nodup_db dp -> nodup_db ds ->
  rec_writable dp (rec_key key opid) -> rec_writable ds (rec_key key opid) ->
  agree key dp ds ->
  let n' := fst (exec n c (RqResolve opid dbn key value ver)) in
  let s' := run_reqs s l (queued_reqs n n') in
  queued_reqs n n' = [rec_text dbn key opid ("resolved " +++ value); resolve_text opid dbn key ver value] /\
  exists dp' ds', get_db n' dbn = Some dp' /\ get_db s' dbn = Some ds' /\
    nodup_db dp' /\ nodup_db ds' /\ agree key dp' ds' /\
    has_pending_conflict ds' key = has_pending_conflict dp' key.
Proof.
  intros Hid Hd Hk Hvn Hvs Hver Hclk Hp Hs Edp Hok Ha Hm Eds Np Ns Wp Ws Hag. cbv zeta.
  destruct (resolve_queues_lines n c opid dbn key value ver dp Hp Hs Edp Hok) as (_ & R & D & _ & _).
  assert (Q : queued_reqs n (fst (exec n c (RqResolve opid dbn key value ver))) =
              [rec_text dbn key opid ("resolved " +++ value); resolve_text opid dbn key ver value]).
  { rewrite (queued_reqs_app _ _ _ R). cbn [map].
    rewrite !line_req_rp; auto using resolve_text_semi; try lia; try discriminate.
    apply replicate_msg_semi. now apply no_semi_resolved. }
  split; [exact Q|]. rewrite Q.
  destruct (resolve_lines_apply_on_secondary s l opid dbn key value ver dp ds (n_clock n)
              Hid Hd Hk Hvn Hvs Hver Ha Hm Eds Np Ns Wp Ws Hag) as (ds' & D' & N' & A' & P' & _).
  exists (db_resolve dp key value ver opid (n_clock n)), ds'.
  repeat (split; auto). now apply nodup_db_resolve.
Qed.

(* ---- the text of the notice: lexical facts ----------------------------------------------------- *)
Lemma conflict_notice_semi dbn d ch old : no_semi_end (c_val ch) -> no_semi_end (conflict_notice dbn d ch old).
Proof.
  intros H. unfold conflict_notice. destruct (conflict_info _ _ _ _) as [prev cver].
  repeat (rewrite <- app_assoc_s). rewrite app_assoc_s. now apply no_semi_end_sep.
Qed.

Lemma conflict_notice_no_nl dbn d ch old :
  no_nl dbn -> no_nl (c_key ch) -> no_nl (c_val ch) -> no_nl (v_val old) ->
  (forall ck, In ck (list_conflicts_keys (mark_conflict d (c_key ch) old) (c_key ch)) -> no_nl ck) ->
  no_nl (conflict_notice dbn d ch old).
Proof.
  intros Hd Hk Hv Ho Hpend. unfold conflict_notice.
  destruct (conflict_info _ _ _ _) as [prev cver] eqn:E.
  assert (Hprev : no_nl prev).
  { unfold conflict_info in E. destruct (Z.eqb (v_ver old) (-2)).
    - destruct (list_conflicts_keys _ _) as [|a r] eqn:EL; [now injection E as <- _|].
      injection E as <- _. apply Hpend. change (In (last (a :: r) "") (a :: r)).
      destruct (@exists_last _ (a :: r)) as (l' & x & Ex); [discriminate|]. rewrite Ex, last_last.
      apply in_or_app. right. now left.
    - now injection E as <- _. }
  unfold no_nl in *. rewrite !nochar_app, Hd, Hk, Hv, Hprev, (no_nl_N (c_opp ch)), (no_nl_Z cver). reflexivity.
Qed.

(* ================================================================== *)
(* Part F.  A run: conflicting writes and resolves of one key           *)
(* ================================================================== *)
Local Open Scope Z_scope.

(* versions of the records of [key] stay in a range where plain writes succeed *)
Definition recs_ok (key : str) (B : Z) (d : db) : Prop :=
  forall opid r, get_value d (rec_key key opid) = Some r -> -1 <= v_ver r <= B.
(* the key exists and its version is at most B *)
Definition key_ok (key : str) (B : Z) (d : db) : Prop :=
  exists v o, kstate d key = Some (v, o) /\ o <= B.

Lemma recs_ok_mono key B B' d : B <= B' -> recs_ok key B d -> recs_ok key B' d.
Proof. intros H R opid r E. specialize (R opid r E). lia. Qed.
Lemma key_ok_mono key B B' d : B <= B' -> key_ok key B d -> key_ok key B' d.
Proof. intros H (v & o & E & Ho). exists v, o. split; auto. lia. Qed.

Lemma recs_ok_writable key B d opid : B < i32_max -> recs_ok key B d -> rec_writable d (rec_key key opid).
Proof.
  intros HB R. unfold rec_writable. destruct (get_value d (rec_key key opid)) as [r|] eqn:E; auto.
  specialize (R opid r E). lia.
Qed.

Lemma recs_ok_plain key B d opid txt clk : -1 <= B -> B < i32_max -> recs_ok key B d ->
  recs_ok key (B + 1) (db_set d (mkCh (rec_key key opid) txt (-1) clk false)).
Proof.
  intros HB0 HB R o r.
  destruct (db_set_plain d (rec_key key opid) txt clk (recs_ok_writable key B d opid HB R)) as (_ & v & -> & _ & _ & Hv).
  destruct (String.eqb_spec (rec_key key o) (rec_key key opid)) as [->|Hne].
  - rewrite gv_put_same. intros [= <-]. rewrite Hv.
    destruct (get_value d (rec_key key opid)) as [r0|] eqn:E; [|lia]. specialize (R opid r0 E). lia.
  - rewrite gv_put_other by assumption. intros E. specialize (R o r E). lia.
Qed.

(* a write to the key itself leaves the records alone *)
Lemma recs_ok_keyset key B d ch : c_key ch = key -> recs_ok key B d -> recs_ok key B (db_set d ch).
Proof.
  intros Hk R o r. rewrite db_set_other; [apply R|]. rewrite Hk. apply rec_key_neq.
Qed.

Lemma recs_ok_mark key B d old : recs_ok key B d -> recs_ok key B (mark_conflict d key old).
Proof.
  intros R o r. unfold mark_conflict. rewrite gv_put_other by apply rec_key_neq. apply R.
Qed.

Lemma recs_ok_resolve key B d value ver opid clk : -1 <= B -> B < i32_max -> recs_ok key B d ->
  recs_ok key (B + 1) (db_resolve d key value ver opid clk).
Proof.
  intros HB0 HB R. rewrite db_resolve_eq. apply recs_ok_keyset; [apply res_ch_key|].
  unfold reg_ch. now apply recs_ok_plain.
Qed.

Lemma sat_succ_le z : sat_succ z <= z + 1.
Proof. unfold sat_succ. destruct (Z.ltb_spec z i32_max); lia. Qed.

Lemma res_ver_le P o ver B : -2 <= B -> o <= B -> ver <= B -> res_ver P o ver <= B + 1.
Proof.
  intros HB Ho Hv. unfold res_ver. destruct P; [lia|].
  destruct (Z.eqb ver (-2)); [lia|]. destruct (Z.eqb o (-2)); [|lia].
  pose proof (sat_succ_le ver). lia.
Qed.

Section Run.
Variables (c l : nat) (dbn key : str).
Hypothesis Hdbn : simple_tok dbn.
Hypothesis Hkey : simple_tok key.

(* the events of the run, as seen by the arbiter client [c] of the primary *)
Inductive aev := AConflict (value : str) (ver : Z) | AResolve (opid : N) (value : str) (ver : Z).

Definition aev_rq (e : aev) : request :=
  match e with
  | AConflict value ver => RqSet key value ver
  | AResolve opid value ver => RqResolve opid dbn key value ver
  end.

(* the primary handles the request; the replica executes the request texts of the lines queued by it *)
Definition pstep (ns : node * node) (e : aev) : node * node :=
  let n' := fst (exec (fst ns) c (aev_rq e)) in
  (n', run_reqs (snd ns) l (queued_reqs (fst ns) n')).

(* the notice the primary would write for a conflicting write now *)
Definition notice_of (n : node) (value : str) (ver : Z) : option str :=
  match get_db n dbn with
  | Some d => match get_value d key with
              | Some old => Some (conflict_notice dbn d (mkCh key value ver (n_clock n) false) old)
              | None => None
              end
  | None => None
  end.

(* side conditions of one event, checked on the primary before the event *)
Definition aev_ok (B : Z) (n : node) (e : aev) : Prop :=
  (n_clock n + 3 <= 2 ^ 64)%N /\
  match e with
  | AConflict value ver =>
      no_semi_end value /\
      (* the primary held the write for the arbiter *)
      snd (handle n c (RqSet key value ver)) = RError ("$$conflitct unresolved " +++ rec_key key (n_clock n)) /\
      (forall rmsg, notice_of n value ver = Some rmsg -> no_nl rmsg)
  | AResolve opid value ver =>
      (opid < 2 ^ 64)%N /\ no_nl value /\ no_semi_end value /\ -2 <= ver <= B /\
      (* the primary accepted the resolve *)
      snd (handle n c (RqResolve opid dbn key value ver)) = ROk
  end.

Record PInv (B : Z) (n s : node) : Prop := {
  pi_B : -1 <= B;
  pi_prim : is_primary n = true;
  pi_sel : s_db (get_sess n c) = Some dbn;
  pi_auth : s_auth (get_sess s l) = true;
  pi_link : sess_is_primary (get_sess s l) = true;
  pi_dbs : exists dp ds, get_db n dbn = Some dp /\ get_db s dbn = Some ds /\
             nodup_db dp /\ nodup_db ds /\ vagree key dp ds /\
             key_ok key B dp /\ key_ok key B ds /\ recs_ok key B dp /\ recs_ok key B ds }.

Definition kval_n (n : node) : option str :=
  match get_db n dbn with Some d => kval d key | None => None end.
Definition hpc_n (n : node) : option bool :=
  match get_db n dbn with Some d => Some (has_pending_conflict d key) | None => None end.
Definition kver_n (n : node) : option Z :=
  match get_db n dbn with Some d => kver d key | None => None end.

Lemma pstep_resolve_full B n s opid value ver :
  PInv B n s -> B + 2 < i32_max -> aev_ok B n (AResolve opid value ver) ->
  let ns' := pstep (n, s) (AResolve opid value ver) in
  PInv (B + 2) (fst ns') (snd ns') /\ kval_n (fst ns') = Some value /\
  (exists op os, kver_n n = Some op /\ kver_n s = Some os /\ os <= B /\
     exists P, hpc_n (fst ns') = Some P /\
               kver_n (fst ns') = Some (res_ver P op ver) /\ kver_n (snd ns') = Some (res_ver P os ver)).
Proof.
  intros [HB Hp Hs Ha Hm (dp & ds & Edp & Eds & Np & Ns & Hag & Kp & Ks & Rp & Rs)] HBB (Hclk & Hid & Hvn & Hvs & Hver & Hok).
  cbv zeta. unfold pstep. cbn [fst snd aev_rq].
  assert (Hi32 : is_i32 ver) by (unfold is_i32, i32_max in *; lia).
  assert (HB1 : B < i32_max) by lia.
  destruct (resolve_queues_lines n c opid dbn key value ver dp Hp Hs Edp Hok) as (_ & R & D & _ & F).
  set (n' := fst (exec n c (RqResolve opid dbn key value ver))) in *.
  assert (Q : queued_reqs n n' = [rec_text dbn key opid ("resolved " +++ value); resolve_text opid dbn key ver value]).
  { rewrite (queued_reqs_app _ _ _ R). cbn [map].
    rewrite !line_req_rp; auto using resolve_text_semi; try lia; try discriminate.
    apply replicate_msg_semi. now apply no_semi_resolved. }
  rewrite Q.
  destruct Kp as (vp & op & Kp & Hop). destruct Ks as (vs & os & Ks & Hos).
  assert (Wp := recs_ok_writable key B dp opid HB1 Rp).
  assert (Ws := recs_ok_writable key B ds opid HB1 Rs).
  destruct (sec_resolve_lines s l opid dbn key value ver ds Hid Hdbn Hkey Hvn Hvs Hi32 Ha Hm Eds Ws)
    as (c3 & D' & S' & _ & _).
  set (s' := run_reqs s l _) in *.
  destruct (db_resolve_vagree dp ds key value ver opid (n_clock n) (n_clock s) c3 vp op vs os Np Ns Hag Wp Ws Kp Ks)
    as (P' & K1 & K2 & A'); try lia.
  split; [|split].
  - constructor; try lia.
    + rewrite (is_primary_frame n n' F). exact Hp.
    + rewrite <- Hs. destruct (sattr_sdb _ _ (fr_sess _ _ F c)) as [E _]. exact E.
    + rewrite (same_sess_auth _ _ _ S'). exact Ha.
    + rewrite (same_sess_is_primary _ _ _ S'). exact Hm.
    + exists (db_resolve dp key value ver opid (n_clock n)), (db_resolve_replica ds key value ver opid (n_clock s) c3).
      split; [exact D|]. split; [exact D'|]. split; [now apply nodup_db_resolve|].
      split; [unfold db_resolve_replica; auto using nodup_db_resolve, nodup_db_set|].
      split; [exact A'|].
      split. { eexists _, _. split; [exact K1|]. pose proof (res_ver_le (has_pending_conflict (db_resolve dp key value ver opid (n_clock n)) key) op ver B). lia. }
      split. { eexists _, _. split; [exact K2|]. pose proof (res_ver_le (has_pending_conflict (db_resolve dp key value ver opid (n_clock n)) key) os ver B). lia. }
      split. { apply (recs_ok_mono key (B + 1)); [lia|]. now apply recs_ok_resolve. }
      unfold db_resolve_replica. replace (B + 2) with (B + 1 + 1) by lia.
      apply recs_ok_resolve; try lia. unfold reg_ch. now apply recs_ok_plain.
  - unfold kval_n. rewrite D, kval_kstate, K1. reflexivity.
  - exists op, os. split; [unfold kver_n; now rewrite Edp, kver_kstate, Kp|].
    split; [unfold kver_n; now rewrite Eds, kver_kstate, Ks|]. split; [exact Hos|].
    exists (has_pending_conflict (db_resolve dp key value ver opid (n_clock n)) key).
    split; [unfold hpc_n; now rewrite D|].
    split; [unfold kver_n; now rewrite D, kver_kstate, K1|unfold kver_n; now rewrite D', kver_kstate, K2].
Qed.

Lemma pstep_resolve B n s opid value ver :
  PInv B n s -> B + 2 < i32_max -> aev_ok B n (AResolve opid value ver) ->
  let ns' := pstep (n, s) (AResolve opid value ver) in
  PInv (B + 2) (fst ns') (snd ns') /\ kval_n (fst ns') = Some value.
Proof. intros H1 H2 H3. destruct (pstep_resolve_full B n s opid value ver H1 H2 H3) as (A & B0 & _). auto. Qed.

Lemma pstep_conflict_full B n s value ver :
  PInv B n s -> B + 2 < i32_max -> aev_ok B n (AConflict value ver) ->
  let ns' := pstep (n, s) (AConflict value ver) in
  PInv (B + 2) (fst ns') (snd ns') /\ kval_n (fst ns') = kval_n n /\
  (kver_n (fst ns') = Some (-2) /\ kver_n (snd ns') = kver_n s).
Proof.
  intros [HB Hp Hs Ha Hm (dp & ds & Edp & Eds & Np & Ns & Hag & Kp & Ks & Rp & Rs)] HBB (Hclk & Hvs & Hans & Hnl).
  cbv zeta. unfold pstep. cbn [fst snd aev_rq].
  assert (HB1 : B < i32_max) by lia.
  destruct (conflict_answer_inv n c key value ver _ Hans) as (dbn' & d & old & G & Hst & Harb & Eo & Hr).
  destruct (guard_safe_go _ _ _ _ _ _ G) as [Hs' Ed']. rewrite Hs in Hs'. injection Hs' as <-.
  rewrite Edp in Ed'. injection Ed' as <-.
  destruct (conflict_queues_lines n c key value ver dbn dp old Hp G Hst Harb Eo Hr) as (_ & R & D & _ & F).
  set (rmsg := conflict_notice dbn dp (mkCh key value ver (n_clock n) false) old) in *.
  set (n' := fst (exec n c (RqSet key value ver))) in *.
  assert (Hrn : no_nl rmsg).
  { apply Hnl. unfold notice_of. now rewrite Edp, Eo. }
  assert (Hrs : no_semi_end rmsg) by (apply conflict_notice_semi; exact Hvs).
  assert (Q : queued_reqs n n' = [rec_text dbn key (n_clock n) rmsg]).
  { rewrite (queued_reqs_app _ _ _ R). cbn [map].
    rewrite line_req_rp; [reflexivity|lia|discriminate|now apply replicate_msg_semi]. }
  rewrite Q. unfold run_reqs. cbn [fold_left].
  assert (Wp := recs_ok_writable key B dp (n_clock n) HB1 Rp).
  assert (Ws := recs_ok_writable key B ds (n_clock n) HB1 Rs).
  destruct (sec_record_step s l dbn ds key (n_clock n) rmsg Hdbn Hkey Hrn Hrs Ha Eds Ws) as (D1 & S1 & _).
  set (s' := fst (step s l _)) in *.
  destruct (db_conflict_vagree dp ds key old (rec_key key (n_clock n)) rmsg (n_clock n + 1)%N (n_clock s)
              Np Ns Hag Eo (rec_key_neq key (n_clock n)) Wp Ws) as (A1 & A2 & _ & _ & _ & A6).
  split; [|split].
  - constructor; try lia.
    + rewrite (is_primary_frame n n' F). exact Hp.
    + rewrite <- Hs. destruct (sattr_sdb _ _ (fr_sess _ _ F c)) as [E _]. exact E.
    + rewrite (same_sess_auth _ _ _ S1). exact Ha.
    + rewrite (same_sess_is_primary _ _ _ S1). exact Hm.
    + eexists _, _. split; [exact D|]. split; [exact D1|].
      split; [unfold db_conflict; apply nodup_db_set; unfold mark_conflict; now apply nodup_put|].
      split; [now apply nodup_db_set|]. split; [exact A6|].
      split. { eexists _, _. split; [exact A1|]. lia. }
      split. { destruct Ks as (vs & os & Ks & Hos). eexists _, _. split; [rewrite A2; exact Ks|]. lia. }
      split. { apply (recs_ok_mono key (B + 1)); [lia|]. unfold db_conflict. apply recs_ok_plain; auto.
               now apply recs_ok_mark. }
      apply (recs_ok_mono key (B + 1)); [lia|]. now apply recs_ok_plain.
  - unfold kval_n. rewrite D, Edp, kval_kstate, A1. unfold kval. now rewrite Eo.
  - split; [unfold kver_n; now rewrite D, kver_kstate, A1|].
    unfold kver_n. now rewrite D1, Eds, !kver_kstate, A2.
Qed.

Lemma pstep_conflict B n s value ver :
  PInv B n s -> B + 2 < i32_max -> aev_ok B n (AConflict value ver) ->
  let ns' := pstep (n, s) (AConflict value ver) in
  PInv (B + 2) (fst ns') (snd ns') /\ kval_n (fst ns') = kval_n n.
Proof. intros H1 H2 H3. destruct (pstep_conflict_full B n s value ver H1 H2 H3) as (A & B0 & _). auto. Qed.

Definition run (ns : node * node) (evs : list aev) : node * node := fold_left pstep evs ns.

(* the side conditions along the run (the bound grows by 2 per event) *)
Fixpoint ok_run (B : Z) (ns : node * node) (evs : list aev) : Prop :=
  match evs with
  | [] => True
  | e :: r => aev_ok B (fst ns) e /\ ok_run (B + 2) (pstep ns e) r
  end.

(* the value of the last resolution in the list ([cur] when there is none) *)
Fixpoint last_res (evs : list aev) (cur : option str) : option str :=
  match evs with
  | [] => cur
  | AResolve _ v _ :: r => last_res r (Some v)
  | AConflict _ _ :: r => last_res r cur
  end.

Lemma last_res_snoc evs cur opid v ver : last_res (evs ++ [AResolve opid v ver]) cur = Some v.
Proof. revert cur. induction evs as [|[value ver0|o v0 ver0] r IH]; intros cur; cbn; auto. Qed.

Lemma run_inv evs : forall B n s,
  PInv B n s -> ok_run B (n, s) evs -> B + 2 * Z.of_nat (List.length evs) < i32_max ->
  PInv (B + 2 * Z.of_nat (List.length evs)) (fst (run (n, s) evs)) (snd (run (n, s) evs)) /\
  kval_n (fst (run (n, s) evs)) = last_res evs (kval_n n).
Proof.
  induction evs as [|e r IH]; intros B n s HI Hok HB.
  - cbn. replace (B + 0) with B by lia. auto.
  - cbn [ok_run fst] in Hok. destruct Hok as [He Hr].
    cbn [List.length] in HB. rewrite Nat2Z.inj_succ in HB.
    assert (HB2 : B + 2 < i32_max) by lia.
    assert (Hstep : PInv (B + 2) (fst (pstep (n, s) e)) (snd (pstep (n, s) e)) /\
                    kval_n (fst (pstep (n, s) e)) = last_res [e] (kval_n n)).
    { destruct e as [value ver|opid value ver].
      - apply pstep_conflict; auto.
      - apply pstep_resolve; auto. }
    destruct Hstep as [HI1 Hk1].
    destruct (pstep (n, s) e) as [n1 s1] eqn:E. cbn [fst snd] in HI1, Hk1.
    destruct (IH (B + 2) n1 s1 HI1 Hr) as [HI2 Hk2]; [lia|].
    unfold run in *. cbn [fold_left]. rewrite E. cbn [List.length]. rewrite Nat2Z.inj_succ.
    replace (B + 2 * Z.succ (Z.of_nat (List.length r))) with (B + 2 + 2 * Z.of_nat (List.length r)) by lia.
    split; [exact HI2|]. rewrite Hk2, Hk1. destruct e; reflexivity.
Qed.

(* GOAL 4.  Starting from a primary and a replica that agree on the value of the key and on its pending
   records, any sequence of conflicting writes (held for the arbiter) and accepted resolves executed
   on the primary, each followed by the execution of its queued lines on the replica, keeps that
   agreement; the key holds, on both nodes, the value of the last resolution *)
Theorem C13_replica_holds_resolution B n s evs :
  PInv B n s -> ok_run B (n, s) evs -> B + 2 * Z.of_nat (List.length evs) < i32_max ->
  let ns' := run (n, s) evs in
  exists dp' ds', get_db (fst ns') dbn = Some dp' /\ get_db (snd ns') dbn = Some ds' /\
    kval ds' key = kval dp' key /\
    kval dp' key = last_res evs (kval_n n) /\
    has_pending_conflict ds' key = has_pending_conflict dp' key /\
    (forall ck, pend_text ds' key ck = pend_text dp' key ck).
Proof.
  intros HI Hok HB. cbv zeta.
  destruct (run_inv evs B n s HI Hok HB) as [[_ _ _ _ _ (dp & ds & Edp & Eds & Np & Ns & [Hv Hpd] & _)] Hk].
  exists dp, ds. split; [exact Edp|]. split; [exact Eds|]. split; [now symmetry|].
  split. { unfold kval_n in Hk. now rewrite Edp in Hk. }
  split; [symmetry; now apply hpc_agree|]. intros ck. now symmetry.
Qed.

(* in particular after a resolve: the replica holds the resolved value, and tells "still pending"
   exactly when the primary does *)
Corollary C13_replica_after_resolve B n s evs opid v ver :
  PInv B n s -> ok_run B (n, s) (evs ++ [AResolve opid v ver]) ->
  B + 2 * Z.of_nat (List.length (evs ++ [AResolve opid v ver])) < i32_max ->
  let ns' := run (n, s) (evs ++ [AResolve opid v ver]) in
  exists dp' ds', get_db (fst ns') dbn = Some dp' /\ get_db (snd ns') dbn = Some ds' /\
    kval dp' key = Some v /\ kval ds' key = Some v /\
    has_pending_conflict ds' key = has_pending_conflict dp' key.
Proof.
  intros HI Hok HB. cbv zeta.
  destruct (C13_replica_holds_resolution B n s _ HI Hok HB) as (dp' & ds' & E1 & E2 & V1 & V2 & P & _).
  rewrite last_res_snoc in V2. exists dp', ds'. repeat (split; auto). congruence.
Qed.

(* ---- versions along the run --------------------------------------------------------------------- *)
(* the replica may lag in marking the key: its version equals the primary's, or the primary's is -2 *)
Definition vcoupled (n s : node) : Prop := kver_n n = kver_n s \/ kver_n n = Some (-2).

(* a faithful arbiter: when its resolution is the last pending one and the replica never marked the key,
   it answers with the version the replica holds (the version quoted in the notice), or with -2 *)
Definition faithful (ns : node * node) (e : aev) : Prop :=
  match e with
  | AResolve opid value ver =>
      forall os, kver_n (snd ns) = Some os -> os <> -2 ->
        hpc_n (fst (pstep ns e)) = Some false -> ver = os \/ ver = -2
  | AConflict _ _ => True
  end.
Fixpoint faithful_run (ns : node * node) (evs : list aev) : Prop :=
  match evs with
  | [] => True
  | e :: r => faithful ns e /\ faithful_run (pstep ns e) r
  end.

Lemma pstep_vcoupled B n s e :
  PInv B n s -> B + 2 < i32_max -> aev_ok B n e -> faithful (n, s) e -> vcoupled n s ->
  vcoupled (fst (pstep (n, s) e)) (snd (pstep (n, s) e)).
Proof.
  intros HI HB Hok Hf W. destruct e as [value ver|opid value ver].
  - destruct (pstep_conflict_full B n s value ver HI HB Hok) as (_ & _ & V1 & _). now right.
  - destruct (pstep_resolve_full B n s opid value ver HI HB Hok) as (_ & _ & op & os & Vn & Vs & Hos & P & HP & V1 & V2).
    unfold vcoupled. rewrite V1, V2. unfold vcoupled in W. rewrite Vn, Vs in W.
    destruct W as [W|W]; injection W as ->; [now left|].
    destruct (Z.eq_dec os (-2)) as [->|Hne]; [now left|].
    destruct P; [right; reflexivity|].
    cbn [faithful] in Hf. destruct (Hf os Vs Hne HP) as [->| ->].
    + left. unfold res_ver. change (-2 =? -2) with true. cbv iota.
      destruct (Z.eqb_spec os (-2)) as [|_]; [contradiction|].
      unfold sat_succ. destruct (Z.ltb_spec os i32_max); [reflexivity|lia].
    + left. reflexivity.
Qed.

Lemma run_vcoupled evs : forall B n s,
  PInv B n s -> ok_run B (n, s) evs -> faithful_run (n, s) evs ->
  B + 2 * Z.of_nat (List.length evs) < i32_max -> vcoupled n s ->
  vcoupled (fst (run (n, s) evs)) (snd (run (n, s) evs)).
Proof.
  induction evs as [|e r IH]; intros B n s HI Hok Hf HB W; [exact W|].
  cbn [ok_run fst] in Hok. destruct Hok as [He Hr]. cbn [faithful_run] in Hf. destruct Hf as [Hfe Hfr].
  cbn [List.length] in HB. rewrite Nat2Z.inj_succ in HB.
  assert (HB2 : B + 2 < i32_max) by lia.
  pose proof (pstep_vcoupled B n s e HI HB2 He Hfe W) as W1.
  assert (HI1 : PInv (B + 2) (fst (pstep (n, s) e)) (snd (pstep (n, s) e))).
  { destruct e as [value ver|opid value ver]; [apply pstep_conflict|apply pstep_resolve]; auto. }
  destruct (pstep (n, s) e) as [n1 s1] eqn:E. cbn [fst snd] in *.
  unfold run. cbn [fold_left]. rewrite E. apply (IH (B + 2)); auto. lia.
Qed.

(* GOAL 4, versions.  With a faithful arbiter, whenever the primary's key is not in conflict after the
   run, the replica holds the same version (and, by the theorem above, the same value) *)
Theorem C13_replica_version B n s evs :
  PInv B n s -> ok_run B (n, s) evs -> faithful_run (n, s) evs ->
  B + 2 * Z.of_nat (List.length evs) < i32_max -> vcoupled n s ->
  let ns' := run (n, s) evs in
  forall dp' ds', get_db (fst ns') dbn = Some dp' -> get_db (snd ns') dbn = Some ds' ->
    kver dp' key <> Some (-2) -> kstate ds' key = kstate dp' key.
Proof.
  intros HI Hok Hf HB W. cbv zeta. intros dp' ds' E1 E2 Hne.
  pose proof (run_vcoupled evs B n s HI Hok Hf HB W) as V. unfold vcoupled, kver_n in V. rewrite E1, E2 in V.
  destruct V as [V|V]; [|contradiction].
  destruct (C13_replica_holds_resolution B n s evs HI Hok HB) as (dp2 & ds2 & F1 & F2 & Hv & _).
  cbv zeta in F1, F2. rewrite E1 in F1. rewrite E2 in F2. injection F1 as <-. injection F2 as <-.
  unfold kval in Hv. unfold kver in V. unfold kstate.
  destruct (get_value ds' key) as [vs|], (get_value dp' key) as [vp|]; cbn in *; try congruence.
Qed.

End Run.

(* ================================================================== *)
(* Part G.  Non-vacuity and counterexamples on concrete nodes           *)
(* ================================================================== *)

(* finite check of "same pending records" *)
Definition ostr_eqb (a b : option str) : bool :=
  match a, b with Some x, Some y => String.eqb x y | None, None => true | _, _ => false end.
Lemma ostr_eqb_eq a b : ostr_eqb a b = true -> a = b.
Proof. destruct a, b; cbn; try discriminate; auto. intros H. apply String.eqb_eq in H. now subst. Qed.

Lemma pend_agree_fin dp ds key :
  forallb (fun k => ostr_eqb (pend_text dp key k) (pend_text ds key k))
          (map fst (d_map dp) ++ map fst (d_map ds)) = true ->
  forall ck, pend_text dp key ck = pend_text ds key ck.
Proof.
  intros H ck. rewrite forallb_forall in H.
  destruct (get_value dp ck) as [v|] eqn:E1.
  { apply ostr_eqb_eq, H, in_or_app. left.
    apply (get_in String.eqb String.eqb_spec) in E1. change ck with (fst (ck, v)). now apply in_map. }
  destruct (get_value ds ck) as [v|] eqn:E2.
  { apply ostr_eqb_eq, H, in_or_app. right.
    apply (get_in String.eqb String.eqb_spec) in E2. change ck with (fst (ck, v)). now apply in_map. }
  unfold pend_text. now rewrite E1, E2.
Qed.

(* a primary with an arbiter database "d", an admin client (session 0) that selected it and registered
   as arbiter, key k = b at version 1 *)
Definition ex_p0 : node := Eval vm_compute in
  fst (run_lines (fst (connect (init_node "u" "pw" "p1" 3 Primary 10))) 0
    ["auth u pw"; "create-db d tok arbiter"; "use-db d tok"; "arbiter"; "set k a"; "set k b"]).
(* a secondary whose session 0 is the link from the primary (auth, set-primary), same content *)
Definition ex_s0 : node := Eval vm_compute in
  fst (run_lines (fst (connect (init_node "u" "pw" "s1" 2 Secondary 10))) 0
    ["auth u pw"; "set-primary p1"; "create-db d tok arbiter"; "replicate d k -1 a"; "replicate d k -1 b"]).

Definition ex_view (n : node) : option (list (str * str * Z)) :=
  option_map (fun d => map (fun kv => (fst kv, v_val (snd kv), v_ver (snd kv))) (d_map d)) (get_db n "d").

Ltac tok := split; [discriminate|split; [reflexivity|vm_compute; discriminate]].
Ltac nodup_tac := unfold nodup_db; cbn; repeat constructor; cbn; intuition discriminate.

Example ex_pinv0 : PInv 0 0 "d" "k" 1 ex_p0 ex_s0.
Proof.
  constructor; try reflexivity; try lia.
  eexists _, _. split; [reflexivity|]. split; [reflexivity|].
  split; [nodup_tac|]. split; [nodup_tac|].
  split. { split; [reflexivity|]. apply pend_agree_fin. vm_compute. reflexivity. }
  split. { exists "b", 1. split; [reflexivity|lia]. }
  split. { exists "b", 1. split; [reflexivity|lia]. }
  split; intros opid r E; vm_compute in E; discriminate E.
Qed.

(* two conflicting writes, then the two resolutions (faithful arbiter: it answers with the version of the notice) *)
Definition ex_evs : list aev := [AConflict "c" 0; AConflict "e" 0; AResolve 20 "X" 1; AResolve 23 "Y" 1].

Definition ex_st1 := Eval vm_compute in pstep 0 0 "d" "k" (ex_p0, ex_s0) (AConflict "c" 0).
Definition ex_st2 := Eval vm_compute in pstep 0 0 "d" "k" ex_st1 (AConflict "e" 0).
Definition ex_st3 := Eval vm_compute in pstep 0 0 "d" "k" ex_st2 (AResolve 20 "X" 1).
Definition ex_st4 := Eval vm_compute in pstep 0 0 "d" "k" ex_st3 (AResolve 23 "Y" 1).

Example ex_run_ok : ok_run 0 0 "d" "k" 1 (ex_p0, ex_s0) ex_evs.
Proof.
  unfold ex_evs. cbn [ok_run].
  change (pstep 0 0 "d" "k" (ex_p0, ex_s0) (AConflict "c" 0)) with ex_st1.
  change (pstep 0 0 "d" "k" ex_st1 (AConflict "e" 0)) with ex_st2.
  change (pstep 0 0 "d" "k" ex_st2 (AResolve 20 "X" 1)) with ex_st3.
  split; [|split; [|split; [|split; [|exact I]]]].
  - split; [vm_compute; discriminate|]. split; [vm_compute; discriminate|]. split; [vm_compute; reflexivity|].
    intros rmsg E. vm_compute in E. injection E as <-. reflexivity.
  - split; [vm_compute; discriminate|]. split; [vm_compute; discriminate|]. split; [vm_compute; reflexivity|].
    intros rmsg E. vm_compute in E. injection E as <-. reflexivity.
  - split; [vm_compute; discriminate|]. split; [reflexivity|]. split; [reflexivity|].
    split; [vm_compute; discriminate|]. split; [lia|]. vm_compute. reflexivity.
  - split; [vm_compute; discriminate|]. split; [reflexivity|]. split; [reflexivity|].
    split; [vm_compute; discriminate|]. split; [lia|]. vm_compute. reflexivity.
Qed.

(* the theorem applies to the run ... *)
Example ex_run_theorem :
  exists dp' ds', get_db (fst (run 0 0 "d" "k" (ex_p0, ex_s0) ex_evs)) "d" = Some dp' /\
    get_db (snd (run 0 0 "d" "k" (ex_p0, ex_s0) ex_evs)) "d" = Some ds' /\
    kval dp' "k" = Some "Y" /\ kval ds' "k" = Some "Y" /\
    has_pending_conflict ds' "k" = has_pending_conflict dp' "k".
Proof.
  apply (C13_replica_after_resolve 0 0 "d" "k" ltac:(tok) ltac:(tok) 1 ex_p0 ex_s0
           [AConflict "c" 0; AConflict "e" 0; AResolve 20 "X" 1] 23 "Y" 1).
  - exact ex_pinv0.
  - exact ex_run_ok.
  - vm_compute. reflexivity.
Qed.

(* ... and the computed states show what happens at each step *)
Example ex_run_states :
  (* after the first conflicting write: the primary marks the key, the replica does NOT *)
  ex_view (fst ex_st1) = Some [("$$token", "tok", 0); ("$connections", "1", 0); ("k", "b", -2);
                               ("$conflicts_k_20", "resolve 20 d 1 k b c", 0)] /\
  ex_view (snd ex_st1) = Some [("$$token", "tok", 0); ("k", "b", 1);
                               ("$conflicts_k_20", "resolve 20 d 1 k b c", 0)] /\
  (* first resolution, another conflict pending: both -2, value X *)
  ex_view (fst ex_st3) = Some [("$$token", "tok", 0); ("$connections", "1", 0); ("k", "X", -2);
                               ("$conflicts_k_20", "resolved X", 1);
                               ("$conflicts_k_23", "resolve 23 d 1 k $conflicts_k_20 e", 0)] /\
  ex_view (snd ex_st3) = Some [("$$token", "tok", 0); ("k", "X", -2);
                               ("$conflicts_k_20", "resolved X", 2);
                               ("$conflicts_k_23", "resolve 23 d 1 k $conflicts_k_20 e", 0)] /\
  (* last resolution: both hold Y at version 2; the records' versions differ (1 / 2) *)
  ex_view (fst ex_st4) = Some [("$$token", "tok", 0); ("$connections", "1", 0); ("k", "Y", 2);
                               ("$conflicts_k_20", "resolved X", 1); ("$conflicts_k_23", "resolved Y", 1)] /\
  ex_view (snd ex_st4) = Some [("$$token", "tok", 0); ("k", "Y", 2);
                               ("$conflicts_k_20", "resolved X", 2); ("$conflicts_k_23", "resolved Y", 2)] /\
  run 0 0 "d" "k" (ex_p0, ex_s0) ex_evs = ex_st4.
Proof. vm_compute. repeat split; reflexivity. Qed.

(* ---- the hypotheses of the step theorems are satisfiable ------------------------------------------ *)
(* GOAL 1 on the primary after the two conflicting writes *)
Example ex_goal1 :
  is_primary (fst ex_st2) = true /\ s_db (get_sess (fst ex_st2) 0) = Some "d" /\
  snd (handle (fst ex_st2) 0 (RqResolve 20 "d" "k" "X" 1)) = ROk /\
  n_repl (fst (exec (fst ex_st2) 0 (RqResolve 20 "d" "k" "X" 1))) =
    n_repl (fst ex_st2) ++ ["rp 27 replicate d $conflicts_k_20 -1 resolved X"; "rp 28 resolve 20 d k 1 X"] /\
  step (fst ex_st2) 0 "resolve 20 d k 1 X" = exec (fst ex_st2) 0 (RqResolve 20 "d" "k" "X" 1).
Proof. vm_compute. repeat split; reflexivity. Qed.

(* GOAL 2 (strict agreement) holds before the second resolution: both nodes have k = X at -2 and the
   same pending record *)
Example ex_goal2_hyps :
  exists dp ds, get_db (fst ex_st3) "d" = Some dp /\ get_db (snd ex_st3) "d" = Some ds /\
    nodup_db dp /\ nodup_db ds /\ agree "k" dp ds /\
    rec_writable dp (rec_key "k" 23) /\ rec_writable ds (rec_key "k" 23) /\
    s_auth (get_sess (snd ex_st3) 0) = true /\ sess_is_primary (get_sess (snd ex_st3) 0) = true /\
    pend_text dp "k" "$conflicts_k_23" = Some "resolve 23 d 1 k $conflicts_k_20 e".
Proof.
  eexists _, _. split; [reflexivity|]. split; [reflexivity|].
  split; [nodup_tac|]. split; [nodup_tac|].
  split. { split; [reflexivity|]. apply pend_agree_fin. vm_compute. reflexivity. }
  split; [vm_compute; split; [discriminate|reflexivity]|].
  split; [vm_compute; split; [discriminate|reflexivity]|].
  repeat split; reflexivity.
Qed.

(* GOAL 3: the hypotheses of [conflict_queues_lines] hold on ex_p0 for "set-safe k 0 c" *)
Example ex_goal3_hyps :
  exists d old, guard_safe ex_p0 0 "k" PWrite = GGo "d" d /\ d_strat d = SArbiter /\ has_arbiter d = true /\
    get_value d "k" = Some old /\ ver_refused (mkCh "k" "c" 0 (n_clock ex_p0) false) old = true /\
    conflict_notice "d" d (mkCh "k" "c" 0 (n_clock ex_p0) false) old = "resolve 20 d 1 k b c" /\
    parse_request "set-safe k 0 c" = POk (RqSet "k" "c" 0).
Proof. eexists _, _. vm_compute. repeat split; reflexivity. Qed.

(* ---- FINDINGS ------------------------------------------------------------------------------------- *)
(* (a) GOAL 3 as literally asked ("the replica marks the key -2") is FALSE: only the record is queued
       for replication; the replica's key keeps its version and stays writable there *)
Example replica_key_not_marked :
  n_repl (fst ex_st1) = n_repl ex_p0 ++ ["rp 22 replicate d $conflicts_k_20 -1 resolve 20 d 1 k b c"] /\
  option_map (fun d => kstate d "k") (get_db (fst ex_st1) "d") = Some (Some ("b", -2)) /\
  option_map (fun d => kstate d "k") (get_db (snd ex_st1) "d") = Some (Some ("b", 1)).
Proof. vm_compute. repeat split; reflexivity. Qed.

(* (b) version agreement after the LAST resolve needs an arbiter that answers with the version it was
       told in the notice (here 1): with another version the primary ends at ver+1, the replica (which
       was never in conflict) at its own version + 1 *)
Definition ex_st2_bad := Eval vm_compute in pstep 0 0 "d" "k" ex_st1 (AResolve 20 "X" 7).
Example replica_version_differs :
  aev_ok 0 "d" "k" 7 (fst ex_st1) (AResolve 20 "X" 7) /\
  option_map (fun d => kstate d "k") (get_db (fst ex_st2_bad) "d") = Some (Some ("X", 8)) /\
  option_map (fun d => kstate d "k") (get_db (snd ex_st2_bad) "d") = Some (Some ("X", 2)).
Proof.
  split; [|vm_compute; split; reflexivity].
  split; [vm_compute; discriminate|]. split; [reflexivity|]. split; [reflexivity|].
  split; [vm_compute; discriminate|]. split; [lia|]. vm_compute. reflexivity.
Qed.
(*     ... and with the faithful answer both end at version 2 *)
Definition ex_st2_good := Eval vm_compute in pstep 0 0 "d" "k" ex_st1 (AResolve 20 "X" 1).
Example replica_version_same_when_faithful :
  option_map (fun d => kstate d "k") (get_db (fst ex_st2_good) "d") = Some (Some ("X", 2)) /\
  option_map (fun d => kstate d "k") (get_db (snd ex_st2_good) "d") = Some (Some ("X", 2)).
Proof. vm_compute. split; reflexivity. Qed.

(* (c) the versions of the "$conflicts_" records differ: the replica writes the record twice (once for
       the "replicate" line, once inside the "resolve" line) *)
Example record_versions_differ :
  option_map (fun d => kstate d "$conflicts_k_20") (get_db (fst ex_st2_good) "d") = Some (Some ("resolved X", 1)) /\
  option_map (fun d => kstate d "$conflicts_k_20") (get_db (snd ex_st2_good) "d") = Some (Some ("resolved X", 2)).
Proof. vm_compute. split; reflexivity. Qed.

(* (d) executing the "resolve" line, a Secondary sends the record line BACK to the primary
       ([replicate_change] on a non-primary is [send_to_primary]) *)
Example replica_echoes_record :
  let s := add_member (snd ex_st1) "p1" Primary in
  n_members (run_reqs s 0 ["replicate d $conflicts_k_20 -1 resolved X"; "resolve 20 d k 1 X"]) =
  [("p1", (Primary, ["replicate d $conflicts_k_20 -1 resolved X"]))].
Proof. vm_compute. reflexivity. Qed.

(* (e) single node, REPAIRED in the code and in the model: list_conflicts_keys used to go through the
       key-listing patterns, which drop every '*', so a key such as "a*b" never found its own records and
       the FIRST of two queued resolutions already made the key writable.  With the prefix test the
       conflicts of "a*b" queue like those of any other key: the first resolution leaves the key at -2
       with the second conflict pending, the second one frees it *)
Definition ex_star1 := Eval vm_compute in
  fst (run_lines ex_p0 0 ["set a*b 1"; "set a*b 2"; "set-safe a*b 0 c"; "set-safe a*b 0 e"; "resolve 24 d a*b 1 X"]).
Definition ex_star2 := Eval vm_compute in fst (run_lines ex_star1 0 ["resolve 27 d a*b 1 Y"]).
Example star_key_conflicts_queue :
  option_map (fun d => (kstate d "a*b", kval d "$conflicts_a*b_24", kval d "$conflicts_a*b_27",
                        list_conflicts_keys d "a*b", has_pending_conflict d "a*b")) (get_db ex_star1 "d") =
  Some (Some ("X", -2), Some "resolved X", Some "resolve 27 d 1 a*b $conflicts_a*b_24 e",
        ["$conflicts_a*b_24"; "$conflicts_a*b_27"], true) /\
  option_map (fun d => (kstate d "a*b", kval d "$conflicts_a*b_27", has_pending_conflict d "a*b")) (get_db ex_star2 "d") =
  Some (Some ("Y", 2), Some "resolved Y", false).
Proof. vm_compute. split; reflexivity. Qed.

(* ================================================================== *)
(* Part H.  The lines as they travel in the cluster model               *)
(* ================================================================== *)
Local Open Scope N_scope.

(* H.1  the "rp <id> <req>" envelope: acknowledge, then handle <req> *)
Definition ack_line (s : node) (id : N) : str := "ack " +++ N_to_str id +++ " " +++ n_addr s +++ " " +++ nlS.

Lemma step_rp s l id req rq :
  id < 2 ^ 64 -> req <> "" -> no_semi_end req -> last_char req <> Some nl ->
  parse_request (trim_char nl req) = POk rq -> (forall r i, rq <> RqReplicateRequest r i) ->
  s_auth (get_sess s l) = true ->
  fst (step s l (rp_line id req)) = fst (step (send s l (ack_line s id)) l req).
Proof.
  intros Hid Hne Hsemi Hl Hp Hnrp Ha.
  rewrite (step_exec (send s l (ack_line s id)) l req rq Hp Hnrp).
  unfold step.
  assert (HL : exists L, String.length (rp_line id req) = S L) by (eexists; reflexivity).
  destruct HL as [L HL]. rewrite HL.
  assert (Ht : trim_char nl (rp_line id req) = rp_line id req).
  { unfold rp_line.
    change ("rp " +++ N_to_str id +++ " " +++ req) with (String "r" "p " +++ (N_to_str id +++ " " +++ req)).
    apply trim_nl_line; [reflexivity|apply sep_ne|].
    rewrite last_char_app_ne by (intros E; discriminate E).
    change (" " +++ req) with (String " " "" +++ req). now rewrite last_char_app_ne. }
  rewrite (process_rp _ _ _ _ req id); [|rewrite Ht; now apply rp_roundtrip|exact Ha].
  fold (ack_line s id).
  assert (HL2 : exists L2, L = S L2).
  { destruct L; [|eexists; reflexivity]. exfalso. unfold rp_line in HL. cbn in HL. discriminate HL. }
  destruct HL2 as [L2 ->].
  rewrite (process_plain _ _ _ _ rq Hp Hnrp). unfold exec.
  destruct (handle (send s l (ack_line s id)) l rq) as [n1 r].
  destruct (replicate_request n1 rq _ r) as [n2 r2]. apply rr_rp_fst.
Qed.

(* H.2  the node part of [deliver_raw]: handle the line, answer "ok"/"error ...", hand the inbox to the link *)
Definition deliver_node (s : node) (l : nat) (ln : str) : node :=
  let '(n1, r) := step s l ln in
  let status := match r with RError msg => "error " +++ msg +++ " " +++ nlS | _ => "ok " +++ nlS end in
  fst (drain (send n1 l status) l).

Lemma deliver_node_facts s l ln :
  n_dbs (deliver_node s l ln) = n_dbs (fst (step s l ln)) /\
  same_sess (fst (step s l ln)) (deliver_node s l ln) /\
  n_role (deliver_node s l ln) = n_role (fst (step s l ln)) /\
  n_clock (deliver_node s l ln) = n_clock (fst (step s l ln)).
Proof.
  unfold deliver_node. destruct (step s l ln) as [n1 r]. cbn [fst].
  set (status := match r with RError msg => _ | _ => _ end).
  pose proof (frame_send n1 l status) as F1. pose proof (frame_drain (send n1 l status) l) as F2.
  split; [unfold drain; cbn [fst]; rewrite put_sess_dbs; apply send_dbs|].
  split; [apply same_sess_frame; eapply frame_trans; eauto|].
  split; [rewrite (fr_role _ _ F2); apply (fr_role _ _ F1)|reflexivity].
Qed.

Lemma send_link_facts s l m :
  n_dbs (send s l m) = n_dbs s /\ same_sess s (send s l m) /\ n_role (send s l m) = n_role s /\
  n_clock (send s l m) = n_clock s.
Proof.
  split; [apply send_dbs|]. split; [apply same_sess_frame, frame_send|]. split; reflexivity.
Qed.

Lemma rec_text_last dbn key opid txt : no_nl txt -> last_char (rec_text dbn key opid txt) <> Some nl.
Proof.
  intros H. unfold rec_text, replicate_msg. repeat (rewrite <- app_assoc_s). rewrite app_assoc_s. now apply last_sep_nl.
Qed.
Lemma resolve_text_last opid dbn key ver value : no_nl value -> last_char (resolve_text opid dbn key ver value) <> Some nl.
Proof.
  intros H. unfold resolve_text. repeat (rewrite <- app_assoc_s). rewrite app_assoc_s. now apply last_sep_nl.
Qed.

(* the record line, delivered in its envelope *)
Lemma deliver_record_line s l id dbn ds key opid txt :
  id < 2 ^ 64 -> simple_tok dbn -> simple_tok key -> no_nl txt -> no_semi_end txt ->
  s_auth (get_sess s l) = true -> get_db s dbn = Some ds -> rec_writable ds (rec_key key opid) ->
  let s' := deliver_node s l (rp_line id (rec_text dbn key opid txt)) in
  get_db s' dbn = Some (db_set ds (mkCh (rec_key key opid) txt (-1) (n_clock s) false)) /\
  same_sess s s' /\ n_role s' = n_role s.
Proof.
  intros Hid Hd Hk Htn Hts Ha Ed Hw. cbv zeta.
  destruct (deliver_node_facts s l (rp_line id (rec_text dbn key opid txt))) as (D & S & R & _).
  assert (E : fst (step s l (rp_line id (rec_text dbn key opid txt))) =
              fst (step (send s l (ack_line s id)) l (rec_text dbn key opid txt))).
  { apply (step_rp s l id _ (RqReplicateSet dbn (rec_key key opid) txt (-1))); auto; try discriminate.
    - now apply replicate_msg_semi.
    - now apply rec_text_last.
    - apply rec_text_parse; auto using tok_no_sp, tok_no_nl. }
  rewrite E in D, S, R.
  destruct (send_link_facts s l (ack_line s id)) as (D0 & S0 & R0 & C0).
  set (sa := send s l (ack_line s id)) in *.
  assert (Ha0 : s_auth (get_sess sa l) = true) by (rewrite (same_sess_auth _ _ _ S0); exact Ha).
  assert (Ed0 : get_db sa dbn = Some ds) by (unfold get_db; rewrite D0; exact Ed).
  destruct (sec_record_step sa l dbn ds key opid txt Hd Hk Htn Hts Ha0 Ed0 Hw) as (D1 & S1 & R1 & _).
  split; [unfold get_db; rewrite D, <- C0; exact D1|].
  split; [eapply same_sess_trans; [exact S0|eapply same_sess_trans; eauto]|congruence].
Qed.

(* the resolve line, delivered in its envelope *)
Lemma deliver_resolve_line s l id opid dbn key value ver ds :
  id < 2 ^ 64 -> opid < 2 ^ 64 -> simple_tok dbn -> simple_tok key -> no_nl value -> no_semi_end value -> is_i32 ver ->
  s_auth (get_sess s l) = true -> sess_is_primary (get_sess s l) = true -> get_db s dbn = Some ds ->
  let s' := deliver_node s l (rp_line id (resolve_text opid dbn key ver value)) in
  get_db s' dbn = Some (db_resolve ds key value ver opid (n_clock s)) /\
  same_sess s s' /\ n_role s' = n_role s.
Proof.
  intros Hid Hoid Hd Hk Hvn Hvs Hver Ha Hm Ed. cbv zeta.
  destruct (deliver_node_facts s l (rp_line id (resolve_text opid dbn key ver value))) as (D & S & R & _).
  assert (E : fst (step s l (rp_line id (resolve_text opid dbn key ver value))) =
              fst (step (send s l (ack_line s id)) l (resolve_text opid dbn key ver value))).
  { apply (step_rp s l id _ (RqResolve opid dbn key value ver)); auto; try discriminate.
    - now apply resolve_text_semi.
    - now apply resolve_text_last.
    - rewrite resolve_text_trim by assumption. apply resolve_roundtrip; auto using tok_no_sp, tok_no_nl. }
  rewrite E in D, S, R.
  destruct (send_link_facts s l (ack_line s id)) as (D0 & S0 & R0 & C0).
  set (sa := send s l (ack_line s id)) in *.
  assert (Ha0 : s_auth (get_sess sa l) = true) by (rewrite (same_sess_auth _ _ _ S0); exact Ha).
  assert (Hm0 : sess_is_primary (get_sess sa l) = true) by (rewrite (same_sess_is_primary _ _ _ S0); exact Hm).
  assert (Ed0 : get_db sa dbn = Some ds) by (unfold get_db; rewrite D0; exact Ed).
  destruct (sec_resolve_step sa l opid dbn key value ver ds Hoid Hd Hk Hvn Hvs Hver Ha0 Hm0 Ed0) as (D1 & S1 & R1 & _).
  split; [unfold get_db; rewrite D, <- C0; exact D1|].
  split; [eapply same_sess_trans; [exact S0|eapply same_sess_trans; eauto]|congruence].
Qed.

(* GOAL 2 on the lines as delivered by [deliver_raw] (envelope, acknowledgement, reply, drained inbox) *)
Theorem resolve_lines_delivered s l id1 id2 opid dbn key value ver dp ds cp :
  id1 < 2 ^ 64 -> id2 < 2 ^ 64 ->
  (opid < 2 ^ 64) -> simple_tok dbn -> simple_tok key -> no_nl value -> no_semi_end value -> is_i32 ver ->
  s_auth (get_sess s l) = true -> sess_is_primary (get_sess s l) = true ->
  get_db s dbn = Some ds -> nodup_db dp -> nodup_db ds ->
  rec_writable dp (rec_key key opid) -> rec_writable ds (rec_key key opid) ->
  agree key dp ds ->
  let s1 := deliver_node s l (rp_line id1 (rec_text dbn key opid ("resolved " +++ value))) in
  let s2 := deliver_node s1 l (rp_line id2 (resolve_text opid dbn key ver value)) in
  exists ds', get_db s2 dbn = Some ds' /\ nodup_db ds' /\
    agree key (db_resolve dp key value ver opid cp) ds' /\
    has_pending_conflict ds' key = has_pending_conflict (db_resolve dp key value ver opid cp) key /\
    same_sess s s2.
Proof.
  intros Hi1 Hi2 Hid Hd Hk Hvn Hvs Hver Ha Hm Ed Np Ns Wp Ws Hag. cbv zeta.
  destruct (deliver_record_line s l id1 dbn ds key opid ("resolved " +++ value) Hi1 Hd Hk
              (no_nl_resolved _ Hvn) (no_semi_resolved _ Hvs) Ha Ed Ws) as (D1 & S1 & _).
  set (s1 := deliver_node s l _) in *.
  assert (Ha1 : s_auth (get_sess s1 l) = true) by (rewrite (same_sess_auth _ _ _ S1); exact Ha).
  assert (Hm1 : sess_is_primary (get_sess s1 l) = true) by (rewrite (same_sess_is_primary _ _ _ S1); exact Hm).
  destruct (deliver_resolve_line s1 l id2 opid dbn key value ver _ Hi2 Hid Hd Hk Hvn Hvs Hver Ha1 Hm1 D1) as (D2 & S2 & _).
  exists (db_resolve_replica ds key value ver opid (n_clock s) (n_clock s1)).
  pose proof (db_resolve_agree dp ds key value ver opid cp (n_clock s) (n_clock s1) Np Ns Hag Wp Ws) as A.
  split; [exact D2|]. split; [unfold db_resolve_replica; auto using nodup_db_resolve, nodup_db_set|].
  split; [exact A|]. split; [|eapply same_sess_trans; eauto].
  symmetry. apply hpc_agree; [now apply nodup_db_resolve|unfold db_resolve_replica; auto using nodup_db_resolve, nodup_db_set|].
  apply (ag_pend _ _ _ A).
Qed.

(* H.3  [deliver_raw] on a link whose next line is [ln]: the receiving node becomes
        [deliver_node] of it (its outboxes then moved to the links by flush_outboxes) *)
Lemma deliver_raw_node c i lk ln rest x :
  nth_error (c_links c) i = Some lk -> l_open lk = true -> l_hs lk = [] -> l_q lk = ln :: rest ->
  get_cn c (l_to lk) = Some x ->
  exists c' x', deliver_raw c i = Some c' /\ get_cn c' (l_to lk) = Some x' /\
    cn_node x' = clean_members (deliver_node (cn_node x) (l_server lk) ln).
Proof.
  intros Hn Ho Hh Hq Hx. unfold deliver_raw. rewrite Hn, Ho. cbn [negb]. rewrite Hh, Hq, Hx.
  unfold deliver_node. destruct (step (cn_node x) (l_server lk) ln) as [n1 r].
  set (status := match r with RError msg => _ | _ => _ end).
  unfold drain. cbv beta iota. cbn [fst].
  set (n3 := put_sess _ _ _).
  eexists. exists (cn_set_node (cn_set_node x n3) (clean_members n3)). split; [reflexivity|].
  split; [|reflexivity].
  apply flush_get_same. unfold get_cn, set_link, put_cn. cbn [c_nodes]. apply get_set_same, String.eqb_spec.
Qed.

Lemma clean_members_dbs n : n_dbs (clean_members n) = n_dbs n.
Proof. reflexivity. Qed.
Lemma clean_members_sess n : same_sess n (clean_members n).
Proof. now apply same_sess_core. Qed.

(* H.4  the primary's replication thread: a queued line "rp <id> <req>" whose request parses and can be
        logged is pushed, unchanged, on the outbox of every secondary member *)
Lemma repl_one_fans_out x id req rq b :
  id < 2 ^ 64 -> req <> "" -> no_semi_end req -> parse_request req = POk rq ->
  snd (repl_oplog x rq id) <> None ->
  cn_dead x = false -> n_role (cn_node x) = Primary -> NoDup (map fst (n_members (cn_node x))) ->
  pend_below (n_pending (cn_node x)) b -> b <= id ->
  let x' := repl_one x (rp_line id req) in
  cn_dead x' = false /\ fan_same (cn_node x) (cn_node x') /\
  pend_below (n_pending (cn_node x')) (id + 1) /\
  (forall nm q, assoc_get String.eqb nm (n_members (cn_node x)) = Some (Secondary, q) ->
     nm <> n_addr (cn_node x) -> is_nosender q = false ->
     assoc_get String.eqb nm (n_members (cn_node x')) = Some (Secondary, q ++ [rp_line id req])).
Proof.
  intros Hid Hne Hs Hp Hoid Hdead Hrole Hnd Hpb Hle. cbv zeta.
  destruct (leader_repl_one x id req rq) as [Hn Hdd]; auto.
  { rewrite Hrole. discriminate. }
  change ("rp " +++ N_to_str id +++ " " +++ req) with (rp_line id req) in *.
  split; auto. rewrite Hn, Hrole. cbn [fan_all].
  pose proof (fan_out_spec (cn_node x) id req false Hnd) as H. cbv zeta in H.
  destruct H as (Hout & Hkeys & Hpend & _ & H1 & H2 & H3 & H4 & H5 & H6 & H7 & _).
  split; [constructor; auto|].
  assert (Hnp : reg_text (n_pending (cn_node x)) id req = req).
  { unfold reg_text. destruct (assoc_get N.eqb id (n_pending (cn_node x))) eqn:E; auto.
    assert (Hlt : id < b) by (apply Hpb; unfold is_pending; now rewrite E). lia. }
  split.
  - rewrite Hpend. apply pend_below_reg_all. eapply pend_below_mono; [|exact Hpb]. lia.
  - intros nm q Hg Hne' Hns. specialize (Hout nm). rewrite Hg in Hout. rewrite Hout.
    rewrite Hnp, rp_line_mtr.
    apply String.eqb_neq in Hne'. rewrite Hne', Hns. reflexivity.
Qed.

(* the two lines of a resolve satisfy its hypotheses *)
Lemma resolve_lines_loggable x opid dbn key value ver d id :
  simple_tok dbn -> simple_tok key -> no_nl value -> no_semi_end value -> is_i32 ver -> opid < 2 ^ 64 ->
  get_db (cn_node x) dbn = Some d ->
  (parse_request (rec_text dbn key opid ("resolved " +++ value)) =
     POk (RqReplicateSet dbn (rec_key key opid) ("resolved " +++ value) (-1)) /\
   snd (repl_oplog x (RqReplicateSet dbn (rec_key key opid) ("resolved " +++ value) (-1)) id) <> None) /\
  (parse_request (resolve_text opid dbn key ver value) = POk (RqResolve opid dbn key value ver) /\
   snd (repl_oplog x (RqResolve opid dbn key value ver) id) <> None).
Proof.
  intros Hd Hk Hvn Hvs Hver Hid Ed. split; split.
  - unfold rec_text. apply replicate_roundtrip;
      auto using tok_no_sp, tok_no_nl, no_sp_rec_key, no_nl_rec_key, no_nl_resolved, no_semi_resolved.
    unfold is_i32; lia.
  - cbn [repl_oplog]. destruct (key_id x (rec_key key opid)). unfold db_id_of. rewrite Ed. cbn. discriminate.
  - apply resolve_roundtrip; auto using tok_no_sp, tok_no_nl.
  - cbn. discriminate.
Qed.

(* GOAL 3, replica half, on the line as delivered *)
Theorem conflict_line_delivered s l id dbn key opid rmsg dp ds old cp :
  id < 2 ^ 64 -> simple_tok dbn -> simple_tok key -> no_nl rmsg -> no_semi_end rmsg ->
  s_auth (get_sess s l) = true -> get_db s dbn = Some ds ->
  nodup_db dp -> nodup_db ds -> vagree key dp ds -> get_value dp key = Some old ->
  rec_writable dp (rec_key key opid) -> rec_writable ds (rec_key key opid) ->
  let s' := deliver_node s l (rp_line id (rec_text dbn key opid rmsg)) in
  let dp' := db_conflict dp key old (rec_key key opid) rmsg cp in
  exists ds', get_db s' dbn = Some ds' /\ nodup_db ds' /\
    kstate dp' key = Some (v_val old, (-2)%Z) /\ kstate ds' key = kstate ds key /\
    kval dp' (rec_key key opid) = Some rmsg /\ kval ds' (rec_key key opid) = Some rmsg /\
    vagree key dp' ds' /\ same_sess s s'.
Proof.
  intros Hid Hd Hk Hrn Hrs Ha Ed Np Ns Hag Eo Wp Ws. cbv zeta.
  destruct (deliver_record_line s l id dbn ds key opid rmsg Hid Hd Hk Hrn Hrs Ha Ed Ws) as (D1 & S1 & _).
  eexists. split; [exact D1|].
  destruct (db_conflict_vagree dp ds key old (rec_key key opid) rmsg cp (n_clock s) Np Ns Hag Eo (rec_key_neq key opid) Wp Ws)
    as (A1 & A2 & A3 & A4 & _ & A6).
  split; [now apply nodup_db_set|]. repeat (split; auto).
Qed.

(* ---- the whole pipeline on a concrete cluster (Model/Cluster.v): p1 primary, s1 secondary -------------- *)
Definition exc_c0 : cluster :=
  mkCl [("p1", init_cnode "u" "pw" "p1" 3 Primary 10);
        ("s1", init_cnode "u" "pw" "s1" 2 Secondary 10)] [] 0.
Definition exc_cmd (c : cluster) (line : str) : cluster := fst (settle 20 (fst (client_cmd c "p1" 0 line))).
(* s1 joins; an admin client of p1 creates the arbiter database, registers as arbiter, writes k twice,
   then two stale versioned writes conflict *)
Definition exc_build : cluster :=
  let c := fst (settle 20 (add_sec exc_c0 "p1" "s1")) in
  let c := fst (client_conn c "p1") in
  fold_left exc_cmd ["auth u pw"; "create-db d tok arbiter"; "use-db d tok"; "arbiter"; "set k a"; "set k b";
                     "set-safe k 0 c"; "set-safe k 0 e"] c.
Definition exc_c : cluster := Eval vm_compute in exc_build.
Definition exc_view (c : cluster) (nm : str) : option (list (str * str * Z)) :=
  match get_cn c nm with Some x => ex_view (cn_node x) | None => None end.
Definition exc_queues (c : cluster) : list (str * str * list str) :=
  map (fun l => (l_from l, l_to l, l_q l)) (c_links c).

(* the resolve at the primary, one poll of its replication thread, two deliveries on the link p1 -> s1 *)
Definition exc_c1 : cluster := Eval vm_compute in poll_repl_c (fst (client_cmd exc_c "p1" 0 "resolve 27 d k 1 X")) "p1".
Definition exc_c2 : cluster := Eval vm_compute in opt_or exc_c1 (deliver exc_c1 0).
Definition exc_c3 : cluster := Eval vm_compute in opt_or exc_c2 (deliver exc_c2 0).

Example cluster_pipeline :
  exc_view exc_c "p1" = Some [("$$token", "tok", 0%Z); ("$connections", "1", 0%Z); ("k", "b", (-2)%Z);
                              ("$conflicts_k_27", "resolve 27 d 1 k b c", 0%Z);
                              ("$conflicts_k_32", "resolve 32 d 1 k $conflicts_k_27 e", 0%Z)] /\
  exc_view exc_c "s1" = Some [("$$token", "tok", 0%Z); ("k", "b", 1%Z);
                              ("$conflicts_k_27", "resolve 27 d 1 k b c", 0%Z);
                              ("$conflicts_k_32", "resolve 32 d 1 k $conflicts_k_27 e", 0%Z)] /\
  (* the two lines of the resolve on the link *)
  exc_queues exc_c1 = [("p1", "s1", ["rp 38 replicate d $conflicts_k_27 -1 resolved X"; "rp 39 resolve 27 d k 1 X"]);
                       ("s1", "p1", []); ("s1", "s1", [])] /\
  (* delivered: the replica holds X, in conflict like the primary (another conflict is pending) ... *)
  exc_view exc_c3 "p1" = Some [("$$token", "tok", 0%Z); ("$connections", "1", 0%Z); ("k", "X", (-2)%Z);
                               ("$conflicts_k_27", "resolved X", 1%Z);
                               ("$conflicts_k_32", "resolve 32 d 1 k $conflicts_k_27 e", 0%Z)] /\
  exc_view exc_c3 "s1" = Some [("$$token", "tok", 0%Z); ("k", "X", (-2)%Z);
                               ("$conflicts_k_27", "resolved X", 2%Z);
                               ("$conflicts_k_32", "resolve 32 d 1 k $conflicts_k_27 e", 0%Z)] /\
  (* ... and has queued the record line back to the primary *)
  exc_queues exc_c3 = [("p1", "s1", []); ("s1", "p1", ["replicate d $conflicts_k_27 -1 resolved X"]); ("s1", "s1", [])].
Proof. vm_compute. repeat split; reflexivity. Qed.

(* to quiescence, then the second resolution: both hold Y at version 2, nothing pending *)
Definition exc_c4 : cluster := Eval vm_compute in exc_cmd (fst (settle 20 exc_c3)) "resolve 32 d k 1 Y".
Example cluster_final :
  exc_view exc_c4 "p1" = Some [("$$token", "tok", 0%Z); ("$connections", "1", 0%Z); ("k", "Y", 2%Z);
                               ("$conflicts_k_27", "resolved X", 2%Z); ("$conflicts_k_32", "resolved Y", 2%Z)] /\
  exc_view exc_c4 "s1" = Some [("$$token", "tok", 0%Z); ("k", "Y", 2%Z);
                               ("$conflicts_k_27", "resolved X", 3%Z); ("$conflicts_k_32", "resolved Y", 3%Z)].
Proof. vm_compute. split; reflexivity. Qed.

(* GOAL 3, both halves together: the conflicting write at the primary (recognised by its answer), its
   queued line executed by the replica *)
Theorem conflict_replicates n c s l key value ver dbn dp ds :
  simple_tok dbn -> simple_tok key -> no_semi_end value -> n_clock n + 3 <= 2 ^ 64 ->
  is_primary n = true -> s_db (get_sess n c) = Some dbn -> get_db n dbn = Some dp ->
  snd (handle n c (RqSet key value ver)) = RError ("$$conflitct unresolved " +++ rec_key key (n_clock n)) ->
  (forall old, get_value dp key = Some old ->
     no_nl (conflict_notice dbn dp (mkCh key value ver (n_clock n) false) old)) ->
  s_auth (get_sess s l) = true -> get_db s dbn = Some ds ->
  nodup_db dp -> nodup_db ds -> vagree key dp ds ->
  rec_writable dp (rec_key key (n_clock n)) -> rec_writable ds (rec_key key (n_clock n)) ->
  let n' := fst (exec n c (RqSet key value ver)) in
  let s' := run_reqs s l (queued_reqs n n') in
  exists old dp' ds',
    get_value dp key = Some old /\
    let rmsg := conflict_notice dbn dp (mkCh key value ver (n_clock n) false) old in
    queued_reqs n n' = [rec_text dbn key (n_clock n) rmsg] /\
    get_db n' dbn = Some dp' /\ get_db s' dbn = Some ds' /\
    kstate dp' key = Some (v_val old, (-2)%Z) /\ kstate ds' key = kstate ds key /\
    kval dp' (rec_key key (n_clock n)) = Some rmsg /\ kval ds' (rec_key key (n_clock n)) = Some rmsg /\
    vagree key dp' ds'.
Proof.
  intros Hd Hk Hvs Hclk Hp Hs Edp Hans Hnl Ha Eds Np Ns Hag Wp Ws. cbv zeta.
  destruct (conflict_answer_inv n c key value ver _ Hans) as (dbn' & d & old & G & Hst & Harb & Eo & Hr).
  destruct (guard_safe_go _ _ _ _ _ _ G) as [Hs' Ed']. rewrite Hs in Hs'. injection Hs' as <-.
  rewrite Edp in Ed'. injection Ed' as <-.
  destruct (conflict_queues_lines n c key value ver dbn dp old Hp G Hst Harb Eo Hr) as (_ & R & D & _ & _).
  set (rmsg := conflict_notice dbn dp (mkCh key value ver (n_clock n) false) old) in *.
  assert (Hrn : no_nl rmsg) by (now apply Hnl).
  assert (Hrs : no_semi_end rmsg) by (apply conflict_notice_semi; exact Hvs).
  assert (Q : queued_reqs n (fst (exec n c (RqSet key value ver))) = [rec_text dbn key (n_clock n) rmsg]).
  { rewrite (queued_reqs_app _ _ _ R). cbn [map].
    rewrite line_req_rp; [reflexivity|lia|discriminate|now apply replicate_msg_semi]. }
  rewrite Q.
  destruct (conflict_lines_apply_on_secondary s l dbn key (n_clock n) rmsg dp ds old (n_clock n + 1)
              Hd Hk Hrn Hrs Ha Eds Np Ns Hag Eo Wp Ws) as (ds' & D' & _ & _ & A1 & A2 & A3 & A4 & A5 & _).
  exists old, (db_conflict dp key old (rec_key key (n_clock n)) rmsg (n_clock n + 1)), ds'.
  repeat (split; auto).
Qed.

(* ---- the version theorem on the example run ------------------------------------------------------- *)
Example ex_run_faithful : faithful_run 0 0 "d" "k" (ex_p0, ex_s0) ex_evs.
Proof.
  unfold ex_evs. cbn [faithful_run faithful].
  change (pstep 0 0 "d" "k" (ex_p0, ex_s0) (AConflict "c" 0%Z)) with ex_st1.
  change (pstep 0 0 "d" "k" ex_st1 (AConflict "e" 0%Z)) with ex_st2.
  change (pstep 0 0 "d" "k" ex_st2 (AResolve 20 "X" 1%Z)) with ex_st3.
  change (pstep 0 0 "d" "k" ex_st3 (AResolve 23 "Y" 1%Z)) with ex_st4.
  repeat split.
  - intros os _ _ H. vm_compute in H. discriminate H.          (* another conflict is pending *)
  - intros os H Hne _. vm_compute in H. injection H as <-. now contradiction Hne.   (* the replica is at -2 *)
Qed.

Example ex_run_version :
  forall dp' ds', get_db (fst (run 0 0 "d" "k" (ex_p0, ex_s0) ex_evs)) "d" = Some dp' ->
    get_db (snd (run 0 0 "d" "k" (ex_p0, ex_s0) ex_evs)) "d" = Some ds' ->
    kver dp' "k" <> Some (-2)%Z -> kstate ds' "k" = kstate dp' "k".
Proof.
  apply (C13_replica_version 0 0 "d" "k" ltac:(tok) ltac:(tok) 1 ex_p0 ex_s0 ex_evs).
  - exact ex_pinv0.
  - exact ex_run_ok.
  - exact ex_run_faithful.
  - vm_compute. reflexivity.
  - left. reflexivity.
Qed.

(* the answer of [replica_version_differs] (version 7 for a notice that said 1) is not faithful *)
Example unfaithful_answer : ~ faithful 0 0 "d" "k" ex_st1 (AResolve 20 "X" 7%Z).
Proof.
  intros H. cbn [faithful] in H.
  assert (A : 7%Z = 1%Z \/ 7%Z = (-2)%Z).
  { apply (H 1%Z); [vm_compute; reflexivity|discriminate|vm_compute; reflexivity]. }
  destruct A as [A|A]; discriminate A.
Qed.

(* ================================================================== *)
(* Summary                                                              *)
(* ================================================================== *)
Check resolve_queues_lines.
Check db_resolve_effect.
Check resolve_lines_apply_on_secondary.
Check resolve_lines_apply_lagging.
Check resolve_replicates.
Check resolve_lines_delivered.
Check conflict_queues_lines.
Check conflict_answer_inv.
Check conflict_lines_apply_on_secondary.
Check conflict_replicates.
Check conflict_line_delivered.
Check C13_replica_holds_resolution.
Check C13_replica_after_resolve.
Check C13_replica_version.
Check repl_one_fans_out.
Check deliver_raw_node.
Check key_not_own_record.
Check list_conflicts_keys_iff.
Check rec_key_matches.
Check conflict_record_pending.

Print Assumptions resolve_queues_lines.
Print Assumptions db_resolve_effect.
Print Assumptions resolve_lines_apply_on_secondary.
Print Assumptions resolve_lines_apply_lagging.
Print Assumptions resolve_replicates.
Print Assumptions resolve_lines_delivered.
Print Assumptions conflict_queues_lines.
Print Assumptions conflict_answer_inv.
Print Assumptions conflict_lines_apply_on_secondary.
Print Assumptions conflict_replicates.
Print Assumptions conflict_line_delivered.
Print Assumptions C13_replica_holds_resolution.
Print Assumptions C13_replica_after_resolve.
Print Assumptions C13_replica_version.
Print Assumptions ex_run_version.
Print Assumptions repl_one_fans_out.
Print Assumptions deliver_raw_node.
Print Assumptions list_conflicts_keys_iff.
Print Assumptions conflict_record_pending.
Print Assumptions star_key_conflicts_queue.
Print Assumptions ex_run_theorem.
Print Assumptions cluster_pipeline.
