(* NetProofs2.v -- the transports (Model/Net.v), second part:
   1. the UTF-8 validator is compositional over ASCII separators;
   2. a WebSocket frame is its commands one after the other (C20 for WebSocket frames);
   3. C17 ("$connections equals the number of open sessions that selected the database") over the
      three transports: TCP lines, WebSocket frames, HTTP requests, connection ends. *)
From Coq Require Import List String Ascii ZArith NArith Bool Lia.
From NunDB Require Import Base Parse Node Net GuardProofs NetProofs ConnProofs.
Import ListNotations.
Open Scope string_scope. Open Scope list_scope.

(* ====================================================================================== *)
(* 1. utf8_valid                                                                          *)
(* ====================================================================================== *)
Definition is_ascii (x : ascii) : bool := (byte_of x <=? 127)%N.

Lemma ascii_not_range x lo hi : is_ascii x = true -> (128 <= lo)%N -> in_range x lo hi = false.
Proof.
  unfold is_ascii, in_range. intros H Hlo. apply N.leb_le in H.
  apply andb_false_iff. left. apply N.leb_gt. lia.
Qed.

Lemma ascii_not_cont x : is_ascii x = true -> is_cont x = false.
Proof. intros H. change (is_cont x) with (in_range x 128 191). apply ascii_not_range; [exact H|lia]. Qed.

Lemma utf8_valid_cons_ascii x b : is_ascii x = true -> utf8_valid (String x b) = utf8_valid b.
Proof. unfold is_ascii. intros H. cbn [utf8_valid]. rewrite H. reflexivity. Qed.

Ltac kill_ranges Hx :=
  repeat (rewrite (ascii_not_cont _ Hx) || rewrite (ascii_not_range _ _ _ Hx) by lia);
  rewrite ?andb_false_r; cbn [andb].

Ltac fin Hx b :=
  solve [ kill_ranges Hx; reflexivity
        | destruct b as [|? [|? ?]]; kill_ranges Hx; reflexivity ].

(* the general statement: a split at an ASCII byte *)
Lemma utf8_valid_split_fuel x b (Hx : is_ascii x = true) : forall k a, (String.length a <= k)%nat ->
  utf8_valid (a +++ String x b) = utf8_valid a && utf8_valid b.
Proof.
  induction k as [|k IH]; intros a Hl.
  - destruct a; [|cbn in Hl; lia]. cbn [append]. rewrite utf8_valid_cons_ascii by exact Hx. reflexivity.
  - destruct a as [|y r]; [cbn [append]; rewrite utf8_valid_cons_ascii by exact Hx; reflexivity|].
    cbn [String.length] in Hl.
    cbn [append]. cbn [utf8_valid].
    destruct (byte_of y <=? 127)%N; [apply IH; lia|].
    destruct (in_range y 194 223).
    { destruct r as [|c1 r1]; cbn [append]; [fin Hx b|].
      cbn [String.length] in Hl. rewrite IH by lia. apply andb_assoc. }
    destruct (byte_of y =? 224)%N.
    { destruct r as [|c1 [|c2 r2]]; cbn [append]; try (fin Hx b).
      cbn [String.length] in Hl. rewrite IH by lia. apply andb_assoc. }
    destruct (in_range y 225 236 || in_range y 238 239).
    { destruct r as [|c1 [|c2 r2]]; cbn [append]; try (fin Hx b).
      cbn [String.length] in Hl. rewrite IH by lia. apply andb_assoc. }
    destruct (byte_of y =? 237)%N.
    { destruct r as [|c1 [|c2 r2]]; cbn [append]; try (fin Hx b).
      cbn [String.length] in Hl. rewrite IH by lia. apply andb_assoc. }
    destruct (byte_of y =? 240)%N.
    { destruct r as [|c1 [|c2 [|c3 r3]]]; cbn [append]; try (fin Hx b).
      cbn [String.length] in Hl. rewrite IH by lia. apply andb_assoc. }
    destruct (in_range y 241 243).
    { destruct r as [|c1 [|c2 [|c3 r3]]]; cbn [append]; try (fin Hx b).
      cbn [String.length] in Hl. rewrite IH by lia. apply andb_assoc. }
    destruct (byte_of y =? 244)%N.
    { destruct r as [|c1 [|c2 [|c3 r3]]]; cbn [append]; try (fin Hx b).
      cbn [String.length] in Hl. rewrite IH by lia. apply andb_assoc. }
    reflexivity.
Qed.

Lemma utf8_valid_split a x b : is_ascii x = true ->
  utf8_valid (a +++ String x b) = utf8_valid a && utf8_valid b.
Proof. intros Hx. apply (utf8_valid_split_fuel x b Hx (String.length a)). lia. Qed.

Ltac app_case IH H Hl :=
  first [ discriminate H
        | cbn [append]; cbn [String.length] in Hl;
          apply andb_prop in H; destruct H as [H ?H]; rewrite H; cbn [andb]; apply IH; [lia|assumption] ].

Lemma utf8_valid_app_fuel b : forall k a, (String.length a <= k)%nat ->
  utf8_valid a = true -> utf8_valid (a +++ b) = utf8_valid b.
Proof.
  induction k as [|k IH]; intros a Hl H.
  - destruct a; [reflexivity|cbn in Hl; lia].
  - destruct a as [|y r]; [reflexivity|].
    cbn [String.length] in Hl. cbn [append]. cbn [utf8_valid] in H |- *.
    destruct (byte_of y <=? 127)%N; [apply IH; [lia|exact H]|].
    destruct (in_range y 194 223).
    { destruct r as [|c1 r1]; app_case IH H Hl. }
    destruct (byte_of y =? 224)%N.
    { destruct r as [|c1 [|c2 r2]]; app_case IH H Hl. }
    destruct (in_range y 225 236 || in_range y 238 239).
    { destruct r as [|c1 [|c2 r2]]; app_case IH H Hl. }
    destruct (byte_of y =? 237)%N.
    { destruct r as [|c1 [|c2 r2]]; app_case IH H Hl. }
    destruct (byte_of y =? 240)%N.
    { destruct r as [|c1 [|c2 [|c3 r3]]]; app_case IH H Hl. }
    destruct (in_range y 241 243).
    { destruct r as [|c1 [|c2 [|c3 r3]]]; app_case IH H Hl. }
    destruct (byte_of y =? 244)%N.
    { destruct r as [|c1 [|c2 [|c3 r3]]]; app_case IH H Hl. }
    discriminate H.
Qed.

Theorem utf8_valid_app : forall a b, utf8_valid a = true -> utf8_valid (a +++ b) = utf8_valid b.
Proof. intros a b. apply (utf8_valid_app_fuel b (String.length a)). lia. Qed.

Theorem utf8_valid_app_inv : forall a b, utf8_valid (a +++ ";" +++ b) = true -> utf8_valid a = true /\ utf8_valid b = true.
Proof.
  intros a b H. change (";" +++ b) with (String ";"%char b) in H.
  rewrite utf8_valid_split in H by reflexivity. apply andb_prop in H. exact H.
Qed.

(* ====================================================================================== *)
(* 2. a WebSocket frame is its commands one after the other                               *)
(* ====================================================================================== *)
Theorem ws_parts_app : forall l1 l2 n c,
  ws_parts n c (l1 ++ l2) =
  (let '(n1, f) := ws_parts n c l1 in
   match f with Serving => ws_parts n1 c l2 | ThreadDied => (n1, ThreadDied) end).
Proof.
  induction l1 as [|p r IH]; intros l2 n c; [reflexivity|].
  cbn [app ws_parts]. destruct (step n c p) as [n1 resp]. destruct resp; try apply IH. reflexivity.
Qed.

Lemma split_char_acc_app c a b : forall cur,
  split_char_acc c (a +++ String c b) cur = split_char_acc c a cur ++ split_char_acc c b "".
Proof.
  induction a as [|y r IH]; intros cur; cbn [append split_char_acc].
  - rewrite Ascii.eqb_refl. reflexivity.
  - destruct (Ascii.eqb y c); [rewrite IH; reflexivity|apply IH].
Qed.

Theorem split_semi_app : forall a b, split_char ";" (a +++ ";" +++ b) = split_char ";" a ++ split_char ";" b.
Proof. intros a b. unfold split_char. apply split_char_acc_app. Qed.

Theorem ws_frame_seq : forall n c a b, utf8_valid a = true -> utf8_valid b = true ->
  ws_frame n c (a +++ ";" +++ b) =
  (let '(n1, f) := ws_frame n c a in
   match f with Serving => ws_frame n1 c b | ThreadDied => (n1, ThreadDied) end).
Proof.
  intros n c a b Ha Hb. unfold ws_frame.
  rewrite (utf8_valid_app a _ Ha). change (";" +++ b) with (String ";"%char b).
  rewrite utf8_valid_cons_ascii by reflexivity. rewrite Ha, Hb. cbn [negb].
  change (String ";"%char b) with (";" +++ b). rewrite split_semi_app. apply ws_parts_app.
Qed.

Lemma split_char_acc_nochar c p : (forall i, get i p <> Some c) -> forall cur,
  split_char_acc c p cur = [str_rev_acc cur p].
Proof.
  induction p as [|y r IH]; intros H cur; cbn [split_char_acc]; [reflexivity|].
  destruct (Ascii.eqb_spec y c) as [->|Hne].
  - exfalso. apply (H O). reflexivity.
  - rewrite IH; [reflexivity|]. intros i. exact (H (S i)).
Qed.

Lemma split_char_nochar c p : (forall i, get i p <> Some c) -> split_char c p = [p].
Proof. intros H. unfold split_char. rewrite split_char_acc_nochar by exact H. reflexivity. Qed.

Theorem ws_frame_single : forall n c p, AdminInv n -> utf8_valid p = true ->
  (forall i, get i p <> Some ";"%char) ->
  ws_frame n c p = (send (fst (step n c p)) c (term_ws (snd (step n c p))), Serving).
Proof.
  intros n c p Hi Hu Hno. unfold ws_frame. rewrite Hu. cbn [negb].
  rewrite split_char_nochar by exact Hno. cbn [ws_parts].
  pose proof (step_no_panic n c p Hi) as Hp.
  destruct (step n c p) as [n1 r]. cbn [fst snd] in *.
  destruct r; try reflexivity. contradiction.
Qed.

(* the hypotheses of ws_frame_seq follow from the validity of the whole frame *)
Corollary ws_frame_seq_valid : forall n c a b, utf8_valid (a +++ ";" +++ b) = true ->
  ws_frame n c (a +++ ";" +++ b) =
  (let '(n1, f) := ws_frame n c a in
   match f with Serving => ws_frame n1 c b | ThreadDied => (n1, ThreadDied) end).
Proof. intros n c a b H. apply utf8_valid_app_inv in H. destruct H. apply ws_frame_seq; assumption. Qed.

(* any number of commands: each is executed once, in order, and queues its own terminator *)
Definition ws_one (c : nat) (n : node) (p : str) : node :=
  send (fst (step n c p)) c (term_ws (snd (step n c p))).

Definition cmd_ok (p : str) : Prop := utf8_valid p = true /\ forall i, get i p <> Some ";"%char.

Lemma utf8_valid_join cmds : Forall cmd_ok cmds -> utf8_valid (join ";" cmds) = true.
Proof.
  induction 1 as [|x l [Hx _] Hl IH]; [reflexivity|].
  destruct l as [|y r]; [exact Hx|].
  change (join ";" (x :: y :: r)) with (x +++ String ";"%char (join ";" (y :: r))).
  rewrite (utf8_valid_app x _ Hx). rewrite utf8_valid_cons_ascii by reflexivity. exact IH.
Qed.

Lemma ws_one_inv c n p : AdminInv n -> AdminInv (ws_one c n p).
Proof. intros Hi. unfold ws_one. apply send_inv, step_inv. exact Hi. Qed.

Theorem ws_frame_cmds : forall cmds n c, AdminInv n -> cmds <> [] -> Forall cmd_ok cmds ->
  ws_frame n c (join ";" cmds) = (fold_left (ws_one c) cmds n, Serving).
Proof.
  induction cmds as [|x l IH]; intros n c Hi Hne Hall; [congruence|].
  inversion Hall as [|x' l' [Hx Hno] Hl]; subst.
  destruct l as [|y r].
  - cbn [join fold_left]. apply ws_frame_single; assumption.
  - change (join ";" (x :: y :: r)) with (x +++ ";" +++ join ";" (y :: r)).
    rewrite ws_frame_seq; [|exact Hx|apply utf8_valid_join; exact Hl].
    rewrite (ws_frame_single n c x Hi Hx Hno). cbn [fold_left].
    apply IH; [apply ws_one_inv; exact Hi|discriminate|exact Hl].
Qed.

(* ---- the example ---------------------------------------------------------------------- *)
Definition ex_node : node := fst (connect (init_node "u" "p" "a" 1 Primary 0)).
Definition ex_cmds : list str := ["auth u p"; "create-db d t"; "use-db d t"; "set k v"; "get k"].
Definition ex_frame : str := "auth u p;create-db d t;use-db d t;set k v;get k".
Definition okT : str := "ok " +++ nlS.

(* each command sent as a frame of its own, the inbox emptied before it: what that command alone queues *)
Fixpoint own_outputs (n : node) (c : nat) (cmds : list str) : list (list str) :=
  match cmds with
  | [] => []
  | p :: rest => let n1 := fst (ws_frame (fst (drain n c)) c p) in
                 s_inbox (get_sess n1 c) :: own_outputs n1 c rest
  end.

Example ws_frame_five_commands :
  snd (connect (init_node "u" "p" "a" 1 Primary 0)) = 0%nat /\
  ex_frame = join ";" ex_cmds /\
  snd (ws_frame ex_node 0 ex_frame) = Serving /\
  s_inbox (get_sess (fst (ws_frame ex_node 0 ex_frame)) 0) =
    [ "valid auth" +++ nlS; okT;
      "create-db success" +++ nlS; okT;
      okT;
      okT;
      "value v" +++ nlS; okT ] /\
  own_outputs ex_node 0 ex_cmds =
    [ [ "valid auth" +++ nlS; okT ]; [ "create-db success" +++ nlS; okT ]; [ okT ]; [ okT ]; [ "value v" +++ nlS; okT ] ] /\
  s_inbox (get_sess (fst (ws_frame ex_node 0 ex_frame)) 0) = concat (own_outputs ex_node 0 ex_cmds) /\
  fst (ws_frame ex_node 0 ex_frame) = fold_left (fun n p => fst (ws_frame n 0 p)) ex_cmds ex_node.
Proof. vm_compute. repeat split; reflexivity. Qed.

(* ====================================================================================== *)
(* 3. C17 over the transports                                                             *)
(* ====================================================================================== *)
Definition net_nstep (st : node * list nat) (e : net_ev) : node * list nat :=
  let '(n, op) := st in
  match e with
  | NConnect => let '(n', c) := connect n in (n', op ++ [c])
  | NTcpLine c b => (fst (tcp_line n c b), op)
  | NWsFrame c b => (fst (ws_frame n c b), op)
  | NHttp b => (fst (http_bytes n b), op)
  | NClosed c => (conn_closed n c, filter (fun x => negb (Nat.eqb x c)) op)
  end.

Definition net_ev_ok (op : list nat) (e : net_ev) : bool :=
  match e with
  | NConnect | NHttp _ => true
  | NTcpLine c _ | NWsFrame c _ | NClosed c => existsb (Nat.eqb c) op
  end.

Fixpoint net_run_ok (st : node * list nat) (evs : list net_ev) : bool :=
  match evs with [] => true | e :: r => net_ev_ok (snd st) e && net_run_ok (net_nstep st e) r end.

Lemma ConnInv_send n op c m : ConnInv (n, op) -> ConnInv (send n c m, op).
Proof. intros HI. eapply frame_ConnInv; [|exact HI]. apply frame_send, frame_refl. Qed.

Lemma ConnInv_drain n op c : ConnInv (n, op) -> ConnInv (fst (drain n c), op).
Proof.
  intros HI. eapply frame_ConnInv; [|exact HI]. unfold drain. cbn [fst].
  apply frame_put_sess; [apply frame_refl|reflexivity].
Qed.

Lemma tcp_line_ConnInv n c b op : ConnInv (n, op) -> In c op -> ConnInv (fst (tcp_line n c b), op).
Proof.
  intros HI Hin. unfold tcp_line. destruct (utf8_valid b); cbn [negb fst]; [|exact HI].
  pose proof (step_ConnInv n c (b +++ nlS) op HI Hin) as H.
  destruct (step n c (b +++ nlS)) as [n1 r]. cbn [fst] in H.
  destruct r; cbn [fst]; try (apply ConnInv_send; exact H). exact H.
Qed.

Lemma ws_parts_ConnInv c op parts : forall n, ConnInv (n, op) -> In c op ->
  ConnInv (fst (ws_parts n c parts), op).
Proof.
  induction parts as [|p rest IH]; intros n HI Hin; cbn [ws_parts fst]; [exact HI|].
  pose proof (step_ConnInv n c p op HI Hin) as H.
  destruct (step n c p) as [n1 r]. cbn [fst] in H.
  destruct r; try (apply IH; [apply ConnInv_send; exact H|exact Hin]). exact H.
Qed.

Lemma ws_frame_ConnInv n c b op : ConnInv (n, op) -> In c op -> ConnInv (fst (ws_frame n c b), op).
Proof.
  intros HI Hin. unfold ws_frame. destruct (utf8_valid b); cbn [negb fst].
  - apply ws_parts_ConnInv; assumption.
  - apply ConnInv_send; exact HI.
Qed.

Lemma http_commands_ConnInv c op cmds : forall n acc, ConnInv (n, op) -> In c op ->
  ConnInv (fst (http_commands n c cmds acc), op).
Proof.
  induction cmds as [|cmd rest IH]; intros n acc HI Hin; cbn [http_commands fst]; [exact HI|].
  destruct (String.eqb (trim cmd) ""); [apply IH; assumption|].
  pose proof (step_ConnInv n c (trim cmd) op HI Hin) as H.
  destruct (step n c (trim cmd)) as [n1 r]. cbn [fst] in H.
  assert (Hput : forall more, ConnInv (put_sess n1 c (mkSess (s_auth (get_sess n1 c)) (s_db (get_sess n1 c))
                    (s_user (get_sess n1 c)) (s_member (get_sess n1 c)) more), op)).
  { intros more. eapply frame_ConnInv; [|exact H]. apply frame_put_sess; [apply frame_refl|reflexivity]. }
  destruct r.
  1-3: destruct (s_inbox (get_sess n1 c)) as [|m more]; (apply IH; [first [exact H|apply Hput]|exact Hin]).
  1-2: apply IH; [apply ConnInv_drain; exact H|exact Hin].
  exact H.
Qed.

Lemma filter_all_true {A} (f : A -> bool) l : (forall x, In x l -> f x = true) -> filter f l = l.
Proof.
  induction l as [|y r IH]; intros H; cbn [filter]; [reflexivity|].
  rewrite (H y (or_introl eq_refl)). rewrite IH; [reflexivity|]. intros x Hx. apply H. right. exact Hx.
Qed.

Lemma rm_snoc c op : ~ In c op -> rm c (op ++ [c]) = op.
Proof.
  intros Hn. unfold rm. rewrite filter_app. cbn [filter]. rewrite Nat.eqb_refl. cbn [negb].
  rewrite app_nil_r. apply filter_all_true. intros x Hx.
  destruct (Nat.eqb_spec x c) as [->|]; [contradiction|reflexivity].
Qed.

(* the temporary session of an HTTP request is opened and closed inside: the open list is unchanged *)
Lemma http_request_ConnInv n body op : ConnInv (n, op) -> ConnInv (fst (http_request n body), op).
Proof.
  intros HI. unfold http_request.
  pose proof (connect_ConnInv n op HI) as H0.
  assert (Hfresh : ~ In (snd (connect n)) op).
  { destruct HI as (_ & Hlt & _). intros Hin. apply Hlt in Hin. cbn in Hin. lia. }
  destruct (connect n) as [n0 c]. cbn [fst snd] in *.
  assert (Hin : In c (op ++ [c])) by (apply in_or_app; right; left; reflexivity).
  pose proof (http_commands_ConnInv c (op ++ [c]) (split_char ";" body) n0 [] H0 Hin) as H1.
  destruct (http_commands n0 c (split_char ";" body) []) as [n1 out]. cbn [fst] in *.
  pose proof (conn_step (n1, op ++ [c]) (EDisconnect c) H1) as H2.
  cbn [nstep snd ev_ok] in H2. fold (rm c (op ++ [c])) in H2. rewrite (rm_snoc c op Hfresh) in H2.
  apply H2. apply existsb_eqb_In. exact Hin.
Qed.

Lemma http_bytes_ConnInv n body op : ConnInv (n, op) -> ConnInv (fst (http_bytes n body), op).
Proof.
  intros HI. unfold http_bytes. destruct (utf8_valid body); cbn [negb fst]; [|exact HI].
  apply http_request_ConnInv. exact HI.
Qed.

Theorem net_conn_step : forall st e, ConnInv st -> net_ev_ok (snd st) e = true -> ConnInv (net_nstep st e).
Proof.
  intros [n op] e HI Hok. destruct e as [|c b|c b|b|c]; cbn [net_nstep net_ev_ok snd] in *.
  - pose proof (connect_ConnInv n op HI) as H. destruct (connect n) as [n' c]. exact H.
  - apply existsb_eqb_In in Hok. apply tcp_line_ConnInv; assumption.
  - apply existsb_eqb_In in Hok. apply ws_frame_ConnInv; assumption.
  - apply http_bytes_ConnInv. exact HI.
  - exact (conn_step (n, op) (EDisconnect c) HI Hok).
Qed.

Theorem net_conn_run : forall evs st, ConnInv st -> net_run_ok st evs = true ->
  ConnInv (fold_left net_nstep evs st).
Proof.
  induction evs as [|e r IH]; intros st HI Hok; cbn [fold_left]; [exact HI|].
  cbn [net_run_ok] in Hok. apply andb_prop in Hok. destruct Hok as [H1 H2].
  apply IH; [apply net_conn_step; assumption|exact H2].
Qed.

Corollary net_conn_run_from_init u p a pid r c0 evs :
  net_run_ok (init_node u p a pid r c0, []) evs = true ->
  ConnInv (fold_left net_nstep evs (init_node u p a pid r c0, [])).
Proof. apply net_conn_run. apply conn_init. Qed.

Check utf8_valid_app. Check utf8_valid_app_inv. Check utf8_valid_split.
Check ws_parts_app. Check split_semi_app. Check ws_frame_seq. Check ws_frame_single. Check ws_frame_cmds.
Check ws_frame_five_commands.
Check net_conn_step. Check net_conn_run. Check net_conn_run_from_init.
Print Assumptions ws_frame_seq.
Print Assumptions ws_frame_single.
Print Assumptions utf8_valid_app_inv.
Print Assumptions net_conn_run.
Print Assumptions net_conn_run_from_init.
Print Assumptions ws_frame_cmds.
