#!/bin/sh
# Build everything the checks need, offline, from files on disk.
set -e
cd "$(dirname "$0")"
export CARGO_NET_OFFLINE=true
mkdir -p .cache evidence
python3 - <<'PY'
import sys, os
sys.path.insert(0, os.path.join(os.getcwd(), "lib"))
import common
rc, out = common.coq_make([])
print(out[-2000:])
if rc != 0: sys.exit(1)
rc, out = common.build_modelrun()
print(out[-2000:])
if rc != 0: sys.exit(1)
rc, out, b = common.build_harness()
print(out[-2000:])
if rc != 0: sys.exit(1)
print("setup ok", b)
PY
