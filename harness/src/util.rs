use std::io::{BufRead, BufReader, Write};

pub struct Case {
    pub id: String,
    pub header: Vec<String>,
    pub ops: Vec<Vec<String>>,
}

pub fn read_cases(path: &str) -> Vec<Case> {
    let f = std::fs::File::open(path).expect("open case file");
    let mut cases = Vec::new();
    let mut cur: Option<Case> = None;
    for line in BufReader::new(f).lines() {
        let line = line.unwrap();
        let toks: Vec<String> = line.split(' ').filter(|t| !t.is_empty()).map(|s| s.to_string()).collect();
        if toks.is_empty() {
            continue;
        }
        match toks[0].as_str() {
            "C" => {
                cur = Some(Case { id: toks[1].clone(), header: toks[2..].to_vec(), ops: Vec::new() });
            }
            "E" => {
                cases.push(cur.take().expect("E without C"));
            }
            _ => cur.as_mut().expect("op outside case").ops.push(toks),
        }
    }
    cases
}

/// Token -> bytes. `x<hex>` is hex-encoded bytes (`x` alone = empty).
pub fn unhex(tok: &str) -> Vec<u8> {
    assert!(tok.starts_with('x'), "expected hex token, got {}", tok);
    let h = &tok.as_bytes()[1..];
    let mut out = Vec::with_capacity(h.len() / 2);
    let v = |c: u8| -> u8 {
        match c {
            b'0'..=b'9' => c - b'0',
            b'a'..=b'f' => c - b'a' + 10,
            _ => panic!("bad hex"),
        }
    };
    let mut i = 0;
    while i + 1 < h.len() {
        out.push(v(h[i]) * 16 + v(h[i + 1]));
        i += 2;
    }
    out
}

pub fn unhex_s(tok: &str) -> String {
    String::from_utf8(unhex(tok)).expect("utf8 token")
}

pub fn hex(b: &[u8]) -> String {
    let mut s = String::with_capacity(1 + b.len() * 2);
    s.push('x');
    for c in b {
        s.push_str(&format!("{:02x}", c));
    }
    s
}

/// Printable escaping used in observation lines: bytes outside [0x21,0x7e] and
/// braces become {XX}, so that one observation is one whitespace-free token.
pub fn esc(b: &[u8]) -> String {
    let mut s = String::new();
    for &c in b {
        if c > 0x20 && c < 0x7f && c != b'{' && c != b'}' {
            s.push(c as char);
        } else {
            s.push_str(&format!("{{{:02X}}}", c));
        }
    }
    if s.is_empty() {
        s.push_str("{}");
    }
    s
}

// Observation lines are collected in a process-wide buffer so that a watchdog can still print them when the
// thread that runs the case is stuck inside the code under test (a deadlock answers nothing and panics nothing).
lazy_static::lazy_static! {
    static ref OUT_BUF: std::sync::Mutex<Vec<u8>> = std::sync::Mutex::new(Vec::new());
    static ref LAST_LINE: std::sync::Mutex<std::time::Instant> = std::sync::Mutex::new(std::time::Instant::now());
}

pub struct Out {}

impl Out {
    pub fn new() -> Out {
        *LAST_LINE.lock().unwrap() = std::time::Instant::now();
        Out {}
    }
    pub fn line(&mut self, s: &str) {
        let mut b = OUT_BUF.lock().unwrap();
        b.extend_from_slice(s.as_bytes());
        b.push(b'\n');
        if b.len() > (1 << 20) {
            std::io::stdout().write_all(&b).unwrap();
            b.clear();
        }
        *LAST_LINE.lock().unwrap() = std::time::Instant::now();
    }
    pub fn flush(&mut self) {
        let mut b = OUT_BUF.lock().unwrap();
        std::io::stdout().write_all(&b).unwrap();
        b.clear();
        std::io::stdout().flush().unwrap();
    }
}

/// a command that has not produced its observation line after `secs` seconds never will: print what there is, mark the
/// case as hung and end the process (the remaining cases of the file are not run)
pub fn start_watchdog(secs: u64) {
    std::thread::spawn(move || loop {
        std::thread::sleep(std::time::Duration::from_millis(500));
        let idle = LAST_LINE.lock().unwrap().elapsed().as_secs();
        if idle >= secs {
            let mut b = OUT_BUF.lock().unwrap();
            b.extend_from_slice(b"HANG | - | repl=[] sup=[]\nD POISONED\nE\n");
            let _ = std::io::stdout().write_all(&b);
            let _ = std::io::stdout().flush();
            std::process::exit(3);
        }
    });
}

pub fn fresh_dir(workdir: &str, name: &str) -> String {
    let d = format!("{}/{}", workdir, name);
    let _ = std::fs::remove_dir_all(&d);
    std::fs::create_dir_all(&d).unwrap();
    d
}

pub fn fnv64(data: &[u8]) -> u64 {
    let mut h: u64 = 0xcbf29ce484222325;
    for b in data {
        h ^= *b as u64;
        h = h.wrapping_mul(0x100000001b3);
    }
    h
}

/// like esc, but long byte strings are printed as {L<len>:<fnv64>} so that a corrupted
/// load cannot blow the output up
pub fn escv(b: &[u8]) -> String {
    if b.len() > 2048 {
        format!("{{L{}:{:016x}}}", b.len(), fnv64(b))
    } else {
        esc(b)
    }
}
