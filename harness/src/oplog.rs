// C12 driver: real oplog files through Oplog::try_write_op_log, read_operations_since,
// Oplog::last_op_time, get_op_log_size and the retention step.
use crate::util::*;
use nundb::bo::ReplicateOpp;
use nundb::disk_ops::*;

fn list_files(dir: &str) -> String {
    let mut rotated: Vec<(String, u64)> = Vec::new();
    if let Ok(rd) = std::fs::read_dir(format!("{}/oplog", dir)) {
        for e in rd {
            let e = e.unwrap();
            let n = e.file_name().into_string().unwrap();
            rotated.push((n, e.metadata().unwrap().len()));
        }
    }
    rotated.sort();
    let cur = std::fs::metadata(format!("{}/oplog-nun.op", dir)).map(|m| m.len()).unwrap_or(0);
    let r: Vec<String> = rotated.iter().map(|(_, l)| format!("{}", l)).collect();
    format!("files [{}] {}", r.join(","), cur)
}

pub fn run(path: &str, workdir: &str) {
    let mut out = Out::new();
    for case in read_cases(path) {
        out.line(&format!("C {}", case.id));
        let dir = fresh_dir(workdir, "oplog");
        nundb::verif_hooks::set_data_dir(Some(dir.clone()));
        let mut stream = Some(Oplog::get_log_file_append_mode());
        for op in &case.ops {
            let r = std::panic::catch_unwind(std::panic::AssertUnwindSafe(|| match op[0].as_str() {
                "w" => {
                    let time: u64 = op[1].parse().unwrap();
                    let key: u64 = op[2].parse().unwrap();
                    let db: u64 = op[3].parse().unwrap();
                    let kind: u8 = op[4].parse().unwrap();
                    let r = Oplog::try_write_op_log(
                        stream.as_mut().unwrap(),
                        Some(db),
                        key,
                        &ReplicateOpp::from(kind),
                        time,
                    );
                    match r {
                        Ok(id) => format!("w ok {}", id),
                        Err(e) => format!("w err {}", esc(e.as_bytes())),
                    }
                }
                "q" => {
                    let since: u64 = op[1].parse().unwrap();
                    let m = read_operations_since(since);
                    let mut items: Vec<(u64, u64, String)> = m
                        .values()
                        .map(|r| (r.db, r.key, format!("{}_{}:{}:{}", r.db, r.key, r.timestamp, r.opp.to_u8())))
                        .collect();
                    items.sort();
                    let v: Vec<String> = items.into_iter().map(|x| x.2).collect();
                    format!("q {}", if v.is_empty() { "-".to_string() } else { v.join(",") })
                }
                "last" => format!("last {}", Oplog::last_op_time()),
                "size" => {
                    let (b, c) = get_op_log_size();
                    format!("size {} {}", b, c)
                }
                "declutter" => {
                    verif_remove_old_db_files();
                    "declutter".to_string()
                }
                "reopen" => {
                    stream = None;
                    stream = Some(Oplog::get_log_file_append_mode());
                    "reopen".to_string()
                }
                o => panic!("unknown op {}", o),
            }));
            let line = match r {
                Ok(s) => s,
                Err(_) => "PANIC".to_string(),
            };
            out.line(&format!("{} | {}", line, list_files(&dir)));
        }
        drop(stream);
        out.line("E");
    }
    out.flush();
}
