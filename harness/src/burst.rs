// Real threads: T threads each open K sessions one after the other on the same database (use-db, then the
// transports' end-of-connection path) while one session stays; after every burst the counter must be back.
// Ops: conn / cmd <sid> <hex> (sequential, as in the node driver) and `burst <T> <K> <hex use-db line>`.
use crate::node::*;
use crate::util::*;
use nundb::bo::*;
use nundb::process_request::process_request;
use std::collections::HashMap;

fn counters(node: &Node, db: &str) -> String {
    let map = node.dbs.map.read().unwrap();
    match map.get(db) {
        Some(d) => {
            let key = d.map.read().unwrap().get("$connections").map(|v| v.value.clone()).unwrap_or("-".to_string());
            format!("conn={} key={}", d.connections_count(), esc(key.as_bytes()))
        }
        None => "nodb".to_string(),
    }
}

pub fn run(path: &str, workdir: &str) {
    let mut out = Out::new();
    for case in read_cases(path) {
        out.line(&format!("C {}", case.id));
        let dir = fresh_dir(workdir, "burst");
        nundb::verif_hooks::set_data_dir(Some(dir.clone()));
        nundb::verif_hooks::set_global_data_dir(Some(dir.clone()));
        let mut node = new_node("n0:3014", 1000, ClusterRole::Primary, HashMap::new(), true);
        let dbn = case.header.get(1).cloned().unwrap_or("d1".to_string());
        for op in &case.ops {
            match op[0].as_str() {
                "conn" => {
                    node.connect();
                }
                "cmd" => {
                    let sid: usize = op[1].parse().unwrap();
                    node.cmd(sid, &unhex_s(&op[2]));
                    for (_, rx) in node.sessions.iter_mut() {
                        let _ = drain_rx(rx);
                    }
                }
                "burst" => {
                    let t: usize = op[1].parse().unwrap();
                    let k: usize = op[2].parse().unwrap();
                    let line = unhex_s(&op[3]);
                    let mut hs = Vec::new();
                    for _ in 0..t {
                        let dbs = node.dbs.clone();
                        let line = line.clone();
                        hs.push(std::thread::spawn(move || {
                            for _ in 0..k {
                                let (mut c, _rx) = Client::new_empty_and_receiver();
                                process_request(&line, &dbs, &mut c);
                                nundb::network::tcp_ops::verif_connection_closed(&mut c, &dbs);
                            }
                        }));
                    }
                    for h in hs {
                        let _ = h.join();
                    }
                    for (_, rx) in node.sessions.iter_mut() {
                        let _ = drain_rx(rx);
                    }
                    let _ = drain_rx(&mut node.repl_rx);
                }
                o => panic!("unknown op {}", o),
            }
            out.line(&format!("B {}", counters(&node, &dbn)));
        }
        out.line("E");
    }
    out.flush();
}
