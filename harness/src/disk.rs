// C06 driver: node commands + real snapshots to disk + restarts (fresh Databases +
// load_all_dbs on the same directory).  After each step: reply, inboxes, queues, a dump
// with disk addresses, and a digest of every data file.
use crate::node::*;
use crate::util::*;
use nundb::bo::*;
use std::collections::HashMap;
use std::sync::Arc;

pub fn fnv(data: &[u8]) -> u64 {
    fnv64(data)
}

pub fn files_digest(dir: &str) -> String {
    files_digest_sel(dir, false)
}

pub fn files_digest_sel(dir: &str, meta: bool) -> String {
    let mut names: Vec<String> = Vec::new();
    if let Ok(rd) = std::fs::read_dir(dir) {
        for e in rd {
            let n = e.unwrap().file_name().into_string().unwrap();
            let global = n.starts_with("keys-nun.keys") || n == "is-oplog.valid" || n.starts_with("oplog-nun.op");
            if (n.contains("-nun.") && !global) || (meta && global) {
                names.push(n);
            }
        }
    }
    names.sort();
    let parts: Vec<String> = names
        .iter()
        .map(|n| {
            let data = std::fs::read(format!("{}/{}", dir, n)).unwrap_or_default();
            if n.starts_with("oplog-nun.op") {
                // records carry wall-clock ids: only the length is comparable
                format!("{}:{}:*", esc(n.as_bytes()), data.len())
            } else {
                format!("{}:{}:{:016x}", esc(n.as_bytes()), data.len(), fnv(&data))
            }
        })
        .collect();
    format!("files=[{}]", parts.join(","))
}

pub fn load_order(dir: &str) -> Vec<String> {
    // the order load_all_dbs_from_disk will visit the databases (read_dir order)
    let mut v = Vec::new();
    if let Ok(rd) = std::fs::read_dir(dir) {
        for e in rd {
            let n = e.unwrap().file_name().into_string().unwrap();
            if n.ends_with("-nun.data.keys") {
                v.push(n.replace("-nun.data.keys", ""));
            }
        }
    }
    v
}

pub fn run(path: &str, workdir: &str) {
    let mut out = Out::new();
    for case in read_cases(path) {
        out.line(&format!("C {}", case.id));
        let dir = fresh_dir(workdir, "disk");
        nundb::verif_hooks::set_data_dir(Some(dir.clone()));
        let _ = nundb::verif_hooks::take_key_orders();
        let role = role_of(case.header.get(0).map(|s| s.as_str()).unwrap_or("P"));
        let mut node = new_node("n0:3014", 1000, role, HashMap::new(), true);
        for op in &case.ops {
            let mut aux: Option<String> = None;
            let res = match op[0].as_str() {
                "conn" => format!("Conn {}", node.connect()),
                "cmd" => {
                    let sid: usize = op[1].parse().unwrap();
                    let line = unhex_s(&op[2]);
                    node.cmd(sid, &line)
                }
                "disc" => {
                    let sid: usize = op[1].parse().unwrap();
                    node.disconnect(sid)
                }
                "flush" => {
                    let dbs = node.dbs.clone();
                    let r = std::panic::catch_unwind(std::panic::AssertUnwindSafe(|| {
                        nundb::disk_ops::snapshot_all_pendding_dbs(&dbs)
                    }));
                    let orders = nundb::verif_hooks::take_key_orders();
                    let o: Vec<String> = orders
                        .iter()
                        .map(|ks| {
                            if ks.is_empty() {
                                "-".to_string()
                            } else {
                                ks.iter().map(|k| hex(k.as_bytes())).collect::<Vec<String>>().join(",")
                            }
                        })
                        .collect();
                    aux = Some(format!("#order {}", o.join(" ")));
                    match r {
                        Ok(_) => "Flushed".to_string(),
                        Err(_) => "PANIC".to_string(),
                    }
                }
                "restart" => {
                    let lo = load_order(&dir);
                    aux = Some(format!(
                        "#load {}",
                        lo.iter().map(|k| hex(k.as_bytes())).collect::<Vec<String>>().join(" ")
                    ));
                    let role = node.dbs.get_role();
                    drop(node);
                    node = new_node("n0:3014", 1000, role, HashMap::new(), true);
                    let dbs: Arc<Databases> = node.dbs.clone();
                    match std::panic::catch_unwind(std::panic::AssertUnwindSafe(|| Databases::load_all_dbs(&dbs))) {
                        Ok(_) => "Restarted".to_string(),
                        Err(_) => "PANIC".to_string(),
                    }
                }
                o => panic!("unknown op {}", o),
            };
            let inb = node.inboxes();
            let q = node.queues();
            out.line(&format!("{} | {} | {}", res, inb, q));
            out.line(&format!("D {} {}", safe_dump(&node, true), files_digest(&dir)));
            if let Some(a) = aux {
                out.line(&a);
            }
        }
        out.line("E");
    }
    out.flush();
}
