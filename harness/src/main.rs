// Differential-execution drivers: each reads a case file, runs the real nun-db
// code (built from /repo's working tree with --cfg nundb_verif) and prints one
// canonical observation line per operation.
mod util;
mod pending;
mod oplog;
mod node;
mod disk;
mod cluster;
mod sched;
mod crash;
mod s3;
mod net;
mod burst;

fn main() {
    let args: Vec<String> = std::env::args().collect();
    if args.len() < 3 {
        eprintln!("usage: drv <driver> <casefile> [workdir]");
        std::process::exit(2);
    }
    if std::env::var("VERIF_SHOW_PANICS").is_err() {
        std::panic::set_hook(Box::new(|_| {}));
    }
    let workdir = args.get(3).cloned().unwrap_or_else(|| "/verif/.cache/run/default".to_string());
    match args[1].as_str() {
        "pending" => pending::run(&args[2], &workdir),
        "oplog" => oplog::run(&args[2], &workdir),
        "node" => {
            util::start_watchdog(30);
            node::run(&args[2], &workdir)
        }
        "disk" => {
            util::start_watchdog(90);
            disk::run(&args[2], &workdir)
        }
        "cluster" => {
            util::start_watchdog(90);
            cluster::run(&args[2], &workdir)
        }
        "sched" => sched::run(&args[2], &workdir),
        "s3" => s3::run(&args[2], &workdir),
        "net" => net::run(&args[2], &workdir),
        "burst" => {
            util::start_watchdog(120);
            burst::run(&args[2], &workdir)
        }
        "net1" => net::run_one(&args[2], &workdir, args[4].parse().unwrap()),
        "crashb" => crash::run_b(&args[2], &args[3], args.get(4).map(|s| s.as_str()).unwrap_or("A")),
        "crashc" => crash::run_c(&args[2]),
        "crashc11" => crash::run_c11(&args[2]),
        d => {
            eprintln!("unknown driver {}", d);
            std::process::exit(2);
        }
    }
}
