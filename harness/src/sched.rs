// Schedule driver: like the node driver, plus parallel sections in which every session
// is an OS thread that parks at each yield point (hook verif_hooks::yield_point, placed
// before every acquisition of Database.map / Watchers.map) and is released by the
// schedule given in the case.  Prints, per parallel section, each thread's replies and the
// sequence of yield sites it passed, then the usual inboxes and dump.
use crate::node::*;
use crate::util::*;
use nundb::bo::*;
use nundb::process_request::process_request;
use std::cell::Cell;
use std::collections::HashMap;
use std::sync::{Arc, Condvar, Mutex};

thread_local! {
    static TID: Cell<Option<usize>> = Cell::new(None);
    static LAST_ORDERS: std::cell::RefCell<Vec<(usize, Vec<Vec<String>>)>> = std::cell::RefCell::new(Vec::new());
}

struct SState {
    turn: Option<usize>,
    done: Vec<bool>,
    trace: Vec<Vec<String>>,
    active: bool,
}

lazy_static::lazy_static! {
    static ref SCHED: Arc<(Mutex<SState>, Condvar)> =
        Arc::new((Mutex::new(SState { turn: None, done: Vec::new(), trace: Vec::new(), active: false }), Condvar::new()));
}

fn park(site: &str) {
    let tid = match TID.with(|t| t.get()) {
        Some(t) => t,
        None => return,
    };
    let (lock, cv) = &**SCHED;
    let mut st = lock.lock().unwrap();
    if !st.active {
        return;
    }
    st.trace[tid].push(site.to_string());
    st.turn = None;
    cv.notify_all();
    while st.turn != Some(tid) {
        st = cv.wait(st).unwrap();
    }
}

pub fn install_hook() {
    nundb::verif_hooks::set_yield_hook(Some(Box::new(|site: &'static str| park(site))));
}

/// returns per-thread (replies, clients back)
fn run_parallel(
    node: &mut Node,
    specs: Vec<(usize, Vec<String>)>,
    schedule: Vec<usize>,
) -> Vec<(usize, Vec<String>, Vec<String>)> {
    let n = specs.len();
    {
        let (lock, _) = &**SCHED;
        let mut st = lock.lock().unwrap();
        st.turn = None;
        st.done = vec![false; n];
        st.trace = vec![Vec::new(); n];
        st.active = true;
    }
    // take the sessions' clients out of the node
    let mut taken: HashMap<usize, (Client, futures::channel::mpsc::Receiver<String>)> = HashMap::new();
    let mut placeholders = Vec::new();
    for (sid, _) in &specs {
        let ph = Client::new_empty_and_receiver();
        let real = std::mem::replace(&mut node.sessions[*sid], ph);
        taken.insert(*sid, real);
        placeholders.push(*sid);
    }
    let mut handles = Vec::new();
    for (tid, (sid, lines)) in specs.iter().enumerate() {
        let (mut client, rx) = taken.remove(sid).unwrap();
        let dbs = node.dbs.clone();
        let lines = lines.clone();
        let sid = *sid;
        handles.push(std::thread::spawn(move || {
            TID.with(|t| t.set(Some(tid)));
            let mut replies = Vec::new();
            for line in &lines {
                park("cmd");
                let r = std::panic::catch_unwind(std::panic::AssertUnwindSafe(|| process_request(line, &dbs, &mut client)));
                replies.push(match r {
                    Ok(r) => resp_str(&r),
                    Err(_) => "PANIC".to_string(),
                });
            }
            {
                let (lock, cv) = &**SCHED;
                let mut st = lock.lock().unwrap();
                st.done[tid] = true;
                st.turn = None;
                cv.notify_all();
            }
            let orders = nundb::verif_hooks::take_key_orders();
            (sid, client, rx, replies, orders)
        }));
    }
    // wait until every thread is parked at its first point
    let (lock, cv) = &**SCHED;
    let wait_parked = |need: usize| loop {
        let st = lock.lock().unwrap();
        let parked = st.trace.iter().zip(st.done.iter()).filter(|(t, d)| !t.is_empty() || **d).count();
        if parked >= need {
            break;
        }
        drop(st);
        std::thread::sleep(std::time::Duration::from_micros(200));
    };
    wait_parked(n);
    let release = |tid: usize| {
        let mut st = lock.lock().unwrap();
        if st.done[tid] {
            return false;
        }
        st.turn = Some(tid);
        cv.notify_all();
        while st.turn.is_some() {
            st = cv.wait(st).unwrap();
        }
        true
    };
    for tid in schedule {
        if tid < n {
            release(tid);
        }
    }
    for tid in 0..n {
        while release(tid) {}
    }
    let mut out = Vec::new();
    let mut all_orders: Vec<(usize, Vec<Vec<String>>)> = Vec::new();
    for h in handles {
        let (sid, client, rx, replies, orders) = h.join().unwrap();
        node.sessions[sid] = (client, rx);
        out.push((sid, replies));
        all_orders.push((sid, orders));
    }
    LAST_ORDERS.with(|o| *o.borrow_mut() = all_orders);
    let traces = {
        let mut st = lock.lock().unwrap();
        st.active = false;
        st.trace.clone()
    };
    out.into_iter().enumerate().map(|(i, (sid, r))| (sid, r, traces[i].clone())).collect()
}

pub fn run(path: &str, workdir: &str) {
    let mut out = Out::new();
    install_hook();
    for case in read_cases(path) {
        out.line(&format!("C {}", case.id));
        let dir = fresh_dir(workdir, "sched");
        nundb::verif_hooks::set_data_dir(Some(dir.clone()));
        let role = role_of(case.header.get(0).map(|s| s.as_str()).unwrap_or("P"));
        let mut node = new_node("n0:3014", 1000, role, HashMap::new(), true);
        for op in &case.ops {
            let res = match op[0].as_str() {
                "conn" => format!("Conn {}", node.connect()),
                "cmd" => {
                    let sid: usize = op[1].parse().unwrap();
                    let line = unhex_s(&op[2]);
                    node.cmd(sid, &line)
                }
                "disc" => {
                    let sid: usize = op[1].parse().unwrap();
                    node.disconnect(sid)
                }
                "par" => {
                    // par <sid>:<hex>,<hex> ... -- t t t
                    let mut specs = Vec::new();
                    let mut sched = Vec::new();
                    let mut after = false;
                    for tok in &op[1..] {
                        if tok == "--" {
                            after = true;
                        } else if after {
                            sched.push(tok.parse::<usize>().unwrap());
                        } else if tok.starts_with('h') {
                            // order hints are for the model only
                        } else {
                            let mut p = tok.splitn(2, ':');
                            let sid: usize = p.next().unwrap().parse().unwrap();
                            let lines: Vec<String> = p.next().unwrap().split(',').map(|h| unhex_s(h)).collect();
                            specs.push((sid, lines));
                        }
                    }
                    let res = run_parallel(&mut node, specs, sched);
                    let parts: Vec<String> = res
                        .iter()
                        .map(|(sid, replies, trace)| format!("{}:[{}]<{}>", sid, replies.join(";"), trace.join(",")))
                        .collect();
                    format!("Par {}", parts.join(" "))
                }
                o => panic!("unknown op {}", o),
            };
            let inb = node.inboxes();
            let q = node.queues();
            out.line(&format!("{} | {} | {}", res, inb, q));
            out.line(&format!("D {}", safe_dump(&node, false)));
            if op[0] == "par" {
                let orders = LAST_ORDERS.with(|o| std::mem::take(&mut *o.borrow_mut()));
                let mut toks = Vec::new();
                for (sid, os) in orders {
                    for o in os {
                        toks.push(format!("h{}={}", sid, o.iter().map(|k| hex(k.as_bytes())).collect::<Vec<String>>().join(".")));
                    }
                }
                out.line(&format!("#hints {}", toks.join(" ")));
            }
        }
        out.line("E");
    }
    out.flush();
}
