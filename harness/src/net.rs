// Transport driver: the real listeners of network/tcp_ops.rs, ws_ops.rs and http_ops.rs on
// loopback sockets, driven by hand-written TCP / WebSocket / HTTP clients.  Every operation is
// followed by a sentinel command on every other open session, so that what each session has
// been sent so far is read deterministically.  Prints the node driver's observation format.
use crate::node::*;
use crate::util::*;
use nundb::bo::*;
use std::collections::HashMap;
use std::io::{Read, Write};
use std::net::{Shutdown, TcpListener, TcpStream};
use std::sync::Arc;
use std::time::{Duration, Instant};

const SENTINEL: &str = "zzsync9137";
const TIMEOUT: Duration = Duration::from_secs(15);

#[derive(PartialEq, Clone, Copy)]
enum Kind {
    Tcp,
    Ws,
}

#[derive(PartialEq, Clone, Copy, Debug)]
enum St {
    Open,
    Closed,
    Dead,
}

struct Conn {
    kind: Kind,
    stream: TcpStream,
    buf: Vec<u8>,
    st: St,
}

/// ports below the ephemeral range, walked from a start that depends on the process id (two driver
/// processes rarely meet; when they do, start_listener notices whose bind failed)
fn next_port() -> u16 {
    use std::sync::atomic::{AtomicU32, Ordering};
    static NEXT: AtomicU32 = AtomicU32::new(0);
    let k = NEXT.fetch_add(1, Ordering::SeqCst);
    (10000 + (std::process::id().wrapping_mul(7919).wrapping_add(k)) % 20000) as u16
}

fn connect_retry(addr: &str) -> Option<TcpStream> {
    let t0 = Instant::now();
    while t0.elapsed() < Duration::from_secs(3) {
        if let Ok(s) = TcpStream::connect(addr) {
            s.set_read_timeout(Some(Duration::from_millis(200))).unwrap();
            s.set_nodelay(true).unwrap();
            return Some(s);
        }
        std::thread::sleep(Duration::from_millis(5));
    }
    None
}

fn start_listener<F: Fn(Arc<Databases>, String) + Send + Sync + 'static + Clone>(dbs: &Arc<Databases>, f: F) -> String {
    for _ in 0..2000 {
        let port = next_port();
        // skip ports somebody listens on already
        if TcpStream::connect(("127.0.0.1", port)).is_ok() {
            continue;
        }
        let addr = format!("127.0.0.1:{}", port);
        let d = dbs.clone();
        let a = addr.clone();
        let g = f.clone();
        let h = std::thread::spawn(move || g(d, a));
        if let Some(_probe) = connect_retry(&addr) {
            // the probe connection is dropped at once; it never selects a database.
            // A listener whose bind failed has ended by now: then the port belongs to somebody else
            std::thread::sleep(Duration::from_millis(30));
            if !h.is_finished() {
                return addr;
            }
        }
    }
    panic!("no listener");
}

fn has_token(item: &[u8]) -> bool {
    item.windows(SENTINEL.len()).any(|w| w == SENTINEL.as_bytes())
}

impl Conn {
    fn fill(&mut self) -> Result<usize, bool> {
        // Ok(n) bytes read (0 = EOF); Err(true) = timeout slice elapsed
        let mut tmp = [0u8; 65536];
        match self.stream.read(&mut tmp) {
            Ok(n) => {
                self.buf.extend_from_slice(&tmp[..n]);
                Ok(n)
            }
            Err(e) => match e.kind() {
                std::io::ErrorKind::WouldBlock | std::io::ErrorKind::TimedOut | std::io::ErrorKind::Interrupted => Err(true),
                _ => Ok(0),
            },
        }
    }

    /// next item already in the buffer: a TCP line (line feed included) or a WebSocket text payload;
    /// Some(Err(())) = the peer closed (close frame)
    fn take_item(&mut self) -> Option<Result<Vec<u8>, ()>> {
        match self.kind {
            Kind::Tcp => {
                if let Some(p) = self.buf.iter().position(|&b| b == b'\n') {
                    let item: Vec<u8> = self.buf.drain(..=p).collect();
                    Some(Ok(item))
                } else {
                    None
                }
            }
            Kind::Ws => loop {
                if self.buf.len() < 2 {
                    return None;
                }
                let op = self.buf[0] & 0x0f;
                let l0 = (self.buf[1] & 0x7f) as usize;
                let (hdr, len) = if l0 < 126 {
                    (2, l0)
                } else if l0 == 126 {
                    if self.buf.len() < 4 {
                        return None;
                    }
                    (4, ((self.buf[2] as usize) << 8) | self.buf[3] as usize)
                } else {
                    if self.buf.len() < 10 {
                        return None;
                    }
                    let mut l = 0usize;
                    for i in 0..8 {
                        l = (l << 8) | self.buf[2 + i] as usize;
                    }
                    (10, l)
                };
                if self.buf.len() < hdr + len {
                    return None;
                }
                let payload: Vec<u8> = self.buf[hdr..hdr + len].to_vec();
                self.buf.drain(..hdr + len);
                match op {
                    1 | 2 => return Some(Ok(payload)),
                    8 => return Some(Err(())),
                    _ => continue, // ping / pong / continuation: not used by the server
                }
            },
        }
    }

    /// read items until the answer to the sentinel command (the one item that names it) arrives;
    /// returns the items in front of it
    fn read_to_sentinel(&mut self) -> (Vec<Vec<u8>>, &'static str) {
        let mut items = Vec::new();
        let t0 = Instant::now();
        loop {
            while let Some(it) = self.take_item() {
                match it {
                    Ok(item) => {
                        if has_token(&item) {
                            return (items, "");
                        }
                        items.push(item);
                    }
                    Err(()) => {
                        self.st = St::Dead;
                        return (items, "CLOSED-BY-SERVER");
                    }
                }
            }
            match self.fill() {
                Ok(0) => {
                    self.st = St::Dead;
                    return (items, "EOF");
                }
                Ok(_) => {}
                Err(_) => {
                    if t0.elapsed() > TIMEOUT {
                        self.st = St::Dead;
                        return (items, "TIMEOUT");
                    }
                }
            }
        }
    }

    /// the greeting of a TCP connection: one line
    fn read_line_item(&mut self) -> Option<Vec<u8>> {
        let t0 = Instant::now();
        loop {
            if let Some(Ok(it)) = self.take_item() {
                return Some(it);
            }
            match self.fill() {
                Ok(0) => return None,
                Ok(_) => {}
                Err(_) => {
                    if t0.elapsed() > TIMEOUT {
                        return None;
                    }
                }
            }
        }
    }

    fn ws_send(&mut self, opcode: u8, payload: &[u8]) -> bool {
        let mut f = vec![0x80 | opcode];
        let n = payload.len();
        if n < 126 {
            f.push(0x80 | n as u8);
        } else if n < 65536 {
            f.push(0x80 | 126);
            f.push((n >> 8) as u8);
            f.push(n as u8);
        } else {
            f.push(0x80 | 127);
            for i in (0..8).rev() {
                f.push((n >> (8 * i)) as u8);
            }
        }
        f.extend_from_slice(&[0, 0, 0, 0]); // masking key 0: the payload goes unchanged
        f.extend_from_slice(payload);
        self.stream.write_all(&f).is_ok()
    }

    /// sends one command (a TCP line or a WebSocket frame)
    fn send_cmd(&mut self, bytes: &[u8], raw: bool) {
        let ok = match self.kind {
            Kind::Tcp => {
                let mut b = bytes.to_vec();
                b.push(b'\n');
                self.stream.write_all(&b).is_ok()
            }
            Kind::Ws => self.ws_send(if raw { 2 } else { 1 }, bytes),
        };
        if !ok {
            self.st = St::Dead;
        }
    }

    /// the sentinel command, then everything the session was sent before its answer
    fn sync(&mut self) -> (Vec<Vec<u8>>, &'static str) {
        self.send_cmd(SENTINEL.as_bytes(), false);
        if self.st != St::Open {
            return (Vec::new(), "EOF");
        }
        self.read_to_sentinel()
    }

    fn close(&mut self) -> &'static str {
        match self.kind {
            Kind::Tcp => {
                let _ = self.stream.shutdown(Shutdown::Write);
            }
            Kind::Ws => {
                self.ws_send(8, &[0x03, 0xe8]);
            }
        }
        let t0 = Instant::now();
        loop {
            // whatever is still in flight is discarded; wait for the server's end of the connection
            while let Some(it) = self.take_item() {
                if it.is_err() {
                    self.st = St::Closed;
                    return "Left";
                }
            }
            match self.fill() {
                Ok(0) => {
                    self.st = St::Closed;
                    return "Left";
                }
                Ok(_) => {}
                Err(_) => {
                    if t0.elapsed() > TIMEOUT {
                        self.st = St::Dead;
                        return "TIMEOUT";
                    }
                }
            }
        }
    }
}

fn http_post(addr: &str, body: &[u8]) -> String {
    let mut s = match connect_retry(addr) {
        Some(s) => s,
        None => return "Http NOCONN".to_string(),
    };
    let head = format!("POST / HTTP/1.1\r\nHost: nun\r\nContent-Length: {}\r\nConnection: close\r\n\r\n", body.len());
    let mut req = head.into_bytes();
    req.extend_from_slice(body);
    if s.write_all(&req).is_err() {
        return "Http DEAD".to_string();
    }
    let mut resp = Vec::new();
    let t0 = Instant::now();
    let mut tmp = [0u8; 65536];
    loop {
        match s.read(&mut tmp) {
            Ok(0) => break,
            Ok(n) => resp.extend_from_slice(&tmp[..n]),
            Err(e) => match e.kind() {
                std::io::ErrorKind::WouldBlock | std::io::ErrorKind::TimedOut | std::io::ErrorKind::Interrupted => {
                    if t0.elapsed() > TIMEOUT {
                        return "Http TIMEOUT".to_string();
                    }
                }
                _ => break,
            },
        }
    }
    let sep = resp.windows(4).position(|w| w == b"\r\n\r\n");
    let (head, mut body) = match sep {
        Some(p) => (String::from_utf8_lossy(&resp[..p]).to_string(), resp[p + 4..].to_vec()),
        None => return "Http DEAD".to_string(),
    };
    let status = head.split(' ').nth(1).unwrap_or("?").to_string();
    if head.to_ascii_lowercase().contains("transfer-encoding: chunked") {
        let mut out = Vec::new();
        let mut i = 0;
        loop {
            let e = match body[i..].windows(2).position(|w| w == b"\r\n") {
                Some(e) => e,
                None => break,
            };
            let n = usize::from_str_radix(String::from_utf8_lossy(&body[i..i + e]).trim(), 16).unwrap_or(0);
            if n == 0 {
                break;
            }
            let st = i + e + 2;
            out.extend_from_slice(&body[st..st + n]);
            i = st + n + 2;
        }
        body = out;
    }
    format!("Http {} {}", status, esc(&body))
}

fn items_str(items: &[Vec<u8>]) -> String {
    let v: Vec<String> = items.iter().map(|x| esc(x)).collect();
    v.join("|")
}

/// every case runs in a process of its own: the listeners of a case never end (their threads sit in
/// accept, a WebSocket listener reserves room for 100000 connections), only the end of the process
/// gives their ports and memory back
pub fn run(path: &str, workdir: &str) {
    let n = read_cases(path).len();
    let exe = std::env::current_exe().unwrap();
    let mut out = Out::new();
    for i in 0..n {
        let o = std::process::Command::new(&exe).args(&["net1", path, workdir, &i.to_string()]).output().unwrap();
        out.line(String::from_utf8_lossy(&o.stdout).trim_end());
    }
    out.flush();
}

pub fn run_one(path: &str, workdir: &str, index: usize) {
    let mut out = Out::new();
    for case in read_cases(path).into_iter().skip(index).take(1) {
        out.line(&format!("C {}", case.id));
        let dir = fresh_dir(workdir, "net");
        nundb::verif_hooks::set_data_dir(Some(dir.clone()));
        // the listeners' threads have no thread-local override: they follow the process-wide one
        nundb::verif_hooks::set_global_data_dir(Some(dir.clone()));
        let role = role_of(case.header.get(0).map(|s| s.as_str()).unwrap_or("P"));
        let mut node = new_node("n0:3014", 1000, role, HashMap::new(), true);
        let mut addrs: HashMap<&'static str, String> = HashMap::new();
        let mut conns: Vec<Conn> = Vec::new();
        for op in &case.ops {
            let mut acting: Option<usize> = None;
            let mut lists: Vec<(usize, Vec<Vec<u8>>)> = Vec::new();
            let res = match op[0].as_str() {
                "tconn" | "wconn" => {
                    let ws = op[0] == "wconn";
                    let key = if ws { "ws" } else { "tcp" };
                    if !addrs.contains_key(key) {
                        let a = if ws {
                            start_listener(&node.dbs, |d, a| nundb::network::ws_ops::start_web_socket_client(d, Arc::new(a)))
                        } else {
                            start_listener(&node.dbs, |d, a| nundb::network::tcp_ops::start_tcp_client(d, &a))
                        };
                        addrs.insert(key, a);
                    }
                    match connect_retry(&addrs[key]) {
                        None => {
                            // keep the session numbering: a dead placeholder connected to a throw-away listener
                            let l = TcpListener::bind("127.0.0.1:0").unwrap();
                            let stream = TcpStream::connect(l.local_addr().unwrap()).unwrap();
                            conns.push(Conn { kind: Kind::Tcp, stream, buf: Vec::new(), st: St::Dead });
                            format!("Conn {} NOCONN", conns.len() - 1)
                        }
                        Some(stream) => {
                            let mut c = Conn { kind: if ws { Kind::Ws } else { Kind::Tcp }, stream, buf: Vec::new(), st: St::Open };
                            if ws {
                                let hs = "GET / HTTP/1.1\r\nHost: nun\r\nUpgrade: websocket\r\nConnection: Upgrade\r\nSec-WebSocket-Key: dGhlIHNhbXBsZSBub25jZQ==\r\nSec-WebSocket-Version: 13\r\n\r\n";
                                let _ = c.stream.write_all(hs.as_bytes());
                                let t0 = Instant::now();
                                loop {
                                    if let Some(p) = c.buf.windows(4).position(|w| w == b"\r\n\r\n") {
                                        c.buf.drain(..p + 4);
                                        break;
                                    }
                                    match c.fill() {
                                        Ok(0) => {
                                            c.st = St::Dead;
                                            break;
                                        }
                                        Ok(_) => {}
                                        Err(_) => {
                                            if t0.elapsed() > TIMEOUT {
                                                c.st = St::Dead;
                                                break;
                                            }
                                        }
                                    }
                                }
                            } else {
                                // the greeting "ok \n" is written straight to the socket
                                if c.read_line_item() != Some(b"ok \n".to_vec()) {
                                    c.st = St::Dead;
                                }
                            }
                            let dead = c.st == St::Dead;
                            conns.push(c);
                            if dead {
                                format!("Conn {} DEAD", conns.len() - 1)
                            } else {
                                format!("Conn {}", conns.len() - 1)
                            }
                        }
                    }
                }
                "cmd" | "raw" | "split" => {
                    let sid: usize = op[1].parse().unwrap();
                    let bytes = unhex(&op[2]);
                    acting = Some(sid);
                    if conns[sid].st != St::Open {
                        "DEAD".to_string()
                    } else {
                        if op[0] == "split" {
                            // one TCP line in two segments with a pause in between
                            let _ = conns[sid].stream.write_all(&bytes);
                            std::thread::sleep(Duration::from_millis(40));
                            conns[sid].send_cmd(&unhex(&op[3]), false);
                        } else {
                            conns[sid].send_cmd(&bytes, op[0] == "raw");
                        }
                        let (items, why) = conns[sid].sync();
                        let r = if why != "" {
                            why.to_string()
                        } else {
                            // a message that itself ends in a line feed leaves " \n" as a line of its own on TCP
                            match items.iter().rev().find(|t| t.as_slice() != b" \n") {
                                None => "NoReply".to_string(),
                                Some(t) if t == b"ok \n" => "Ok".to_string(),
                                Some(t) if t.starts_with(b"error ") => {
                                    let mut e = t.len();
                                    if t.ends_with(b" \n") {
                                        e -= 2;
                                    } else if t.ends_with(b"\n") {
                                        e -= 1;
                                    }
                                    format!("Error {}", esc(&t[6.min(e)..e]))
                                }
                                Some(_) => "Other".to_string(),
                            }
                        };
                        lists.push((sid, items));
                        r
                    }
                }
                "drop" | "reset" => {
                    // drop: the connection is cut without a close handshake (FIN).  reset: the socket is closed while an
                    // answer of the server is still unread, so the kernel answers with RST and the server's next read
                    // fails with ECONNRESET instead of returning 0
                    let sid: usize = op[1].parse().unwrap();
                    acting = Some(sid);
                    if conns[sid].st != St::Open {
                        "DEAD".to_string()
                    } else {
                        if op[0] == "reset" {
                            conns[sid].send_cmd(SENTINEL.as_bytes(), false);
                            let t0 = Instant::now();
                            let mut one = [0u8; 1];
                            while t0.elapsed() < Duration::from_secs(5) {
                                match conns[sid].stream.peek(&mut one) {
                                    Ok(n) if n > 0 => break,
                                    _ => std::thread::sleep(Duration::from_millis(2)),
                                }
                            }
                            // closing = dropping the stream: put a throw-away connection in its place
                            let l = TcpListener::bind("127.0.0.1:0").unwrap();
                            let dummy = TcpStream::connect(l.local_addr().unwrap()).unwrap();
                            let old = std::mem::replace(&mut conns[sid].stream, dummy);
                            drop(old);
                        } else {
                            let _ = conns[sid].stream.shutdown(Shutdown::Both);
                        }
                        conns[sid].st = St::Closed;
                        // no answer can tell when the server noticed: wait for its side of the connection to be gone
                        let t0 = Instant::now();
                        let before = safe_dump(&node, false);
                        while t0.elapsed() < Duration::from_millis(1500) && safe_dump(&node, false) == before {
                            std::thread::sleep(Duration::from_millis(5));
                        }
                        "Dropped".to_string()
                    }
                }
                "disc" => {
                    let sid: usize = op[1].parse().unwrap();
                    acting = Some(sid);
                    if conns[sid].st != St::Open {
                        "DEAD".to_string()
                    } else {
                        conns[sid].close().to_string()
                    }
                }
                "http" => {
                    if !addrs.contains_key("http") {
                        let a = start_listener(&node.dbs, |d, a| nundb::network::http_ops::start_http_client(d, Arc::new(a)));
                        addrs.insert("http", a);
                    }
                    http_post(&addrs["http"], &unhex(&op[1]))
                }
                o => panic!("unknown op {}", o),
            };
            // every other open session: sentinel, to collect what it has been sent so far
            for sid in 0..conns.len() {
                if Some(sid) == acting || conns[sid].st != St::Open {
                    continue;
                }
                let (mut items, why) = conns[sid].sync();
                if why != "" {
                    items.push(why.as_bytes().to_vec());
                }
                if !items.is_empty() {
                    lists.push((sid, items));
                }
            }
            lists.sort_by_key(|x| x.0);
            let parts: Vec<String> = lists.iter().filter(|x| !x.1.is_empty()).map(|(s, l)| format!("{}:[{}]", s, items_str(l))).collect();
            let inb = if parts.is_empty() { "-".to_string() } else { parts.join(";") };
            let q = node.queues();
            out.line(&format!("{} | {} | {}", res, inb, q));
            out.line(&format!("D {}", safe_dump(&node, false)));
        }
        for c in conns.iter_mut() {
            let _ = c.stream.shutdown(Shutdown::Both);
        }
        out.line("E");
    }
    out.flush();
}
