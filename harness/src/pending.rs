// C15 driver: register_pending_opp / acknowledge_pending_opp on a real Databases.
use crate::util::*;
use futures::channel::mpsc::{channel, Receiver, Sender};
use nundb::bo::Databases;
use std::collections::HashMap;
use std::sync::atomic::Ordering;
use std::sync::Arc;

fn new_dbs() -> (Arc<Databases>, Receiver<String>, Receiver<String>) {
    let (s1, r1): (Sender<String>, Receiver<String>) = channel(1000);
    let (s2, r2): (Sender<String>, Receiver<String>) = channel(1000);
    let dbs = Arc::new(Databases::new(
        "nun".to_string(),
        "pwd".to_string(),
        "n0".to_string(),
        "n0".to_string(),
        s1,
        s2,
        HashMap::new(),
        1,
        true,
    ));
    (dbs, r1, r2)
}

fn dump(dbs: &Arc<Databases>) -> String {
    let p = dbs.pending_opps.read().unwrap();
    let mut ids: Vec<&u64> = p.keys().collect();
    ids.sort();
    let mut parts = Vec::new();
    for id in ids {
        let m = p.get(id).unwrap();
        let reps = m.replications.lock().unwrap();
        let mut names: Vec<(&String, &bool)> = reps.iter().collect();
        names.sort();
        let r: Vec<String> = names
            .iter()
            .map(|(n, a)| format!("{}:{}", esc(n.as_bytes()), if **a { 1 } else { 0 }))
            .collect();
        parts.push(format!(
            "{}[{}/{}|{}|{}]",
            id,
            m.ack_count.load(Ordering::Relaxed),
            m.replicate_count.load(Ordering::Relaxed),
            esc(m.message.as_bytes()),
            r.join(",")
        ));
    }
    if parts.is_empty() {
        "-".to_string()
    } else {
        parts.join(";")
    }
}

pub fn run(path: &str, _workdir: &str) {
    let mut out = Out::new();
    for case in read_cases(path) {
        out.line(&format!("C {}", case.id));
        let (dbs, _r1, _r2) = new_dbs();
        // header "cmd <role>": acknowledgements arrive as `ack <id> <node>` commands on an authenticated link session of a
        // node in that role (the Acknowledge handler of process_request), not through the accounting function directly
        let via_cmd = case.header.get(0).map(|h| h == "cmd").unwrap_or(false);
        if via_cmd {
            let role = crate::node::role_of(case.header.get(1).map(|s| s.as_str()).unwrap_or("P"));
            dbs.node_state.store(role as usize, Ordering::SeqCst);
        }
        let (mut link, _lrx) = nundb::bo::Client::new_empty_and_receiver();
        link.auth.store(true, Ordering::Relaxed);
        for op in &case.ops {
            let obs = match op[0].as_str() {
                "reg" => {
                    let id: u64 = op[1].parse().unwrap();
                    let msg = unhex_s(&op[2]);
                    let node = unhex_s(&op[3]);
                    let r = dbs.register_pending_opp(id, msg, &node);
                    format!("reg {}", esc(r.as_bytes()))
                }
                "ack" => {
                    let id: u64 = op[1].parse().unwrap();
                    let node = unhex_s(&op[2]);
                    if via_cmd {
                        let _ = nundb::process_request::process_request(&format!("ack {} {}", id, node), &dbs, &mut link);
                        "ack ?".to_string()
                    } else {
                        let r = dbs.acknowledge_pending_opp(id, &node);
                        format!("ack {}", if r { 1 } else { 0 })
                    }
                }
                o => panic!("unknown op {}", o),
            };
            // pending_ops as reported by metrics (count of keys)
            let n = dbs.pending_opps.read().unwrap().len();
            out.line(&format!("{} n={} {}", obs, n, dump(&dbs)));
        }
        out.line("E");
    }
    out.flush();
}
