// Crash-injection drivers (C11, C16).  A case is run by separate processes on one data
// directory:
//   crashb <case> <dir> A|B   start the node from <dir> exactly like src/bin/main.rs does
//                             (key map, oplog-valid flag, discard-if-invalid, load_all_dbs),
//                             then run part A (history, run to completion) or part B (the
//                             operations during which the process is killed by
//                             `strace -e inject=...:signal=KILL:when=N` at its N-th
//                             write/pwrite64/rename/unlink on the data files); every result
//                             is printed and flushed at once
//   crashc <dir>              start the node from <dir> again and print what it sees
use crate::node::{drain_rx, resp_str};
use crate::util::*;
use std::convert::TryInto;
use futures::channel::mpsc::{channel, Receiver, Sender};
use futures::task::noop_waker;
use nundb::bo::*;
use nundb::disk_ops::*;
use nundb::process_request::process_request;
use std::future::Future;
use std::io::Write;
use std::pin::Pin;
use std::sync::atomic::Ordering;
use std::sync::Arc;
use std::task::Context;

type Fut = Pin<Box<dyn Future<Output = ()>>>;

pub struct Started {
    pub dbs: Arc<Databases>,
    pub repl: Option<Fut>,
    pub _sup_rx: Receiver<String>,
    pub was_valid: bool,
}

/// the start-up sequence of src/bin/main.rs::start_db up to load_all_dbs
pub fn startup(dir: &str) -> Result<Started, String> {
    nundb::verif_hooks::set_global_data_dir(Some(dir.to_string()));
    std::fs::create_dir_all(dir).unwrap();
    let r = std::panic::catch_unwind(|| {
        let (replication_sender, replication_receiver): (Sender<String>, Receiver<String>) = channel(100000);
        let (sup_sender, sup_receiver): (Sender<String>, Receiver<String>) = channel(100000);
        let keys_map = load_keys_map_from_disk();
        let is_valid = is_oplog_valid();
        if !is_valid {
            Oplog::clean_op_log_metadata_files();
        }
        let dbs = nundb::db_ops::create_init_dbs(
            "nun".to_string(),
            "pwd".to_string(),
            "n0:3014".to_string(),
            "n0:3014".to_string(),
            sup_sender,
            replication_sender,
            keys_map,
            is_valid,
        );
        Databases::load_all_dbs(&dbs);
        dbs.node_state.store(ClusterRole::Primary as usize, Ordering::SeqCst);
        let d2 = dbs.clone();
        let repl: Fut = Box::pin(nundb::replication_ops::start_replication_thread(replication_receiver, d2));
        (dbs, repl, sup_receiver, is_valid)
    });
    match r {
        Ok((dbs, repl, rx, v)) => Ok(Started { dbs, repl: Some(repl), _sup_rx: rx, was_valid: v }),
        Err(_) => Err("PANIC".to_string()),
    }
}

fn poll(f: &mut Option<Fut>) -> bool {
    if let Some(fut) = f.as_mut() {
        let waker = noop_waker();
        let mut cx = Context::from_waker(&waker);
        match std::panic::catch_unwind(std::panic::AssertUnwindSafe(|| fut.as_mut().poll(&mut cx))) {
            Ok(std::task::Poll::Pending) => true,
            _ => {
                *f = None;
                false
            }
        }
    } else {
        false
    }
}

fn say(s: &str) {
    let out = std::io::stdout();
    let mut l = out.lock();
    l.write_all(s.as_bytes()).unwrap();
    l.write_all(b"\n").unwrap();
    l.flush().unwrap();
}

/// run segment `seg` (0-based; segments are separated by `---` lines) of the case in a process
/// of its own, on the directory the earlier segments left behind
pub fn run_b(path: &str, dir: &str, part: &str) {
    let cases = read_cases(path);
    let case = &cases[0];
    let seg: usize = match part {
        "A" => 0,
        "B" => 1,
        s => s.parse().unwrap(),
    };
    print_load_order(dir);
    let mut st = match startup(dir) {
        Ok(s) => s,
        Err(_) => {
            say("START PANIC");
            return;
        }
    };
    let loaded = {
        let m = st.dbs.map.read().unwrap();
        let mut v: Vec<String> = m.keys().filter(|k| k.as_str() != "$admin").map(|k| esc(k.as_bytes())).collect();
        v.sort();
        v.join(",")
    };
    say(&format!("START valid={} dbs={}", if st.was_valid { 1 } else { 0 }, loaded));
    // the replication thread opens the oplog and the flag file at its first poll
    poll(&mut st.repl);
    let mut sessions: Vec<(Client, Receiver<String>)> = Vec::new();
    let mut cur = 0usize;
    for op in &case.ops {
        if op[0] == "---" {
            cur += 1;
            continue;
        }
        if cur != seg {
            continue;
        }
        let name = op[0].trim_start_matches('+');
        let res = match name {
            "conn" => {
                sessions.push(Client::new_empty_and_receiver());
                "Conn".to_string()
            }
            "cmd" => {
                let sid: usize = op[1].parse().unwrap();
                let line = unhex_s(&op[2]);
                let dbs = st.dbs.clone();
                match std::panic::catch_unwind(std::panic::AssertUnwindSafe(|| process_request(&line, &dbs, &mut sessions[sid].0))) {
                    Ok(r) => resp_str(&r),
                    Err(_) => "PANIC".to_string(),
                }
            }
            "pollrepl" => {
                if poll(&mut st.repl) {
                    "Polled".to_string()
                } else {
                    "REPL-DEAD".to_string()
                }
            }
            "flush" => {
                eprintln!("#flush");
                let dbs = st.dbs.clone();
                match std::panic::catch_unwind(std::panic::AssertUnwindSafe(|| snapshot_all_pendding_dbs(&dbs))) {
                    Ok(_) => "Flushed".to_string(),
                    Err(_) => "PANIC".to_string(),
                }
            }
            "shutdown" => {
                eprintln!("#flush");
                let dbs = st.dbs.clone();
                match std::panic::catch_unwind(std::panic::AssertUnwindSafe(|| nundb::db_ops::safe_shutdown(&dbs))) {
                    Ok(_) => "Shutdown".to_string(),
                    Err(_) => "PANIC".to_string(),
                }
            }
            o => panic!("unknown op {}", o),
        };
        for (_, rx) in sessions.iter_mut() {
            let _ = drain_rx(rx);
        }
        say(&format!("R {}", res));
    }
    say("END");
}

pub fn print_load_order(dir: &str) {
    let lo = crate::disk::load_order(dir);
    eprintln!("#load {}", lo.iter().map(|k| hex(k.as_bytes())).collect::<Vec<String>>().join(" "));
}

/// C11: restart on the directory and print the node dump in the disk driver's format
pub fn run_c11(dir: &str) {
    print_load_order(dir);
    match startup(dir) {
        Err(_) => say("START PANIC"),
        Ok(st) => {
            let (_s, r): (Sender<String>, Receiver<String>) = channel(10);
            let node = crate::node::Node { dbs: st.dbs.clone(), sup_rx: st._sup_rx, repl_rx: r, sessions: Vec::new() };
            say(&format!("START valid={}", if st.was_valid { 1 } else { 0 }));
            say(&format!("D {} {}", crate::node::safe_dump(&node, true), crate::disk::files_digest(dir)));
        }
    }
}

pub fn run_c(dir: &str) {
    print_load_order(dir);
    match startup(dir) {
        Err(_) => say("START PANIC"),
        Ok(st) => {
            say(&format!("START valid={}", if st.was_valid { 1 } else { 0 }));
            let r = std::panic::catch_unwind(std::panic::AssertUnwindSafe(|| {
                let mut out = String::new();
                // key map and database ids as the restarted node knows them
                {
                    let km = st.dbs.keys_map.read().unwrap();
                    let mut v: Vec<String> = km.iter().map(|(k, id)| format!("{}={}", esc(k.as_bytes()), id)).collect();
                    v.sort();
                    out.push_str(&format!("keymap=[{}]", v.join(",")));
                    let idn = st.dbs.id_name_db_map.read().unwrap();
                    let mut v: Vec<String> = idn.iter().map(|(id, n)| format!("{}={}", id, esc(n.as_bytes()))).collect();
                    v.sort();
                    out.push_str(&format!(" dbids=[{}]", v.join(",")));
                }
                // every oplog record (raw), decoded through the restarted node's maps
                let idk = st.dbs.id_keys_map.read().unwrap();
                let idn = st.dbs.id_name_db_map.read().unwrap();
                // the rotated files of the log (oldest first), then the current one
                let mut raw: Vec<u8> = Vec::new();
                let mut rotated: Vec<(u64, std::path::PathBuf)> = Vec::new();
                if let Ok(rd) = std::fs::read_dir(format!("{}/oplog", dir)) {
                    for e in rd.flatten() {
                        let name = e.file_name().into_string().unwrap_or_default();
                        if name.starts_with("oplog-nun-") && name.ends_with(".op") {
                            let id: u64 = name["oplog-nun-".len()..name.len() - 3].parse().unwrap_or(0);
                            rotated.push((id, e.path()));
                        }
                    }
                }
                rotated.sort();
                for (_, p) in &rotated {
                    raw.extend(std::fs::read(p).unwrap_or_default());
                }
                raw.extend(std::fs::read(Oplog::get_op_log_file_name()).unwrap_or_default());
                let mut recs: Vec<String> = Vec::new();
                let mut last: u64 = 0;
                for ch in raw.chunks(25) {
                    if ch.len() < 25 {
                        recs.push(format!("TORN{}", ch.len()));
                        continue;
                    }
                    let time = u64::from_le_bytes(ch[0..8].try_into().unwrap());
                    let key = u64::from_le_bytes(ch[8..16].try_into().unwrap());
                    let db = u64::from_le_bytes(ch[16..24].try_into().unwrap());
                    let op = ch[24];
                    let dbn = idn.get(&db).map(|s| esc(s.as_bytes())).unwrap_or("?".to_string());
                    let kn = if op <= 1 { idk.get(&key).map(|s| esc(s.as_bytes())).unwrap_or("?".to_string()) } else { "-".to_string() };
                    recs.push(format!("{}:{}:{}:{}>{}/{}", time, key, db, op, dbn, kn));
                    last = time;
                }
                let _ = last;
                out.push_str(&format!(" oplog=[{}] last={}", recs.join(","), Oplog::last_op_time()));
                // databases
                let map = st.dbs.map.read().unwrap();
                let mut names: Vec<&String> = map.keys().collect();
                names.sort();
                for name in names {
                    let db = map.get(name).unwrap();
                    out.push_str(&format!(" db={} id={} strat={} keys=[", esc(name.as_bytes()), db.metadata.id, db.metadata.consensus_strategy.to_string()));
                    let m = db.map.read().unwrap();
                    let mut ks: Vec<&String> = m.keys().collect();
                    ks.sort();
                    let items: Vec<String> = ks
                        .iter()
                        .map(|k| {
                            let val = m.get(*k).unwrap();
                            format!("{}={}@{}/{}", escv(k.as_bytes()), escv(val.value.as_bytes()), val.version, crate::node::state_letter(val.state))
                        })
                        .collect();
                    out.push_str(&items.join(","));
                    out.push_str("]");
                }
                out
            }));
            match r {
                Ok(s) => say(&format!("DUMP {}", s)),
                Err(_) => say("DUMP PANIC"),
            }
            say(&format!("FILES {}", crate::disk::files_digest_sel(dir, true)));
        }
    }
}
