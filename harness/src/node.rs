// Single-node driver: N sessions issuing protocol lines sequentially through the real
// process_request; after every step prints the reply, every session's drained inbox,
// the new entries of the replication / supervisor queues and a dump of the node.
use crate::util::*;
use futures::channel::mpsc::{channel, Receiver, Sender};
use nundb::bo::*;
use nundb::process_request::process_request;
use std::collections::HashMap;
use std::sync::atomic::Ordering;
use std::sync::Arc;

pub struct Node {
    pub dbs: Arc<Databases>,
    pub sup_rx: Receiver<String>,
    pub repl_rx: Receiver<String>,
    pub sessions: Vec<(Client, Receiver<String>)>,
}

pub fn role_of(tok: &str) -> ClusterRole {
    match tok {
        "P" => ClusterRole::Primary,
        "S" => ClusterRole::Secoundary,
        _ => ClusterRole::StartingUp,
    }
}

pub fn new_node(addr: &str, pid: u128, role: ClusterRole, keys_map: HashMap<String, u64>, oplog_valid: bool) -> Node {
    let (s1, r1): (Sender<String>, Receiver<String>) = channel(100000);
    let (s2, r2): (Sender<String>, Receiver<String>) = channel(100000);
    let dbs = Arc::new(Databases::new(
        "nun".to_string(),
        "pwd".to_string(),
        addr.to_string(),
        addr.to_string(),
        s1,
        s2,
        keys_map,
        pid,
        oplog_valid,
    ));
    dbs.node_state.store(role as usize, Ordering::SeqCst);
    Node { dbs, sup_rx: r1, repl_rx: r2, sessions: Vec::new() }
}

pub fn resp_str(r: &Response) -> String {
    match r {
        Response::Value { key, value, version } => {
            format!("Value {} {} {}", esc(key.as_bytes()), esc(value.as_bytes()), version)
        }
        Response::Ok {} => "Ok".to_string(),
        Response::Set { key, value } => format!("Set {} {}", esc(key.as_bytes()), esc(value.as_bytes())),
        Response::Error { msg } => format!("Error {}", esc(msg.as_bytes())),
        Response::VersionError { key, old_version, version, .. } => {
            format!("VersionError {} {} {}", esc(key.as_bytes()), old_version, version)
        }
    }
}

pub fn drain_rx(rx: &mut Receiver<String>) -> Vec<String> {
    let mut v = Vec::new();
    loop {
        match rx.try_next() {
            Ok(Some(m)) => v.push(m),
            _ => break,
        }
    }
    v
}

pub fn state_letter(s: ValueStatus) -> &'static str {
    match s {
        ValueStatus::Ok => "O",
        ValueStatus::Deleted => "D",
        ValueStatus::Updated => "U",
        ValueStatus::New => "N",
    }
}

impl Node {
    pub fn connect(&mut self) -> usize {
        self.sessions.push(Client::new_empty_and_receiver());
        self.sessions.len() - 1
    }

    pub fn inboxes(&mut self) -> String {
        let mut parts = Vec::new();
        for (i, (_, rx)) in self.sessions.iter_mut().enumerate() {
            let msgs = drain_rx(rx);
            if !msgs.is_empty() {
                let m: Vec<String> = msgs.iter().map(|x| esc(x.as_bytes())).collect();
                parts.push(format!("{}:[{}]", i, m.join("|")));
            }
        }
        if parts.is_empty() {
            "-".to_string()
        } else {
            parts.join(";")
        }
    }

    pub fn inboxes_record(&mut self, notices: &mut HashMap<usize, Vec<String>>) -> String {
        let mut parts = Vec::new();
        for (i, (_, rx)) in self.sessions.iter_mut().enumerate() {
            let msgs = drain_rx(rx);
            if !msgs.is_empty() {
                for m in &msgs {
                    if m.starts_with("resolve ") {
                        notices.entry(i).or_insert_with(Vec::new).push(m.clone());
                    }
                }
                let m: Vec<String> = msgs.iter().map(|x| esc(x.as_bytes())).collect();
                parts.push(format!("{}:[{}]", i, m.join("|")));
            }
        }
        if parts.is_empty() {
            "-".to_string()
        } else {
            parts.join(";")
        }
    }

    pub fn queues(&mut self) -> String {
        let r: Vec<String> = drain_rx(&mut self.repl_rx).iter().map(|x| esc(x.as_bytes())).collect();
        let s: Vec<String> = drain_rx(&mut self.sup_rx).iter().map(|x| esc(x.as_bytes())).collect();
        format!("repl=[{}] sup=[{}]", r.join("|"), s.join("|"))
    }

    pub fn dump(&self, with_addr: bool) -> String {
        let role = match self.dbs.get_role() {
            ClusterRole::Primary => "P",
            ClusterRole::Secoundary => "S",
            ClusterRole::StartingUp => "U",
        };
        let mut out = format!("role={}", role);
        {
            let snap = self.dbs.to_snapshot.read().unwrap();
            let v: Vec<String> = snap.iter().map(|(n, r)| format!("{}:{}", esc(n.as_bytes()), r)).collect();
            out.push_str(&format!(" snap=[{}]", v.join(",")));
        }
        for (i, (c, _)) in self.sessions.iter().enumerate() {
            let member = c.cluster_member.lock().unwrap();
            let m = match &*member {
                Some(m) => format!("{}/{}", esc(m.name.as_bytes()), m.role),
                None => "-".to_string(),
            };
            out.push_str(&format!(
                " s{}={}{}/{}/{}/{}",
                i,
                "",
                if c.is_admin_auth() { "A" } else { "a" },
                c.selected_db_name().map(|x| esc(x.as_bytes())).unwrap_or("-".to_string()),
                c.selected_db_user_name().map(|x| esc(x.as_bytes())).unwrap_or("-".to_string()),
                m
            ));
        }
        let map = self.dbs.map.read().unwrap();
        let mut names: Vec<&String> = map.keys().collect();
        names.sort();
        for name in names {
            let db = map.get(name).unwrap();
            let strat = db.metadata.consensus_strategy.to_string();
            out.push_str(&format!(
                " db={} id={} strat={} conn={} keys=[",
                esc(name.as_bytes()),
                db.metadata.id,
                strat,
                db.connections_count()
            ));
            let m = db.map.read().unwrap();
            let mut ks: Vec<&String> = m.keys().collect();
            ks.sort();
            let items: Vec<String> = ks
                .iter()
                .map(|k| {
                    let v = m.get(*k).unwrap();
                    let base = format!(
                        "{}={}@{}/{}/{}",
                        escv(k.as_bytes()),
                        escv(v.value.as_bytes()),
                        v.version,
                        state_letter(v.state),
                        v.opp_id
                    );
                    if with_addr {
                        format!("{}/{}/{}", base, v.value_disk_addr, v.key_disk_addr)
                    } else {
                        base
                    }
                })
                .collect();
            out.push_str(&items.join(","));
            out.push_str("] watch=[");
            let w = db.watchers.map.read().unwrap();
            let mut wk: Vec<&String> = w.keys().collect();
            wk.sort();
            let witems: Vec<String> = wk
                .iter()
                .map(|k| {
                    let senders = w.get(*k).unwrap();
                    let ids: Vec<String> = senders
                        .iter()
                        .map(|s| {
                            for (i, (c, _)) in self.sessions.iter().enumerate() {
                                if c.sender.same_receiver(s) {
                                    return format!("{}", i);
                                }
                            }
                            "?".to_string()
                        })
                        .collect();
                    format!("{}:{}", esc(k.as_bytes()), ids.join("."))
                })
                .collect();
            out.push_str(&witems.join(","));
            out.push_str("]");
        }
        out
    }

    pub fn cmd(&mut self, sid: usize, line: &str) -> String {
        let dbs = self.dbs.clone();
        let client = &mut self.sessions[sid].0;
        let r = std::panic::catch_unwind(std::panic::AssertUnwindSafe(|| process_request(line, &dbs, client)));
        match r {
            Ok(r) => resp_str(&r),
            Err(_) => "PANIC".to_string(),
        }
    }

    pub fn disconnect(&mut self, sid: usize) -> String {
        let dbs = self.dbs.clone();
        let client = &mut self.sessions[sid].0;
        let r = std::panic::catch_unwind(std::panic::AssertUnwindSafe(|| {
            process_request("unwatch-all", &dbs, client);
            client.left(&dbs);
        }));
        // the transport drops the client's receiver when the connection ends: later sends to it fail
        let (_s, dead_rx): (Sender<String>, Receiver<String>) = channel(1);
        let _old = std::mem::replace(&mut self.sessions[sid].1, dead_rx);
        match r {
            Ok(_) => "Left".to_string(),
            Err(_) => "PANIC".to_string(),
        }
    }
}

/// a poisoned lock makes the dump itself panic: report that instead of dying
pub fn safe_dump(node: &Node, with_addr: bool) -> String {
    match std::panic::catch_unwind(std::panic::AssertUnwindSafe(|| node.dump(with_addr))) {
        Ok(s) => s,
        Err(_) => "POISONED".to_string(),
    }
}

pub fn run(path: &str, workdir: &str) {
    let mut out = Out::new();
    for case in read_cases(path) {
        out.line(&format!("C {}", case.id));
        let dir = fresh_dir(workdir, "node");
        nundb::verif_hooks::set_data_dir(Some(dir.clone()));
        let role = role_of(case.header.get(0).map(|s| s.as_str()).unwrap_or("P"));
        let mut node = new_node("n0:3014", 1000, role, HashMap::new(), true);
        let mut notices: HashMap<usize, Vec<String>> = HashMap::new();
        for op in &case.ops {
            let res = match op[0].as_str() {
                "conn" => format!("Conn {}", node.connect()),
                "cmd" => {
                    let sid: usize = op[1].parse().unwrap();
                    let line = unhex_s(&op[2]);
                    node.cmd(sid, &line)
                }
                "disc" => {
                    let sid: usize = op[1].parse().unwrap();
                    node.disconnect(sid)
                }
                "rsv" => {
                    // the arbiter answers the idx-th conflict notice it has received
                    let sid: usize = op[1].parse().unwrap();
                    let idx: usize = op[2].parse().unwrap();
                    let value = unhex_s(&op[3]);
                    let notes = notices.get(&sid).cloned().unwrap_or_default();
                    if notes.is_empty() {
                        "NoNotice".to_string()
                    } else {
                        let n = &notes[idx % notes.len()];
                        let t: Vec<&str> = n.splitn(7, ' ').collect();
                        if t.len() < 5 {
                            "NoNotice".to_string()
                        } else {
                            let line = format!("resolve {} {} {} {} {}", t[1], t[2], t[4], t[3], value);
                            node.cmd(sid, &line)
                        }
                    }
                }
                "http" => {
                    let body = unhex_s(&op[1]);
                    let dbs = node.dbs.clone();
                    let (mut client, mut receiver) = Client::new_empty_and_receiver();
                    let r = std::panic::catch_unwind(std::panic::AssertUnwindSafe(|| {
                        let commands: Vec<&str> = body.split(';').collect();
                        nundb::network::http_ops::verif_process_commands(&commands, &mut receiver, &dbs, &mut client)
                    }));
                    // keep the session visible in dumps like the model does
                    node.sessions.push((client, receiver));
                    match r {
                        Ok(v) => format!("Http {}", esc(v.join(";").as_bytes())),
                        Err(_) => "PANIC".to_string(),
                    }
                }
                "flush" => {
                    let dbs = node.dbs.clone();
                    match std::panic::catch_unwind(std::panic::AssertUnwindSafe(|| {
                        nundb::disk_ops::snapshot_all_pendding_dbs(&dbs)
                    })) {
                        Ok(_) => "Flushed".to_string(),
                        Err(_) => "PANIC".to_string(),
                    }
                }
                o => panic!("unknown op {}", o),
            };
            let inb = node.inboxes_record(&mut notices);
            let q = node.queues();
            out.line(&format!("{} | {} | {}", res, inb, q));
            out.line(&format!("D {}", safe_dump(&node, false)));
        }
        out.line("E");
    }
    out.flush();
}
