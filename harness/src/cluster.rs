// Cluster driver: N real Databases in one process.  The real replication-thread and
// supervisor futures of every node are polled by hand (deterministic: a poll handles
// everything queued and returns Pending); replication links are the real channels, the
// TCP pipe between two nodes is replaced by explicit deliver/reply steps (hook
// verif_hooks::open_link), and the three handshake lines of auth_on_replication are
// emulated here.
use crate::node::{drain_rx, resp_str, role_of};
use crate::util::*;
use futures::channel::mpsc::{channel, Receiver, Sender};
use futures::task::noop_waker;
use nundb::bo::*;
use nundb::process_request::process_request;
use std::collections::HashMap;
use std::future::Future;
use std::pin::Pin;
use std::sync::atomic::Ordering;
use std::sync::Arc;
use std::task::Context;

type Fut = Pin<Box<dyn Future<Output = ()>>>;

struct CNode {
    name: String,
    dir: String,
    dbs: Arc<Databases>,
    repl: Option<Fut>,
    sup: Option<Fut>,
    sessions: Vec<(Client, Receiver<String>)>,
    dead: bool,
}

struct Link {
    id: u64,
    from: String,
    to: String,
    handshake: Vec<String>,
    rx: Receiver<String>,
    pending: std::collections::VecDeque<String>, // lines taken off rx, not delivered yet
    server: (Client, Receiver<String>), // at `to`
    reader: Client,                     // at `from`
    replies: Vec<String>,               // lines travelling to -> from
    open: bool,
    sent: u64,
    back: u64,
    is_primary: bool, // opened by add_secondary_to_primary (its thread removes the member when it ends)
}

/// A call into the node that may block in an election wait loop runs on a thread of its own;
/// the election hook parks it and hands control back to the scheduler (this thread).
struct Co {
    st: std::sync::Mutex<u8>, // 0 running, 1 parked at a wait, 2 done
    cv: std::sync::Condvar,
}

thread_local! {
    static CUR_CO: std::cell::RefCell<Option<Arc<Co>>> = std::cell::RefCell::new(None);
}

fn election_hook(_site: &'static str) {
    let co = CUR_CO.with(|c| c.borrow().clone());
    if let Some(co) = co {
        let mut s = co.st.lock().unwrap();
        *s = 1;
        co.cv.notify_all();
        while *s != 0 {
            s = co.cv.wait(s).unwrap();
        }
    }
}

type CoOut = (Client, Receiver<String>, Option<Response>);

fn run_co(dir: String, f: Box<dyn FnOnce() -> CoOut + Send>) -> (Arc<Co>, std::thread::JoinHandle<CoOut>) {
    let co = Arc::new(Co { st: std::sync::Mutex::new(0), cv: std::sync::Condvar::new() });
    let co2 = co.clone();
    let h = std::thread::spawn(move || {
        CUR_CO.with(|c| *c.borrow_mut() = Some(co2.clone()));
        nundb::verif_hooks::set_data_dir(Some(dir));
        let r = f();
        let mut s = co2.st.lock().unwrap();
        *s = 2;
        co2.cv.notify_all();
        r
    });
    (co, h)
}

/// wait until the call finished (true) or parked (false)
fn wait_co(co: &Arc<Co>) -> bool {
    let mut s = co.st.lock().unwrap();
    while *s == 0 {
        s = co.cv.wait(s).unwrap();
    }
    *s == 2
}

fn resume_co(co: &Arc<Co>) {
    let mut s = co.st.lock().unwrap();
    *s = 0;
    co.cv.notify_all();
}

enum FrameKind {
    Deliver(usize, String),
    Cmd(usize, usize),
    Fake, // the fake client of a disconnect ("leave"): nobody waits for its answer
}

struct Frame {
    co: Arc<Co>,
    handle: Option<std::thread::JoinHandle<CoOut>>,
    kind: FrameKind,
}

struct Cluster {
    nodes: Vec<CNode>,
    links: Vec<Link>,
    crossings: u64,
    frames: Vec<Frame>,
    busy_links: Vec<usize>,
    busy_sessions: Vec<(usize, usize)>,
    last_cmd: Vec<String>,
    links_base: u64, // link threads spawned before this case began
    dead_nodes: Vec<usize>,
}

fn poll(f: &mut Option<Fut>) -> bool {
    // returns false when the future panicked or finished (thread dead)
    if let Some(fut) = f.as_mut() {
        let waker = noop_waker();
        let mut cx = Context::from_waker(&waker);
        let r = std::panic::catch_unwind(std::panic::AssertUnwindSafe(|| fut.as_mut().poll(&mut cx)));
        match r {
            Ok(std::task::Poll::Pending) => true,
            _ => {
                *f = None;
                false
            }
        }
    } else {
        false
    }
}

impl Cluster {
    fn idx(&self, name: &str) -> usize {
        self.nodes.iter().position(|n| n.name == name).expect("node name")
    }

    fn enter(&self, i: usize) {
        nundb::verif_hooks::set_data_dir(Some(self.nodes[i].dir.clone()));
    }

    fn expected_links(&self) -> usize {
        // every member entry that carries a sender was created together with a link thread
        let mut n = 0;
        for node in &self.nodes {
            let cs = node.dbs.cluster_state.lock().unwrap();
            let ms = cs.members.lock().unwrap();
            n += ms.values().filter(|m| m.sender.is_some()).count();
        }
        n
    }

    fn collect_links(&mut self) {
        // link threads are spawned by the supervisor: wait until each has registered
        let deadline = std::time::Instant::now() + std::time::Duration::from_millis(3000);
        loop {
            let new = nundb::verif_hooks::take_links();
            for l in new {
                let fi = self.idx(&l.from);
                self.enter(fi);
                let mut hs = vec![format!("auth {} {}", "nun", "pwd")];
                if l.is_primary {
                    hs.push(format!("set-primary {}", l.from));
                } else {
                    hs.push(format!("set-secoundary {}", l.from));
                    hs.push(format!("replicate-since {} {}", l.from, nundb::disk_ops::Oplog::last_op_time()));
                }
                let (reader, _rrx) = Client::new_empty_and_receiver();
                reader.auth.store(true, Ordering::Relaxed);
                {
                    let mut m = reader.cluster_member.lock().unwrap();
                    *m = Some(ClusterMember { name: l.from.clone(), role: ClusterRole::Secoundary, sender: None });
                }
                self.links.push(Link {
                    id: l.id,
                    from: l.from,
                    to: l.to,
                    handshake: hs,
                    rx: l.receiver,
                    pending: std::collections::VecDeque::new(),
                    server: Client::new_empty_and_receiver(),
                    reader,
                    replies: Vec::new(),
                    open: true,
                    sent: 0,
                    back: 0,
                    is_primary: l.is_primary,
                });
            }
            // every link thread the supervisors spawned has registered (spawns are counted synchronously)
            if self.links.len() as u64 + self.links_base >= nundb::verif_hooks::links_spawned() || std::time::Instant::now() > deadline {
                break;
            }
            std::thread::sleep(std::time::Duration::from_millis(1));
        }
    }

    fn link_pos(&self, from: &str, to: &str) -> Option<usize> {
        self.links.iter().position(|l| l.open && l.from == from && l.to == to)
    }

    fn pending_line(&mut self, li: usize) -> Option<String> {
        let l = &mut self.links[li];
        if !l.handshake.is_empty() {
            return Some(l.handshake.remove(0));
        }
        while let Ok(Some(m)) = l.rx.try_next() {
            l.pending.push_back(m);
        }
        l.pending.pop_front()
    }

    /// one line from -> to, processed by the real handler with the link's server-side client
    fn deliver(&mut self, li: usize) -> Option<String> {
        if self.busy_links.contains(&li) {
            // the connection's handler thread is still inside an election
            return None;
        }
        let line = self.pending_line(li)?;
        let ti = self.idx(&self.links[li].to.clone());
        let dbs = self.nodes[ti].dbs.clone();
        let dir = self.nodes[ti].dir.clone();
        let (mut client, rx) = std::mem::replace(&mut self.links[li].server, Client::new_empty_and_receiver());
        let line2 = line.clone();
        let (co, h) = run_co(
            dir,
            Box::new(move || {
                let r = std::panic::catch_unwind(std::panic::AssertUnwindSafe(|| process_request(&line2, &dbs, &mut client)));
                (client, rx, r.ok())
            }),
        );
        self.crossings += 1;
        self.links[li].sent += 1;
        if std::env::var("VERIF_TRACE").is_ok() {
            eprintln!("TRACE-START {}>{} {}", self.links[li].from, self.links[li].to, line);
        }
        if wait_co(&co) {
            let out = h.join().unwrap();
            Some(self.finish_deliver(li, &line, out))
        } else {
            self.busy_links.push(li);
            self.frames.push(Frame { co, handle: Some(h), kind: FrameKind::Deliver(li, line.clone()) });
            Some(format!("{} => Suspended", esc(line.as_bytes())))
        }
    }

    fn finish_deliver(&mut self, li: usize, line: &str, out: CoOut) -> String {
        let (client, rx, r) = out;
        let l = &mut self.links[li];
        l.server = (client, rx);
        let res = match r {
            Some(Response::Error { msg }) => {
                let _ = l.server.0.sender.try_send(format!("error {} \n", msg));
                format!("Error {}", esc(msg.as_bytes()))
            }
            Some(r) => {
                let _ = l.server.0.sender.try_send("ok \n".to_string());
                resp_str(&r)
            }
            None => "PANIC".to_string(),
        };
        for m in drain_rx(&mut l.server.1) {
            for part in m.split('\n') {
                let t = part.trim();
                if !t.is_empty() {
                    l.replies.push(t.to_string());
                }
            }
        }
        if std::env::var("VERIF_TRACE").is_ok() {
            eprintln!("TRACE {}>{} {} => {}", self.links[li].from, self.links[li].to, line, res);
        }
        format!("{} => {}", esc(line.as_bytes()), res)
    }

    /// a client command; "Suspended" when it blocks in an election
    fn client_cmd(&mut self, ni: usize, sid: usize, line: &str) -> String {
        if self.busy_sessions.contains(&(ni, sid)) {
            return "Busy".to_string();
        }
        let dbs = self.nodes[ni].dbs.clone();
        let dir = self.nodes[ni].dir.clone();
        let (mut client, rx) = std::mem::replace(&mut self.nodes[ni].sessions[sid], Client::new_empty_and_receiver());
        let line2 = line.to_string();
        let (co, h) = run_co(
            dir,
            Box::new(move || {
                let r = std::panic::catch_unwind(std::panic::AssertUnwindSafe(|| process_request(&line2, &dbs, &mut client)));
                (client, rx, r.ok())
            }),
        );
        if wait_co(&co) {
            let (client, rx, r) = h.join().unwrap();
            self.nodes[ni].sessions[sid] = (client, rx);
            match r {
                Some(r) => resp_str(&r),
                None => "PANIC".to_string(),
            }
        } else {
            self.busy_sessions.push((ni, sid));
            self.frames.push(Frame { co, handle: Some(h), kind: FrameKind::Cmd(ni, sid) });
            "Suspended".to_string()
        }
    }

    /// every suspended election takes one step of its wait loop (in creation order)
    fn tick_frames(&mut self) -> usize {
        let n = self.frames.len();
        if std::env::var("VERIF_TRACE").is_ok() {
            eprintln!("TRACE-TICK {}", n);
        }
        let mut done_idx = Vec::new();
        for k in 0..n {
            let co = self.frames[k].co.clone();
            resume_co(&co);
            if wait_co(&co) {
                let h = self.frames[k].handle.take().unwrap();
                let out = h.join().unwrap();
                match &self.frames[k].kind {
                    FrameKind::Deliver(li, line) => {
                        let (li, line) = (*li, line.clone());
                        self.busy_links.retain(|x| *x != li);
                        let _ = self.finish_deliver(li, &line, out);
                    }
                    FrameKind::Fake => {}
                    FrameKind::Cmd(ni, sid) => {
                        let (ni, sid) = (*ni, *sid);
                        self.busy_sessions.retain(|x| *x != (ni, sid));
                        let (client, rx, r) = out;
                        self.nodes[ni].sessions[sid] = (client, rx);
                        self.last_cmd.push(format!(
                            "{}/{}:{}",
                            self.nodes[ni].name,
                            sid,
                            match r {
                                Some(r) => resp_str(&r),
                                None => "PANIC".to_string(),
                            }
                        ));
                    }
                }
                done_idx.push(k);
            }
        }
        let mut k = 0;
        self.frames.retain(|_| {
            let keep = !done_idx.contains(&k);
            k += 1;
            keep
        });
        n
    }

    /// one reply line to -> from, processed by the reader side of the link
    fn reply(&mut self, li: usize) -> Option<String> {
        if self.links[li].replies.is_empty() {
            return None;
        }
        let line = self.links[li].replies.remove(0);
        let fi = self.idx(&self.links[li].from.clone());
        self.enter(fi);
        let dbs = self.nodes[fi].dbs.clone();
        let l = &mut self.links[li];
        if line != "ok" {
            self.crossings += 1;
            l.back += 1;
            if std::env::var("VERIF_TRACE").is_ok() {
                eprintln!("TRACE reply {}>{} {}", l.to, l.from, line);
            }
            let _ = std::panic::catch_unwind(std::panic::AssertUnwindSafe(|| process_request(&line, &dbs, &mut l.reader)));
        }
        Some(esc(line.as_bytes()))
    }

    fn poll_sup(&mut self, i: usize) {
        self.enter(i);
        if !poll(&mut self.nodes[i].sup) {
            self.nodes[i].dead = true;
        }
        self.collect_links();
    }

    fn poll_repl(&mut self, i: usize) {
        self.enter(i);
        if !poll(&mut self.nodes[i].repl) {
            self.nodes[i].dead = true;
        }
    }

    /// run to quiescence with a fixed policy (the model implements the same one)
    fn settle(&mut self, budget: usize) -> (usize, bool) {
        let mut rounds = 0;
        loop {
            rounds += 1;
            if rounds > budget {
                return (rounds, false);
            }
            for i in 0..self.nodes.len() {
                if !self.dead_nodes.contains(&i) {
                    self.poll_sup(i);
                }
            }
            for i in 0..self.nodes.len() {
                if !self.dead_nodes.contains(&i) {
                    self.poll_repl(i);
                }
            }
            let mut moved = false;
            let mut order: Vec<usize> = (0..self.links.len()).filter(|&i| self.links[i].open).collect();
            order.sort_by(|&a, &b| (&self.links[a].from, &self.links[a].to).cmp(&(&self.links[b].from, &self.links[b].to)));
            for li in order {
                while self.deliver(li).is_some() {
                    moved = true;
                }
                while self.reply(li).is_some() {
                    moved = true;
                }
            }
            if !moved {
                if self.frames.is_empty() {
                    return (rounds, true);
                }
                // nothing can be delivered: the election wait loops advance (their timers tick)
                self.tick_frames();
            }
        }
    }

    fn close(&mut self, li: usize) {
        // server side at `to` sees EOF (tcp_ops::handle_client)
        let ti = self.idx(&self.links[li].to.clone());
        self.enter(ti);
        let dbs = self.nodes[ti].dbs.clone();
        let l = &mut self.links[li];
        let _ = std::panic::catch_unwind(std::panic::AssertUnwindSafe(|| {
            process_request("unwatch-all", &dbs, &mut l.server.0);
            let member = { l.server.0.cluster_member.lock().unwrap().clone() };
            if let Some(m) = member {
                let (mut fake, _r) = Client::new_empty_and_receiver();
                fake.auth.store(true, Ordering::Relaxed);
                let msg = match m.role {
                    ClusterRole::Primary => format!("leave {}", m.name),
                    _ => format!("replicate-leave {}", m.name),
                };
                process_request(&msg, &dbs, &mut fake);
            }
            l.server.0.left(&dbs);
        }));
        l.open = false;
        nundb::verif_hooks::close_link(l.id);
        std::thread::sleep(std::time::Duration::from_millis(5));
    }

    /// the node dies: end-of-file on every connection it had opened, and the link threads of the
    /// others towards it end
    fn kill(&mut self, xi: usize) {
        let name = self.nodes[xi].name.clone();
        for li in 0..self.links.len() {
            if self.links[li].open && self.links[li].from == name {
                self.eof(li);
            }
        }
        for li in 0..self.links.len() {
            if self.links[li].open && self.links[li].to == name {
                self.links[li].open = false;
                nundb::verif_hooks::close_link(self.links[li].id);
                if self.links[li].is_primary {
                    // add_secondary_to_primary's thread removes the member when start_replication returns
                    let fi = self.idx(&self.links[li].from.clone());
                    let dbs = self.nodes[fi].dbs.clone();
                    let deadline = std::time::Instant::now() + std::time::Duration::from_millis(2000);
                    while dbs.has_cluster_memeber(&name) && std::time::Instant::now() < deadline {
                        std::thread::sleep(std::time::Duration::from_millis(1));
                    }
                }
            }
        }
        self.dead_nodes.push(xi);
    }

    /// end-of-file on the connection of link li at its target: the transport's own code
    /// (network/tcp_ops.rs::connection_closed: unwatch-all, leave / replicate-leave through a fake client --
    /// which may block in an election --, Client::left) runs on a thread of its own like every call that may block
    fn eof(&mut self, li: usize) {
        let ti = self.idx(&self.links[li].to.clone());
        self.enter(ti);
        let dbs = self.nodes[ti].dbs.clone();
        let dir = self.nodes[ti].dir.clone();
        let (mut sc, srx) = std::mem::replace(&mut self.links[li].server, Client::new_empty_and_receiver());
        let (co, h) = run_co(
            dir,
            Box::new(move || {
                let r = std::panic::catch_unwind(std::panic::AssertUnwindSafe(|| nundb::network::tcp_ops::verif_connection_closed(&mut sc, &dbs)));
                (sc, srx, r.ok().map(|_| Response::Ok {}))
            }),
        );
        if wait_co(&co) {
            let _ = h.join();
        } else {
            self.frames.push(Frame { co, handle: Some(h), kind: FrameKind::Fake });
        }
        let l = &mut self.links[li];
        l.open = false;
        nundb::verif_hooks::close_link(l.id);
    }

    fn refill(&mut self) {
        for l in self.links.iter_mut() {
            while let Ok(Some(m)) = l.rx.try_next() {
                l.pending.push_back(m);
            }
        }
    }

    fn dump(&self) -> String {
        let mut out = String::new();
        for (ni, n) in self.nodes.iter().enumerate() {
            if self.dead_nodes.contains(&ni) {
                out.push_str(&format!(" node={} GONE", n.name));
                continue;
            }
            nundb::verif_hooks::set_data_dir(Some(n.dir.clone()));
            let role = match n.dbs.get_role() {
                ClusterRole::Primary => "P",
                ClusterRole::Secoundary => "S",
                ClusterRole::StartingUp => "U",
            };
            out.push_str(&format!(" node={} role={}{}", n.name, role, if n.dead { " DEAD" } else { "" }));
            {
                let cs = n.dbs.cluster_state.lock().unwrap();
                let ms = cs.members.lock().unwrap();
                let mut v: Vec<String> = ms
                    .values()
                    .map(|m| format!("{}:{}:{}", m.name, m.role, if m.sender.is_some() { "c" } else { "-" }))
                    .collect();
                v.sort();
                out.push_str(&format!(" members=[{}]", v.join(",")));
            }
            {
                let p = n.dbs.pending_opps.read().unwrap();
                out.push_str(&format!(" pending={}", p.len()));
            }
            {
                let snap = n.dbs.to_snapshot.read().unwrap();
                // sorted: the full synchronisation names the databases in HashMap order
                let mut v: Vec<String> = snap.iter().map(|(n, r)| format!("{}:{}", esc(n.as_bytes()), r)).collect();
                v.sort();
                out.push_str(&format!(" snap=[{}]", v.join(",")));
            }
            let map = n.dbs.map.read().unwrap();
            let mut names: Vec<&String> = map.keys().collect();
            names.sort();
            for name in names {
                let db = map.get(name).unwrap();
                out.push_str(&format!(" db={} strat={} keys=[", esc(name.as_bytes()), db.metadata.consensus_strategy.to_string()));
                let m = db.map.read().unwrap();
                let mut ks: Vec<&String> = m.keys().collect();
                ks.sort();
                let items: Vec<String> = ks
                    .iter()
                    .map(|k| {
                        let v = m.get(*k).unwrap();
                        format!(
                            "{}={}@{}/{}",
                            esc(k.as_bytes()),
                            esc(v.value.as_bytes()),
                            v.version,
                            if v.state == ValueStatus::Deleted { "D" } else { "L" }
                        )
                    })
                    .collect();
                out.push_str(&items.join(","));
                out.push_str("]");
            }
        }
        let mut ls: Vec<String> = self
            .links
            .iter()
            .filter(|l| l.open)
            .map(|l| format!("{}>{}:{}/{}", l.from, l.to, l.sent, l.back))
            .collect();
        ls.sort();
        out.push_str(&format!(" links=[{}]", ls.join(",")));
        let mut qs: Vec<String> = self
            .links
            .iter()
            .filter(|l| l.open && (!l.handshake.is_empty() || !l.pending.is_empty() || !l.replies.is_empty()))
            .map(|l| {
                let mut lines: Vec<String> = l.handshake.iter().map(|x| esc(x.trim().as_bytes())).collect();
                lines.extend(l.pending.iter().map(|x| esc(x.trim().as_bytes())));
                let back: Vec<String> = l.replies.iter().map(|x| esc(x.trim().as_bytes())).collect();
                format!("{}>{}:{}<{}", l.from, l.to, lines.join("|"), back.join("|"))
            })
            .collect();
        qs.sort();
        if !qs.is_empty() {
            out.push_str(&format!(" queues=[{}]", qs.join(",")));
        }
        if !self.frames.is_empty() {
            out.push_str(&format!(" elections={}", self.frames.len()));
        }
        out
    }
}

fn new_cnode(name: &str, pid: u128, role: ClusterRole, dir: String) -> CNode {
    nundb::verif_hooks::set_data_dir(Some(dir.clone()));
    let (s1, r1): (Sender<String>, Receiver<String>) = channel(100000);
    let (s2, r2): (Sender<String>, Receiver<String>) = channel(100000);
    let dbs = Arc::new(Databases::new(
        "nun".to_string(),
        "pwd".to_string(),
        name.to_string(),
        name.to_string(),
        s1,
        s2,
        HashMap::new(),
        pid,
        true,
    ));
    dbs.node_state.store(role as usize, Ordering::SeqCst);
    let d1 = dbs.clone();
    let d2 = dbs.clone();
    let addr = Arc::new(name.to_string());
    let repl: Fut = Box::pin(nundb::replication_ops::start_replication_thread(r2, d1));
    let sup: Fut = Box::pin(nundb::replication_ops::start_replication_supervisor(r1, d2, addr));
    CNode { name: name.to_string(), dir, dbs, repl: Some(repl), sup: Some(sup), sessions: Vec::new(), dead: false }
}

pub fn run(path: &str, workdir: &str) {
    let mut out = Out::new();
    nundb::verif_hooks::set_link_mode(true);
    nundb::verif_hooks::set_election_hook(Some(Box::new(|site: &'static str| election_hook(site))));
    for case in read_cases(path) {
        out.line(&format!("C {}", case.id));
        let _ = nundb::verif_hooks::take_links();
        let mut cl = Cluster { nodes: Vec::new(), links: Vec::new(), crossings: 0, frames: Vec::new(), busy_links: Vec::new(), busy_sessions: Vec::new(), last_cmd: Vec::new(), links_base: nundb::verif_hooks::links_spawned(), dead_nodes: Vec::new() };
        let mut notices: HashMap<(usize, usize), Vec<String>> = HashMap::new();
        // header: name:role:pid ...
        for (i, h) in case.header.iter().filter(|h| h.contains('/')).enumerate() {
            let p: Vec<&str> = h.split('/').collect();
            let dir = fresh_dir(workdir, &format!("cl{}", i));
            cl.nodes.push(new_cnode(p[0], p[2].parse().unwrap(), role_of(p[1]), dir));
        }
        for op in &case.ops {
            let before = cl.crossings;
            let res = match op[0].as_str() {
                "conn" => {
                    let i = cl.idx(&op[1]);
                    cl.nodes[i].sessions.push(Client::new_empty_and_receiver());
                    format!("Conn {}", cl.nodes[i].sessions.len() - 1)
                }
                "cmd" => {
                    let i = cl.idx(&op[1]);
                    let sid: usize = op[2].parse().unwrap();
                    let line = unhex_s(&op[3]);
                    cl.enter(i);
                    cl.client_cmd(i, sid, &line)
                }
                "tick" => format!("Ticked {}", cl.tick_frames()),
                "kill" => {
                    // only at a moment when no connection handler is blocked in an election (a blocked handler would
                    // notice the end-of-file only when it returns)
                    if !cl.frames.is_empty() {
                        "NotQuiescent".to_string()
                    } else {
                        let i = cl.idx(&op[1]);
                        cl.kill(i);
                        "Killed".to_string()
                    }
                }
                "rsv" => {
                    // the arbiter (a client of node op[1]) answers the idx-th notice it received
                    let i = cl.idx(&op[1]);
                    let sid: usize = op[2].parse().unwrap();
                    let idx: usize = op[3].parse().unwrap();
                    let value = unhex_s(&op[4]);
                    let notes = notices.get(&(i, sid)).cloned().unwrap_or_default();
                    if notes.is_empty() {
                        "NoNotice".to_string()
                    } else {
                        let nt = &notes[idx % notes.len()];
                        let t: Vec<&str> = nt.splitn(7, ' ').collect();
                        if t.len() < 5 {
                            "NoNotice".to_string()
                        } else {
                            let line = format!("resolve {} {} {} {} {}", t[1], t[2], t[4], t[3], value);
                            cl.enter(i);
                            let dbs = cl.nodes[i].dbs.clone();
                            let client = &mut cl.nodes[i].sessions[sid].0;
                            match std::panic::catch_unwind(std::panic::AssertUnwindSafe(|| process_request(&line, &dbs, client))) {
                                Ok(r) => resp_str(&r),
                                Err(_) => "PANIC".to_string(),
                            }
                        }
                    }
                }
                "addsec" => {
                    // the effect of a `join` without the election: queue "secoundary <name>"
                    let i = cl.idx(&op[1]);
                    nundb::replication_ops::add_as_secoundary(&cl.nodes[i].dbs, &op[2]);
                    "Queued".to_string()
                }
                "pollsup" => {
                    let i = cl.idx(&op[1]);
                    cl.poll_sup(i);
                    "Polled".to_string()
                }
                "pollrepl" => {
                    let i = cl.idx(&op[1]);
                    cl.poll_repl(i);
                    "Polled".to_string()
                }
                "deliver" => match cl.link_pos(&op[1], &op[2]) {
                    Some(li) => cl.deliver(li).map(|_| "Delivered".to_string()).unwrap_or("Nothing".to_string()),
                    None => "NoLink".to_string(),
                },
                "reply" => match cl.link_pos(&op[2], &op[1]) {
                    // reply <to> <from>: a line travelling back on link from->to
                    Some(li) => cl.reply(li).map(|_| "Replied".to_string()).unwrap_or("Nothing".to_string()),
                    None => "NoLink".to_string(),
                },
                "close" => match cl.link_pos(&op[1], &op[2]) {
                    Some(li) => {
                        cl.close(li);
                        "Closed".to_string()
                    }
                    None => "NoLink".to_string(),
                },
                "drop" => match cl.link_pos(&op[1], &op[2]) {
                    // the lines queued from -> to are lost (the peer is away)
                    Some(li) => {
                        let mut k = cl.links[li].pending.len();
                        cl.links[li].pending.clear();
                        while let Ok(Some(_)) = cl.links[li].rx.try_next() {
                            k += 1;
                        }
                        format!("Dropped {}", k)
                    }
                    None => "NoLink".to_string(),
                },
                "resync" => match cl.link_pos(&op[1], &op[2]) {
                    // the node comes back: its link thread runs start_sync_process again
                    Some(li) => {
                        let fi = cl.idx(&op[1]);
                        cl.enter(fi);
                        let line = format!("replicate-since {} {}", op[1], nundb::disk_ops::Oplog::last_op_time());
                        cl.links[li].handshake.push(line);
                        "Resync".to_string()
                    }
                    None => "NoLink".to_string(),
                },
                "settle" => {
                    if std::env::var("VERIF_TRACE").is_ok() {
                        eprintln!("TRACE-SETTLE");
                    }
                    let budget: usize = op.get(1).and_then(|b| b.parse().ok()).unwrap_or(200);
                    let (rounds, ok) = cl.settle(budget);
                    if ok {
                        format!("Settled")
                    } else {
                        format!("NotSettled {}", rounds)
                    }
                }
                "flush" => {
                    let i = cl.idx(&op[1]);
                    cl.enter(i);
                    let dbs = cl.nodes[i].dbs.clone();
                    match std::panic::catch_unwind(std::panic::AssertUnwindSafe(|| nundb::disk_ops::snapshot_all_pendding_dbs(&dbs))) {
                        Ok(_) => "Flushed".to_string(),
                        Err(_) => "PANIC".to_string(),
                    }
                }
                o => panic!("unknown op {}", o),
            };
            // client inboxes
            let mut parts = Vec::new();
            for (ni, n) in cl.nodes.iter_mut().enumerate() {
                for (i, (_, rx)) in n.sessions.iter_mut().enumerate() {
                    let msgs = drain_rx(rx);
                    for m in &msgs {
                        if m.starts_with("resolve ") {
                            notices.entry((ni, i)).or_insert_with(Vec::new).push(m.clone());
                        }
                    }
                    if !msgs.is_empty() {
                        let m: Vec<String> = msgs.iter().map(|x| esc(x.as_bytes())).collect();
                        parts.push(format!("{}/{}:[{}]", n.name, i, m.join("|")));
                    }
                }
            }
            let inb = if parts.is_empty() { "-".to_string() } else { parts.join(";") };
            let done: Vec<String> = std::mem::take(&mut cl.last_cmd);
            let res = if done.is_empty() { res } else { format!("{} done=[{}]", res, done.join(",")) };
            out.line(&format!("{} | {} | x={}", res, inb, cl.crossings - before));
            cl.refill();
            let d = match std::panic::catch_unwind(std::panic::AssertUnwindSafe(|| cl.dump())) {
                Ok(s) => s,
                Err(_) => " POISONED".to_string(),
            };
            out.line(&format!("D{}", d));
        }
        // release the parked link threads
        for li in 0..cl.links.len() {
            if cl.links[li].open {
                nundb::verif_hooks::close_link(cl.links[li].id);
            }
        }
        out.line("E");
    }
    out.flush();
}
