// S3 driver (C18): an in-process S3-compatible stub (tiny_http: PutObject, GetObject,
// ListObjectsV2, path style) with fault injection, and the node driver's operations on a node
// whose storage strategy is s3 or s3_patition (NUN_STORAGE_STRATEGY, read once per process, so
// one process per strategy / partition count).  After every step the stub's objects are
// decoded into records (key, value, status, version) and printed sorted, which makes the
// observation independent of the HashMap order the objects were written in.
use crate::node::*;
use crate::util::*;
use nundb::bo::*;
use std::collections::{BTreeMap, HashMap};
use std::convert::TryInto;
use std::io::Read;
use std::sync::{Arc, Mutex};

#[derive(Default)]
struct Faults {
    put_fail_at: Option<(u64, bool)>, // (n, always)
    get_fail_at: Option<u64>,
}

#[derive(Default)]
struct Stub {
    objects: BTreeMap<String, Vec<u8>>,
    puts: u64,
    gets: u64,
    faults: Faults,
    log: Vec<String>,
}

fn xml_escape(s: &str) -> String {
    s.replace('&', "&amp;").replace('<', "&lt;").replace('>', "&gt;")
}

fn pct_decode(s: &str) -> String {
    let b = s.as_bytes();
    let mut out = Vec::new();
    let mut i = 0;
    while i < b.len() {
        if b[i] == b'%' && i + 2 < b.len() + 0 && i + 2 <= b.len() - 1 + 0 {
            let h = std::str::from_utf8(&b[i + 1..i + 3]).unwrap_or("00");
            out.push(u8::from_str_radix(h, 16).unwrap_or(b'?'));
            i += 3;
        } else if b[i] == b'+' {
            out.push(b' ');
            i += 1;
        } else {
            out.push(b[i]);
            i += 1;
        }
    }
    String::from_utf8_lossy(&out).to_string()
}

/// aws-chunked bodies: <hex-size>[;chunk-signature=..]\r\n<data>\r\n ... 0\r\n<trailers>\r\n\r\n
fn decode_aws_chunked(body: &[u8]) -> Vec<u8> {
    let mut out = Vec::new();
    let mut i = 0;
    loop {
        let mut j = i;
        while j + 1 < body.len() && !(body[j] == b'\r' && body[j + 1] == b'\n') {
            j += 1;
        }
        if j + 1 >= body.len() {
            break;
        }
        let head = String::from_utf8_lossy(&body[i..j]).to_string();
        let size = usize::from_str_radix(head.split(';').next().unwrap_or("0").trim(), 16).unwrap_or(0);
        i = j + 2;
        if size == 0 {
            break;
        }
        out.extend_from_slice(&body[i..(i + size).min(body.len())]);
        i += size + 2;
    }
    out
}

fn start_stub() -> (Arc<Mutex<Stub>>, u16) {
    let server = tiny_http::Server::http("127.0.0.1:0").unwrap();
    let port = match server.server_addr() {
        tiny_http::ListenAddr::IP(a) => a.port(),
        _ => panic!("no port"),
    };
    let st = Arc::new(Mutex::new(Stub::default()));
    let st2 = st.clone();
    std::thread::spawn(move || {
        for mut req in server.incoming_requests() {
            let method = req.method().to_string();
            let url = req.url().to_string();
            let (path, query) = match url.find('?') {
                Some(i) => (url[..i].to_string(), url[i + 1..].to_string()),
                None => (url.clone(), String::new()),
            };
            let path = pct_decode(&path);
            // /<bucket>/<key...>
            let mut parts = path.trim_start_matches('/').splitn(2, '/');
            let _bucket = parts.next().unwrap_or("").to_string();
            let key = parts.next().unwrap_or("").to_string();
            let mut body = Vec::new();
            let _ = req.as_reader().read_to_end(&mut body);
            let chunked = req.headers().iter().any(|h| {
                (h.field.equiv("content-encoding") || h.field.equiv("x-amz-content-sha256"))
                    && (h.value.as_str().contains("aws-chunked") || h.value.as_str().contains("STREAMING"))
            });
            let mut s = st2.lock().unwrap();
            let deny = |what: &str| {
                tiny_http::Response::from_string(format!(
                    "<?xml version=\"1.0\" encoding=\"UTF-8\"?><Error><Code>AccessDenied</Code><Message>injected {}</Message></Error>",
                    what
                ))
                .with_status_code(403)
            };
            if method == "PUT" {
                s.puts += 1;
                let n = s.puts;
                let fail = match s.faults.put_fail_at {
                    Some((at, always)) => (always && n >= at) || (!always && n == at),
                    None => false,
                };
                if fail {
                    s.log.push(format!("PUT#{} {} DENIED", n, key));
                    drop(s);
                    let _ = req.respond(deny("put"));
                    continue;
                }
                let data = if chunked { decode_aws_chunked(&body) } else { body };
                s.log.push(format!("PUT#{} {} {}", n, key, data.len()));
                s.objects.insert(key, data);
                drop(s);
                let r = tiny_http::Response::from_string("")
                    .with_status_code(200)
                    .with_header(tiny_http::Header::from_bytes(&b"ETag"[..], &b"\"0\""[..]).unwrap());
                let _ = req.respond(r);
            } else if method == "GET" && query.contains("list-type=2") {
                let mut prefix = String::new();
                for kv in query.split('&') {
                    if let Some(v) = kv.strip_prefix("prefix=") {
                        prefix = pct_decode(v);
                    }
                }
                let mut xml = String::from("<?xml version=\"1.0\" encoding=\"UTF-8\"?><ListBucketResult xmlns=\"http://s3.amazonaws.com/doc/2006-03-01/\"><Name>nun-db</Name>");
                xml.push_str(&format!("<Prefix>{}</Prefix><IsTruncated>false</IsTruncated>", xml_escape(&prefix)));
                let mut count = 0;
                for (k, v) in s.objects.iter() {
                    if k.starts_with(&prefix) {
                        count += 1;
                        xml.push_str(&format!(
                            "<Contents><Key>{}</Key><LastModified>2024-01-01T00:00:00.000Z</LastModified><ETag>\"0\"</ETag><Size>{}</Size><StorageClass>STANDARD</StorageClass></Contents>",
                            xml_escape(k),
                            v.len()
                        ));
                    }
                }
                xml.push_str(&format!("<KeyCount>{}</KeyCount><MaxKeys>1000</MaxKeys></ListBucketResult>", count));
                s.log.push(format!("LIST {}", prefix));
                drop(s);
                let r = tiny_http::Response::from_string(xml)
                    .with_status_code(200)
                    .with_header(tiny_http::Header::from_bytes(&b"Content-Type"[..], &b"application/xml"[..]).unwrap());
                let _ = req.respond(r);
            } else if method == "GET" {
                s.gets += 1;
                let n = s.gets;
                if s.faults.get_fail_at == Some(n) {
                    s.log.push(format!("GET#{} {} DENIED", n, key));
                    drop(s);
                    let _ = req.respond(deny("get"));
                    continue;
                }
                match s.objects.get(&key).cloned() {
                    Some(data) => {
                        s.log.push(format!("GET#{} {} {}", n, key, data.len()));
                        drop(s);
                        let r = tiny_http::Response::from_data(data)
                            .with_status_code(200)
                            .with_header(tiny_http::Header::from_bytes(&b"ETag"[..], &b"\"0\""[..]).unwrap());
                        let _ = req.respond(r);
                    }
                    None => {
                        s.log.push(format!("GET#{} {} MISSING", n, key));
                        drop(s);
                        let r = tiny_http::Response::from_string(
                            "<?xml version=\"1.0\" encoding=\"UTF-8\"?><Error><Code>NoSuchKey</Code><Message>no such key</Message></Error>",
                        )
                        .with_status_code(404);
                        let _ = req.respond(r);
                    }
                }
            } else {
                drop(s);
                let _ = req.respond(tiny_http::Response::from_string("").with_status_code(400));
            }
        }
    });
    (st, port)
}

fn u64_at(b: &[u8], i: usize) -> Option<u64> {
    if i + 8 <= b.len() {
        Some(u64::from_le_bytes(b[i..i + 8].try_into().unwrap()))
    } else {
        None
    }
}
fn i32_at(b: &[u8], i: usize) -> Option<i32> {
    if i + 4 <= b.len() {
        Some(i32::from_le_bytes(b[i..i + 4].try_into().unwrap()))
    } else {
        None
    }
}

/// strict decoding of a partition object: [klen][key][vlen][value][status:i32][version:i32]*
fn decode_partition(b: &[u8]) -> Result<Vec<String>, String> {
    let mut out = Vec::new();
    let mut i = 0;
    while i < b.len() {
        let kl = u64_at(b, i).ok_or("short key length")? as usize;
        i += 8;
        if i + kl > b.len() {
            return Err("short key".to_string());
        }
        let k = &b[i..i + kl];
        i += kl;
        let vl = u64_at(b, i).ok_or("short value length")? as usize;
        i += 8;
        if i + vl > b.len() {
            return Err("short value".to_string());
        }
        let v = &b[i..i + vl];
        i += vl;
        let st = i32_at(b, i).ok_or("short status")?;
        i += 4;
        let ver = i32_at(b, i).ok_or("short version")?;
        i += 4;
        out.push(format!("{}={}/{}@{}", escv(k), escv(v), st, ver));
    }
    out.sort();
    Ok(out)
}

/// strict decoding of the s3 strategy's pair of objects
fn decode_keys_values(keys: &[u8], vals: &[u8]) -> Result<Vec<String>, String> {
    let mut out = Vec::new();
    let mut i = 0;
    while i < keys.len() {
        let kl = u64_at(keys, i).ok_or("short key length")? as usize;
        i += 8;
        if i + kl > keys.len() {
            return Err("short key".to_string());
        }
        let k = &keys[i..i + kl];
        i += kl;
        let ver = i32_at(keys, i).ok_or("short version")?;
        i += 4;
        let addr = u64_at(keys, i).ok_or("short address")? as usize;
        i += 8;
        let vl = u64_at(vals, addr).ok_or("value address outside the values object")? as usize;
        if addr + 8 + vl + 4 > vals.len() {
            return Err("short value record".to_string());
        }
        let v = &vals[addr + 8..addr + 8 + vl];
        let st = i32_at(vals, addr + 8 + vl).unwrap();
        out.push(format!("{}={}/{}@{}", escv(k), escv(v), st, ver));
    }
    out.sort();
    Ok(out)
}

fn objects_bytes_digest(st: &Arc<Mutex<Stub>>) -> String {
    let s = st.lock().unwrap();
    let parts: Vec<String> = s.objects.iter().map(|(n, d)| format!("{}:{}:{:016x}", esc(n.as_bytes()), d.len(), crate::disk::fnv(d))).collect();
    format!("objs=[{}]", parts.join(","))
}

fn objects_digest(st: &Arc<Mutex<Stub>>) -> String {
    let s = st.lock().unwrap();
    let mut parts = Vec::new();
    for (name, data) in s.objects.iter() {
        if name.ends_with("/nun.values") {
            continue;
        }
        let recs = if name.ends_with("/nun.keys") {
            let vn = name.replace("/nun.keys", "/nun.values");
            match s.objects.get(&vn) {
                Some(v) => decode_keys_values(data, v),
                None => Err("no values object".to_string()),
            }
        } else {
            decode_partition(data)
        };
        let txt = match recs {
            Ok(r) => r.join(";"),
            Err(e) => format!("MALFORMED({})", e),
        };
        parts.push(format!("{}:[{}]", esc(name.as_bytes()), txt));
    }
    // values objects without a keys object
    for name in s.objects.keys() {
        if name.ends_with("/nun.values") && !s.objects.contains_key(&name.replace("/nun.values", "/nun.keys")) {
            parts.push(format!("{}:[ORPHAN]", esc(name.as_bytes())));
        }
    }
    format!("objs=[{}]", parts.join(","))
}

pub fn run(path: &str, workdir: &str) {
    // must happen before nundb's configuration is first read
    let (stub, port) = start_stub();
    std::env::set_var("NUN_S3_API_URL", format!("http://127.0.0.1:{}", port));
    std::env::set_var("NUN_S3_RETRY", std::env::var("NUN_S3_RETRY").unwrap_or("2".to_string()));
    let mut out = Out::new();
    for case in read_cases(path) {
        out.line(&format!("C {}", case.id));
        {
            let mut s = stub.lock().unwrap();
            *s = Stub::default();
        }
        let dir = fresh_dir(workdir, "s3");
        nundb::verif_hooks::set_data_dir(Some(dir.clone()));
        let mut node = new_node("n0:3014", 1000, ClusterRole::Primary, HashMap::new(), true);
        for op in &case.ops {
            let mut aux: Option<String> = None;
            let res = match op[0].as_str() {
                "conn" => format!("Conn {}", node.connect()),
                "cmd" => {
                    let sid: usize = op[1].parse().unwrap();
                    let line = unhex_s(&op[2]);
                    node.cmd(sid, &line)
                }
                "disc" => {
                    let sid: usize = op[1].parse().unwrap();
                    node.disconnect(sid)
                }
                "fault" => {
                    let mut s = stub.lock().unwrap();
                    match op[1].as_str() {
                        "put" => {
                            let n: u64 = op[2].parse().unwrap();
                            s.faults.put_fail_at = Some((s.puts + n, op[3] == "always"));
                        }
                        "get" => {
                            let n: u64 = op[2].parse().unwrap();
                            s.faults.get_fail_at = Some(s.gets + n);
                        }
                        _ => {
                            s.faults = Faults::default();
                        }
                    }
                    "Fault".to_string()
                }
                "flush" => {
                    let dbs = node.dbs.clone();
                    let _ = nundb::verif_hooks::take_key_orders();
                    let r = std::panic::catch_unwind(std::panic::AssertUnwindSafe(|| nundb::disk_ops::snapshot_all_pendding_dbs(&dbs)));
                    let orders = nundb::verif_hooks::take_key_orders();
                    let o: Vec<String> = orders
                        .iter()
                        .map(|ks| if ks.is_empty() { "-".to_string() } else { ks.iter().map(|k| hex(k.as_bytes())).collect::<Vec<String>>().join(",") })
                        .collect();
                    aux = Some(format!("#order {}", o.join(" ")));
                    match r {
                        Ok(_) => "Flushed".to_string(),
                        Err(_) => "PANIC".to_string(),
                    }
                }
                "restart" => {
                    let role = node.dbs.get_role();
                    drop(node);
                    node = new_node("n0:3014", 1000, role, HashMap::new(), true);
                    let dbs: Arc<Databases> = node.dbs.clone();
                    // load_all_dbs joins loader threads: a panic in one of them surfaces as a panic here
                    match std::panic::catch_unwind(std::panic::AssertUnwindSafe(|| Databases::load_all_dbs(&dbs))) {
                        Ok(_) => "Restarted".to_string(),
                        Err(_) => "PANIC".to_string(),
                    }
                }
                "parts" => {
                    // partition of each key (for the model): parts <hexkey>...
                    let n: u64 = std::env::var("NUN_S3_NUMBER_OF_PARTITIONS").ok().and_then(|v| v.parse().ok()).unwrap_or(10);
                    let v: Vec<String> = op[1..]
                        .iter()
                        .map(|h| {
                            let k = unhex_s(h);
                            format!("{}={}", h, nundb::storage::s3_partition::S3PartitionStorage::hash(k) % n)
                        })
                        .collect();
                    aux = Some(format!("#parts {}", v.join(" ")));
                    "Parts".to_string()
                }
                o => panic!("unknown op {}", o),
            };
            let inb = node.inboxes();
            let q = node.queues();
            out.line(&format!("{} | {} | {}", res, inb, q));
            let (log, puts, gets) = {
                let mut s = stub.lock().unwrap();
                let l = std::mem::take(&mut s.log);
                (l, s.puts, s.gets)
            };
            let _ = (puts, gets);
            out.line(&format!("D {} {}", safe_dump(&node, false), objects_bytes_digest(&stub)));
            out.line(&format!("#objs {}", objects_digest(&stub)));
            out.line(&format!("#s3log {}", log.join(" | ")));
            if let Some(a) = aux {
                out.line(&a);
            }
        }
        out.line("E");
    }
    out.flush();
}
