#!/bin/bash
# run every property's thorough check in sequence; prints one line per property
cd "$(dirname "$0")/.."
./setup.sh > /dev/null 2>&1
for p in C01 C02 C03 C04 C05 C06 C07 C08 C09 C10 C11 C12 C13 C14 C15 C16 C17 C18 C19 C20; do
  s=$(date +%s)
  ./check $p --tier thorough > thorough_$p.log 2>&1
  rc=$?
  echo "$p rc=$rc viol=$(grep -c VIOLATION thorough_$p.log) secs=$(( $(date +%s) - s ))"
done
