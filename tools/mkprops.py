#!/usr/bin/env python3
# Generate Props/<prop>.v from a spec: list of (theorem_name, proofs_module, lemma_name, comment).
# The statement text is what Coq prints for the lemma's type; the generated file restates
# it verbatim (so the statement is pinned in the Props file) and closes it with `exact`.
import sys, subprocess, re, os, json
COQ = "/verif/coq"

def coq_type(imports, lemma, scope):
    src = "From NunDB Require Import %s.\n%s\nSet Printing Width 110.\nSet Printing Depth 200.\nCheck %s.\n" % (" ".join(imports), scope, lemma)
    open("/tmp/mkprops_q.v", "w").write(src)
    p = subprocess.run(["coqtop", "-Q", COQ, "NunDB", "-batch", "-l", "/tmp/mkprops_q.v"], capture_output=True, text=True)
    out = p.stdout + p.stderr
    m = re.search(r"^%s\s*\n?\s*:\s(.*)" % re.escape(lemma), out, re.S | re.M)
    if not m:
        raise SystemExit("cannot get type of %s:\n%s" % (lemma, out[-2000:]))
    return m.group(1).strip()

def main(specfile):
    spec = json.load(open(specfile))
    imports = spec["imports"]
    scope = spec.get("scope", "")
    lines = ["(* %s *)" % spec["header"], "(* Statements only: each theorem restates the proved lemma's statement and is closed by [exact]. *)",
             "From NunDB Require Import %s." % " ".join(imports), scope, ""]
    for t in spec["theorems"]:
        ty = coq_type(imports, t["lemma"], scope)
        if t.get("comment"):
            lines.append("(* %s *)" % t["comment"])
        lines.append("Theorem %s :\n  %s." % (t["name"], ty.replace("\n", "\n  ")))
        lines.append("Proof. exact %s. Qed." % t["lemma"])
        lines.append("Print Assumptions %s.\n" % t["name"])
    for raw in spec.get("raw", []):
        lines.append(raw + "\n")
    open(os.path.join(COQ, "Props", spec["prop"] + ".v"), "w").write("\n".join(lines))
    print("wrote", spec["prop"], len(spec["theorems"]))

if __name__ == "__main__":
    main(sys.argv[1])
