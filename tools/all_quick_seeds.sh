#!/bin/bash
# run every property's quick check with several seeds; prints one line per (property, seed)
cd "$(dirname "$0")/.."
./setup.sh > /dev/null 2>&1
for seed in 2 3 4; do
for p in C01 C02 C03 C04 C05 C06 C07 C08 C09 C10 C11 C12 C13 C14 C15 C16 C17 C18 C19 C20; do
  ./check $p --tier quick --seed $seed > quick_${p}_$seed.log 2>&1
  echo "$p seed=$seed rc=$? viol=$(grep -c VIOLATION quick_${p}_$seed.log)"
done
done
