#!/bin/bash
# try_seeded.sh <prop> <patch>: apply a seeded change to /repo, run the property's quick
# check, undo the change.  Prints the check's output and exit code.  The evidence file of
# the property is saved and put back: evidence must come from the unchanged tree only.
P=$1; PATCH=$2
cd /repo || exit 2
git diff --quiet || { echo "/repo has uncommitted changes"; exit 2; }
git apply $PATCH || { echo "patch does not apply"; exit 2; }
cp /verif/evidence/$P.json /tmp/evidence_$P.keep 2>/dev/null
cd /verif && timeout 1800 ./check $P --tier quick; RC=$?
cp /tmp/evidence_$P.keep /verif/evidence/$P.json 2>/dev/null
cd /repo && git checkout -- . 
echo "check_rc=$RC"
