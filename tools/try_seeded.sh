#!/bin/bash
# try_seeded.sh <prop> <patch>: apply a seeded change to /repo, run the property's quick
# check, undo the change.  Prints the check's output and exit code.
P=$1; PATCH=$2
cd /repo || exit 2
git diff --quiet || { echo "/repo has uncommitted changes"; exit 2; }
git apply $PATCH || { echo "patch does not apply"; exit 2; }
cd /verif && timeout 1800 ./check $P --tier quick; RC=$?
cd /repo && git checkout -- . 
echo "check_rc=$RC"
