#!/bin/bash
# process_seed.sh <prop>: confirm a breaker's change in its scratch worktree (/tmp/wt_<prop>, outputs in /tmp/wt_<prop>_out),
# then run the property's quick check against it (applied to /repo, undone straight afterwards)
P=$1
cd /verif
tools/confirm_seeded.sh $P /tmp/wt_$P /tmp/wt_${P}_out > /tmp/wt_${P}_out/confirm.json 2>&1
python3 -c "
import json;c=json.load(open('/tmp/wt_${P}_out/confirm.json'));print('confirm', c.get('demo_without_rc'), c.get('demo_with_rc'), [x for x in c.get('suite_fails_with_change','').split(';') if x and 's3' not in x])"
tools/try_seeded.sh $P /tmp/wt_${P}_out/patch.diff 2>&1 | grep -v KNOWN | tail -3
