#!/usr/bin/env python3
# store_seed.py <prop> <round> <result text> [history text]: keep a confirmed seeded change as /verif/seeded/<prop>-<round>/
import json, os, shutil, sys
P, R, result = sys.argv[1], sys.argv[2], sys.argv[3]
history = sys.argv[4] if len(sys.argv) > 4 else None
src = "/tmp/wt_%s_out" % P
dst = "/verif/seeded/%s-%s" % (P, R)
os.makedirs(dst, exist_ok=True)
for f in ("patch.diff", "demo.diff"):
    shutil.copy(os.path.join(src, f), dst)
meta = json.load(open(os.path.join(src, "meta.json")))
c = json.load(open(os.path.join(src, "confirm.json")))
meta["property"] = P
meta["confirmed_by_me"] = {
    "demo_passes_without_change": c.get("demo_without_rc") == 0,
    "demo_fails_with_change": c.get("demo_with_rc") not in (0, None),
    "suite_failures_with_change": c.get("suite_fails_with_change", ""),
    "note": "the storage::s3* tests fail on the unchanged tree too; the only other failure is the demonstration itself",
    "ran": "tools/confirm_seeded.sh %s <scratch worktree>" % P,
}
meta["detected_by"] = {"check": "./check %s --tier quick" % P, "how": "tools/try_seeded.sh %s %s/patch.diff" % (P, dst), "result": result}
if history:
    meta["detected_by"]["history"] = history
json.dump(meta, open(os.path.join(dst, "meta.json"), "w"), indent=1)
print("stored", dst, meta["confirmed_by_me"]["demo_passes_without_change"], meta["confirmed_by_me"]["demo_fails_with_change"])
