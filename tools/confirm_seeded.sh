#!/bin/bash
# confirm_seeded.sh <prop> <worktree> <outdir>: re-check a proposed breaking change in its
# scratch worktree: demo passes without the change, fails with it, the library test suite
# has no new failures with it.  Prints a JSON summary.
P=$1; WT=$2; OUT=$3
export CARGO_NET_OFFLINE=true CARGO_TARGET_DIR=$WT/target CARGO_BUILD_JOBS=8
cd $WT || exit 2
git checkout -q -- . ; git clean -fdq -e target
DEMO=$(python3 -c "import json;print(json.load(open('$OUT/meta.json'))['demo_test'])")
DEMO=${DEMO##*::}
git apply $OUT/demo.diff || { echo '{"error":"demo.diff does not apply"}'; exit 1; }
timeout 1500 cargo nextest run --lib --offline --no-fail-fast "$DEMO" > $OUT/confirm_demo_without.log 2>&1; R1=$?
git apply $OUT/patch.diff || { echo '{"error":"patch.diff does not apply"}'; exit 1; }
timeout 1500 cargo nextest run --lib --offline --no-fail-fast "$DEMO" > $OUT/confirm_demo_with.log 2>&1; R2=$?
timeout 2400 cargo nextest run --lib --offline --no-fail-fast --test-threads 8 > $OUT/confirm_suite_with.log 2>&1
FAILS=$(grep -E "^\s+FAIL " $OUT/confirm_suite_with.log | sed -E 's/.*\] +//' | sort -u | tr '\n' ';')
git checkout -q -- . ; git clean -fdq -e target
echo "{\"property\":\"$P\",\"demo\":\"$DEMO\",\"demo_without_rc\":$R1,\"demo_with_rc\":$R2,\"suite_fails_with_change\":\"$FAILS\"}"
