# helpers shared by the node-driver properties
import re
from common import hexs
import nodecanon

canon = nodecanon.canon_case

USER, PWD = "nun", "pwd"


def C(sid, line):
    return ["cmd", str(sid), hexs(line)]


def line_of(op):
    return bytes.fromhex(op[2][1:]).decode("utf-8", "replace") if op[0] == "cmd" else None


def unesc(s):
    if s == "{}":
        return ""
    return re.sub(r"\{([0-9A-F]{2})\}", lambda m: chr(int(m.group(1), 16)), s).encode("latin-1").decode("utf-8", "replace")


def split_obs(io):
    """[(reply, inboxes, queues, dump)] per op"""
    out = []
    lines = io["obs"]
    i = 0
    while i + 1 < len(lines) + 1 and i < len(lines):
        parts = lines[i].split(" | ")
        d = lines[i + 1] if i + 1 < len(lines) and lines[i + 1].startswith("D ") else ""
        out.append((parts[0], parts[1] if len(parts) > 1 else "-", parts[2] if len(parts) > 2 else "", d))
        i += 2
    return out


def inbox_of(inb, sid):
    if inb == "-":
        return []
    for seg in inb.split(";"):
        m = re.match(r"^(\d+):\[(.*)\]$", seg)
        if m and int(m.group(1)) == sid:
            return [unesc(x) for x in m.group(2).split("|")]
    return []


def db_section(dump, name):
    """keys=[...] watch=[...] text of one database in a D line"""
    m = re.search(r" db=%s id=(\d+) strat=(\S+) conn=(-?\d+) keys=\[(.*?)\] watch=\[(.*?)\](?= db=|$)" % re.escape(name), dump)
    return m


def db_keys(dump, name):
    m = db_section(dump, name)
    out = {}
    if not m or m.group(4) == "":
        return out
    for item in m.group(4).split(","):
        if "=" not in item or "@" not in item:
            raise ValueError("malformed key entry %r in the dump of %s" % (item[:80], name))
        k, rest = item.split("=", 1)
        val, meta = rest.rsplit("@", 1)
        ver, st, opp = meta.split("/")[:3]
        out[unesc(k)] = (unesc(val), int(ver), st, opp)
    return out


I32_RE = re.compile(r"^[+-]?[0-9]+$")


def parse_i32(s):
    if not I32_RE.match(s):
        return None
    v = int(s)
    if -2147483648 <= v <= 2147483647:
        return v
    return None


def pattern_match(key, pat):
    if pat.endswith("*"):
        return key.startswith(pat.replace("*", ""))
    if pat.startswith("*"):
        return key.endswith(pat.replace("*", ""))
    return pat in key
