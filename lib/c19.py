# C19 -- newer-strategy databases accept every write; the last applied one wins (sequential, interleaved, replicated)
import itertools, random, re
from nodegen import *
import schedgen
from schedgen import par, parse_par
import clustergen

ID = "C19"
DRIVER = "node"
MODEL_FILES = ["Model/Base.v", "Model/Parse.v", "Model/Node.v", "Model/Sched.v", "Model/Cluster.v"]
THEOREMS = ["C19_newer_never_refused", "C19_newer_reply_value", "C19_newer_apply", "C19_tombstone_reply_refuted", "C19_sched_resolving_set_succeeds", "C19_sched_newer_set_release", "C19_sched_newer_resolving_release", "C19_sched_newer_set_answered", "C19_sched_newer_version_grows", "C19_sched_newer_version_grows_inv", "C19_newer_incoming_wins", "C19_newer_opps_below_inv", "C19_newer_keep_old_without_invariant", "C19_newer_replicas_agree", "C19_newer_replicas_replies", "C19_newer_refused_replies_differ", "C19_newer_last_write_wins", "C19_newer_last_write_wins_bounded", "C19_newer_last_write_wins_replicas", "C19_newer_run_bounded", "C19_newer_primary_to_secondary", "C19_newer_primary_queues", "C19_newer_replicas_example", "C19_resolving_write_unchecked", "C19_newer_resolution_overwrites", "C19_newer_resolution_restamps", "C19_newer_new_key_all_schedules", "C19_newer_existing_key_count", "C19_newer_existing_key_all_schedules"]
STRENGTH = {t: "proof-unbounded" for t in THEOREMS}
for _t in ("C19_tombstone_reply_refuted", "C19_newer_keep_old_without_invariant", "C19_newer_refused_replies_differ"):
    STRENGTH[_t] = "witness by vm_compute (kept visible)"
for _t in ("C19_newer_resolution_overwrites", "C19_newer_resolution_restamps"):
    STRENGTH[_t] = "refuted (known finding, witness by vm_compute)"
for _t in ("C19_newer_new_key_all_schedules", "C19_newer_existing_key_count", "C19_newer_existing_key_all_schedules"):
    STRENGTH[_t] = "finite domain (one program, all 252 interleavings), decided by vm_compute; the bound is in the statement"
STRENGTH["C19_newer_replicas_example"] = "example (non-vacuity)"
RULE = ("exhaustive sequences (length <= 4 quick / 5 thorough) of plain and versioned writes (versions -1..3) to keys of a "
        "'newer' database and of the administrative database, with a watcher, remove and snapshot+flush mixed in; seeded random "
        "sequences on two keys with versions below/at/above the current one; family p*: two clients under enumerated lock-level "
        "interleavings (driver sched), with the clause 'of two versioned writes with the same version argument the one issued last is stored'; family c*: 2-3 node clusters, writes from two clients of the primary with random FIFO delivery "
        "orders, every replica compared with the last write issued; distinct = distinct canonical trace; non-trivial = "
        "at least one stale versioned write was resolved")
ASSUMPTIONS = ["families x*, r*: sequential execution: op ids grow with issue order, so every stale write is resolved in favour of the incoming change "
               "(C19_newer_incoming_wins proves it from the clock invariant); the keep-old branch needs op-id inversions (two clients) and is covered by the schedule model",
               "replica agreement (C19_newer_replicas_agree) is about the same writes applied in the same order on each node, each with its own clock: the order in which "
               "the primary's writes reach a secondary is the link's FIFO order (cluster family c*)",
               "version arguments below -1 and versions at i32::MAX are outside the quantifier"]
TRUSTED = []

SETUP = [["conn"], ["conn"], C(0, "auth nun pwd"), C(0, "create-db dn tok newer"), C(1, "use-db dn tok"), C(0, "use-db dn tok"),
         C(0, "watch a")]
ALPHA = [[C(1, "set a p")]] + [[C(1, "set-safe a %d q%d" % (v, v))] for v in (-1, 0, 1, 2, 3)] + \
        [[C(1, "remove a")], [C(1, "get-safe a")], [C(0, "snapshot false"), ["flush"]], [C(1, "increment a")]] + \
        [[C(0, "replicate dn a %d r%d" % (v, v + 1))] for v in (-1, 0, 2)]      # a write arriving over a replication link


def driver_of(case):
    return "sched" if case[0].startswith("p") else "cluster" if case[0].startswith("c") else "node"


def cluster_cases(tier, rng, dist):
    """2-3 node clusters with a newer database: 2-8 plain and versioned writes (versions below, at and above the current one) to a / b
    from two clients of the primary, random FIFO delivery steps in between; at the end the cluster settles"""
    CC = clustergen.CC
    out = []
    n = {"quick": 200, "thorough": 3000, "search": 120}[tier]
    for i in range(n):
        nn = rng.choice([2, 3])
        names, hdr, base = clustergen.setup(nn, "newer")
        ops = list(base)
        cur = {"a": 0, "b": 0}
        for j in range(rng.randint(2, 8)):
            key = rng.choice(["a", "a", "b"])
            sid = rng.choice([0, 1])
            if rng.random() < 0.3:
                ops.append(CC("n1", sid, "set %s v%d" % (key, j)))
            else:
                ops.append(CC("n1", sid, "set-safe %s %d w%d" % (key, max(-1, rng.choice([-1, 0, 1, cur[key] - 1, cur[key], cur[key] + 1, 50])), j)))
            cur[key] += 1
            r = rng.random()
            if r < 0.4:
                ops += clustergen.random_steps(rng, names, rng.randint(1, 5))
            elif r < 0.6:
                ops.append(["settle"])
        ops += [["settle"], CC("n1", 0, "get-safe a"), CC("n1", 0, "get-safe b")]
        out.append(("c%d" % i, hdr, ops))
    dist["cluster"] = n
    return out


def cluster_oracle(case, io, mo):
    """no write refused; at quiescence every replica holds, for each key, the value of the last write the primary answered"""
    fails = []
    obs = clustergen.split_obs(io)
    if len(obs) < len(case[2]):
        return [("driver-died", "step %d" % len(obs))]
    last = {}
    for i, op in enumerate(case[2]):
        if obs[i][0] == "PANIC":
            fails.append(("panic", "step %d" % i))
        if op[0] == "cmd":
            w = clustergen.line_of(op).split(" ")
            if w[0] in ("set", "set-safe"):
                if obs[i][0] != "Ok":
                    fails.append(("newer-refused", "step %d: '%s' answered %s" % (i, " ".join(w), obs[i][0])))
                last[w[1]] = w[-1]
    nodes = clustergen.parse_dump(obs[-1][3])
    if not nodes:
        return fails + [("driver-died", "no dump")]
    for name, nd in sorted(nodes.items()):
        if nd["dead"]:
            fails.append(("service-thread-died", "node %s" % name))
        keys = nd["dbs"].get("d1", {"keys": {}})["keys"]
        for key, val in sorted(last.items()):
            v = keys.get(key)
            if v is None or v[0] != val:
                fails.append(("replica-differs" if name != "n1" else "newer-wrong-value",
                              "end: %s on %s is %r, the last write issued was %r" % (key, name, v and v[0], val)))
        ref = nodes["n1"]["dbs"].get("d1", {"keys": {}})["keys"]
        for key in last:
            if key in keys and key in ref and keys[key][1] != ref[key][1]:
                fails.append(("replica-version-differs", "end: %s on %s has version %d, on the primary %d" % (key, name, keys[key][1], ref[key][1])))
    return fails


def sched_cases(tier, rng, dist):
    out = []
    nprog, limit = {"quick": (50, 40), "thorough": (500, 400), "search": (30, 30)}[tier]
    progs = [[["set-safe a 0 x1"], ["set-safe a 0 y1"]], [["set a x1", "set-safe a 0 x2"], ["set-safe a 1 y1"]]]
    # one versioned write each, same key, same version: whichever interleaving, the change issued last (the higher op id) must be the one stored
    progs += [[["set-safe %s %d x1" % (k, v)], ["set-safe %s %d y1" % (k, v)]] for k in ("a", "b") for v in (0, 1, 5)]
    for _ in range(nprog):
        keys = rng.choice([["a"], ["a", "b"]])
        prog = []
        for t in range(2):
            prog.append([rng.choice(["set %s v%d%d" % (rng.choice(keys), t, j), "set-safe %s %d w%d%d" % (rng.choice(keys), rng.choice([-1, 0, 1, 2, 5]), t, j)]) for j in range(rng.randint(1, 3))])
        progs.append(prog)
    k = 0
    for prog in progs:
        lengths = [5 * len(p) for p in prog]
        for sch in schedgen.all_schedules(lengths, limit, rng):
            ops = schedgen.setup("newer", nsess=3)
            ops += [C(0, "set a i0"), C(0, "set a i1"), C(0, "watch a"), C(0, "watch b")]
            ops.append(par([(i + 1, p) for i, p in enumerate(prog)], sch))
            ops += [C(0, "get-safe a"), C(0, "get-safe b")]
            out.append(("p%d" % k, ["P"], ops)); k += 1
    dist["schedules"] = k
    return out


def gen_cases(tier, seed):
    rng = random.Random(seed)
    cases, dist = [], {"exhaustive": 0, "random": 0}
    cases += sched_cases(tier, rng, dist)
    cases += cluster_cases(tier, random.Random(seed + 11), dist)
    maxlen, nrand = {"quick": (4, 2000), "thorough": (5, 30000), "search": (3, 2000)}[tier]
    k = 0
    for L in range(1, maxlen + 1):
        for seq in itertools.product(range(len(ALPHA)), repeat=L):
            ops = list(SETUP)
            for i in seq:
                ops += ALPHA[i]
            cases.append(("x%d" % k, ["P"], ops))
            k += 1
    dist["exhaustive"] = k
    for i in range(nrand):
        admin_db = rng.random() < 0.2
        ops = [["conn"], ["conn"], C(0, "auth nun pwd"), C(0, "use-db $admin pwd"), C(1, "use-db $admin pwd"), C(0, "watch a"), C(0, "get a")] if admin_db else list(SETUP)
        cur = 0
        for _ in range(rng.randint(4, 25)):
            key = rng.choice(["a", "a", "b"])
            r = rng.random()
            if r < 0.2:
                ops.append(C(1, "set %s v%d" % (key, rng.randint(0, 9))))
            elif r < 0.75:
                ops.append(C(1, "set-safe %s %d w%d" % (key, max(-1, rng.choice([-1, cur - 2, cur - 1, cur, cur + 1, 0, 1, 100])), rng.randint(0, 9))))
            elif r < 0.79 and not admin_db:
                ops.append(C(0, "replicate dn %s %d z%d" % (key, max(-1, rng.choice([-1, cur - 2, cur - 1, cur, 0, 1])), rng.randint(0, 9))))
            elif r < 0.83:
                ops.append(C(1, "remove %s" % key))
            elif r < 0.93:
                ops.append(C(1, "get-safe %s" % key))
            else:
                ops += [C(0, "snapshot false"), ["flush"]]
            cur += 1
        cases.append(("r%d" % i, ["P"], ops))
    dist["random"] = nrand
    return cases, dist


def issue_order_clause(parop, res, before, after):
    """two threads, one versioned write each, same key, same version argument (not -1): at least the second one applied is stale,
    and the strategy resolves it by op id, so the change issued last must be the one stored.  Op ids are drawn at the release that
    follows the permission lookup (the second release of the command); a release from a park at map.write is a write."""
    specs = [t for t in parop[1:parop.index("--")] if not t.startswith("h")]
    sched = [int(x) for x in parop[parop.index("--") + 1:]]
    if len(specs) != 2:
        return []
    cmds = []
    for sp in specs:
        sid, hx = sp.split(":", 1)
        hs = hx.split(",")
        if len(hs) != 1:
            return []
        w = bytes.fromhex(hs[0][1:]).decode().split(" ")
        if w[0] != "set-safe" or len(w) != 4 or w[2] == "-1":
            return []
        cmds.append((int(sid), w[1], w[2], w[3]))
    if cmds[0][1] != cmds[1][1] or cmds[0][2] != cmds[1][2]:
        return []
    key = cmds[0][1]
    traces = [res.get(c[0], ([], []))[1] for c in cmds]
    if any(len(t) < 3 for t in traces):
        return []
    # position in the schedule of every release of each thread
    pos = {0: [], 1: []}
    for i, t in enumerate(sched):
        if t in pos:
            pos[t].append(i)
    if any(len(pos[t]) < len(traces[t]) for t in (0, 1)):
        return []
    issued = {t: pos[t][1] for t in (0, 1)}                      # the release that draws the op id
    writes = {t: [pos[t][j] for j, nm in enumerate(traces[t]) if nm == "map.write"] for t in (0, 1)}
    late = 0 if issued[0] > issued[1] else 1
    early = 1 - late
    a = after.get(key)
    if a is None or a[0] == cmds[late][3]:
        return []
    if a[0] != cmds[early][3]:
        return []
    # the change issued first is the one stored
    if key in before and len(writes[early]) == 2 and writes[late] and writes[early][0] < writes[late][-1]:
        # it went through the resolution path: the resolution is decided under one hold of the map lock and re-applied under another,
        # as a NEW change (fresh op id) that is not checked again -- so it either overwrites the later change that landed in between,
        # or, re-stamped, makes the later change look stale (known finding)
        return [("newer-resolution-outlives-later-change", "key %s: the change issued first (%s) was re-applied by the resolution path around the later change (%s): stored %r" % (key, cmds[early][3], cmds[late][3], a[0]))]
    return [("newer-earlier-issued-change-wins", "key %s: %s was issued after %s, but %r is stored" % (key, cmds[late][3], cmds[early][3], a[0]))]


def sched_oracle(case, io, mo):
    fails = []
    obs = split_obs(io)
    pi = next(i for i, op in enumerate(case[2]) if op[0] == "par")
    if pi >= len(obs):
        return [("driver-died", "before the parallel section")]
    reply, inb = obs[pi][0], obs[pi][1]
    if "PANIC" in reply:
        fails.append(("panic", reply[:200]))
    res = parse_par(reply)
    parop = case[2][pi]
    written = {}
    nwrites = {}
    for sp in [t for t in parop[1:parop.index("--")] if not t.startswith("h")]:
        sid, hx = sp.split(":", 1)
        for h in hx.split(","):
            w = bytes.fromhex(h[1:]).decode().split(" ")
            written.setdefault(w[1], set()).add(w[-1])
            nwrites[w[1]] = nwrites.get(w[1], 0) + 1
        for r in res.get(int(sid), ([], []))[0]:
            if r != "Ok":
                fails.append(("newer-refused", "a write on a newer database answered %s" % r))
    before = db_keys(obs[pi - 1][3], "d1")
    after = db_keys(obs[pi][3], "d1")
    fails += issue_order_clause(parop, res, before, after)
    for k, vals in written.items():
        b, a = before.get(k), after.get(k)
        if a is None:
            fails.append(("newer-lost", "key %s missing" % k)); continue
        if a[0] not in vals:
            fails.append(("newer-wrong-value", "key %s holds %r, written values %s" % (k, a[0], sorted(vals))))
        if b is not None and a[1] <= b[1]:
            fails.append(("version-not-grown", "key %s version %d -> %d after %d writes" % (k, b[1], a[1], nwrites[k])))
        notes = [x[:-1].split(" ", 3) for x in inbox_of(inb, 0) if x.startswith("changed-version %s " % k)]
        if len(notes) > nwrites[k] or len(notes) < 1:
            fails.append(("notify-count", "key %s: %d writes, %d notifications" % (k, nwrites[k], len(notes))))
        if notes:
            top = max(notes, key=lambda t: int(t[2]))
            if top[3] != a[0] or int(top[2]) != a[1]:
                fails.append(("stale-final-view", "key %s: highest-versioned notification %s@%s, stored %r@%d" % (k, top[3], top[2], a[0], a[1])))
    return fails


def oracle(case, io, mo):
    if case[0].startswith("p"):
        return sched_oracle(case, io, mo)
    if case[0].startswith("c"):
        return cluster_oracle(case, io, mo)
    fails = []
    obs = split_obs(io)
    dbname = "$admin" if any(op[0] == "cmd" and line_of(op).startswith("use-db $admin") for op in case[2][:6]) else "dn"
    prev = {}
    for i, op in enumerate(case[2]):
        if i >= len(obs):
            fails.append(("driver-died", "step %d" % i)); break
        reply, inb, q, dump = obs[i]
        keys = db_keys(dump, dbname)
        if reply == "PANIC":
            fails.append(("panic", "step %d" % i))
        if op[0] == "cmd" and i >= 6:
            line = line_of(op)
            w = line.split(" ", 3)
            if w[0] == "replicate" and op[1] == "0":
                # replicate <db> <key> <version> <value>: the same write arriving over a replication link
                t = line.split(" ", 4)
                w = ["set-safe", t[2], t[3], t[4] if len(t) > 4 else ""]
            if w[0] in ("set", "set-safe") and (op[1] == "1" or line.startswith("replicate ")):
                key = w[1]
                val = (w[2] if len(w) > 2 else "") if w[0] == "set" else (w[3] if len(w) > 3 else None)
                old = prev.get(key)
                if old is not None and (old[1] == -2 or old[1] >= 2147483646):
                    pass
                elif val is not None:
                    if reply != "Ok":
                        fails.append(("newer-refused", "step %d: '%s' answered %s" % (i, line, reply)))
                    new = keys.get(key)
                    if new is None:
                        fails.append(("newer-lost", "step %d: key missing after write" % i))
                    else:
                        if old is not None and new[1] < old[1]:
                            fails.append(("version-decreased", "step %d: %d -> %d" % (i, old[1], new[1])))
                        stored_changed = old is None or (new[0], new[1]) != (old[0], old[1])
                        if new[0] not in (val, old[0] if old else val):
                            fails.append(("newer-wrong-value", "step %d: stored %r" % (i, new[0])))
                        if key == "a":
                            notified = any(x.startswith("changed a ") for x in inbox_of(inb, 0))
                            if notified != stored_changed:
                                fails.append(("notify-mismatch", "step %d: stored value changed=%s but watcher notified=%s" % (i, stored_changed, notified)))
                            if notified and ("changed a %s\n" % new[0]) not in inbox_of(inb, 0):
                                fails.append(("notify-wrong-value", "step %d" % i))
        prev = keys
    return fails


def nontrivial(case, io):
    if case[0].startswith("p"):
        return True
    if case[0].startswith("c"):
        return any(op[0] == "cmd" and clustergen.line_of(op).startswith("set-safe") for op in case[2])
    # a stale versioned write (version below the stored one) that was applied
    obs = split_obs(io)
    prev = {}
    for i, op in enumerate(case[2]):
        if i >= len(obs): break
        if op[0] == "cmd":
            w = line_of(op).split(" ")
            if w[0] == "set-safe" and w[1] in prev and int(w[2]) != -1 and int(w[2]) < prev[w[1]][1] and obs[i][0] == "Ok":
                return True
        prev = db_keys(obs[i][3], "dn") or db_keys(obs[i][3], "$admin")
    return False
