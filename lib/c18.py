# C18 -- S3 storage strategies restore what the disk strategy would
import itertools, random, re
from nodegen import *
from common import hexs

ID = "C18"
DRIVER = "s3"
MODEL_FILES = ["Model/Base.v", "Model/Parse.v", "Model/Node.v", "Model/Disk.v", "Model/S3.v"]
THEOREMS = ["C18_part_history_restore", "C18_part_history_inv", "C18_part_snapshot_inv", "C18_part_roundtrip_reclaim", "C18_part_object_roundtrip", "C18_s3_roundtrip", "C18_s3_snapshot_other_objects", "C18_part_put_fault_reported", "C18_part_put_fault_once_retried", "C18_part_get_fault_once_retried", "C18_hyps_satisfiable", "C18_s3_put_fault_silent_refuted", "C18_s3_get_fault_panics_refuted", "C18_metadata_not_restored_refuted", "C18_metadata_not_restored_two_dbs", "C18_part_prefix_no_collision_example", "C18_part_read_db_other_dbs"]
STRENGTH = {t: "proof-unbounded" for t in THEOREMS}
RULE = ("the operation / snapshot / restart histories of the disk strategy (exhaustive sequences of length <= 3 quick / 4 thorough over "
        "{set, set-safe, remove, increment} x 2 keys, {snapshot false, snapshot true}, restart; seeded random sequences up to 30 steps "
        "over 4 keys and 2 databases) run against an in-process S3-compatible stub for strategy in {s3, s3_patition}, partition counts "
        "{1, 3, 10}, with stub faults {none, n-th PUT fails once, n-th PUT fails always, n-th GET fails once}; every case ends with "
        "snapshot + restart; distinct = distinct canonical trace; non-trivial = a restart restored a database that had keys updated or "
        "removed after its first snapshot")
ASSUMPTIONS = ["the object store is the harness's stub: PUT replaces an object atomically, LIST is lexicographic, an injected fault is a 403 "
               "(not retried by the SDK itself)", "HashMap orders and key partitions are observed from the run (hooks) and handed to the model",
               "one process per (strategy, partition count): the configuration is read once"]
TRUSTED = ["the AWS SDK's request formatting against the stub (path style, aws-chunked bodies decoded by the stub)"]
SHARDS = 12

KEYS = ["a", "b", "ccc", "k4"]
ALLKEYS = KEYS + ["$$token", "$connections", "n"]
VALS = ["", "x", "x y", "12", "ü ñ", "<Empty>", "v" * 300]


def env_key(case):
    hdr = case[1]
    return {"NUN_STORAGE_STRATEGY": "s3" if hdr[1] == "s3" else "s3_patition", "NUN_S3_NUMBER_OF_PARTITIONS": hdr[2], "NUN_S3_RETRY": hdr[3]}


def setup():
    return [["conn"], ["conn"], C(0, "auth nun pwd"), C(0, "create-db d1 tok1 newer"), C(0, "create-db d2 tok2 none"),
            C(1, "use-db d1 tok1"), C(0, "use-db d1 tok1"), ["parts"] + [hexs(k) for k in ALLKEYS]]


def after_restart():
    return [["conn"], ["conn"], C(0, "auth nun pwd"), C(1, "use-db d1 tok1"), C(0, "use-db d1 tok1")]


def build(seq):
    ops = setup()
    for e in seq:
        if e[0] == "c":
            ops.append(C(e[2] if len(e) > 2 else 1, e[1]))
        elif e[0] == "s":
            ops += [C(0, "snapshot %s %s" % (e[1], e[2] if len(e) > 2 else "d1")), ["flush"]]
        elif e[0] == "r":
            ops += [["restart"]] + after_restart()
        elif e[0] == "f":
            ops.append(["fault"] + list(e[1:]))
    ops += [["fault", "clear"], C(0, "snapshot false d1|d2"), ["flush"], ["restart"]] + after_restart() + [C(1, "keys"), C(1, "get-safe a"), C(1, "get-safe b")]
    return ops


ALPHA = [("c", "set a 1"), ("c", "set b 22"), ("c", "set-safe a 0 q"), ("c", "remove a"), ("c", "increment b 3"),
         ("s", "false"), ("s", "true"), ("r",)]
CONFIGS = [("s3", "10", "2"), ("part", "1", "2"), ("part", "3", "2"), ("part", "10", "2")]


def gen_cases(tier, seed):
    rng = random.Random(seed)
    cases, dist = [], {"exhaustive": 0, "random": 0, "faults": {}, "configs": {}}
    maxlen, nrand = {"quick": (3, 300), "thorough": (4, 6000), "search": (2, 300)}[tier]
    k = 0
    for cfg in CONFIGS:
        for L in range(1, maxlen + 1):
            for seq in itertools.product(ALPHA, repeat=L):
                cases.append(("x%d" % k, ["P"] + list(cfg), build(seq))); k += 1
    dist["exhaustive"] = k
    # a database whose name extends another one's (d1 / d10): the partition listing of d1 must not pick up d10's objects
    dist["name_prefix"] = 0
    for cfg in CONFIGS:
        for extra in (["set a 1"], ["set a 1", "set b 2", "set ccc 3", "set k4 4", "set zz 5", "set q7 6"]):
            ops = [["conn"], ["conn"], C(0, "auth nun pwd"), C(0, "create-db d1 tok1 newer"), C(0, "create-db d10 tok10 newer"),
                   ["parts"] + [hexs(k) for k in ALLKEYS + ["zz", "q7"]], C(1, "use-db d1 tok1"), C(1, "set a 1"), C(1, "use-db d10 tok10")]
            ops += [C(1, e) for e in extra]
            ops += [C(0, "snapshot false d1|d10"), ["flush"], ["restart"], ["conn"], ["conn"], C(0, "auth nun pwd"), C(1, "use-db d1 tok1"), C(1, "keys"),
                    C(1, "use-db d10 tok10"), C(1, "keys")]
            cases.append(("p%d" % k, ["P"] + list(cfg), ops)); k += 1
            dist["name_prefix"] += 1
    for i in range(nrand):
        cfg = rng.choice(CONFIGS)
        dist["configs"]["/".join(cfg)] = dist["configs"].get("/".join(cfg), 0) + 1
        seq = []
        for _ in range(rng.randint(4, 30)):
            r = rng.random()
            key = rng.choice(KEYS)
            if r < 0.3:
                seq.append(("c", "set %s %s" % (key, rng.choice(VALS))))
            elif r < 0.4:
                seq.append(("c", "set-safe %s %d %s" % (key, rng.choice([-1, 0, 1, 2, 5]), rng.choice(VALS))))
            elif r < 0.52:
                seq.append(("c", "remove %s" % key))
            elif r < 0.6:
                seq.append(("c", "increment n %d" % rng.randint(1, 9)))
            elif r < 0.66:
                seq.append(("c", rng.choice(["use-db d2 tok2", "use-db d1 tok1"])))
            elif r < 0.82:
                seq.append(("s", rng.choice(["false", "false", "true"]), rng.choice(["d1", "d1", "d2", "d1|d2"])))
            elif r < 0.9:
                seq.append(("r",))
            else:
                if cfg[0] == "s3":
                    # a PUT failure that hits one object of the keys/values pair leaves objects of two generations; the loader then
                    # reads lengths from the wrong bytes and may abort the whole process on a multi-gigabyte allocation (which would
                    # take the driver with it): only failures that hit both objects of a pair are injected for this strategy
                    f = rng.choice([("put", rng.choice(["1", "3"]), "always"), ("get", str(rng.randint(1, 3)))])
                else:
                    f = rng.choice([("put", str(rng.randint(1, 4)), "once"), ("put", str(rng.randint(1, 4)), "always"), ("get", str(rng.randint(1, 3)))])
                dist["faults"][f[0] + ("-" + f[2] if len(f) > 2 else "")] = dist["faults"].get(f[0] + ("-" + f[2] if len(f) > 2 else ""), 0) + 1
                seq.append(("f",) + f)
                seq.append(rng.choice([("s", "false", "d1"), ("r",), ("s", "true", "d1|d2")]))
        cases.append(("r%d" % i, ["P"] + list(cfg), build(seq)))
    dist["random"] = nrand
    return cases, dist


def augment(case, io):
    cid, hdr, ops = case
    if io is None:
        return case
    aux = list(io["aux"])
    out = []
    for op in ops:
        if op[0] == "flush":
            a = next((x for x in aux if x.startswith("#order")), None)
            if a is not None:
                aux.remove(a)
                out.append(["flush"] + [t for t in a.split(" ")[1:] if t != ""])
            else:
                out.append(op)
        elif op[0] == "parts":
            a = next((x for x in aux if x.startswith("#parts")), None)
            if a is not None:
                aux.remove(a)
                out.append(["parts"] + [t for t in a.split(" ")[1:] if t != ""])
            else:
                out.append(op)
        else:
            out.append(op)
    return (cid, hdr, out)


def canon(obs):
    # after a start-up that panicked, the loader threads that did finish may have added their databases in any
    # order: nothing after it is compared
    out = nodecanon.canon_case(obs)
    res = []
    skip = False
    for i, l in enumerate(out):
        if l.startswith("D "):
            if not skip and i > 0 and out[i - 1].startswith("PANIC |") and not l.startswith("D POISONED"):
                skip = True
            if skip:
                res.append("D (after a start-up that panicked)")
                continue
        elif skip:
            # the process is dead in reality: what the half-loaded node answers is not compared
            res.append("(after a start-up that panicked)")
            continue
        res.append(l)
    return res


def dataset(dump, db):
    sec = db_section(dump, db)
    if not sec:
        return None
    live = {k: (v[0], v[1]) for k, v in db_keys(dump, db).items() if v[2] != "D"}
    return {"id": sec.group(1), "strat": sec.group(2), "keys": live}


def oracle(case, io, mo):
    """what the disk strategy guarantees (C06): a restart restores every database as it was at its last completed snapshot;
    a failed upload is retried and then reported"""
    fails = []
    obs = split_obs(io)
    strat = case[1][1]
    last = {}
    queued = []
    put_fault = False        # sticky: a PUT fault was injected at some point
    s3logs = [a for a in io["aux"] if a.startswith("#s3log")]   # one per step: the stub's request log
    for i, op in enumerate(case[2]):
        if i >= len(obs):
            fails.append(("driver-died", "step %d" % i)); break
        reply, inb, q, dump = obs[i]
        if op[0] == "fault":
            if op[1] == "put":
                put_fault = True
        if dump.startswith("D POISONED"):
            # the failed upload was reported by a panic, but it happened with the snapshot queue locked: the lock is poisoned
            fails.append(("node-wedged-after-reported-upload-failure", "after step %d a lock of the node is poisoned: every later snapshot panics" % i))
            break
        if reply == "PANIC":
            if op[0] == "flush":
                queued = []
                continue
            if op[0] == "restart":
                denied = i < len(s3logs) and re.search(r"GET#\d+ \S+ DENIED", s3logs[i]) is not None
                fails.append(("restart-panics" + ("-on-download-fault" if denied else ""), "step %d: load_all_dbs panicked" % i))
                break
            fails.append(("panic", "step %d: %s" % (i, line_of(op) or op[0])))
        if op[0] == "cmd":
            line = line_of(op)
            if line.startswith("snapshot ") and reply == "Ok":
                queued += line.split(" ")[2].split("|")
        elif op[0] == "flush":
            if i > 0:
                for db in set(queued):
                    before, after = dataset(obs[i - 1][3], db), dataset(dump, db)
                    if before is not None and after is not None and before["keys"] != after["keys"]:
                        revived = [k for k in after["keys"] if k not in before["keys"]]
                        fails.append(("snapshot-revives-removed-key-in-memory" if revived else "snapshot-changes-memory",
                                      "step %d: %s before %r after %r" % (i, db, sorted(before["keys"].items())[:4], sorted(after["keys"].items())[:4])))
            for db in queued:
                ds = dataset(dump if i == 0 else obs[i - 1][3], db)
                if ds is not None:
                    last[db] = ds
            queued = []
        elif op[0] == "restart":
            queued = []
            silent = strat == "s3" and put_fault
            for db, want in last.items():
                got = dataset(dump, db)
                if got is None:
                    fails.append(("silent-upload-failure" if silent else "db-not-restored", "step %d: database %s missing after restart" % (i, db))); continue
                if (got["id"], got["strat"]) != (want["id"], want["strat"]):
                    fails.append(("metadata-not-restored", "step %d: %s id/strategy %s/%s, was %s/%s" % (i, db, got["id"], got["strat"], want["id"], want["strat"])))
                for k in sorted(set(want["keys"]) | set(got["keys"])):
                    w, g = want["keys"].get(k), got["keys"].get(k)
                    if w == g:
                        continue
                    if silent:
                        cls = "silent-upload-failure"
                    elif g is None:
                        cls = "live-key-lost"
                    elif w is None:
                        cls = "removed-key-restored"
                    else:
                        cls = "value-or-version-differs"
                    fails.append((cls, "step %d: %s/%s restored as %r, snapshotted as %r" % (i, db, k, g, w)))
            for db in list(last):
                got = dataset(dump, db)
                if got is not None:
                    last[db] = got
    return fails


def nontrivial(case, io):
    obs = split_obs(io)
    seen_snap, dirty = set(), False
    for i, op in enumerate(case[2]):
        if i >= len(obs):
            break
        if op[0] == "flush":
            seen_snap.add(1)
        if op[0] == "cmd" and seen_snap and line_of(op).split(" ")[0] in ("set", "remove", "increment", "set-safe"):
            dirty = True
        if op[0] == "restart" and dirty and obs[i][0] == "Restarted":
            return True
    return False
