# C13 -- arbiter databases never apply or lose a conflicting write silently
import itertools, random, re
from nodegen import *
import clustergen

ID = "C13"
DRIVER = "node"
MODEL_FILES = ["Model/Base.v", "Model/Parse.v", "Model/Node.v", "Model/Cluster.v"]
THEOREMS = ["C13_arbiter_never_silent", "C13_conflict_notice_text", "C13_conflict_key_neq", "C13_later_writes_queue", "C13_resolve_last", "C13_resolve_pending", "C13_register_arbiter_resends", "C13_record_needs_writable_key", "C13_arbiter_scenario", "C13_resolve_queues_lines", "C13_db_resolve_effect", "C13_conflict_queues_lines", "C13_resolve_lines_apply_on_secondary", "C13_resolve_lines_delivered", "C13_conflict_lines_apply_on_secondary", "C13_replica_key_not_marked_refuted", "C13_replica_holds_resolution", "C13_replica_after_resolve", "C13_replica_version", "C13_replica_version_differs", "C13_record_versions_differ", "C13_list_conflicts_keys_iff", "C13_star_key_conflicts_queue", "C13_run_example"]
STRENGTH = {t: "proof-unbounded" for t in THEOREMS}
RULE = ("exhaustive sequences (length <= 4 quick / 5 thorough) over {plain write, versioned conflicting / non-conflicting "
        "write on keys k and kk (one name contains the other), arbiter connect, arbiter disconnect, resolve the oldest/newest "
        "pending notice (echoing its op id and version)} plus seeded random sequences up to 25 steps; at the end every pending "
        "notice is resolved in order and a fresh arbiter registers; distinct = distinct canonical trace; non-trivial = at least "
        "one conflict was queued and resolved; cluster family c*: 2-3 node clusters with an arbiter database, the arbiter attached to the "
        "primary or to a secondary, 1-6 plain / versioned writes to k and kk on the primary with resolves in between, random FIFO "
        "delivery steps after every command; at the end the arbiter answers every notice and the cluster settles: nothing pending "
        "on any node, no key left in conflict, every replica holds the primary's value")
ASSUMPTIONS = ["families x*, r*: single node; family c*: clusters of 2-3 nodes (driver cluster), writes and the arbiter on the primary or on a secondary, random FIFO delivery orders",
               "the arbiter echoes the op id and version of the notice it answers",
               "key names without spaces; clients do not write $conflicts_ keys or version -2 themselves"]
TRUSTED = []

# s0 admin, s1 writer, s2 arbiter, s3 second arbiter (registers at the end)
SETUP = [["conn"], ["conn"], ["conn"], ["conn"], C(0, "auth nun pwd"), C(0, "create-db da tok arbiter"),
         C(1, "use-db da tok"), C(2, "use-db da tok"), C(3, "use-db da tok"), C(1, "set k v0"), C(1, "set k v1"), C(1, "set kk w0"), C(1, "set kk w1")]
ALPHA = [
    [C(1, "set k p")], [C(1, "set-safe k 0 c")], [C(1, "set-safe k 9 n")], [C(1, "set-safe kk 0 d")], [C(1, "set kk q")],
    [C(2, "arbiter")], [["disc", "2"], ["conn"], None],   # placeholder, expanded in build()
    [["rsv", "2", "0", hexs("R0")]], [["rsv", "2", "1", hexs("R1")]], [C(1, "get-safe k")],
]


def build(seq, rng=None):
    ops = list(SETUP)
    arb = 2          # current arbiter session id
    nsess = 4
    resolved = 0
    for a in seq:
        if a == "arb":
            ops.append(C(arb, "arbiter"))
        elif a == "arbdisc":
            ops.append(["disc", str(arb)])
            ops.append(["conn"]); arb = nsess; nsess += 1
            ops.append(C(arb, "use-db da tok"))
        elif a[0] == "rsv":
            ops.append(["rsv", str(arb), str(a[1]), hexs(a[2])])
        else:
            ops.append(C(1, a[1]))
    return ops, arb, nsess


def finish(ops, arb, nsess, nres):
    # resolve everything the current arbiter has been told about, oldest first, twice over (idempotence), then a new arbiter
    ops.append(C(arb, "arbiter"))
    for j in range(nres):
        ops.append(["rsv", str(arb), str(j), hexs("F%d" % j)])
    ops.append(C(1, "get-safe k"))
    ops.append(C(1, "get-safe kk"))
    ops.append(C(1, "set k after"))
    ops.append(C(3, "arbiter"))
    return ops


STAR = {"k": "a*b", "kk": "a*bb"}


def star(ops):
    """the case with the keys k / kk renamed to a*b / a*bb"""
    out = []
    for op in ops:
        if op[0] == "cmd":
            w = line_of(op).split(" ")
            if len(w) > 1 and w[1] in STAR and w[0] in ("set", "set-safe", "get-safe", "get"):
                w[1] = STAR[w[1]]
            out.append(C(int(op[1]), " ".join(w)))
        else:
            out.append(op)
    return out


WRITES = [("w", "set k p"), ("w", "set-safe k 0 c"), ("w", "set-safe k 9 n"), ("w", "set-safe kk 0 d"), ("w", "set kk q"), ("w", "get-safe k")]
SYMS = WRITES + ["arb", "arbdisc", ("rsv", 0, "R0"), ("rsv", 1, "R1")]


def driver_of(case):
    return "cluster" if case[0].startswith("c") else "node"


def cluster_cases(tier, rng, dist):
    """2-3 node clusters, arbiter database d1: 1-6 writes (plain and versioned, conflicting and not) to k / kk from the primary's client, the arbiter attached to the primary or to a secondary, random FIFO delivery steps after every command;
    at the end the arbiter answers every notice it has and the cluster settles"""
    CC = clustergen.CC
    out = []
    n = {"quick": 250, "thorough": 4000, "search": 150}[tier]
    for i in range(n):
        nn = rng.choice([2, 3])
        names, hdr, base = clustergen.setup(nn, "arbiter")
        arb = rng.choice(names[:2])
        ops = list(base) + [CC("n1", 0, "set k v0"), ["settle"], CC("n1", 0, "set k v1"), ["settle"], CC("n1", 0, "set kk w0"), ["settle"]]
        if rng.random() < 0.85:
            ops += [CC(arb, 1, "arbiter"), ["settle"]]
        nw = rng.randint(1, 6)
        for j in range(nw):
            r = rng.random()
            writer = "n1"      # writes issued on a secondary diverge for a reason of their own (C04's recorded finding)
            if r < 0.65:
                ops.append(CC(writer, 0, rng.choice(["set k p%d" % j, "set-safe k %d c%d" % (rng.choice([0, 0, 1, 2, 9]), j),
                                                     "set-safe kk %d d%d" % (rng.choice([0, 1, 9]), j), "set kk q%d" % j])))
            elif r < 0.8:
                ops.append(["rsv", arb, "1", str(rng.randint(0, 3)), hexs("R%d" % j)])
            elif r < 0.9:
                ops.append(CC(arb, 1, "arbiter"))
            else:
                ops.append(CC(writer, 0, "get-safe k"))
            if rng.random() < 0.5:
                ops += clustergen.random_steps(rng, names, rng.randint(1, 6))
            else:
                ops.append(["settle"])
        ops += [["settle"], CC(arb, 1, "arbiter"), ["settle"]]
        # every registration re-sends the pending notices, so the arbiter's list holds duplicates: answer them all
        for j in range(6 * (nw + 1)):
            ops += [["rsv", arb, "1", str(j), hexs("F%d" % j)], ["settle"]]
        ops += [["settle"], CC("n1", 0, "get-safe k"), CC("n1", 0, "get-safe kk")]
        out.append(("c%d" % i, hdr, ops))
    dist["cluster"] = n
    return out


def cluster_oracle(case, io, mo):
    """at quiescence, after the arbiter answered every notice: nothing pending anywhere and every replica holds what the primary holds"""
    fails = []
    obs = clustergen.split_obs(io)
    if len(obs) < len(case[2]):
        return [("driver-died", "step %d" % len(obs))]
    for i, o in enumerate(obs):
        if o[0] == "PANIC":
            fails.append(("panic", "step %d" % i))
    nodes = clustergen.parse_dump(obs[-1][3])
    if not nodes:
        return fails + [("driver-died", "no dump")]
    ref = nodes["n1"]["dbs"].get("d1", {"keys": {}})["keys"]
    for name, nd in sorted(nodes.items()):
        if nd["dead"]:
            fails.append(("service-thread-died", "node %s" % name))
        keys = nd["dbs"].get("d1", {"keys": {}})["keys"]
        for key in ("k", "kk"):
            v = keys.get(key)
            if v is not None and v[1] == -2:
                fails.append(("stuck-in-conflict", "end: %s on %s is still marked in conflict although the arbiter answered every notice" % (key, name)))
            r = ref.get(key)
            if (v is None) != (r is None) or (v is not None and v[0] != r[0]):
                fails.append(("replica-differs", "end: %s on %s is %r, on the primary %r" % (key, name, v and v[0], r and r[0])))
        recs = sorted(k for k, v in keys.items() if k.startswith("$conflicts_") and v[0].startswith("resolve ") and v[2] == "L")
        if recs:
            fails.append(("record-left-pending", "end: %s holds unresolved records %s" % (name, recs)))
    return fails


def gen_cases(tier, seed):
    rng = random.Random(seed)
    cases, dist = [], {"exhaustive": 0, "random": 0}
    cases += cluster_cases(tier, random.Random(seed + 7), dist)
    maxlen, nrand = {"quick": (4, 1500), "thorough": (5, 20000), "search": (3, 1500)}[tier]
    k = 0
    for L in range(1, maxlen + 1):
        for seq in itertools.product(SYMS, repeat=L):
            ops, arb, ns = build(seq)
            cases.append(("x%d" % k, ["P"], finish(ops, arb, ns, L + 1)))
            k += 1
    dist["exhaustive"] = k
    for i in range(nrand):
        n = rng.randint(4, 25)
        seq = []
        for _ in range(n):
            r = rng.random()
            if r < 0.55:
                seq.append(("w", rng.choice(["set k p%d" % rng.randint(0, 9), "set-safe k %d c%d" % (rng.choice([0, 0, 1, 2, 9]), rng.randint(0, 9)),
                                            "set-safe kk %d d%d" % (rng.choice([0, 1, 9]), rng.randint(0, 9)), "set kk q", "get-safe k", "get kk"])))
            elif r < 0.7: seq.append("arb")
            elif r < 0.78: seq.append("arbdisc")
            else: seq.append(("rsv", rng.randint(0, 5), "R%d" % rng.randint(0, 9)))
        ops, arb, ns = build(seq)
        cases.append(("r%d" % i, ["P"], finish(ops, arb, ns, n + 1)))
        if i < nrand // 5:
            # the same history on keys whose names contain the listing patterns' wildcard
            cases.append(("s%d" % i, ["P"], star(finish(*build(seq)[:1], arb, ns, n + 1))))
    dist["random"] = nrand
    dist["star_keys"] = nrand // 5
    return cases, dist


def oracle(case, io, mo):
    """FIFO-of-conflicts specification evaluated on the implementation's observations"""
    if case[0].startswith("c"):
        return cluster_oracle(case, io, mo)
    fails = []
    obs = split_obs(io)
    K1, K2 = ("a*b", "a*bb") if case[0].startswith("s") else ("k", "kk")
    prev = {}
    arbiters = set()          # sessions registered and not disconnected
    notices = {}              # session -> list of notices received
    pending = {}              # key -> list of op ids queued and not resolved
    resolved_ids = set()
    regcount = {}
    all_ids = {}
    ever_registered = False
    for i, op in enumerate(case[2]):
        if i >= len(obs):
            fails.append(("driver-died", "step %d" % i)); break
        reply, inb, q, dump = obs[i]
        keys = db_keys(dump, "da")
        if reply == "PANIC":
            fails.append(("panic", "step %d" % i))
        # collect notices delivered this step
        newnotes = {}
        if inb != "-":
            for seg in inb.split(";"):
                m = re.match(r"^(\d+):\[(.*)\]$", seg)
                if m:
                    for x in m.group(2).split("|"):
                        t = unesc(x)
                        if t.startswith("resolve "):
                            newnotes.setdefault(int(m.group(1)), []).append(t)
                            notices.setdefault(int(m.group(1)), []).append(t)
                        elif t.startswith("resolved"):
                            # records of conflicts that are already resolved are not notices
                            newnotes.setdefault(("stale", int(m.group(1))), []).append(t)
        if op[0] == "disc":
            arbiters.discard(int(op[1])); regcount.pop(int(op[1]), None)
        elif op[0] == "cmd":
            sid = int(op[1]); line = line_of(op); w = line.split(" ", 3)
            if w[0] == "arbiter" and reply == "Ok":
                ever_registered = True
                arbiters.add(sid)
                regcount[sid] = regcount.get(sid, 0) + 1
                # a (re)registering arbiter is sent exactly the unresolved conflicts (once per
                # subscription it holds: registering twice subscribes twice)
                want = sorted(x for ids in pending.values() for x in ids for _ in range(regcount[sid]))
                got = sorted(n.split(" ")[1] for n in newnotes.get(sid, []))
                if got != want:
                    fails.append(("arbiter-resend", "step %d: new arbiter got notices for %s, unresolved are %s" % (i, got, want)))
                if newnotes.get(("stale", sid)):
                    fails.append(("resolved-conflict-resent", "step %d: the registering arbiter was sent %r (records of conflicts that are already resolved)" % (i, newnotes[("stale", sid)])))
            if w[0] in ("set", "set-safe") and sid == 1 and w[1] in (K1, K2):
                key = w[1]
                old = prev.get(key)
                if reply.startswith("Error $$conflitct{20}unresolved{20}"):
                    ck = unesc(reply.split(" ", 1)[1]).split(" ")[-1]
                    opid = ck.rsplit("_", 1)[1]
                    pending.setdefault(key, []).append(opid)
                    all_ids.setdefault(key, []).append(opid)
                    new = keys.get(key)
                    if old is None or new is None or new[0] != old[0] or new[1] != -2:
                        fails.append(("conflict-not-held", "step %d: key %s before %s after %s" % (i, key, old, new)))
                    if ck not in keys or not keys[ck][0].startswith("resolve "):
                        fails.append(("conflict-not-recorded", "step %d: no record %s" % (i, ck)))
                    for a in arbiters:
                        if sum(1 for n in newnotes.get(a, []) if n.split(" ")[1] == opid) != regcount.get(a, 1):
                            fails.append(("conflict-not-delivered", "step %d: arbiter %d got no notice for %s" % (i, a, opid)))
                    # queue order: the notice names the previous pending conflict of the same key
                    if len(pending[key]) > 1:
                        # the write queues behind the most recent pending conflict of the key (or behind a
                        # later one that has been resolved meanwhile and whose record still exists)
                        ids = all_ids[key]
                        floor = ids.index(pending[key][-2])
                        allowed = {"$conflicts_%s_%s" % (key, x) for x in ids[floor:-1]}
                        for a in arbiters:
                            for n in newnotes.get(a, []):
                                t = n.split(" ")
                                if t[1] == opid and t[5] not in allowed:
                                    fails.append(("queue-order", "step %d: notice chains to %s, expected one of %s" % (i, t[5], sorted(allowed))))
                elif reply.startswith("Error An{20}conflitct"):
                    if keys != prev:
                        fails.append(("refused-but-changed", "step %d" % i))
                    if arbiters:
                        fails.append(("refused-with-arbiter", "step %d: arbiter %s registered" % (i, sorted(arbiters))))
                    elif ever_registered:
                        # "possible only while no arbiter has registered": once one has, a conflict is recorded for the next one
                        fails.append(("refused-after-an-arbiter-registered", "step %d: '%s' was refused although an arbiter had registered before (it has left): the conflict must be recorded for the next arbiter%s" % (i, line, ", and conflicts %s are pending on the key" % pending[key] if pending.get(key) else "")))
                elif reply == "Ok":
                    if pending.get(key):
                        fails.append(("applied-while-pending", "step %d: '%s' applied although conflicts %s are pending" % (i, line, pending[key])))
                elif not reply.startswith("Error"):
                    fails.append(("silent", "step %d: %s" % (i, reply)))
        elif op[0] == "rsv" and reply == "Ok":
            sid = int(op[1])
            notes = notices.get(sid, [])
            if notes:
                t = notes[int(op[2]) % len(notes)].split(" ")
                opid, key = t[1], t[4]
                val = bytes.fromhex(op[3][1:]).decode()
                if opid in pending.get(key, []):
                    pending[key].remove(opid)
                    resolved_ids.add(opid)
                    new = keys.get(key)
                    if not pending[key]:
                        if new is None or new[0] != val or new[1] < 0:
                            fails.append(("resolve-not-applied", "step %d: key %s is %s after the last resolution (value %r)" % (i, key, new, val)))
                    else:
                        if new is None or new[1] != -2:
                            fails.append(("resolve-released-early", "step %d: key %s %s while %s pending" % (i, key, new, pending[key])))
        prev = keys
    # end of case: finish() resolved everything the last arbiter knew; if nothing is pending the keys must be writable
    if not any(pending.values()):
        for key in (K1, K2):
            if key in prev and prev[key][1] == -2:
                fails.append(("stuck-in-conflict", "end: key %s still marked in conflict with nothing pending" % key))
        recs = [k for k, v in prev.items() if k.startswith("$conflicts_") and v[0].startswith("resolve ") and v[2] != "D"]
        if recs:
            fails.append(("record-left-pending", "end: %s" % recs))
    return fails


def nontrivial(case, io):
    if case[0].startswith("c"):
        co = clustergen.split_obs(io)
        return any(o[0].startswith("Error $$conflitct") for o in co) and any(op[0] == "rsv" and co[i][0] == "Ok" for i, op in enumerate(case[2]) if i < len(co))
    obs = split_obs(io)
    q = any(o[0].startswith("Error $$conflitct") for o in obs)
    r = any(op[0] == "rsv" and obs[i][0] == "Ok" for i, op in enumerate(case[2]) if i < len(obs))
    return q and r
