# C17 -- $connections equals the number of open sessions on the database
import itertools, random, re
from nodegen import *
import netfam
import schedgen
from schedgen import par, parse_par
from common import hexs

ID = "C17"
DRIVER = "node"
MODEL_FILES = ["Model/Base.v", "Model/Parse.v", "Model/Node.v", "Model/Net.v", "Model/Sched.v"]
THEOREMS = ["C17_conn_init", "C17_conn_step", "C17_conn_run", "C17_conn_never_negative", "C17_conn_back_to_previous", "C17_usedb_wrong_token_noop", "C17_conn_key_run", "C17_conn_key_run_from_init", "C17_conn_watchers_notified", "C17_conn_full_run", "C17_key_stuck_at_saturated_version_refuted", "C17_inv_needs_sel_exists", "C17_net_conn_step", "C17_net_conn_run", "C17_net_conn_run_from_init", "C17_sched_key_agrees", "C17_sched_counter_agrees", "C17_sched_run_par", "C17_sched_usedb_sequential", "C17_sched_release_ustep", "C17_race_without_recheck", "C17_sched_key_stuck_saturated", "C17_two_sessions_any_schedule"]
STRENGTH = {t: "proof-unbounded" for t in THEOREMS}
RULE = ("exhaustive event sequences (length <= 4 quick / 5 thorough) over connect / use-db {d1, d2, wrong token, user token, "
        "unknown db} / disconnect / HTTP bodies with 0-2 use-db on up to 3 sessions and 2 databases, plus seeded random longer "
        "sequences mixed with unrelated commands; an administrator session watches $connections on d1; distinct = distinct "
        "canonical trace; non-trivial = some database's counter went up and down; transport family t*: random histories of "
        "connect / use-db / disconnect / HTTP bodies over real TCP and WebSocket connections and the real HTTP listener")
ASSUMPTIONS = ["node-driver families end a session through the shared path process_request('unwatch-all') + Client::left; the transport family t* ends it by closing a real TCP socket / WebSocket / HTTP request and so runs each transport's own disconnect path",
               "clients do not write the $connections key themselves (it is an ordinary writable key)"]
TRUSTED = []

SETUP = [["conn"], C(0, "auth nun pwd"), C(0, "create-db d1 t1"), C(0, "create-db d2 t2"), C(0, "use-db d1 t1"),
         C(0, "create-user bob pw"), C(0, "watch $connections")]

def ev_ops(e, nsess):
    kind = e[0]
    if kind == "conn":
        return [["conn"]]
    if kind == "disc":
        return [["disc", str(e[1])]]
    if kind == "use":
        return [C(e[1], e[2])]
    if kind == "http":
        return [["http", hexs(e[1])]]
    return []

USES = ["use-db d1 t1", "use-db d2 t2", "use-db d1 bad", "use-db d1 bob pw", "use-db d1 bob bad", "use-db nope t1", "use d2 t2"]
HTTPS = ["get a", "use-db d1 t1; get a", "use-db d1 t1; use-db d2 t2; get a", "use-db d1 t1; use-db d1 t1", "use-db d2 bad; use-db d2 t2;"]
OTHER = ["get a", "set a 1", "keys", "watch a", "unwatch-all", "increment c", "remove a", "arbiter", "snapshot false"]


def driver_of(case):
    return {"t": "net", "z": "burst", "p": "sched"}.get(case[0][0], "node")


UREL = 8       # releases a use-db may need: cmd, token check, and up to three publish rounds (write + notify)


def sched_cases(tier, rng, dist):
    """two or three sessions selecting (and so leaving) databases at the same time, under every schedule at lock granularity
    (yield points before every acquisition of Database.map / Watchers.map); session 0 watches $connections of d1"""
    out = []
    limit = {"quick": 60, "thorough": 400, "search": 30}[tier]
    lines = ["use-db d1 t1", "use-db d2 t2", "use-db d1 bad", "use-db d1 bob pw", "use d2 t2", "use-db nope t1"]
    progs = [[["use-db d1 t1"], ["use-db d1 t1"]], [["use-db d1 t1", "use-db d2 t2"], ["use-db d1 t1"]],
             [["use-db d2 t2"], ["use-db d1 t1", "use-db d2 t2"]], [["use-db d1 t1"], ["use-db d1 t1"], ["use-db d1 t1"]]]
    for _ in range({"quick": 12, "thorough": 120, "search": 6}[tier]):
        progs.append([[rng.choice(lines) for _ in range(rng.randint(1, 2))] for _ in range(rng.choice([2, 2, 3]))])
    k = 0
    for prog in progs:
        lengths = [4 * len(p) for p in prog]
        for sch in schedgen.all_schedules(lengths, limit, rng):
            ops = [["conn"] for _ in range(len(prog) + 1)]
            ops += [C(0, "auth nun pwd"), C(0, "create-db d1 t1"), C(0, "create-db d2 t2"), C(0, "use-db d1 t1"), C(0, "create-user bob pw"),
                    C(0, "watch $connections")]
            pre = rng.random()
            if pre < 0.3:
                ops.append(C(1, "use-db d2 t2"))          # one of the sessions arrives with a selection
            ops.append(par([(i + 1, p) for i, p in enumerate(prog)], sch))
            ops += [C(0, "get $connections")]
            out.append(("p%d" % k, ["P"], ops)); k += 1
    dist["schedules"] = k
    return out


def sched_oracle(case, io, mo):
    """after the parallel section: every database's counter equals the number of sessions that selected it, its $connections
    key says the same, and the last thing the watcher of d1 was told is that number"""
    fails = []
    obs = split_obs(io)
    pi = next(i for i, op in enumerate(case[2]) if op[0] == "par")
    if pi >= len(obs):
        return [("driver-died", "before the parallel section")]
    reply, inb, q, dump = obs[pi]
    if "PANIC" in reply or reply.startswith("HANG"):
        fails.append(("panic", reply[:200]))
    sel = {}
    for m in SESS_RE.finditer(dump):
        db = m.group(3)
        if db != "-":
            sel[unesc(db)] = sel.get(unesc(db), 0) + 1
    for name in ("d1", "d2"):
        sec = db_section(dump, name)
        if not sec:
            continue
        conn = int(sec.group(3))
        keys = db_keys(dump, name)
        if conn != sel.get(name, 0):
            fails.append(("counter-mismatch", "after the parallel section %s counts %d, %d sessions selected it" % (name, conn, sel.get(name, 0))))
        if "$connections" in keys and keys["$connections"][0] != str(conn):
            fails.append(("key-mismatch", "after the parallel section the $connections key of %s says %s, its counter %d" % (name, keys["$connections"][0], conn)))
    sec = db_section(dump, "d1")
    told = [x for x in inbox_of(inb, 0) if x.startswith("changed $connections ")]
    if sec and told and told[-1] != "changed $connections %s\n" % sec.group(3):
        fails.append(("watcher-missed-change", "the watcher of d1 was last told %r, the counter is %s" % (told[-1], sec.group(3))))
    return fails



def build(seq, http_takes_sid=True):
    """seq: list of abstract events; sessions are numbered from 1 (0 is the admin)"""
    ops = list(SETUP)
    nopen = []      # open session ids
    nxt = 1
    for e in seq:
        if e[0] == "conn":
            ops.append(["conn"]); nopen.append(nxt); nxt += 1
        elif e[0] == "disc":
            if not nopen: continue
            sid = nopen[e[1] % len(nopen)]
            ops.append(["disc", str(sid)]); nopen.remove(sid)
        elif e[0] == "use":
            if not nopen: continue
            sid = nopen[e[1] % len(nopen)]
            ops.append(C(sid, e[2]))
        elif e[0] == "http":
            ops.append(["http", hexs(e[1])])
            if http_takes_sid:
                nxt += 1
        elif e[0] == "other":
            if not nopen: continue
            sid = nopen[e[1] % len(nopen)]
            ops.append(C(sid, e[2]))
    return ops


def gen_cases(tier, seed):
    rng = random.Random(seed)
    cases, dist = [], {"exhaustive": 0, "random": 0, "events": {}}
    cases += sched_cases(tier, random.Random(seed + 3), dist)
    maxlen, nrand = {"quick": (4, 2500), "thorough": (5, 40000), "search": (3, 3000)}[tier]
    al = [("conn",), ("disc", 0), ("disc", 1), ("use", 0, USES[0]), ("use", 0, USES[1]), ("use", 1, USES[0]),
          ("use", 0, USES[2]), ("use", 0, USES[3]), ("http", HTTPS[2]), ("http", HTTPS[3])]
    k = 0
    for L in range(1, maxlen + 1):
        for seq in itertools.product(al, repeat=L):
            if seq[0][0] not in ("conn", "http"):
                continue
            cases.append(("x%d" % k, ["P"], build(seq)))
            k += 1
    dist["exhaustive"] = k
    for i in range(nrand):
        seq = []
        for _ in range(rng.randint(4, 25)):
            r = rng.random()
            if r < 0.2: e = ("conn",)
            elif r < 0.35: e = ("disc", rng.randint(0, 3))
            elif r < 0.7: e = ("use", rng.randint(0, 3), rng.choice(USES))
            elif r < 0.85: e = ("http", rng.choice(HTTPS))
            else: e = ("other", rng.randint(0, 3), rng.choice(OTHER))
            seq.append(e)
            dist["events"][e[0]] = dist["events"].get(e[0], 0) + 1
        cases.append(("r%d" % i, ["P"], build(seq)))
    dist["random"] = nrand
    # the same histories through the real TCP / WebSocket / HTTP listeners: the three transports' own disconnect paths
    nt = {"quick": 400, "thorough": 6000, "search": 300}[tier]
    for i in range(nt):
        seq = []
        for _ in range(rng.randint(3, 14)):
            r = rng.random()
            if r < 0.25: e = ("conn",)
            elif r < 0.45: e = ("disc", rng.randint(0, 3))
            elif r < 0.8: e = ("use", rng.randint(0, 3), rng.choice(USES))
            elif r < 0.9: e = ("http", rng.choice(HTTPS))
            else: e = ("other", rng.randint(0, 3), rng.choice(OTHER))
            seq.append(e)
        if seq[0][0] != "conn":
            seq.insert(0, ("conn",))
        kinds = [rng.choice("tw") for _ in range(8)]
        cases.append(("t%d" % i, ["P"], netfam.to_net(build(seq, http_takes_sid=False), kinds, rng, 0.3)))
    dist["transport"] = nt
    # bursts of sessions on real threads: T threads open and close K sessions each on the same database while one session stays
    # (the model runs them one after the other: theorem C17_conn_back_to_previous says the order does not matter)
    nz = {"quick": 3, "thorough": 12, "search": 2}[tier]
    for i in range(nz):
        t, k = rng.choice([(8, 400), (16, 200), (4, 800)])
        ops = [["conn"], ["conn"], C(0, "auth nun pwd"), C(0, "create-db d1 t1"), C(0, "create-db d2 t2"), C(0, "create-user bob pw"), C(1, "use-db d1 t1")]
        for _ in range(3):
            ops.append(["burst", str(t), str(k), hexs(rng.choice(["use-db d1 t1", "use-db d1 t1", "use d1 t1"]))])
        ops.append(C(1, "use-db d2 t2"))
        ops.append(["burst", str(t), str(k // 2), hexs("use-db d1 t1")])
        cases.append(("z%d" % i, ["P", "d1"], ops))
    dist["bursts_on_real_threads"] = nz
    return cases, dist


SESS_RE = re.compile(r" s(\d+)=([Aa])/([^/ ]+)/([^/ ]+)/(\S+)")


def net_oracle(case, io, mo):
    obs = split_obs(io)
    fails = netfam.transport_failures(case, obs)
    sels = netfam.track_selection(case, obs)
    prev_conn = {}
    for i, op in enumerate(case[2]):
        if i >= len(obs):
            fails.append(("driver-died", "step %d" % i)); break
        reply, inb, q, dump = obs[i]
        if (op[0] == "disc" and reply != "Left") or (op[0] in ("drop", "reset") and reply != "Dropped"):
            fails.append(("disconnect-failed", "step %d: %s" % (i, reply)))
        sel = {}
        for sid, db in sels[i].items():
            sel[db] = sel.get(db, 0) + 1
        for name in ("d1", "d2"):
            sec = db_section(dump, name)
            if not sec:
                continue
            conn = int(sec.group(3))
            want = sel.get(name, 0)
            if conn != want:
                fails.append(("counter-mismatch", "step %d: %s counter %d but %d open sessions selected it" % (i, name, conn, want)))
            keys = db_keys(dump, name)
            if "$connections" in keys and keys["$connections"][0] != str(conn):
                fails.append(("key-mismatch", "step %d: %s $connections key %s but counter %d" % (i, name, keys["$connections"][0], conn)))
            if name == "d1" and i >= len(SETUP) and name in prev_conn and prev_conn[name] != conn:
                got = [x for x in netfam.items_of(inb, 0) if x.startswith("changed $connections ")]
                if not got or got[-1] != "changed $connections %d\n" % conn:
                    fails.append(("watcher-missed-change", "step %d: d1 counter %d -> %d, watcher got %s" % (i, prev_conn[name], conn, got)))
            prev_conn[name] = conn
    return fails


def burst_oracle(case, io, mo):
    fails = []
    lines = [l for l in io["obs"] if l.startswith("B ")]
    if len(lines) != len(case[2]):
        return [("driver-died", "%d of %d steps" % (len(lines), len(case[2])))]
    selected = 0
    for i, (op, l) in enumerate(zip(case[2], lines)):
        if op[0] == "cmd" and op[1] == "1":
            w = line_of(op).split(" ")
            if w[0] in ("use-db", "use"):
                selected = 1 if w[1] == "d1" else 0
        m = re.match(r"^B conn=(-?\d+) key=(\S+)$", l)
        if m and op[0] == "burst":
            if int(m.group(1)) != selected or m.group(2) not in (str(selected),):
                fails.append(("counter-mismatch", "step %d: after a burst of %s threads x %s sessions the counter of d1 is %s and its key %s; %d session is open on it" % (i, op[1], op[2], m.group(1), m.group(2), selected)))
    return fails


def oracle(case, io, mo):
    if case[0].startswith("p"):
        return sched_oracle(case, io, mo)
    if case[0].startswith("z"):
        return burst_oracle(case, io, mo)
    if case[0].startswith("t"):
        return net_oracle(case, io, mo)
    fails = []
    obs = split_obs(io)
    open_s = set()
    nconn = 0
    prev_conn = {}
    for i, op in enumerate(case[2]):
        if i >= len(obs):
            fails.append(("driver-died", "step %d" % i)); break
        reply, inb, q, dump = obs[i]
        if reply == "PANIC":
            fails.append(("panic", "step %d" % i))
        if op[0] == "conn":
            open_s.add(nconn); nconn += 1
        elif op[0] == "disc":
            open_s.discard(int(op[1]))
            if reply != "Left":
                fails.append(("disconnect-failed", "step %d: %s" % (i, reply)))
        elif op[0] == "http":
            nconn += 1          # the HTTP session is closed when the request ends
        sel = {}
        for m in SESS_RE.finditer(dump):
            sid, db = int(m.group(1)), m.group(3)
            if sid in open_s and db != "-":
                sel[unesc(db)] = sel.get(unesc(db), 0) + 1
        for name in ("d1", "d2"):
            sec = db_section(dump, name)
            if not sec:
                continue
            conn = int(sec.group(3))
            want = sel.get(name, 0)
            if conn != want:
                fails.append(("counter-mismatch", "step %d: %s counter %d but %d open sessions selected it" % (i, name, conn, want)))
            keys = db_keys(dump, name)
            if "$connections" in keys and keys["$connections"][0] != str(conn):
                fails.append(("key-mismatch", "step %d: %s $connections key %s but counter %d" % (i, name, keys["$connections"][0], conn)))
            if name == "d1" and i >= len(SETUP) and name in prev_conn and prev_conn[name] != conn:
                got = [x for x in inbox_of(inb, 0) if x.startswith("changed $connections ")]
                if not got or got[-1] != "changed $connections %d\n" % conn:
                    fails.append(("watcher-missed-change", "step %d: d1 counter %d -> %d, watcher got %s" % (i, prev_conn[name], conn, got)))
            prev_conn[name] = conn
    return fails


def nontrivial(case, io):
    if case[0].startswith("z") or case[0].startswith("p"):
        return True
    seen = set()
    for o in split_obs(io)[len(SETUP):]:
        sec = db_section(o[3], "d1")
        if sec:
            seen.add(sec.group(3))
    return len(seen) >= 2
