# One real `nun-db` process with its own snapshot timer (NUN_DECLUTTER_INTERVAL=1: disk_ops::declutter_scheduler ->
# snapshot_all_pendding_dbs every second), driven over TCP.  A case uses the disk driver's format:
#   conn / cmd <sid> <hex> / flush (= wait for the timer to write the pending snapshots) / restart (= SIGKILL, start again)
# Observed: what a freshly started process serves from the directory at the end (every database's live keys).
import os, shutil, subprocess, time
from concurrent.futures import ThreadPoolExecutor
import crash
from crash import _free_ports, esc
from realcluster import Sess
from nodegen import unesc, db_section, db_keys

TICK = 1


def start(binary, d, ports):
    env = dict(os.environ)
    env.update({"NUN_DBS_DIR": d, "NUN_USER": "nun", "NUN_PWD": "pwd", "NUN_LOG_LEVEL": "Off", "RUST_BACKTRACE": "0",
                "NUN_REPLICATE_ADDR": "", "NUN_STORAGE_STRATEGY": "disk", "NUN_DECLUTTER_INTERVAL": str(TICK)})
    tcp, ws, http = ports
    return subprocess.Popen([binary, "start", "--tcp-address", "127.0.0.1:%d" % tcp, "--ws-address", "127.0.0.1:%d" % ws,
                             "--http-address", "127.0.0.1:%d" % http], stdout=subprocess.DEVNULL, stderr=subprocess.DEVNULL, env=env, cwd=d)


def run_case(case, binary, wd):
    cid, hdr, ops = case
    shutil.rmtree(wd, ignore_errors=True)
    d = os.path.join(wd, "dbs")
    os.makedirs(d, exist_ok=True)
    toks = crash.tokens_of(ops)
    obs = []
    ports = _free_ports(3)
    p = start(binary, d, ports)
    sessions, nconn = {}, 0
    try:
        time.sleep(1.3)         # the node is a primary one second after its start
        for op in ops:
            if op[0] == "conn":
                sessions[nconn] = Sess(ports[0]); nconn += 1
            elif op[0] == "cmd":
                out, st = sessions[int(op[1])].cmd(bytes.fromhex(op[2][1:]).decode("utf-8"))
                if st == "EOF":
                    obs.append("CONNECTION-LOST"); break
            elif op[0] == "flush":
                time.sleep(2.3 * TICK)      # at least one tick of the timer after the snapshot command, and time to write
            elif op[0] == "restart":
                for s in sessions.values():
                    try:
                        s.s.close()
                    except Exception:
                        pass
                sessions, nconn = {}, 0
                p.kill(); p.wait()
                p = start(binary, d, ports)
                time.sleep(1.3)
                if p.poll() is not None:
                    obs.append("START PANIC"); break
            else:
                obs.append("UNSUPPORTED-OP %s" % op[0]); break
        p.kill(); p.wait()
        obs.append("V" + crash.bin_view(binary, d, toks))
    except Exception as e:
        obs.append("ORCHESTRATOR-ERROR %r" % (e,))
    finally:
        try:
            p.kill(); p.wait()
        except Exception:
            pass
        shutil.rmtree(wd, ignore_errors=True)
    return {"obs": obs, "aux": []}


def run_cases(cases, binary, rundir, workers=12):
    impl, errs = {}, []
    with ThreadPoolExecutor(max_workers=workers) as ex:
        for c, r in zip(cases, ex.map(lambda c: run_case(c, binary, os.path.join(rundir, "rd_" + c[0])), cases)):
            impl[c[0]] = r
            errs += ["case %s: %s" % (c[0], l) for l in r["obs"] if l.startswith("ORCHESTRATOR-ERROR")]
    return impl, errs


def with_load_orders(case):
    """the model's restart wants the databases found on disk (the directory order is an oracle of the in-process driver):
    a database has files once a snapshot naming it was flushed while it existed"""
    cid, hdr, ops = case
    exists, on_disk, pending, out = set(), set(), [], []
    for op in ops:
        if op[0] == "cmd":
            w = bytes.fromhex(op[2][1:]).decode("utf-8", "replace").split(" ")
            if w[0] == "create-db" and len(w) >= 3:
                exists.add(w[1])
            elif w[0] == "snapshot" and len(w) >= 3:
                pending += [d for d in w[2].split("|") if d in exists]
            out.append(op)
        elif op[0] == "flush":
            on_disk |= set(pending); pending = []
            out.append(op)
        elif op[0] == "restart":
            out.append(["restart"] + ["x" + d.encode().hex() for d in sorted(on_disk)])
            exists, pending = set(on_disk), []
        else:
            out.append(op)
    return (cid, hdr, out)


def reduce_model(case, obs):
    """the disk driver's dump after the last restart, in the notation of crash.bin_view"""
    toks = crash.tokens_of(case[2])
    dumps = [l for l in obs if l.startswith("D ")]
    if not dumps:
        return ["NO-DUMP"]
    return ["V" + crash.mirror_view(dumps[-1], toks)]
