# C09 -- every command acts only with the credential it requires
import itertools, random, re
from nodegen import *

ID = "C09"
DRIVER = "node"
MODEL_FILES = ["Model/Base.v", "Model/Parse.v", "Model/Node.v"]
THEOREMS = ["C09_admin_rq_inert", "C09_admin_line_inert", "C09_secure_user_cmds_inert", "C09_data_needs_db", "C09_failed_usedb_keeps_selection", "C09_has_permission_spec", "C09_user_denied", "C09_get_served", "C09_no_list_no_value", "C09_empty_text_grants_nothing", "C09_tombstone_list_denies", "C09_absent_list_denies", "C09_remove_list_revokes", "C09_remove_list_revokes_persisted", "C09_revocation_immediate", "C09_all_remove_new_opens", "C09_all_remove_persisted_closes", "C09_revoke_example"]
STRENGTH = {t: "proof-unbounded" for t in THEOREMS}
RULE = ("the matrix {no auth, wrong password, database token, wrong token, user token} x every command word (0-4 arguments) x "
        "permission lists built from subsets of {r,w,i,x} with prefix*/ *suffix / contains patterns x matching and non-matching keys, "
        "with permission changes made mid-session; random draws from the matrix, the quick tier covering every command word under "
        "every credential at least once; distinct = distinct canonical trace; non-trivial = the probed command was refused under one "
        "credential and served under another (counted per command word)")
ASSUMPTIONS = ["permission kind letters are ASCII", "single node; cluster commands only queue messages for the supervisor/replication threads"]
TRUSTED = []

ADMIN_CMDS = ["create-db x t", "snapshot false", "snapshot true d1", "replicate-snapshot d1", "join n2:3014", "leave n2:3014", "replicate-leave n2",
              "replicate-join n2", "set-primary n2", "set-secoundary n2", "election win", "election candidate 5 n2", "election active n2",
              "election foo", "replicate d1 k -1 v", "replicate-remove d1 a", "replicate-increment d1 c 2", "replicate-since n2 0", "ack 5 n2",
              "cluster-state", "metrics-state", "debug list-dbs", "debug pending-ops", "debug force-election", "debug process-info",
              "debug pendding-conflitcts", "list-commands", "rp 7 set a hacked", "rp 7 get a", "create-user eve pw", "set-permissions bob rwix *"]
DATA_CMDS = [("get %s", "r"), ("get-safe %s", "r"), ("watch %s", "r"), ("set %s v", "w"), ("set-safe %s 0 v", "w"), ("set-safe %s 99 v", "w"),
             ("increment %s", "i"), ("increment %s 3", "i"), ("remove %s", "x"), ("resolve 5 d1 %s 3 v", "w")]
KEYS = ["a", "ab", "ba", "xay", "b", "$$s", "$s"]
PATTERNS = ["a*", "*a", "a", "*", "b", "ab"]
KINDSETS = ["r", "w", "i", "x", "rw", "ix", "rwix", "wi", "rx", "z"]


def allowed(perms, kind, key):
    """perms: list of (kinds, [patterns]) as stored; None = no list"""
    for kinds, pats in perms:
        ks = set(c if c in "rwix" else "r" for c in kinds)
        if kind in ks and any(pattern_match(key, p) for p in pats):
            return True
    return False


def gen_cases(tier, seed):
    rng = random.Random(seed)
    cases, dist = [], {"cases": 0, "cred": {}, "admin_cmds": 0, "data_cmds": 0}
    n = {"quick": 2500, "thorough": 40000, "search": 3000}[tier]
    setup = [["conn"], ["conn"], C(0, "auth nun pwd"), C(0, "create-db d1 tok1"), C(0, "create-db d2 tok2"), C(0, "use-db d1 tok1"),
             C(0, "set a 1"), C(0, "set ab 2"), C(0, "set ba 3"), C(0, "set xay 4"), C(0, "set b 5"), C(0, "set $s 6"), C(0, "set $$s 7"),
             C(0, "create-user bob pw")]
    creds = ["none", "badpwd", "dbtoken", "badtoken", "user", "user-nolist", "user-all"]
    # deterministic sweep: every admin command under every non-admin credential
    idx = 0
    sweep = [(c, a) for c in creds for a in ADMIN_CMDS]
    for j in range(n):
        ops = list(setup)
        perms = None
        if j < len(sweep):
            cred, probe = sweep[j]
            probes = [probe]
        else:
            cred = rng.choice(creds)
            probes = []
        meta = {"cred": cred}
        if cred == "badpwd":
            # wrong in every way a comparison can get wrong: another word, a prefix, an extension, the empty word, another case,
            # and the same for the user name
            ops.append(C(1, rng.choice(["auth nun wrong", "auth nun pw", "auth nun p", "auth nun pwdx", "auth nun pwd pwd", "auth nun ", "auth nun PWD",
                                        "auth nu pwd", "auth nunx pwd", "auth  pwd", "auth pwd nun", "auth nun"])))
        elif cred == "dbtoken":
            ops.append(C(1, "use-db d1 tok1"))
        elif cred == "badtoken":
            ops.append(C(1, "use-db d1 nope"))
        elif cred == "user":
            perms = [(rng.choice(KINDSETS), [rng.choice(PATTERNS) for _ in range(rng.randint(1, 2))]) for _ in range(rng.randint(1, 2))]
            ops.append(C(0, "set-permissions bob " + "|".join("%s %s" % (k, ",".join(p)) for k, p in perms)))
            ops.append(C(1, "use-db d1 bob pw"))
        elif cred == "user-nolist":
            ops.append(C(1, "use-db d1 bob pw"))
        elif cred == "user-all":
            ops.append(C(0, "create-user all pw2"))
            ops.append(C(1, "use-db d1 all pw2"))
        dist["cred"][cred] = dist["cred"].get(cred, 0) + 1
        for p in probes:
            ops.append(C(1, p)); dist["admin_cmds"] += 1
        for _ in range(rng.randint(3, 10)):
            r = rng.random()
            if r < 0.25:
                ops.append(C(1, rng.choice(ADMIN_CMDS))); dist["admin_cmds"] += 1
            elif r < 0.85:
                t, kind = rng.choice(DATA_CMDS)
                ops.append(C(1, t % rng.choice(KEYS))); dist["data_cmds"] += 1
            elif r < 0.9 and cred == "user":
                if rng.random() < 0.35:
                    # the administrator revokes the list (removes the stored key) before granting another one: the session stays open
                    if rng.random() < 0.5:
                        # the list has reached the disk: removing it leaves a tombstone in memory instead of dropping the key
                        ops += [C(0, "snapshot false d1"), ["flush"]]; dist["revocations_after_snapshot"] = dist.get("revocations_after_snapshot", 0) + 1
                    ops.append(C(0, "remove $$permission_$bob")); dist["revocations"] = dist.get("revocations", 0) + 1
                    for _ in range(rng.randint(0, 3)):
                        t, kind = rng.choice(DATA_CMDS)
                        ops.append(C(1, t % rng.choice(KEYS))); dist["data_cmds"] += 1
                perms = [(rng.choice(KINDSETS), [rng.choice(PATTERNS)])]
                ops.append(C(0, "set-permissions bob " + "|".join("%s %s" % (k, ",".join(p)) for k, p in perms)))
            elif r < 0.95:
                ops.append(C(1, rng.choice(["use-db d2 bad", "use-db nope tok1", "use-db d1 bob bad", "keys", "keys a*", "unwatch a", "unwatch-all", "arbiter"])))
            else:
                ops.append(C(1, rng.choice(["use-db d2 tok2", "use-db d1 tok1"])))
        cases.append(("m%d" % j, ["P"], ops))
    dist["cases"] = n
    return cases, dist


SESS1 = re.compile(r" s1=([Aa])/([^/ ]+)/([^/ ]+)/")


def oracle(case, io, mo):
    fails = []
    obs = split_obs(io)
    prev_dump = None
    perms = None           # bob's stored list
    for i, op in enumerate(case[2]):
        if i >= len(obs):
            fails.append(("driver-died", "step %d" % i)); break
        reply, inb, q, dump = obs[i]
        if reply == "PANIC":
            fails.append(("panic", "step %d: %s" % (i, line_of(op))))
        if op[0] != "cmd":
            prev_dump = dump; continue
        sid = int(op[1]); line = line_of(op); w = line.split(" ")
        if sid == 0 and w[0] == "set-permissions" and reply == "Ok":
            perms = []
            for part in line.split(" ", 2)[2].split("|"):
                pp = part.split(" ", 1)
                perms.append((pp[0], pp[1].split(",") if len(pp) > 1 else []))
        if sid == 0 and line == "remove $$permission_$bob" and reply == "Ok":
            perms = None
        if sid == 1 and w[0] == "auth":
            # the session is an administrator's afterwards exactly when it presented the administrator's name and password
            m1 = SESS1.search(dump)
            was = SESS1.search(prev_dump or "")
            was_auth = bool(was and was.group(1) == "A")
            now_auth = bool(m1 and m1.group(1) == "A")
            if now_auth and not was_auth and line != "auth %s %s" % (USER, PWD):
                fails.append(("auth-bypass", "step %d: '%s' made the session an administrator's" % (i, line)))
        if sid != 1:
            prev_dump = dump; continue
        m = SESS1.search(prev_dump or "")
        auth = m.group(1) == "A" if m else False
        seldb = None if (not m or m.group(2) == "-") else unesc(m.group(2))
        user = None if (not m or m.group(3) == "-") else unesc(m.group(3))
        quiet = (q == "repl=[] sup=[]")
        unchanged = (dump == prev_dump)
        cmdline = " ".join(w)
        is_admin_cmd = any(cmdline == a for a in ADMIN_CMDS) and w[0] not in ("create-user", "set-permissions")
        if is_admin_cmd and not auth:
            if not (reply == "Error Not{20}auth" and unchanged and quiet and inb == "-"):
                fails.append(("admin-cmd-without-auth", "step %d: '%s' from an unauthenticated session: %s | %s | %s | state %s" % (i, line, reply, inb, q, "unchanged" if unchanged else "CHANGED")))
        if w[0] in ("create-user", "set-permissions") and not auth:
            if not (reply.startswith("Error") and unchanged and quiet):
                fails.append(("user-mgmt-without-auth", "step %d: '%s': %s" % (i, line, reply)))
        data = None
        for t, kind in DATA_CMDS:
            pat = "^" + re.escape(t).replace("%s", r"(\S+)") + "$"
            mm = re.match(pat, cmdline)
            if mm:
                data = (kind, mm.group(1)); break
        if data and not auth:
            kind, key = data
            served = not reply.startswith("Error") and not reply.startswith("VersionError")
            is_resolve = w[0] == "resolve"
            if seldb is None:
                if not unchanged or not quiet:
                    fails.append(("data-cmd-without-db", "step %d: '%s' with no database selected changed the node: %s" % (i, line, reply)))
                if served and not is_resolve:
                    fails.append(("data-cmd-without-db", "step %d: '%s' served without a database: %s" % (i, line, reply)))
            elif key.startswith("$$"):
                if (served and not is_resolve) or not unchanged or not quiet:
                    fails.append(("secure-key-touched", "step %d: '%s': %s" % (i, line, reply)))
            elif user is not None and user != "all":
                ok = seldb == "d1" and user == "bob" and perms is not None and allowed(perms, kind, key)   # lists are per database and per user
                denied = "permission{20}denied" in reply or (is_resolve and "permission{20}denied" in inb)
                if not ok:
                    if not denied or not unchanged or not quiet:
                        fails.append(("permission-bypass", "step %d: user %s list %s: '%s' -> %s (state %s)" % (i, user, perms, line, reply, "unchanged" if unchanged else "CHANGED")))
                else:
                    if denied:
                        fails.append(("permission-refused", "step %d: user %s list %s: '%s' -> %s" % (i, user, perms, line, reply)))
        if w[0] in ("use-db", "use") and reply.startswith("Error"):
            m2 = SESS1.search(dump)
            if m and m2 and (m.group(2), m.group(3)) != (m2.group(2), m2.group(3)):
                fails.append(("failed-usedb-changed-selection", "step %d" % i))
            if not unchanged:
                fails.append(("failed-usedb-changed-state", "step %d" % i))
        prev_dump = dump
    return fails


def nontrivial(case, io):
    obs = split_obs(io)
    return any("Not{20}auth" in o[0] or "permission{20}denied" in o[0] for o in obs) and any(o[0] in ("Ok",) or o[0].startswith("Value") for o in obs[14:])
