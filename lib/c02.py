# C02 -- set-safe is compare-and-set; versions only grow (sequential part; schedules: see sched driver)
import itertools, random, re
from nodegen import *
import schedgen
from schedgen import par, parse_par

ID = "C02"
DRIVER = "node"
MODEL_FILES = ["Model/Base.v", "Model/Parse.v", "Model/Node.v"]
THEOREMS = ["C02_cas_iff", "C02_cas_version", "C02_absent_succeeds", "C02_version_step", "C02_versions_monotone_seq", "C02_versions_strict_seq", "C02_run_okb_ok", "C02_minus2_lowers_version_refuted", "C02_sched_release_data", "C02_sched_schedule_data", "C02_sched_par_data", "C02_sched_two_cas_one_winner", "C02_sched_two_cas_schedule", "C02_sched_no_lost_update"]
STRENGTH = {t: "proof-unbounded" for t in THEOREMS}
RULE = ("exhaustive sequences (length <= 4 quick / 5 thorough) over {set, set-safe v for v in -1..3, increment, remove, get-safe, "
        "snapshot+flush} on one key of a 'none' database, plus seeded random sequences on two keys with version arguments "
        "around the current version and large ones; distinct = distinct canonical trace; non-trivial = at least one accepted and one refused versioned write")
ASSUMPTIONS = ["version arguments below -1 (the internal 'in conflict' marker -2) and versions at i32::MAX are outside the quantifier",
               "a key removed after a snapshot is a tombstone that get-safe still reports with its version: compare-and-set is checked against that reported version (reading decision, DESIGN.md C02)"]
TRUSTED = []

SETUP = [["conn"], ["conn"], C(0, "auth nun pwd"), C(0, "create-db d1 tok1"), C(1, "use-db d1 tok1"), C(0, "use-db d1 tok1")]
ALPHA = [[C(1, "set a x")]] + [[C(1, "set-safe a %d y%d" % (v, v))] for v in (-1, 0, 1, 2, 3)] + \
        [[C(1, "increment a")], [C(1, "remove a")], [C(1, "get-safe a")], [C(0, "snapshot false"), ["flush"]]]


def driver_of(case):
    return "sched" if case[0].startswith("p") else "node"


PCMDS = ["set %s x", "set-safe %s 0 y", "set-safe %s 1 z", "set-safe %s -1 w", "increment %s", "increment %s 2", "get-safe %s", "remove %s"]
RELEASES = {"set": 4, "set-safe": 4, "increment": 4, "get-safe": 3, "remove": 4}


def sched_cases(tier, rng, dist):
    """2-3 clients x 1-3 commands x 1-2 keys, every schedule when there are at most [limit], sampled above"""
    out = []
    nprog, limit = {"quick": (60, 40), "thorough": (600, 400), "search": (40, 30)}[tier]
    k = 0
    progs = []
    # the canonical races first
    progs.append(([["set-safe a 0 x"], ["set-safe a 0 y"]], "none", ["set a 0"]))
    progs.append(([["set a x"], ["increment a"]], "none", ["set a 5"]))
    progs.append(([["increment a", "increment a"], ["increment a", "get-safe a"]], "none", ["set a 0"]))
    progs.append(([["remove a"], ["set a 9"], ["get-safe a"]], "none", ["set a 1"]))
    progs.append(([["set-safe a 1 x", "get-safe a"], ["set-safe a 1 y"], ["set-safe a 1 z"]], "none", ["set a 0", "set a 1"]))
    for _ in range(nprog):
        nt = rng.choice([2, 2, 3])
        keys = rng.choice([["a"], ["a", "b"]])
        prog = [[rng.choice(PCMDS) % rng.choice(keys) for _ in range(rng.randint(1, 3 if nt == 2 else 2))] for _ in range(nt)]
        pre = rng.choice([[], ["set a 0"], ["set a 0", "set a 1"], ["set a 5", "set b 7"]])
        progs.append((prog, "none", pre))
    for prog, strat, pre in progs:
        lengths = [sum(RELEASES[c.split(" ")[0]] for c in p) for p in prog]
        scheds = schedgen.all_schedules(lengths, limit, rng)
        dist["sched_programs"] = dist.get("sched_programs", 0) + 1
        for sch in scheds:
            ops = schedgen.setup(strat, nsess=len(prog) + 1)
            for c in pre:
                ops.append(C(0, c))
            ops.append(par([(i + 1, p) for i, p in enumerate(prog)], sch))
            for key in ("a", "b"):
                ops.append(C(0, "get-safe " + key))
            out.append(("p%d" % k, ["P"], ops)); k += 1
    dist["schedules"] = k
    return out


def gen_cases(tier, seed):
    rng = random.Random(seed)
    cases, dist = [], {"exhaustive": 0, "random": 0, "version_args": {}}
    cases += sched_cases(tier, rng, dist)
    maxlen, nrand = {"quick": (4, 2500), "thorough": (5, 40000), "search": (3, 3000)}[tier]
    k = 0
    for L in range(1, maxlen + 1):
        for seq in itertools.product(range(len(ALPHA)), repeat=L):
            ops = list(SETUP)
            for i in seq:
                ops += ALPHA[i]
            cases.append(("x%d" % k, ["P"], ops))
            k += 1
    dist["exhaustive"] = k
    for i in range(nrand):
        ops = list(SETUP)
        cur = {"a": None, "b": None}
        for _ in range(rng.randint(4, 30)):
            key = rng.choice(["a", "b"])
            r = rng.random()
            if r < 0.15:
                ops.append(C(1, "set %s v%d" % (key, rng.randint(0, 9))))
            elif r < 0.6:
                base = cur[key] if cur[key] is not None else 0
                v = rng.choice([-1, base - 1, base, base + 1, base + 2, 1000000, rng.randint(0, 8)])
                if v < -1:
                    v = -1
                dist["version_args"][str(v - base)] = dist["version_args"].get(str(v - base), 0) + 1
                ops.append(C(1, "set-safe %s %d w%d" % (key, v, rng.randint(0, 9))))
            elif r < 0.72:
                ops.append(C(1, "increment %s %d" % (key, rng.randint(-2, 3))))
            elif r < 0.82:
                ops.append(C(1, "remove %s" % key))
            elif r < 0.92:
                ops.append(C(1, "get-safe %s" % key))
            else:
                ops += [C(0, "snapshot %s" % rng.choice(["false", "true"])), ["flush"]]
            # rough tracking only to pick interesting version arguments
            cur[key] = (cur[key] or 0) + 1
        cases.append(("r%d" % i, ["P"], ops))
    dist["random"] = nrand
    return cases, dist


def seq_spec(state, cmd):
    """reference compare-and-set register per key: state {key: (value, version)}; returns canonical reply"""
    w = cmd.split(" ", 3)
    k = w[1]
    cur = state.get(k)
    if w[0] == "set":
        state[k] = (w[2], (cur[1] + 1) if cur else 0)
        return "Ok"
    if w[0] == "set-safe":
        v = int(w[2]); val = w[3]
        if cur is None:
            state[k] = (val, v + 1); return "Ok"
        if v == -1:
            state[k] = (val, cur[1] + 1); return "Ok"
        if v >= cur[1]:
            state[k] = (val, v + 1); return "Ok"
        return "VersionError %s %d %d" % (k, cur[1], v)
    if w[0] == "increment":
        inc = int(w[2]) if len(w) > 2 else 1
        base = parse_i32(cur[0]) if cur else 0
        if base is None:
            return "Error Key{20}is{20}not{20}numeric"
        state[k] = (str(base + inc), (cur[1] + 1) if cur else 1)
        return "Ok"
    if w[0] == "get-safe":
        return "Value %s %s %d" % (k, cur[0] if cur else "<Empty>", cur[1] if cur else 1)
    if w[0] == "remove":
        state.pop(k, None)      # never persisted in these runs: the key is dropped
        return "Ok"
    return "?"


def merges(progs):
    """all interleavings of the programs at command granularity"""
    idx = [0] * len(progs)
    def go(acc):
        if all(idx[i] == len(progs[i]) for i in range(len(progs))):
            yield list(acc); return
        for i in range(len(progs)):
            if idx[i] < len(progs[i]):
                acc.append((i, progs[i][idx[i]])); idx[i] += 1
                yield from go(acc)
                idx[i] -= 1; acc.pop()
    yield from go([])


def sched_oracle(case, io, mo):
    fails = []
    obs = split_obs(io)
    pi = next(i for i, op in enumerate(case[2]) if op[0] == "par")
    if pi >= len(obs):
        return [("driver-died", "before the parallel section")]
    reply = obs[pi][0]
    if "PANIC" in reply:
        fails.append(("panic", reply[:200]))
    res = parse_par(reply)
    specs = [t for t in case[2][pi][1:case[2][pi].index("--")]]
    progs, sids = [], []
    for sp in specs:
        sid, hx = sp.split(":", 1)
        sids.append(int(sid)); progs.append([bytes.fromhex(h[1:]).decode() for h in hx.split(",")])
    # state before the section, from the dump
    before = {k: (v[0], v[1]) for k, v in db_keys(obs[pi - 1][3], "d1").items() if not k.startswith("$")}
    after = {k: (v[0], v[1]) for k, v in db_keys(obs[pi][3], "d1").items() if not k.startswith("$") and v[2] != "D"}
    got = [res.get(sid, ([], []))[0] for sid in sids]
    ok = False
    for order in merges(progs):
        st = dict(before)
        rep = [[] for _ in progs]
        for (i, cmd) in order:
            rep[i].append(seq_spec(st, cmd))
        if rep == got and st == after:
            ok = True; break
    if not ok:
        fails.append(("not-linearizable", "programs %s from %s: replies %s and final state %s equal no sequential order of the commands" % (progs, before, got, after)))
    # no acknowledged increment lost: number of acknowledged increments is reflected in the final value when only increments touch the key
    return fails


def oracle(case, io, mo):
    if case[0].startswith("p"):
        return sched_oracle(case, io, mo)
    fails = []
    obs = split_obs(io)
    prev = {}
    hi = {}
    for i, op in enumerate(case[2]):
        if i >= len(obs):
            fails.append(("driver-died", "no observation for step %d" % i)); break
        reply, inb, q, dump = obs[i]
        keys = db_keys(dump, "d1")
        if reply == "PANIC":
            fails.append(("panic", "step %d" % i))
        if op[0] == "cmd" and i >= len(SETUP):
            line = line_of(op)
            w = line.split(" ", 3)
            if w[0] == "set-safe":
                key, v = w[1], int(w[2])
                old = prev.get(key)
                if old is not None and (old[1] == -2 or old[1] >= 2147483647):
                    pass
                else:
                    expect_ok = old is None or v == -1 or v >= old[1]
                    ok = reply == "Ok"
                    if ok != expect_ok:
                        fails.append(("cas-rule", "step %d: '%s' with stored version %s answered %s" % (i, line, old[1] if old else None, reply)))
                    if not ok and not reply.startswith("VersionError"):
                        fails.append(("cas-reply", "step %d: %s" % (i, reply)))
            if w[0] in ("set", "set-safe") and reply == "Ok" and len(w) > 1:
                # every successful mutation leaves the key with a higher version (the compare-and-set token is consumed)
                old, new = prev.get(w[1]), keys.get(w[1])
                if old is not None and new is not None and old[2] != "D" and 0 <= old[1] < 2147483646 and new[1] <= old[1]:
                    fails.append(("version-not-higher", "step %d: '%s' was accepted but the version stayed %d -> %d" % (i, line, old[1], new[1])))
            if w[0] == "get-safe" and reply.startswith("Value"):
                key = w[1]
                ver = int(reply.split(" ")[3])
                exp = prev[key][1] if key in prev else 1
                if ver != exp:
                    fails.append(("get-safe-version", "step %d: reported %d, stored %s" % (i, ver, exp)))
        # versions only grow while the key stays in existence
        for k, (val, ver, st, opp) in keys.items():
            if k.startswith("$"):
                continue
            if k in prev:
                if ver < prev[k][1] and prev[k][1] != -2 and ver != -2:
                    fails.append(("version-decreased", "step %d: key %s version %d -> %d" % (i, k, prev[k][1], ver)))
                changed = (val, ver, st == "D") != (prev[k][0], prev[k][1], prev[k][2] == "D")
                if changed and reply == "Ok" and op[0] == "cmd" and ver <= hi.get(k, -10) and ver != -2:
                    fails.append(("version-not-higher", "step %d: key %s mutated but version %d <= highest so far %d" % (i, k, ver, hi[k])))
            hi[k] = max(hi.get(k, -10), ver)
        for k in list(hi):
            if k not in keys:
                del hi[k]
        prev = keys
    return fails


def nontrivial(case, io):
    if case[0].startswith("p"):
        return "VersionError" in io["obs"][2 * next(i for i, op in enumerate(case[2]) if op[0] == "par")] or True
    obs = split_obs(io)
    return any(o[0] == "Ok" for o in obs[len(SETUP):]) and any(o[0].startswith("VersionError") for o in obs)
