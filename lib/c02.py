# C02 -- set-safe is compare-and-set; versions only grow (sequential part; schedules: see sched driver)
import itertools, random, re
from nodegen import *

ID = "C02"
DRIVER = "node"
MODEL_FILES = ["Model/Base.v", "Model/Parse.v", "Model/Node.v"]
THEOREMS = ["C02_cas_iff", "C02_cas_version", "C02_absent_succeeds", "C02_version_step", "C02_versions_monotone_seq", "C02_versions_strict_seq", "C02_run_okb_ok", "C02_minus2_lowers_version_refuted"]
STRENGTH = {t: "proof-unbounded" for t in THEOREMS}
RULE = ("exhaustive sequences (length <= 4 quick / 5 thorough) over {set, set-safe v for v in -1..3, increment, remove, get-safe, "
        "snapshot+flush} on one key of a 'none' database, plus seeded random sequences on two keys with version arguments "
        "around the current version and large ones; distinct = distinct canonical trace; non-trivial = at least one accepted and one refused versioned write")
ASSUMPTIONS = ["version arguments below -1 (the internal 'in conflict' marker -2) and versions at i32::MAX are outside the quantifier",
               "a key removed after a snapshot is a tombstone that get-safe still reports with its version: compare-and-set is checked against that reported version (reading decision, DESIGN.md C02)"]
TRUSTED = []

SETUP = [["conn"], ["conn"], C(0, "auth nun pwd"), C(0, "create-db d1 tok1"), C(1, "use-db d1 tok1"), C(0, "use-db d1 tok1")]
ALPHA = [[C(1, "set a x")]] + [[C(1, "set-safe a %d y%d" % (v, v))] for v in (-1, 0, 1, 2, 3)] + \
        [[C(1, "increment a")], [C(1, "remove a")], [C(1, "get-safe a")], [C(0, "snapshot false"), ["flush"]]]


def gen_cases(tier, seed):
    rng = random.Random(seed)
    cases, dist = [], {"exhaustive": 0, "random": 0, "version_args": {}}
    maxlen, nrand = {"quick": (4, 2500), "thorough": (5, 40000), "search": (3, 3000)}[tier]
    k = 0
    for L in range(1, maxlen + 1):
        for seq in itertools.product(range(len(ALPHA)), repeat=L):
            ops = list(SETUP)
            for i in seq:
                ops += ALPHA[i]
            cases.append(("x%d" % k, ["P"], ops))
            k += 1
    dist["exhaustive"] = k
    for i in range(nrand):
        ops = list(SETUP)
        cur = {"a": None, "b": None}
        for _ in range(rng.randint(4, 30)):
            key = rng.choice(["a", "b"])
            r = rng.random()
            if r < 0.15:
                ops.append(C(1, "set %s v%d" % (key, rng.randint(0, 9))))
            elif r < 0.6:
                base = cur[key] if cur[key] is not None else 0
                v = rng.choice([-1, base - 1, base, base + 1, base + 2, 1000000, rng.randint(0, 8)])
                if v < -1:
                    v = -1
                dist["version_args"][str(v - base)] = dist["version_args"].get(str(v - base), 0) + 1
                ops.append(C(1, "set-safe %s %d w%d" % (key, v, rng.randint(0, 9))))
            elif r < 0.72:
                ops.append(C(1, "increment %s %d" % (key, rng.randint(-2, 3))))
            elif r < 0.82:
                ops.append(C(1, "remove %s" % key))
            elif r < 0.92:
                ops.append(C(1, "get-safe %s" % key))
            else:
                ops += [C(0, "snapshot %s" % rng.choice(["false", "true"])), ["flush"]]
            # rough tracking only to pick interesting version arguments
            cur[key] = (cur[key] or 0) + 1
        cases.append(("r%d" % i, ["P"], ops))
    dist["random"] = nrand
    return cases, dist


def oracle(case, io, mo):
    fails = []
    obs = split_obs(io)
    prev = {}
    hi = {}
    for i, op in enumerate(case[2]):
        if i >= len(obs):
            fails.append(("driver-died", "no observation for step %d" % i)); break
        reply, inb, q, dump = obs[i]
        keys = db_keys(dump, "d1")
        if reply == "PANIC":
            fails.append(("panic", "step %d" % i))
        if op[0] == "cmd" and i >= len(SETUP):
            line = line_of(op)
            w = line.split(" ", 3)
            if w[0] == "set-safe":
                key, v = w[1], int(w[2])
                old = prev.get(key)
                if old is not None and (old[1] == -2 or old[1] >= 2147483647):
                    pass
                else:
                    expect_ok = old is None or v == -1 or v >= old[1]
                    ok = reply == "Ok"
                    if ok != expect_ok:
                        fails.append(("cas-rule", "step %d: '%s' with stored version %s answered %s" % (i, line, old[1] if old else None, reply)))
                    if not ok and not reply.startswith("VersionError"):
                        fails.append(("cas-reply", "step %d: %s" % (i, reply)))
            if w[0] == "get-safe" and reply.startswith("Value"):
                key = w[1]
                ver = int(reply.split(" ")[3])
                exp = prev[key][1] if key in prev else 1
                if ver != exp:
                    fails.append(("get-safe-version", "step %d: reported %d, stored %s" % (i, ver, exp)))
        # versions only grow while the key stays in existence
        for k, (val, ver, st, opp) in keys.items():
            if k.startswith("$"):
                continue
            if k in prev:
                if ver < prev[k][1] and prev[k][1] != -2 and ver != -2:
                    fails.append(("version-decreased", "step %d: key %s version %d -> %d" % (i, k, prev[k][1], ver)))
                changed = (val, ver, st == "D") != (prev[k][0], prev[k][1], prev[k][2] == "D")
                if changed and reply == "Ok" and op[0] == "cmd" and ver <= hi.get(k, -10) and ver != -2:
                    fails.append(("version-not-higher", "step %d: key %s mutated but version %d <= highest so far %d" % (i, k, ver, hi[k])))
            hi[k] = max(hi.get(k, -10), ver)
        for k in list(hi):
            if k not in keys:
                del hi[k]
        prev = keys
    return fails


def nontrivial(case, io):
    obs = split_obs(io)
    return any(o[0] == "Ok" for o in obs[len(SETUP):]) and any(o[0].startswith("VersionError") for o in obs)
