# Shared machinery for ./check: Coq build + audit, harness/model build, sharded
# differential execution, verdicts, evidence.
import os, sys, re, json, time, subprocess, hashlib, fcntl, shutil, random
from concurrent.futures import ThreadPoolExecutor

VERIF = os.path.dirname(os.path.dirname(os.path.abspath(__file__)))
REPO = os.environ.get("VERIF_REPO", "/repo")
CACHE = os.path.join(VERIF, ".cache")
COQ = os.path.join(VERIF, "coq")
TARGET = os.path.join(CACHE, "target")
MODELRUN_DIR = os.path.join(VERIF, "modelrun")
GEN = os.path.join(MODELRUN_DIR, "gen")
MODELRUN = os.path.join(MODELRUN_DIR, "modelrun")
GUARD = "nundb_verif"
NCPU = os.cpu_count() or 4

ALLOWED_AXIOMS = {
    # standard-library axioms that may appear; each is reported in evidence by name
    "functional_extensionality_dep", "proof_irrelevance", "classic",
    "Eqdep.Eq_rect_eq.eq_rect_eq", "JMeq_eq", "propositional_extensionality",
}

FORBIDDEN = re.compile(
    r"\b(Admitted|admit|Axiom|Axioms|Parameter|Parameters|Conjecture|Conjectures|"
    r"Unset\s+Guard|bypass_check|Unset\s+Positivity|Unset\s+Universe|type-in-type|"
    r"impredicative-set|Admit\s+Obligations|native_compute)\b")


def sh(cmd, cwd=None, timeout=None, env=None, check=False):
    p = subprocess.run(cmd, cwd=cwd, shell=isinstance(cmd, str), stdout=subprocess.PIPE,
                       stderr=subprocess.STDOUT, timeout=timeout, env=env)
    out = p.stdout.decode("utf-8", "replace")
    if check and p.returncode != 0:
        raise RuntimeError("command failed: %s\n%s" % (cmd, out[-4000:]))
    return p.returncode, out


class Lock:
    def __init__(self, name):
        os.makedirs(CACHE, exist_ok=True)
        self.path = os.path.join(CACHE, name + ".lock")

    def __enter__(self):
        self.f = open(self.path, "w")
        fcntl.flock(self.f, fcntl.LOCK_EX)
        return self

    def __exit__(self, *a):
        fcntl.flock(self.f, fcntl.LOCK_UN)
        self.f.close()


# ---------------------------------------------------------------- Coq ----
def coq_sources():
    out = []
    for root, _, files in os.walk(COQ):
        for f in files:
            if f.endswith(".v"):
                out.append(os.path.join(root, f))
    return sorted(out)


def strip_comments(src):
    # remove (* ... *) comments (nested) and string literals before the forbidden-word grep
    out, depth, i, n = [], 0, 0, len(src)
    instr = False
    while i < n:
        if not instr and src.startswith("(*", i):
            depth += 1; i += 2; continue
        if not instr and depth > 0 and src.startswith("*)", i):
            depth -= 1; i += 2; continue
        c = src[i]
        if depth == 0:
            if c == '"':
                instr = not instr
                out.append('"')
            elif not instr:
                out.append(c)
        i += 1
    return "".join(out)


def audit_sources():
    """grep the whole development for forbidden constructs; returns list of hits"""
    hits = []
    for p in coq_sources():
        txt = strip_comments(open(p).read())
        for m in FORBIDDEN.finditer(txt):
            line = txt.count("\n", 0, m.start()) + 1
            hits.append("%s:%d:%s" % (os.path.relpath(p, VERIF), line, m.group(0)))
        # Variable / Hypothesis outside a section declare axioms
        depth = 0
        for ln, l in enumerate(txt.split("\n"), 1):
            s = l.strip()
            if re.match(r"^(Section|Module)\s", s) and not s.startswith("Module Type"):
                if s.startswith("Section"):
                    depth += 1
            elif re.match(r"^End\s", s) and depth > 0:
                depth -= 1
            elif re.match(r"^(Variable|Variables|Hypothesis|Hypotheses|Context)\b", s) and depth == 0:
                hits.append("%s:%d:%s outside section" % (os.path.relpath(p, VERIF), ln, s.split()[0]))
    return hits


def coq_make(targets, timeout=3000):
    """full .vo build of the given targets (relative to coq/), cached by make"""
    with Lock("coq"):
        if (not os.path.exists(os.path.join(COQ, "Makefile"))
                or os.path.getmtime(os.path.join(COQ, "Makefile")) < os.path.getmtime(os.path.join(COQ, "_CoqProject"))):
            sh("coq_makefile -f _CoqProject -o Makefile", cwd=COQ, check=True)
        rc, out = sh(["timeout", str(timeout), "make", "-j%d" % NCPU] + targets, cwd=COQ)
    return rc, out


def coq_theorems(prop, names):
    """Build Props/<prop>.vo and ask Coq for the assumptions of every named theorem.
    Returns dict(obligations, discharged, assumptions{name:[...]}, failed[...], log)"""
    res = {"obligations": len(names), "discharged": 0, "assumptions": {}, "failed": [], "log": ""}
    rc, out = coq_make(["Props/%s.vo" % prop])
    res["log"] = out[-3000:]
    if rc != 0:
        res["failed"] = list(names)
        res["build_failed"] = True
        return res
    # statements are pinned in the Props file itself; check each name is declared
    # there as a Theorem closed by Qed
    src = strip_comments(open(os.path.join(COQ, "Props", prop + ".v")).read())
    auditdir = os.path.join(CACHE, "audit")
    os.makedirs(auditdir, exist_ok=True)
    vfile = os.path.join(auditdir, "Audit_%s.v" % prop)
    with open(vfile, "w") as f:
        f.write("From NunDB Require Import Props.%s.\n" % prop)
        for n in names:
            f.write('Goal True. idtac "@@BEGIN %s". Abort.\nPrint Assumptions %s.\n' % (n, n))
        f.write('Goal True. idtac "@@END". Abort.\n')
    rc, out = sh(["timeout", "600", "coqc", "-Q", COQ, "NunDB", vfile], cwd=auditdir)
    if rc != 0:
        res["failed"] = list(names)
        res["log"] += out[-2000:]
        return res
    blocks = re.split(r"@@BEGIN (\S+)", out)
    i = 1
    while i + 1 < len(blocks):
        name, body = blocks[i], blocks[i + 1].split("@@END")[0]
        i += 2
        axioms = []
        if "Closed under the global context" not in body:
            for l in body.split("\n"):
                m = re.match(r"^([A-Za-z_][\w.']*)\s*:", l)
                if m:
                    axioms.append(m.group(1))
        res["assumptions"][name] = axioms
        declared = re.search(r"\b(Theorem|Lemma|Example)\s+%s\b" % re.escape(name), src) is not None
        bad = [a for a in axioms if a.split(".")[-1] not in {x.split(".")[-1] for x in ALLOWED_AXIOMS}]
        if declared and not bad:
            res["discharged"] += 1
        else:
            res["failed"].append(name)
    for n in names:
        if n not in res["assumptions"] and n not in res["failed"]:
            res["failed"].append(n)
    return res


def coqchk(prop, timeout=1800):
    rc, out = sh(["timeout", str(timeout), "coqchk", "-silent", "-o", "-Q", COQ, "NunDB",
                  "NunDB.Props.%s" % prop], cwd=COQ)
    return rc, out[-3000:]


# ------------------------------------------------------- harness / model ----
def build_harness(profile="dev"):
    """rebuild the Rust harness against /repo's current working tree, hooks on"""
    hdir = os.path.join(VERIF, "harness")
    with Lock("cargo"):
        lock_src = os.path.join(REPO, "Cargo.lock")
        lock_dst = os.path.join(hdir, "Cargo.lock")
        if not os.path.exists(lock_dst):
            shutil.copy(lock_src, lock_dst)
        env = dict(os.environ)
        env.update({"CARGO_NET_OFFLINE": "true", "CARGO_TARGET_DIR": TARGET,
                    "RUSTFLAGS": "--cfg %s -Awarnings" % GUARD})
        cmd = ["cargo", "build", "--offline", "-q"] + (["--release"] if profile == "release" else [])
        rc, out = sh(cmd, cwd=hdir, env=env, timeout=3000)
        if rc != 0 and "Cargo.lock" in out:
            shutil.copy(lock_src, lock_dst)
            rc, out = sh(cmd, cwd=hdir, env=env, timeout=3000)
    binp = os.path.join(TARGET, "release" if profile == "release" else "debug", "drv")
    return rc, out, binp


def build_binary():
    """the real nun-db binary from /repo's working tree, production configuration (no cfg flag)"""
    with Lock("cargo-bin"):
        env = dict(os.environ)
        env.update({"CARGO_NET_OFFLINE": "true", "CARGO_TARGET_DIR": os.path.join(CACHE, "target_bin"), "RUSTFLAGS": "-Awarnings"})
        rc, out = sh(["cargo", "build", "--offline", "-q", "--bin", "nun-db"], cwd=REPO, env=env, timeout=3000)
    return rc, out, os.path.join(CACHE, "target_bin", "debug", "nun-db")


def build_modelrun():
    """extract the Coq models and compile the OCaml driver (only when stale)"""
    with Lock("modelrun"):
        os.makedirs(GEN, exist_ok=True)
        rc, out = coq_make(["Model/All.vo"])
        if rc != 0:
            return rc, out
        srcs = [os.path.join(COQ, "Extract", "Extract.v"), os.path.join(MODELRUN_DIR, "driver.ml")]
        srcs += [p for p in coq_sources() if "/Model/" in p]
        newest = max(os.path.getmtime(p) for p in srcs)
        if os.path.exists(MODELRUN) and os.path.getmtime(MODELRUN) >= newest:
            return 0, "up to date"
        rc, out = sh(["timeout", "900", "coqc", "-Q", COQ, "NunDB",
                      os.path.join(COQ, "Extract", "Extract.v")], cwd=GEN)
        if rc != 0:
            return rc, out
        shutil.copy(os.path.join(MODELRUN_DIR, "driver.ml"), os.path.join(GEN, "driver.ml"))
        rc, out = sh("ocamlfind ocamlopt -O2 -package zarith -linkpkg -w -a model.mli model.ml driver.ml -o ../modelrun 2>&1"
                     " || ocamlfind ocamlopt -package zarith -linkpkg -w -a model.mli model.ml driver.ml -o ../modelrun",
                     cwd=GEN, timeout=900)
        return rc, out


def hexs(s):
    if isinstance(s, str):
        s = s.encode("utf-8")
    return "x" + s.hex()


def parse_out(text):
    """driver output -> {case_id: [lines]} (lines starting with '#' kept separately)"""
    cases, cur, cid = {}, None, None
    for line in text.split("\n"):
        if line.startswith("C "):
            cid = line.split(" ")[1]
            cur = {"obs": [], "aux": []}
        elif line == "E":
            if cid is not None:
                cases[cid] = cur
            cid, cur = None, None
        elif cur is not None:
            if line.startswith("#"):
                cur["aux"].append(line)
            else:
                cur["obs"].append(line)
    return cases


def run_sharded(driver, cases, drv_bin, rundir, shards=None, impl_env=None, timeout=1800,
                run_model=True, model_driver=None, impl_args=None, run_impl=True):
    """cases: list of (case_id, header_tokens, [op token lists]).  Returns (impl, model)
    dicts case_id -> {"obs": [...], "aux": [...]}; a shard whose process died yields
    the cases it printed before dying plus a '__crashed__' marker."""
    os.makedirs(rundir, exist_ok=True)
    shards = shards or min(NCPU, max(1, len(cases) // 50))
    chunks = [cases[i::shards] for i in range(shards)]
    files = []
    for i, ch in enumerate(chunks):
        p = os.path.join(rundir, "%s-%d.cases" % (driver, i))
        with open(p, "w") as f:
            for cid, hdr, ops in ch:
                f.write("C %s %s\n" % (cid, " ".join(hdr)))
                for op in ops:
                    f.write(" ".join(op) + "\n")
                f.write("E\n")
        files.append(p)

    MAXOUT = 400 * 1024 * 1024

    def run_to_file(cmd, env, outp):
        with open(outp, "wb") as fo:
            p = subprocess.run(cmd, stdout=fo, stderr=subprocess.PIPE, env=env, timeout=timeout)
        sz = os.path.getsize(outp)
        with open(outp, "rb") as fi:
            data = fi.read(MAXOUT)
        os.unlink(outp)
        rc = p.returncode
        err = p.stderr.decode("utf-8", "replace")[-2000:]
        if sz > MAXOUT:
            rc, err = 99, "output of %d bytes truncated" % sz
        return rc, data.decode("utf-8", "replace"), err

    def run_impl_f(i):
        wd = os.path.join(rundir, "w%d" % i)
        os.makedirs(wd, exist_ok=True)
        env = dict(os.environ)
        env["NUN_DBS_DIR"] = os.path.join(wd, "dbs")
        env["RUST_BACKTRACE"] = "0"
        if impl_env:
            env.update(impl_env)
        return run_to_file(["prlimit", "--as=8000000000", drv_bin, driver, files[i], wd] + (impl_args or []), env,
                           os.path.join(rundir, "impl-%d.out" % i))

    def run_mod(i):
        return run_to_file([MODELRUN, model_driver or driver, files[i]], dict(os.environ),
                           os.path.join(rundir, "model-%d.out" % i))

    impl, model, errs = {}, {}, []
    with ThreadPoolExecutor(max_workers=NCPU) as ex:
        fi = [ex.submit(run_impl_f, i) for i in range(len(files))] if run_impl else []
        fm = [ex.submit(run_mod, i) for i in range(len(files))] if run_model else []
        for i, f in enumerate(fi):
            rc, out, err = f.result()
            impl.update(parse_out(out))
            if rc != 0:
                errs.append("impl shard %d exit %d: %s" % (i, rc, err))
        for i, f in enumerate(fm):
            rc, out, err = f.result()
            model.update(parse_out(out))
            if rc != 0:
                errs.append("model shard %d exit %d: %s" % (i, rc, err))
    return impl, model, errs


# ------------------------------------------------------------ findings ----
def load_known(prop):
    path = os.path.join(VERIF, "known_findings.jsonl")
    open_, fixed = {}, []
    if os.path.exists(path):
        for l in open(path):
            l = l.strip()
            if not l or l.startswith("#"):
                continue
            if l.startswith("fixed:"):
                fixed.append(l)
                continue
            e = json.loads(l)
            if e.get("property") == prop and e.get("status", "open") == "open":
                open_[e["class"]] = e
    return open_, fixed


def write_replay(prop, payload):
    d = os.path.join(VERIF, "evidence", "replays")
    os.makedirs(d, exist_ok=True)
    blob = json.dumps(payload, sort_keys=True, indent=1)
    h = hashlib.sha1(blob.encode()).hexdigest()[:12]
    p = os.path.join(d, "%s-%s.json" % (prop, h))
    with open(p, "w") as f:
        f.write(blob)
    return p


def write_evidence(prop, ev):
    d = os.path.join(VERIF, "evidence")
    os.makedirs(d, exist_ok=True)
    with open(os.path.join(d, prop + ".json"), "w") as f:
        json.dump(ev, f, indent=1, sort_keys=True)


def case_text(case):
    cid, hdr, ops = case
    return {"id": cid, "header": hdr, "ops": [" ".join(o) for o in ops]}
