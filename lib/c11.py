# C11 -- a crash during a snapshot never damages previously persisted data
import itertools, random, re
from nodegen import *
from common import build_binary
import crash

ID = "C11"
DRIVER = "crash11"
MODEL_FILES = ["Model/Base.v", "Model/Parse.v", "Model/Node.v", "Model/Disk.v"]
THEOREMS = ["C11_crash_state_is_plan_prefix", "C11_no_kill_means_complete", "C11_kill_stops_before_ith_call", "C11_crash_files_one_db", "C11_before_image_loads", "C11_after_image_loads", "C11_first_site_harmless", "C11_torn_inplace_update_refuted", "C11_value_not_yet_written_refuted", "C11_reclaim_window_refuted", "C11_start_panics_refuted", "C11_incr_untouched_keys_survive_total", "C11_incr_untouched_keys_survive", "C11_incr_untouched_keys_survive_kill", "C11_incr_no_panic", "C11_incr_prefix_files", "C11_incr_plan_shape", "C11_frame_demo", "C11_nul_key_overwritten_refuted", "C11_fresh_db_create_window"]
STRENGTH = {"C11_crash_state_is_plan_prefix": "structural, unbounded", "C11_crash_files_one_db": "structural, unbounded",
            "full statement": "refuted on the faithful model by four witnesses (known findings)", "C11_incr_untouched_keys_survive_total": "proof-unbounded (frame theorem, incremental snapshots, every crash point)"}
RULE = ("a family of before/after datasets (new, updated, removed keys; values of 0-600 bytes around the 250-byte writer buffer; "
        "one or two databases; reclaim on/off; 0-2 earlier completed snapshots) x every kill point: the child running the "
        "interrupted snapshot is killed by strace when its N-th write/pwrite64/rename/unlink on a data file returns, for N = 1.. "
        "until it survives; a fresh process then restarts on the directory; distinct = distinct (dataset, kill index) pair; "
        "non-trivial = the kill left the files different from both the before and the after image")
ASSUMPTIONS = ["crash = process kill between two system calls; every completed system call is durable in the order issued "
               "(no page-cache loss, no torn write(2)); those runtime facts are outside the model",
               "HashMap and directory orders of each killed run are observed (hook) and handed to the model; the theorems quantify over every order",
               "the oplog is valid throughout (key map / flag writes belong to C16)"]
TRUSTED = ["strace fault injection: the signal is delivered when the N-th traced system call returns (checked against the model's plan length in every case)",
           "file system semantics of regular files as modelled in Model/Disk.v"]
SHARDS = 16

VALS = ["", "1", "x y", "ü ñ", "v" * 100, "w" * 240, "é" * 130, "ы" * 123 + "z", "z" * 600]


def impl_runner(cases, ctx, rundir):
    # every few restarts the real binary is started on a copy of the directory as well and read over TCP
    rc, out, binary = build_binary()
    if rc != 0:
        return {}, ["the nun-db binary does not build: %s" % out[-600:]]
    return crash.run_cases(cases, ctx.drv, rundir, "crashc11", binary=binary, bin_stride=11)


def extra_stats(cases, impl):
    same = sum(1 for io in impl.values() for a in io.get("aux", []) if a == "#bin same")
    diff = sum(1 for io in impl.values() for a in io.get("aux", []) if a.startswith("#bin DIFF"))
    return {"restarts_also_run_with_the_real_binary": same + diff, "binary_differs": diff}


augment = crash.augment_case


def canon(obs):
    # every K line comes from its own process: operation ids are ranked per line
    return [nodecanon.canon_case([l])[0] for l in obs]


def build(a_rounds, b_muts, b_snap, two=False):
    """a_rounds: [[mutations], reclaim] completed snapshots; b_muts: mutations before the interrupted snapshot"""
    ops = [["conn"], C(0, "auth nun pwd"), C(0, "create-db d1 tok1 newer")]
    if two:
        ops.append(C(0, "create-db d2 tok2 arbiter"))
    ops.append(C(0, "use-db d1 tok1"))
    for muts, recl, dbs in a_rounds:
        ops += [C(0, m) for m in muts]
        ops += [C(0, "snapshot %s %s" % (recl, dbs)), ["flush"]]
    ops.append(["---"])
    ops += [["+conn"], ["+cmd", "0", hexs("auth nun pwd")], ["+cmd", "0", hexs("use-db d1 tok1")]]
    ops += [C(0, m) for m in b_muts]
    ops += [C(0, "snapshot %s %s" % b_snap), ["flush"]]
    return ops


def gen_cases(tier, seed):
    rng = random.Random(seed)
    cases = []
    dist = {"fixed": 0, "random": 0, "reclaim_b": 0, "two_dbs": 0}
    # fixed family
    base = ["set a 1", "set b " + "w" * 240, "set c x y"]
    fam = []
    for recl in ("false", "true"):
        fam += [
            ([(base, "false", "d1")], ["set a 2"], (recl, "d1"), False),
            ([(base, "false", "d1")], ["set n " + "z" * 600], (recl, "d1"), False),
            ([(base, "false", "d1")], ["remove b"], (recl, "d1"), False),
            ([(base, "false", "d1")], ["set a " + "v" * 300, "set n 5", "remove c"], (recl, "d1"), False),
            ([(base, "false", "d1")], [], (recl, "d1"), False),
            ([(base, "false", "d1"), (["set a 3", "remove c"], "true", "d1")], ["set c back", "increment a"], (recl, "d1"), False),
            ([(base, "false", "d1|d2")], ["set a 9", "use-db d2 tok2", "set q 1"], (recl, "d1|d2"), True),
            ([], ["set a 1", "set b 2"], (recl, "d1"), False),
        ]
    for i, (ar, bm, bs, two) in enumerate(fam):
        hdr = ["d1", "d2"] if two else ["d1"]
        cases.append(("f%d" % i, hdr, build(ar, bm, bs, two)))
        dist["fixed"] += 1
    nrand = {"quick": 40, "thorough": 600, "search": 24}[tier]
    keys = ["a", "ключ", "c", "dd", "éé"]

    def mut():
        r = rng.random()
        k = rng.choice(keys)
        if r < 0.55:
            return "set %s %s" % (k, rng.choice(VALS))
        if r < 0.75:
            return "remove %s" % k
        if r < 0.9:
            return "increment %s %d" % (k, rng.randint(1, 5))
        return "set-safe %s %d %s" % (k, rng.choice([-1, 0, 1, 3]), rng.choice(VALS))
    for i in range(nrand):
        two = rng.random() < 0.25
        dbs = "d1|d2" if two else "d1"
        ar = []
        for _ in range(rng.randint(0, 2)):
            ar.append(([mut() for _ in range(rng.randint(1, 5))], rng.choice(["false", "false", "true"]), dbs))
        bm = [mut() for _ in range(rng.randint(0, 5))]
        if two and rng.random() < 0.7:
            bm += ["use-db d2 tok2"] + [mut() for _ in range(rng.randint(1, 3))]
        recl = rng.choice(["false", "true"])
        if recl == "true":
            dist["reclaim_b"] += 1
        if two:
            dist["two_dbs"] += 1
        cases.append(("r%d" % i, ["d1", "d2"] if two else ["d1"], build(ar, bm, (recl, dbs), two)))
        dist["random"] += 1
    return cases, dist


def parse_k(line):
    m = re.match(r"^K (\S+) (\d+) (killed|complete)( site=\S+)?( DIVERGED\S*)? (START .*)$", line)
    if not m:
        return None
    return {"n": (m.group(1), int(m.group(2))), "verdict": m.group(3), "site": (m.group(4) or "").strip().replace("site=", ""),
            "div": m.group(5), "rest": m.group(6)}


def datasets(rest, dbs):
    out = {}
    for db in dbs:
        sec = db_section(rest, db)
        if sec:
            out[db] = {"id": sec.group(1), "strat": sec.group(2),
                       "keys": {k: (v[0], v[1]) for k, v in db_keys(rest, db).items() if v[2] != "D"}}
    return out


def oracle(case, io, mo):
    fails = []
    for a in io.get("aux", []):
        if a.startswith("#bin DIFF"):
            fails.append(("binary-start-differs", "the real binary started on a crash directory serves something else than the harness's "
                          "start-up sequence loaded: %s" % a[10:600]))
            break
    dbs = case[1]
    ks = [parse_k(l) for l in io["obs"] if l.startswith("K ")]
    ks = [k for k in ks if k]
    msites = {}
    if mo:
        for l in mo["aux"]:
            t = l.split(" ")
            if t[0] == "#site":
                msites[(t[1], int(t[2]))] = t[3]
    if not ks or ks[0]["n"][1] != 0 or ks[-1]["verdict"] != "complete":
        return [("crash-run-incomplete", "; ".join(io["obs"][-2:])[:300])]
    if "PANIC" in ks[0]["rest"] or "PANIC" in ks[-1]["rest"] or "DIED" in ks[0]["rest"]:
        return [("panic-without-crash", "restart of an uninterrupted snapshot failed")]
    before = datasets(ks[0]["rest"], dbs)
    after = datasets(ks[-1]["rest"], dbs)
    for k in ks[1:-1]:
        site = msites.get(k["n"], "?")
        tag = "kill at %s #%d (%s)" % (k["n"][0], k["n"][1], site)
        if k["div"]:
            fails.append(("diverged-before-kill", tag)); continue
        if "START PANIC" in k["rest"] or "START DIED" in k["rest"] or "POISONED" in k["rest"]:
            fails.append(("start-fails@" + site_class(site), tag + ": the next start panics")); continue
        got = datasets(k["rest"], dbs)
        for db, b in before.items():
            a = after.get(db)
            g = got.get(db)
            if g is None:
                fails.append(("db-lost@" + site_class(site), "%s: database %s not loaded" % (tag, db))); continue
            if g["id"] not in (b["id"], a["id"] if a else b["id"]) or g["strat"] not in (b["strat"], a["strat"] if a else b["strat"]):
                fails.append(("metadata-damaged@" + site_class(site), "%s: %s id/strategy %s/%s" % (tag, db, g["id"], g["strat"])))
            allk = set(b["keys"]) | set(g["keys"]) | (set(a["keys"]) if a else set())
            for key in sorted(allk):
                ok = {b["keys"].get(key)} | ({a["keys"].get(key)} if a else set())
                gv = g["keys"].get(key)
                if gv in ok:
                    continue
                if gv is None:
                    cls = "persisted-key-missing"
                elif key not in b["keys"] and (not a or key not in a["keys"]):
                    cls = "key-invented"
                else:
                    cls = "value-never-stored"
                fails.append(("%s@%s" % (cls, site_class(site)),
                              "%s: %s/%s loads as %r, before %r, being written %r" % (tag, db, key, gv, b["keys"].get(key), a["keys"].get(key) if a else None)))
    return fails


def site_class(site):
    return site


def nontrivial(case, io):
    ks = [parse_k(l) for l in io["obs"] if l.startswith("K ")]
    ks = [k for k in ks if k]
    if len(ks) < 3:
        return False
    f0 = ks[0]["rest"].split(" files=")[-1]
    f1 = ks[-1]["rest"].split(" files=")[-1]
    return any(k["rest"].split(" files=")[-1] not in (f0, f1) for k in ks[1:-1])
