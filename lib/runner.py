# Generic check flow shared by all properties (see DESIGN.md section 2.4).
import os, sys, json, time, shutil, random
from common import *


class Ctx:
    pass


def diff_case(impl, model):
    """first differing observation line between impl and model, or None"""
    a, b = impl["obs"], model["obs"]
    for i in range(max(len(a), len(b))):
        x = a[i] if i < len(a) else "<missing>"
        y = b[i] if i < len(b) else "<missing>"
        if x != y:
            return {"step": i, "impl": x, "model": y}
    return None


def execute(P, cases, ctx, tag="main", run_model=True):
    rundir = os.path.join(ctx.rundir, tag)
    groups = {}
    for c in cases:
        env = P.env_key(c) if hasattr(P, "env_key") else (getattr(P, "IMPL_ENV", None) or {})
        drv = P.driver_of(c) if hasattr(P, "driver_of") else P.DRIVER
        groups.setdefault(json.dumps([env, drv], sort_keys=True), []).append(c)
    impl, model, errs = {}, {}, []
    for gi, (k, cs) in enumerate(sorted(groups.items())):
        env, drv = json.loads(k)
        ir = None
        if hasattr(P, "impl_runner_for"):
            ir = P.impl_runner_for(drv)
        elif hasattr(P, "impl_runner"):
            ir = P.impl_runner
        if ir is not None:
            # the implementation side is orchestrated by the property module (crash injection, real processes)
            i, e = ir(cs, ctx, os.path.join(rundir, "g%d" % gi))
            errs += e
            aug = [P.augment(c, i.get(c[0])) for c in cs] if hasattr(P, "augment") else cs
            mdrv = P.model_driver_of(drv) if hasattr(P, "model_driver_of") else drv
            m = {}
            if run_model:
                # other schedules of the same case the model is asked for as well (real processes schedule themselves)
                variants = {}
                if hasattr(P, "model_variants"):
                    for c in aug:
                        variants[c[0]] = P.model_variants(c, drv)
                extra = [v for vs in variants.values() for v in vs]
                _, m, e2 = run_sharded(mdrv, aug + extra, ctx.drv, os.path.join(rundir, "m%d" % gi),
                                       run_model=True, run_impl=False, shards=getattr(P, "SHARDS", None))
                errs += e2
                if hasattr(P, "reduce_model"):
                    byid = {c[0]: c for c in cs}
                    vby = {v[0]: v for v in extra}
                    for k in list(m):
                        if k in vby:
                            m[k]["obs"] = P.reduce_model(vby[k], drv, m[k]["obs"])
                    for k in list(m):
                        if k in byid:
                            m[k]["obs"] = P.reduce_model(byid[k], drv, m[k]["obs"])
                            if hasattr(P, "reconcile") and k in i:
                                # nondeterminism of the implementation that no hook controls (real processes): the module
                                # says which of the model's alternatives the run took
                                alts = [m[v[0]]["obs"] for v in variants.get(k, []) if v[0] in m]
                                i[k]["obs"], notes = P.reconcile(byid[k], drv, i[k]["obs"], m[k]["obs"], alts)
                                i[k]["aux"] = list(i[k].get("aux", [])) + notes
                    for k in vby:
                        m.pop(k, None)
        elif hasattr(P, "augment"):
            # two phases: the implementation runs first; what it observed about its own
            # nondeterminism (HashMap / directory order) is handed to the model as an oracle
            i, _, e = run_sharded(drv, cs, ctx.drv, os.path.join(rundir, "g%d" % gi),
                                  impl_env=env, run_model=False, shards=getattr(P, "SHARDS", None))
            errs += e
            aug = [P.augment(c, i.get(c[0])) for c in cs]
            m = {}
            if run_model:
                _, m, e2 = run_sharded(drv, aug, ctx.drv, os.path.join(rundir, "m%d" % gi),
                                       run_model=True, run_impl=False, shards=getattr(P, "SHARDS", None))
                errs += e2
        else:
            i, m, e = run_sharded(drv, cs, ctx.drv, os.path.join(rundir, "g%d" % gi),
                                  impl_env=env, run_model=run_model,
                                  shards=getattr(P, "SHARDS", None))
            errs += e
        impl.update(i); model.update(m)
    if hasattr(P, "canon"):
        for d in (impl, model):
            for k in d:
                d[k]["obs"] = P.canon(d[k]["obs"])
    shutil.rmtree(rundir, ignore_errors=True)
    return impl, model, errs


def judge(P, cases, impl, model, ctx):
    """returns (disagreements, failures) ; failure = (case, cls, text, agrees_with_model)"""
    disagreements, failures = [], []
    for case in cases:
        cid = case[0]
        io = impl.get(cid)
        mo = model.get(cid)
        if io is None or mo is None:
            disagreements.append((case, {"step": -1, "impl": "present" if io else "<no output: driver died>",
                                         "model": "present" if mo else "<no output>"}))
            if io is None:
                continue
        d = diff_case(io, mo) if mo is not None else None
        if d is not None:
            disagreements.append((case, d))
        try:
            found = list(P.oracle(case, io, mo))
        except Exception as ex:
            # observations the oracle cannot even parse (a corrupted load prints keys with separators in them, ...)
            found = [("observation-unparseable", "the oracle could not read the implementation's observations of case %s: %r" % (cid, ex))]
        for j, l in enumerate(io["obs"]):
            if l.startswith("D") and "POISONED" in l[:12]:
                found.append(("node-wedged", "after step %d a lock of the node is poisoned: every later command on it fails" % (j // 2)))
                break
        for cls, text in found:
            failures.append((case, cls, text, d is None and mo is not None))
    return disagreements, failures


def shrink(P, case, cls, ctx, want_disagree=False, budget=12):
    """greedy one-op-removal delta debugging; a candidate is kept when it still
    shows the same failure class (or still disagrees with the model)"""
    cur = case
    if hasattr(P, "shrink_budget"):
        budget = min(budget, P.shrink_budget(case))
    for rnd in range(budget):
        cid, hdr, ops = cur
        if len(ops) <= 1:
            break
        cands = []
        for i in range(len(ops)):
            cands.append(("%s.s%d.%d" % (case[0], rnd, i), hdr, ops[:i] + ops[i + 1:]))
        try:
            impl, model, errs = execute(P, cands, ctx, tag="shrink")
        except Exception:
            break
        nxt = None
        for c in cands:
            io, mo = impl.get(c[0]), model.get(c[0])
            if io is None or mo is None:
                continue
            try:
                if want_disagree:
                    ok = diff_case(io, mo) is not None
                else:
                    ok = any(k == cls for k, _ in P.oracle(c, io, mo))
            except Exception:
                ok = False
            if ok:
                nxt = c
                break
        if nxt is None:
            break
        cur = nxt
    return cur


def run_check(P, tier, seed):
    t0 = time.time()
    ctx = Ctx()
    ctx.tier, ctx.seed = tier, seed
    ctx.rundir = os.path.join(CACHE, "run", "%s-%d" % (P.ID, os.getpid()))
    os.makedirs(ctx.rundir, exist_ok=True)
    violations = []      # (replay_path, suffix)
    known_hit = {}
    notes = []
    open_known, fixed = load_known(P.ID)

    # ---- 1. proofs
    hits = audit_sources()
    thm = coq_theorems(P.ID, P.THEOREMS)
    proof_ok = (not hits) and thm["discharged"] == thm["obligations"]
    chk = None
    if tier == "thorough" and proof_ok and getattr(P, "COQCHK", True):
        rc, out = coqchk(P.ID)
        chk = {"rc": rc, "tail": out[-1500:]}
        if rc != 0:
            proof_ok = False
            notes.append("coqchk failed")

    # ---- 2. builds
    rc, out, drv = build_harness()
    if rc != 0:
        # the harness no longer compiles against /repo: correspondence cannot run
        p = write_replay(P.ID, {"reason": "harness does not build against /repo working tree",
                                "what_no_longer_checks": "correspondence (driver %s)" % P.DRIVER,
                                "log": out[-3000:]})
        print("VIOLATION property=%s replay=%s no-failing-input-found" % (P.ID, p))
        finish(P, ctx, t0, thm, hits, chk, {}, [], 1, notes + ["harness build failed"], known_hit, {})
        return 1
    ctx.drv = drv
    rc, out = build_modelrun()
    if rc != 0:
        p = write_replay(P.ID, {"reason": "model extraction/build failed", "log": out[-3000:]})
        print("VIOLATION property=%s replay=%s no-failing-input-found" % (P.ID, p))
        finish(P, ctx, t0, thm, hits, chk, {}, [], 1, notes + ["modelrun build failed"], known_hit, {})
        return 1

    # ---- 2b. structural pins (cheap, regenerated from source)
    pin_problems = P.pins(ctx) if hasattr(P, "pins") else []

    # ---- 3/4. cases, differential execution, oracle
    cases, dist = P.gen_cases(tier, seed)
    impl, model, errs = execute(P, cases, ctx)
    disagreements, failures = judge(P, cases, impl, model, ctx)
    stats = {"evaluations": len(cases), "dist": dist, "errs": errs[:5]}
    if hasattr(P, "extra_stats"):
        try:
            dist.update(P.extra_stats(cases, impl))
        except Exception:
            pass

    # ---- 5. verdict
    reported = set()
    for case, cls, text, agrees in failures:
        if agrees and cls in open_known:
            known_hit.setdefault(cls, 0)
            known_hit[cls] += 1
            continue
        if cls in reported:
            continue
        reported.add(cls)
        small = shrink(P, case, cls, ctx)
        io, mo = None, None
        try:
            i2, m2, _ = execute(P, [small], ctx, tag="rep")
            io, mo = i2.get(small[0]), m2.get(small[0])
        except Exception:
            pass
        p = write_replay(P.ID, {"property": P.ID, "class": cls, "text": text, "driver": P.DRIVER,
                                "case": case_text(small), "original_case": case_text(case),
                                "impl": io, "model": mo, "agrees_with_model": agrees})
        violations.append((p, ""))

    unshown = []
    if not proof_ok:
        unshown.append({"kind": "proof", "audit_hits": hits, "failed_theorems": thm["failed"],
                        "log": thm.get("log", "")[-1500:]})
    if pin_problems:
        unshown.append({"kind": "structural-pin", "problems": pin_problems})
    if disagreements or errs:
        unshown.append({"kind": "correspondence", "count": len(disagreements),
                        "first": [{"case": case_text(c), "diff": d} for c, d in disagreements[:3]],
                        "errors": errs[:3]})
    if unshown and not violations:
        # the property is no longer shown to hold: search for a concrete failing input
        found = False
        scases, _ = P.gen_cases("search", seed + 1)
        # mutate around disagreeing cases first
        extra = []
        if hasattr(P, "mutate"):
            for c, _d in disagreements[:20]:
                extra += P.mutate(c, random.Random(seed))
        scases = extra + scases
        if scases:
            i2, m2, _ = execute(P, scases, ctx, tag="search")
            _, f2 = judge(P, scases, i2, m2, ctx)
            for case, cls, text, agrees in f2:
                if agrees and cls in open_known:
                    continue
                small = shrink(P, case, cls, ctx)
                p = write_replay(P.ID, {"property": P.ID, "class": cls, "text": text, "driver": P.DRIVER,
                                        "case": case_text(small), "original_case": case_text(case),
                                        "found_by": "search after " + ",".join(u["kind"] for u in unshown),
                                        "no_longer_checks": unshown})
                violations.append((p, ""))
                found = True
                break
        if not found:
            small = None
            if disagreements:
                small = shrink(P, disagreements[0][0], None, ctx, want_disagree=True)
            p = write_replay(P.ID, {"property": P.ID, "no_longer_checks": unshown,
                                    "disagreeing_case": case_text(small) if small else None,
                                    "driver": P.DRIVER})
            violations.append((p, " no-failing-input-found"))

    for cls, n in sorted(known_hit.items()):
        print("KNOWN-FINDING: property=%s %s (class %s, %d cases this run)" % (P.ID, open_known[cls]["text"], cls, n))
    # every open finding must still reproduce: print it when its witness replay reproduces
    for cls, e in sorted(open_known.items()):
        if cls not in known_hit:
            notes.append("open finding class %s not hit by this run's cases" % cls)
    for p, suffix in violations:
        print("VIOLATION property=%s replay=%s%s" % (P.ID, p, suffix))
    rc = 1 if violations else 0
    finish(P, ctx, t0, thm, hits, chk, stats, cases, len(violations), notes, known_hit,
           {"impl": impl, "model": model, "disagreements": len(disagreements)})
    return rc


def finish(P, ctx, t0, thm, hits, chk, stats, cases, nviol, notes, known_hit, run):
    impl = run.get("impl", {})
    distinct = set()
    nontrivial = 0
    for c in cases:
        io = impl.get(c[0])
        if io is None:
            continue
        key = "\n".join(io["obs"])
        if key in distinct:
            continue
        if P.nontrivial(c, io):
            distinct.add(key)
    nontrivial = len(distinct)
    samples = [case_text(c) for c in cases[:2]] + ([case_text(cases[len(cases) // 2])] if len(cases) > 4 else [])
    tb = [
        "Coq 8.16.1 kernel incl. vm_compute (no native_compute)",
        "axioms per theorem (Print Assumptions): " + json.dumps(thm.get("assumptions", {}), sort_keys=True),
        "hand-written Gallina model %s tied to /repo by differential execution (Rust driver '%s' vs OCaml extraction of the same definitions)" % (",".join(P.MODEL_FILES), P.DRIVER),
        "extraction: ExtrOcamlBasic + ExtrOcamlString, no Extract Constant of our own; OCaml 4.13 + zarith in the driver for decimal I/O only",
        "Rust harness, case generators, canonicaliser and comparer in /verif (can hide a difference, cannot make a theorem true)",
    ] + list(getattr(P, "TRUSTED", []))
    ev = {
        "property_id": P.ID, "tier": "thorough" if ctx.tier == "thorough" else "quick", "seed": ctx.seed,
        "level": "proof",
        "coverage": {
            "obligations": thm["obligations"], "discharged": thm["discharged"],
            "checker_cmd": "make -C coq Props/%s.vo && coqc Audit_%s.v (Print Assumptions per theorem)%s" % (
                P.ID, P.ID, "; coqchk -silent -o NunDB.Props.%s" % P.ID if chk else ""),
            "trusted_base": tb,
            "theorems": P.THEOREMS, "theorem_strength": getattr(P, "STRENGTH", {}),
            "failed_theorems": thm.get("failed", []), "audit_hits": hits,
            "coqchk": chk,
            "evaluations": stats.get("evaluations", 0),
            "distinct_nontrivial": nontrivial,
            "rule": P.RULE,
            "samples": samples,
            "traces_validated_against_impl": len([c for c in cases if c[0] in impl]),
            "model_impl_disagreements": run.get("disagreements", 0),
            "input_distribution": stats.get("dist", {}),
            "known_finding_classes_hit": known_hit,
            "notes": notes,
        },
        "assumptions": list(getattr(P, "ASSUMPTIONS", [])),
        "wall_s": round(time.time() - t0, 2),
        "violations": nviol,
    }
    write_evidence(P.ID, ev)
    shutil.rmtree(ctx.rundir, ignore_errors=True)


def replay(P, path):
    ctx = Ctx()
    ctx.tier, ctx.seed = "quick", 0
    ctx.rundir = os.path.join(CACHE, "run", "%s-replay-%d" % (P.ID, os.getpid()))
    os.makedirs(ctx.rundir, exist_ok=True)
    rc, out, drv = build_harness()
    if rc != 0:
        print(out[-2000:]); return 2
    ctx.drv = drv
    rc, out = build_modelrun()
    data = json.load(open(path))
    ct = data.get("case") or data.get("disagreeing_case")
    if not ct:
        print("replay names what no longer checks:", json.dumps(data.get("no_longer_checks"), indent=1)[:3000])
        return 1
    case = (ct["id"], ct["header"], [o.split(" ") for o in ct["ops"]])
    impl, model, errs = execute(P, [case], ctx, tag="replay")
    io, mo = impl.get(case[0]), model.get(case[0])
    print("case:", json.dumps(ct, indent=1))
    for i, l in enumerate((io or {"obs": []})["obs"]):
        m = mo["obs"][i] if mo and i < len(mo["obs"]) else "<missing>"
        print("step %d impl : %s" % (i, l))
        if m != l:
            print("step %d MODEL: %s" % (i, m))
    fails = P.oracle(case, io, mo) if io else [("crash", "driver died")]
    for cls, text in fails:
        print("ORACLE FAILS: [%s] %s" % (cls, text))
    shutil.rmtree(ctx.rundir, ignore_errors=True)
    return 1 if fails or (mo and io and diff_case(io, mo)) else 0
