# C05 -- a (re)joining node resynchronises to exactly the primary's data
import itertools, random, re
from clustergen import *
from nodegen import parse_i32
from common import build_binary
import realcluster

ID = "C05"
DRIVER = "cluster"
MODEL_FILES = ["Model/Base.v", "Model/Parse.v", "Model/Node.v", "Model/Pending.v", "Model/Oplog.v", "Model/Cluster.v"]
THEOREMS = ["C05_live_replicate_roundtrip", "C05_create_db_roundtrip", "C05_replay_converges", "C05_sync_line_roundtrip_refuted", "C05_catchup_line_not_roundtrip", "C05_catchup_line_numeric_value", "C05_sync_line_multi_word", "C05_sync_line_numeric_first", "C05_incr_sync_covers", "C05_decodable_invariant", "C05_meta_keys_invariant", "C05_incr_sync_only_touched", "C05_incr_sync_only_touched_exact", "C05_incr_sync_one_line_per_key", "C05_incr_sync_order", "C05_covers_example", "C05_create_db_line_kept_example", "C05_stale_line_refuted", "C05_full_sync_covers", "C05_full_sync_covers_secure_keys", "C05_full_sync_db_block", "C05_full_sync_only", "C05_full_sync_no_admin", "C05_full_sync_token_line", "C05_full_sync_joiner_has_keys", "C05_full_sync_joiner_needs_primary_link", "C05_full_sync_joiner_one_word_values_lost", "C05_full_sync_example"]
STRENGTH = {t: "proof-unbounded" for t in THEOREMS}
RULE = ("primary histories of 1-10 operations over 1-3 databases (strategies none/newer/arbiter; values from an alphabet with "
        "multi-word, numeric-first and empty values; removes of persisted and unpersisted keys; snapshots), then a node with an empty "
        "disk joins (add_as_secoundary + the real supervisor, handshake and replicate-since code) while 0-3 further writes are "
        "accepted by the primary during the synchronisation under seeded random FIFO interleavings; at quiescence the joiner's "
        "databases are compared with the primary's; exhaustive over single-key histories x value alphabet; distinct = distinct "
        "canonical trace; non-trivial = the primary held at least one live key and one removed key when the node joined; "
        "plus the rejoin family: history split into followed / while-away / during-sync parts at random points; plus the real-process "
        "family b*: the primary is the real nun-db binary with a history of 1-8 operations, a second real binary with an empty disk joins "
        "it through NUN_REPLICATE_ADDR (main.rs's join and start-up election, the real TCP links, handshake and replicate-since), 0-4 "
        "further writes follow; the final data and roles of both processes, read over TCP, are compared with the model's")
ASSUMPTIONS = ["join with an empty disk (since = 0, full synchronisation) and rejoin of a node that followed the primary, was away while "
               "0-6 operations were accepted, and asks for everything after its own last operation (incremental synchronisation, every split "
               "point of the history); a rejoin after a process restart from an older snapshot is not driven through the cluster harness "
               "(restart itself is C06/C16)",
               "node clocks are one clock (one process)"]
TRUSTED = ["cluster-driver families: links are explicit FIFO queues (hook open_link) and the handshake lines are emulated by the harness; "
           "the real-process family b* uses no hook at all (production build, real sockets) but observes final states only, waits for "
           "quiescence by polling, retries a formation that did not happen (up to 3 times) and accepts either outcome of one race of the "
           "implementation (the joiner's request to itself served before or after the primary's lines: lib/c05.py reconcile)"]

VALS = ["x", "a b c", "12 abc", "", "<Empty>", "007", "-3 z", "x  y", "é ü"]


def base_cluster(nn_joined):
    names = ["n1", "n2", "n3"]
    ops = []
    for n in names:
        ops += [["conn", n], ["conn", n]]
    for n in names:
        ops.append(CC(n, 0, "auth nun pwd"))
    if nn_joined >= 2:
        ops += [["addsec", "n1", "n2"], ["settle"]]
    header = ["n1/P/100", "n2/U/200", "n3/U/300"]
    return names, header, ops


def mangle(v):
    t = v.split(" ", 1)
    ver = parse_i32(t[0])
    return (t[1] if len(t) > 1 else "", (ver if ver is not None else -1))


MANGLED = None


def stale_of(case, key, val):
    # the joiner holds a value the primary wrote to this key earlier (possibly mangled by a catch-up): once its version
    # of the key differs from the primary's (catch-up lines carry no version) later versioned writes are refused there
    for op in case[2]:
        if op[0] != "cmd":
            continue
        w = line_of(op).split(" ")
        v = None
        if w[0] == "set" and len(w) >= 2 and w[1] == key:
            v = " ".join(w[2:])
        elif w[0] == "set-safe" and len(w) >= 3 and w[1] == key:
            v = " ".join(w[3:])
        if v is not None and (val == v or val == mangle(v)[0] or word_suffix(val, v)):
            return True
    return False


def word_suffix(b, a):
    # the value lost one leading word per synchronisation it went through
    w = a.split(" ")
    return any(b == " ".join(w[k:]) for k in range(1, len(w) + 1))


def driver_of(case):
    return "realcluster" if case[0].startswith("b") else "cluster"


def impl_runner_for(drv):
    if drv != "realcluster":
        return None

    def run(cases, ctx, rundir):
        rc, out, binary = build_binary()
        if rc != 0:
            return {}, ["the nun-db binary does not build: %s" % out[-600:]]
        return realcluster.run_cases(cases, binary, rundir)
    return run


def model_driver_of(drv):
    return "cluster"


def reduce_model(case, drv, obs):
    return realcluster.reduce_model(case, obs) if drv == "realcluster" else obs


ITEM_RE = re.compile(r"db=(\S+) keys=\[(.*?)\](?= db=|$)")


def model_variants(case, drv):
    """real processes: the joiner also opens a link to itself and asks itself for a synchronisation (set-secoundary +
    replicate-since on the self link).  Whether that request is served before or after the primary's lines arrive is a race of
    a few milliseconds between two link threads.  The model's settle policy serves it first; this variant of the case holds the
    self link back until the primary's synchronisation is through (explicit scheduler steps, then settle)."""
    if drv != "realcluster":
        return []
    cid, hdr, ops = case
    out = []
    for op in ops:
        out.append(op)
        if op[0] == "addsec":
            a, b = op[1], op[2]
            rnd = [["pollsup", a], ["pollrepl", a], ["pollsup", b], ["pollrepl", b], ["deliver", a, b], ["reply", b, a],
                   ["deliver", b, a], ["reply", a, b]]
            out += rnd * 60
    return [(cid + "~late", hdr, out)]


def reconcile(case, drv, iobs, mobs, alts=()):
    """every key of the joiner must be what one of the model's schedules gives (the race is per line: the primary's lines
    arrive one by one while the joiner's own request is being served); a joiner line that passes is rewritten to the model's
    first schedule so that the comparison is exact everywhere else"""
    if drv != "realcluster":
        return iobs, []
    notes = []
    out = []
    mby = {l.split(" ")[1]: l for l in mobs if l.startswith("N ")}
    aby = [{l.split(" ")[1]: l for l in a if l.startswith("N ")} for a in alts]
    for l in iobs:
        t = l.split(" ")
        if not l.startswith("N ") or t[1] == "n1" or t[1] not in mby or l == mby[t[1]]:
            out.append(l); continue
        ml = mby[t[1]]
        cands = [ml] + [a[t[1]] for a in aby if t[1] in a]
        idbs = {m.group(1): m.group(2) for m in ITEM_RE.finditer(l)}
        cdbs = [{m.group(1): m.group(2) for m in ITEM_RE.finditer(c)} for c in cands]
        ok = all(set(idbs) == set(c) for c in cdbs) and all(l.split(" db=")[0] == c.split(" db=")[0] for c in cands)
        if ok:
            for dbn in idbs:
                ii = dict(x.split("=", 1) for x in idbs[dbn].split(",") if x)
                cc = [dict(x.split("=", 1) for x in c[dbn].split(",") if x) for c in cdbs]
                if any(set(ii) != set(c) for c in cc):
                    ok = False; break
                for k in ii:
                    which = [n for n, c in enumerate(cc) if c[k] == ii[k]]
                    if not which:
                        ok = False; break
                    if 0 not in which:
                        notes.append("#self-sync-after-primary-sync %s %s/%s" % (t[1], dbn, k))
                if not ok:
                    break
        out.append(ml if ok else l)
    return out, notes


def real_cases(tier, rng, dist):
    """real processes: the primary is the real binary with a history, a second real binary with an empty disk joins it
    through NUN_REPLICATE_ADDR (main.rs's own join, the real TCP links and handshake), further writes follow; the final
    data of both processes, read over TCP, is compared with the model's"""
    out = []
    n = {"quick": 32, "thorough": 400, "search": 16}[tier]
    for i in range(n):
        hdr = ["n1/P/100", "n2/U/200"]
        ops = [["conn", "n1"], ["conn", "n1"], CC("n1", 0, "auth nun pwd")]
        ndb = rng.randint(1, 2)
        for j in range(ndb):
            ops.append(CC("n1", 0, "create-db d%d tok%d%s" % (j + 1, j + 1, rng.choice(["", " newer", " none"]))))
        ops.append(CC("n1", 0, "use-db d1 tok1")); ops.append(CC("n1", 1, "use-db d%d tok%d" % (ndb, ndb)))

        def rand_write():
            r = rng.random()
            k = rng.choice(["a", "b", "c"])
            sid = rng.choice([0, 1])
            v = rng.choice([x for x in VALS if x != ""])
            if r < 0.6: return [CC("n1", sid, "set %s %s" % (k, v))]
            if r < 0.75: return [CC("n1", sid, "remove %s" % k)]
            if r < 0.85: return [CC("n1", sid, "increment n %d" % rng.randint(1, 4))]
            return [CC("n1", sid, "set-safe %s %d %s" % (k, rng.choice([-1, 0, 3]), v))]
        for _ in range(rng.randint(1, 8)):
            ops += rand_write()
        ops += [["settle"], ["addsec", "n1", "n2"], ["settle"]]
        for _ in range(rng.randint(0, 4)):
            ops += rand_write()
        ops += [["settle"]]
        if rng.random() < 0.4:
            # the joiner's process is killed, the primary goes on, the node comes back on an empty disk under the same address
            ops += [["kill", "n2"], ["settle"]]
            for _ in range(rng.randint(0, 3)):
                ops += rand_write()
            ops += [["settle"], ["revive", "n2"], ["addsec", "n1", "n2"], ["settle"]]
            for _ in range(rng.randint(0, 2)):
                ops += rand_write()
            ops += [["settle"]]
            dist["real_rejoin_after_death"] = dist.get("real_rejoin_after_death", 0) + 1
        out.append(("b%d" % i, hdr, ops))
    dist["real_processes"] = n
    return out


def gen_cases(tier, seed):
    rng = random.Random(seed)
    cases, dist = [], {"single_key": 0, "random": 0, "values": {}}
    cases += real_cases(tier, random.Random(seed + 11), dist)
    n = {"quick": 400, "thorough": 8000, "search": 400}[tier]
    cid = 0
    for strat in ("none", "newer", "arbiter"):
        for v in VALS:
            for removed in (False, True):
                names, hdr, ops = base_cluster(1)
                ops += [CC("n1", 0, "create-db d1 tok1%s" % ("" if strat == "none" else " " + strat)), CC("n1", 0, "use-db d1 tok1"),
                        CC("n1", 0, "set k %s" % v), CC("n1", 0, "set other 1")]
                if removed:
                    ops += [CC("n1", 0, "snapshot false"), ["flush", "n1"], CC("n1", 0, "remove k")]
                ops += [["settle"], ["addsec", "n1", "n3"], ["settle"]]
                cases.append(("k%d" % cid, hdr, ops)); cid += 1
    dist["single_key"] = cid
    for i in range(n):
        names, hdr, ops = base_cluster(rng.choice([1, 2]))
        dbs = []
        for j in range(rng.randint(1, 3)):
            strat = rng.choice(["", " newer", " arbiter", " none"])
            ops.append(CC("n1", 0, "create-db d%d tok%d%s" % (j + 1, j + 1, strat)))
            dbs.append("d%d" % (j + 1))
        ops.append(CC("n1", 0, "use-db d1 tok1")); ops.append(CC("n1", 1, "use-db %s tok%s" % (dbs[-1], dbs[-1][1:])))
        def rand_write():
            r = rng.random()
            k = rng.choice(["a", "b", "c"])
            sid = rng.choice([0, 1])
            v = rng.choice(VALS)
            dist["values"][v] = dist["values"].get(v, 0) + 1
            if r < 0.5: return [CC("n1", sid, "set %s %s" % (k, v))]
            if r < 0.56:
                # the database's own users, permission lists and other $$ keys are data of the database too
                return [CC("n1", 0, rng.choice(["create-user u%d pw%d" % (rng.randint(0, 1), rng.randint(0, 9)), "set-permissions u0 %s a*" % rng.choice(["r", "rw", "rwix"]),
                                                "set $$note n%d" % rng.randint(0, 9)]))]
            if r < 0.7: return [CC("n1", sid, "remove %s" % k)]
            if r < 0.8: return [CC("n1", sid, "increment n %d" % rng.randint(1, 4))]
            if r < 0.9: return [CC("n1", 0, "snapshot false"), ["flush", "n1"]]
            return [CC("n1", sid, "set-safe %s %d %s" % (k, rng.choice([-1, 0, 3]), v))]
        for _ in range(rng.randint(1, 10)):
            ops += rand_write()
        ops += [["settle"], ["addsec", "n1", "n3"]]
        # writes accepted during the synchronisation
        for _ in range(rng.randint(0, 3)):
            ops += random_steps(rng, names, rng.randint(0, 5))
            ops += rand_write()
        ops += [["settle"]]
        cases.append(("r%d" % i, hdr, ops))
    dist["random"] = n
    # rejoin with a valid operation log: the node follows the primary, goes away (what the primary sends it is lost),
    # comes back and asks for everything after its own last operation (incremental synchronisation)
    nrj = {"quick": 250, "thorough": 5000, "search": 250}[tier]
    dist["rejoin"] = 0
    dist["rejoin_away_ops_hist"] = {}
    def hist_ops(k):
        out = []
        for _ in range(k):
            out += rand_write2()
        return out
    for i in range(nrj):
        names, hdr, ops = base_cluster(1)
        ops += [CC("n1", 0, "create-db d1 tok1%s" % rng.choice(["", " newer", " none"])), CC("n1", 0, "use-db d1 tok1"), CC("n1", 1, "use-db d1 tok1")]
        def rand_write2():
            r = rng.random()
            k = rng.choice(["a", "b", "c"])
            v = rng.choice(VALS)
            if r < 0.5: return [CC("n1", 0, "set %s %s" % (k, v))]
            if r < 0.7: return [CC("n1", 0, "remove %s" % k)]
            if r < 0.8: return [CC("n1", 0, "increment n %d" % rng.randint(1, 4))]
            if r < 0.88: return [CC("n1", 0, "create-db e%d t%d%s" % (rng.randint(1, 2), rng.randint(1, 2), rng.choice(["", " newer"])))]
            return [CC("n1", 0, "set-safe %s %d %s" % (k, rng.choice([-1, 0, 3]), v))]
        for _ in range(rng.randint(0, 3)):
            ops += rand_write2()
        ops += [["settle"], ["addsec", "n1", "n3"], ["settle"]]
        for _ in range(rng.randint(0, 5)):          # followed live by the node
            ops += rand_write2() + [["settle"]]
        na = rng.randint(0, 6)
        dist["rejoin_away_ops_hist"][na] = dist["rejoin_away_ops_hist"].get(na, 0) + 1
        for _ in range(na):                         # while away: the primary's lines to the node are lost
            ops += rand_write2() + [["pollrepl", "n1"], ["drop", "n1", "n3"]]
        ops += [["pollrepl", "n1"], ["drop", "n1", "n3"], ["resync", "n3", "n1"]]
        for _ in range(rng.randint(0, 2)):          # during the synchronisation
            ops += random_steps(rng, names, rng.randint(0, 4))
            ops += rand_write2()
        ops += [["settle"]]
        cases.append(("j%d" % i, hdr, ops))
        dist["rejoin"] += 1
    # fixed family: keys whose global id is 1 or 2 (the ids the create-db / snapshot log records used to share) written while
    # the node is away, followed by a snapshot or in a database created while away
    dist["marker_ids"] = 0
    for variant in range(4):
        names, hdr, ops = base_cluster(1)
        ops += [CC("n1", 0, "create-db d1 tok1"), CC("n1", 0, "use-db d1 tok1"), CC("n1", 0, "set k0 a"), CC("n1", 0, "set k1 b"),
                CC("n1", 0, "set k2 c"), ["settle"], ["addsec", "n1", "n3"], ["settle"]]
        if variant == 0:
            away = ["set k2 c2 tail", "snapshot false d1"]
        elif variant == 1:
            away = ["set k1 b2 tail", "snapshot false d1", "set k2 c2 tail", "snapshot false d1"]
        elif variant == 2:
            away = ["create-db e1 t1", "use-db e1 t1", "set k1 x tail"]
        else:
            away = ["create-db e1 t1", "use-db e1 t1", "set k2 y tail", "snapshot false e1", "remove k1"]
        for a in away:
            ops += [CC("n1", 0, a), ["pollrepl", "n1"], ["drop", "n1", "n3"]]
        ops += [["resync", "n3", "n1"], ["settle"]]
        cases.append(("m%d" % variant, hdr, ops))
        dist["marker_ids"] += 1
    return cases, dist


def away_written(case):
    """(db, key) -> last value written between the node's departure (first 'drop') and its 'resync'"""
    out, cur, away = {}, "d1", False
    for op in case[2]:
        if op[0] == "drop":
            away = True
        if op[0] == "resync":
            break
        if op[0] == "cmd" and op[1] == "n1":
            w = line_of(op).split(" ")
            if w[0] == "use-db":
                cur = w[1]
            elif w[0] == "set" and len(w) >= 3:
                out[(cur, w[1])] = " ".join(w[2:]) if away or True else None
    return out


def shrink_budget(case):
    # a candidate of the real-process family costs seconds of wall clock: no delta debugging there
    return 0 if case[0].startswith("b") else 12


def real_oracle(case, io, mo):
    fails = []
    lines = {l.split(" ")[1]: l for l in io["obs"] if l.startswith("N ")}
    if "n1" in lines:
        have = set(re.findall(r"db=(\S+) keys=", lines["n1"]))
        for n, l in sorted(lines.items()):
            if n == "n1":
                continue
            miss = sorted(d for d in have if ("db=%s MISSING" % d) in l)
            if miss:
                fails.append(("joiner-misses-database", "at quiescence node %s has no database %s although it joined the primary (%s)" % (n, ",".join(miss), l[:120])))
            if " role=P" in l:
                fails.append(("two-primaries-after-join", "node %s is a primary next to n1: %s" % (n, l[:80])))
    for l in io["obs"]:
        if not l.startswith("N "):
            fails.append(("real-run-failed", l[:200]))
    if any("DEAD" in l for l in io["obs"] if l.startswith("N ")):
        fails.append(("process-died", "a node process exited"))
    return fails


def oracle(case, io, mo):
    if case[0].startswith("b"):
        return real_oracle(case, io, mo)
    global MANGLED
    if MANGLED is None:
        MANGLED = {mangle(v)[0] for v in VALS}
    fails = []
    obs = split_obs(io)
    if not obs:
        return [("driver-died", "no output")]
    for i, op in enumerate(case[2]):
        if i >= len(obs):
            fails.append(("driver-died", "step %d" % i)); break
        if obs[i][0] == "PANIC":
            fails.append(("panic", "step %d" % i))
    last = obs[min(len(obs), len(case[2])) - 1]
    if last[0] != "Settled":
        fails.append(("not-quiescent", last[0]))
        return fails
    nodes = parse_dump(last[3])
    p, j = nodes.get("n1"), nodes.get("n3")
    if not p or not j:
        return fails + [("malformed", "dump")]
    if p["dead"] or j["dead"]:
        fails.append(("service-thread-died", "primary %s joiner %s" % (p["dead"], j["dead"])))
    for dbn, pdb in p["dbs"].items():
        if dbn == "$admin":
            continue
        if dbn not in j["dbs"]:
            fails.append(("database-missing", "%s not on the joiner" % dbn)); continue
        jdb = j["dbs"][dbn]
        if jdb["strat"] != pdb["strat"]:
            fails.append(("sync-drops-strategy" if jdb["strat"] == "none" else "strategy-differs", "%s: primary %s, joiner %s" % (dbn, pdb["strat"], jdb["strat"])))
        if jdb["keys"].get("$$token", (None,))[0] != pdb["keys"].get("$$token", (None,))[0]:
            fails.append(("token-differs", dbn))
        for k in set(pdb["keys"]) | set(jdb["keys"]):
            if k in ("$$token", "$connections"):
                continue
            a, b = pdb["keys"].get(k), jdb["keys"].get(k)
            la = a is not None and a[2] == "L"
            lb = b is not None and b[2] == "L"
            if la == lb and (not la or (a[0], a[1]) == (b[0], b[1])):
                continue
            if case[0].startswith("m") and la and lb and b[0] not in (a[0], mangle(a[0])[0]):
                fails.append(("incremental-sync-misses-key", "%s key %s: primary %r@%d, joiner still %r@%d" % (dbn, k, a[0], a[1], b[0], b[1])))
            elif a is not None and a[2] == "D" and lb:
                fails.append(("sync-revives-removed-key", "%s key %s: removed on the primary, live %r on the joiner" % (dbn, k, b[0])))
            elif la and lb and (b[0] == mangle(a[0])[0] or (a[0] == b[0] and a[1] != b[1]) or parse_i32(a[0].split(" ", 1)[0]) is not None
                                or b[1] == -2 or (b[0] != a[0] and b[0] in MANGLED) or word_suffix(b[0], a[0])
                                or stale_of(case, k, b[0])):
                # the catch-up line carries no version: the value's first word is taken for it (value mangled, or the
                # line refused / the key marked in conflict when that word is a number), or the joiner numbers the
                # write itself (same value, other version)
                fails.append(("sync-line-without-version", "%s key %s: primary %r@%d, joiner %r@%d" % (dbn, k, a[0], a[1], b[0], b[1])))
            else:
                fails.append(("sync-differs", "%s key %s: primary %s, joiner %s" % (dbn, k, a, b)))
    return fails


def nontrivial(case, io):
    if case[0].startswith("b"):
        return any(l.startswith("N n2 ") and "=" in l.split("keys=[", 1)[-1] for l in io["obs"])
    obs = split_obs(io)
    nodes = parse_dump(obs[-1][3]) if obs else {}
    p = nodes.get("n1")
    if not p:
        return False
    ks = [v for d, db in p["dbs"].items() if d != "$admin" for k, v in db["keys"].items() if not k.startswith("$")]
    return any(v[2] == "L" for v in ks) and any(v[2] == "D" for v in ks)
