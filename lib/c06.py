# C06 -- snapshot then restart restores exactly the snapshotted state
import itertools, random, re
from nodegen import *
from common import build_binary
import realdisk

ID = "C06"
DRIVER = "disk"
MODEL_FILES = ["Model/Base.v", "Model/Parse.v", "Model/Node.v", "Model/Disk.v"]
THEOREMS = ["C06_restore_exact", "C06_restart_after_snapshot", "C06_one_snapshot", "C06_history_inv", "C06_metadata", "C06_hyps_satisfiable", "C06_version_minus_one_lost_refuted", "C06_dup_order_needs_nodup"]
STRENGTH = {t: "proof-unbounded" for t in THEOREMS}
RULE = ("exhaustive operation sequences (length <= 4 quick / 5 thorough) over {set, set-safe, remove, increment} x 2 keys, "
        "{snapshot false, snapshot true} (followed by the real snapshot_all_pendding_dbs) and restart (fresh Databases + load_all_dbs "
        "on the same directory), plus seeded random sequences up to 40 steps over 3 keys and 2 databases with values of 0-600 bytes "
        "(multi-byte UTF-8 included); a final snapshot + restart closes every case; distinct = distinct canonical trace; "
        "non-trivial = a restart restored at least one key that had been updated or removed after its first snapshot; real-process "
        "family b*: one real nun-db process with its own snapshot timer (NUN_DECLUTTER_INTERVAL=1), 3-12 operations with snapshot "
        "commands (the timer writes them), SIGKILL and restart; what a freshly started process finally serves over TCP is compared "
        "with the model's state after the same snapshots and restarts")
ASSUMPTIONS = ["the snapshot's key iteration order (HashMap order) and the directory order at load time are observed from the run "
               "(hook record_key_order / directory listing) and handed to the model; the theorems quantify over every order",
               "no crash during a snapshot (that is C11)", "version arguments below -1 are outside the quantifier"]
TRUSTED = ["file system: append/pwrite/rename/remove semantics of regular files as modelled in Model/Disk.v"]

def setup(two_dbs=True):
    ops = [["conn"], ["conn"], C(0, "auth nun pwd"), C(0, "create-db d1 tok1 newer")]
    if two_dbs:
        ops.append(C(0, "create-db d2 tok2 arbiter"))
    ops += [C(1, "use-db d1 tok1"), C(0, "use-db d1 tok1")]
    return ops

def after_restart():
    return [["conn"], ["conn"], C(0, "auth nun pwd"), C(1, "use-db d1 tok1"), C(0, "use-db d1 tok1")]

VALS = ["", "x", "x y", "12", "ü ñ", "<Empty>", "v" * 240, "w" * 250, "é" * 300, "z" * 600, "0"]
KEYS = ["a", "b", "ccc"]

ALPHA = [("c", "set a 1"), ("c", "set b 22"), ("c", "set-safe a 0 q"), ("c", "remove a"), ("c", "remove b"), ("c", "increment a"),
         ("c", "increment b 3"), ("s", "false"), ("s", "true"), ("r",)]


def build(seq):
    ops = setup()
    for e in seq:
        if e[0] == "c":
            ops.append(C(e[2] if len(e) > 2 else 1, e[1]))
        elif e[0] == "s":
            ops += [C(0, "snapshot %s %s" % (e[1], e[2] if len(e) > 2 else "d1")), ["flush"]]
        elif e[0] == "r":
            ops += [["restart"]] + after_restart()
    ops += [C(0, "snapshot false d1|d2"), ["flush"], ["restart"]] + after_restart() + [C(1, "keys"), C(1, "get-safe a"), C(1, "get-safe b")]
    return ops


def driver_of(case):
    return "realdisk" if case[0].startswith("b") else "disk"


def impl_runner_for(drv):
    if drv != "realdisk":
        return None

    def run(cases, ctx, rundir):
        rc, out, binary = build_binary()
        if rc != 0:
            return {}, ["the nun-db binary does not build: %s" % out[-600:]]
        return realdisk.run_cases(cases, binary, rundir)
    return run


def model_driver_of(drv):
    return "disk"


def reduce_model(case, drv, obs):
    return realdisk.reduce_model(case, obs) if drv == "realdisk" else obs


def shrink_budget(case):
    return 0 if case[0].startswith("b") else 12


def real_cases(tier, rng, dist):
    """one real nun-db process with its own snapshot timer (one second), killed and started again: what the restarted process
    serves is compared with the model's state after the same snapshots and restarts"""
    out = []
    n = {"quick": 24, "thorough": 240, "search": 12}[tier]
    for i in range(n):
        seq = []
        for _ in range(rng.randint(3, 12)):
            r = rng.random()
            key = rng.choice(KEYS)
            if r < 0.4:
                seq.append(("c", "set %s %s" % (key, rng.choice([v for v in VALS if v != ""]))))
            elif r < 0.5:
                seq.append(("c", "set-safe %s %d %s" % (key, rng.choice([-1, 0, 1, 2]), rng.choice(["x", "x y", "12"]))))
            elif r < 0.65:
                seq.append(("c", "remove %s" % key))
            elif r < 0.75:
                seq.append(("c", "increment %s %d" % (key, rng.randint(1, 9))))
            elif r < 0.92:
                seq.append(("s", rng.choice(["false", "false", "true"]), rng.choice(["d1", "d1", "d1|d2"])))
            else:
                seq.append(("r",))
        ops = build(seq)
        # the closing reads of build() are not needed: the final view is taken by a fresh process
        out.append(("b%d" % i, ["P"], ops))
    dist["real_process_with_timer"] = n
    return out


def gen_cases(tier, seed):
    rng = random.Random(seed)
    cases, dist = [], {"exhaustive": 0, "random": 0, "value_len_hist": {}}
    cases += real_cases(tier, random.Random(seed + 5), dist)
    maxlen, nrand = {"quick": (4, 1500), "thorough": (5, 25000), "search": (3, 1500)}[tier]
    k = 0
    for L in range(1, maxlen + 1):
        for seq in itertools.product(ALPHA, repeat=L):
            cases.append(("x%d" % k, ["P"], build(seq))); k += 1
    dist["exhaustive"] = k
    for i in range(nrand):
        seq = []
        for _ in range(rng.randint(5, 40)):
            r = rng.random()
            key = rng.choice(KEYS)
            if r < 0.3:
                v = rng.choice(VALS)
                b = len(v.encode()) // 100
                dist["value_len_hist"][b] = dist["value_len_hist"].get(b, 0) + 1
                seq.append(("c", "set %s %s" % (key, v)))
            elif r < 0.4:
                seq.append(("c", "set-safe %s %d %s" % (key, rng.choice([-1, 0, 1, 2, 5]), rng.choice(VALS))))
            elif r < 0.55:
                seq.append(("c", "remove %s" % key))
            elif r < 0.67:
                seq.append(("c", "increment %s %d" % (key, rng.randint(-3, 9))))
            elif r < 0.72:
                seq.append(("c", rng.choice(["use-db d2 tok2", "use-db d1 tok1"])))
            elif r < 0.9:
                seq.append(("s", rng.choice(["false", "false", "true"]), rng.choice(["d1", "d1", "d2", "d1|d2"])))
            else:
                seq.append(("r",))
        cases.append(("r%d" % i, ["P"], build(seq)))
    dist["random"] = nrand
    return cases, dist


def augment(case, io):
    cid, hdr, ops = case
    if cid.startswith("b"):
        return realdisk.with_load_orders(case)
    if io is None:
        return case
    aux = list(io["aux"])
    out = []
    for op in ops:
        if op[0] == "flush":
            a = next((x for x in aux if x.startswith("#order")), None)
            if a is not None:
                aux.remove(a)
                toks = a.split(" ")[1:]
                out.append(["flush"] + [t for t in toks if t != ""])
            else:
                out.append(op)
        elif op[0] == "restart":
            a = next((x for x in aux if x.startswith("#load")), None)
            if a is not None:
                aux.remove(a)
                out.append(["restart"] + [t for t in a.split(" ")[1:] if t != ""])
            else:
                out.append(op)
        else:
            out.append(op)
    return (cid, hdr, out)


def dataset(dump, db):
    sec = db_section(dump, db)
    if not sec:
        return None
    live = {k: (v[0], v[1]) for k, v in db_keys(dump, db).items() if v[2] != "D"}
    return {"id": sec.group(1), "strat": sec.group(2), "keys": live}


def oracle(case, io, mo):
    if case[0].startswith("b"):
        return [("real-run-failed", l[:200]) for l in io["obs"] if not l.startswith("V")]
    fails = []
    obs = split_obs(io)
    last = {}          # db -> dataset at its last completed snapshot
    queued = []
    for i, op in enumerate(case[2]):
        if i >= len(obs):
            fails.append(("driver-died", "step %d" % i)); break
        reply, inb, q, dump = obs[i]
        if reply == "PANIC":
            fails.append(("panic", "step %d: %s" % (i, line_of(op) or op[0])))
            if op[0] == "restart":
                break
        if op[0] == "cmd":
            line = line_of(op)
            if line.startswith("snapshot ") and reply == "Ok":
                w = line.split(" ")
                queued += w[2].split("|")
        elif op[0] == "flush":
            for db in queued:
                ds = dataset(dump, db)
                if ds is not None:
                    last[db] = ds
            queued = []
        elif op[0] == "restart":
            queued = []
            for db, want in last.items():
                got = dataset(dump, db)
                if got is None:
                    fails.append(("db-not-restored", "step %d: database %s missing after restart" % (i, db)))
                    continue
                if (got["id"], got["strat"]) != (want["id"], want["strat"]):
                    fails.append(("metadata-changed", "step %d: %s id/strategy %s/%s -> %s/%s" % (i, db, want["id"], want["strat"], got["id"], got["strat"])))
                for k in set(want["keys"]) | set(got["keys"]):
                    if k == "$connections":
                        continue
                    a, b = want["keys"].get(k), got["keys"].get(k)
                    if a != b:
                        cls = "removed-key-resurrected" if a is None else ("key-lost" if b is None else "key-altered")
                        fails.append((cls, "step %d: %s key %r: at the last snapshot %s, after restart %s" % (i, db, k, a, b)))
            for db in ("d1", "d2"):
                if db not in last and dataset(dump, db) is not None:
                    fails.append(("never-snapshotted-db-appeared", "step %d: %s" % (i, db)))
    return fails


def nontrivial(case, io):
    if case[0].startswith("b"):
        return any(l.startswith("V") and "=" in l for l in io["obs"])
    obs = split_obs(io)
    snaps = sum(1 for op in case[2] if op[0] == "flush")
    mut_after = False
    seen_flush = False
    for op in case[2]:
        if op[0] == "flush":
            seen_flush = True
        elif seen_flush and op[0] == "cmd" and (line_of(op).split(" ")[0] in ("set", "remove", "increment", "set-safe")):
            mut_after = True
    return snaps >= 2 and mut_after
