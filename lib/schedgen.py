# schedule cases for the sched driver: 2-3 sessions, each a short program, run under an explicit
# schedule of releases at lock-acquisition granularity
import itertools, random, re
from common import hexs
from nodegen import C, unesc, split_obs, db_keys, inbox_of, line_of


def par(specs, sched):
    return ["par"] + ["%d:%s" % (sid, ",".join(hexs(l) for l in lines)) for sid, lines in specs] + ["--"] + [str(x) for x in sched]


def setup(strat="none", nsess=4):
    ops = [["conn"] for _ in range(nsess)]
    ops += [C(0, "auth nun pwd"), C(0, "create-db d1 tok1%s" % ("" if strat == "none" else " " + strat))]
    for s in range(nsess):
        ops.append(C(s, "use-db d1 tok1"))
    return ops


PAR_RE = re.compile(r"(\d+):\[(.*?)\]<(.*?)>")


def parse_par(reply):
    """'Par 1:[Ok;Ok]<cmd,map.read> 2:[...]<...>' -> {sid: (replies, trace)}"""
    out = {}
    for m in PAR_RE.finditer(reply):
        out[int(m.group(1))] = (m.group(2).split(";") if m.group(2) else [], m.group(3).split(",") if m.group(3) else [])
    return out


def all_schedules(lengths, limit, rng):
    """all interleavings of len(lengths) threads with the given numbers of releases (multiset permutations);
    sampled when there are more than [limit]"""
    total = sum(lengths)
    def gen(rem, acc):
        if len(acc) == total:
            yield list(acc); return
        for i, r in enumerate(rem):
            if r > 0:
                rem[i] -= 1; acc.append(i)
                yield from gen(rem, acc)
                acc.pop(); rem[i] += 1
    from math import factorial
    cnt = factorial(total)
    for l in lengths:
        cnt //= factorial(l)
    if cnt <= limit:
        return list(gen(list(lengths), []))
    out = []
    for _ in range(limit):
        pool = [i for i, l in enumerate(lengths) for _ in range(l)]
        rng.shuffle(pool)
        out.append(pool)
    return out
