# C01 -- reads return the latest successful write (single-node key-value semantics)
import itertools, random, re
from nodegen import *

ID = "C01"
DRIVER = "node"
MODEL_FILES = ["Model/Base.v", "Model/Parse.v", "Model/Node.v"]
THEOREMS = ["C01_set_value_ok", "C01_set_value_refused", "C01_remove_value_spec", "C01_remove_token_refused", "C01_inc_value_spec", "C01_get_spec", "C01_list_keys_spec", "C01_list_keys_sorted", "C01_refines", "C01_refines_empty", "C01_refused_changes_nothing", "C01_wf_db_empty", "C01_set_value_wf", "C01_remove_value_wf", "C01_inc_value_wf", "C01_starts_with_spec", "C01_ends_with_spec", "C01_contains_spec", "C01_pattern_prefix_spec", "C01_pattern_suffix_spec", "C01_pattern_contains_spec", "C01_pattern_match_classify", "C01_pattern_star_both_prefix", "C01_list_keys_prefix_spec", "C01_list_keys_suffix_spec", "C01_list_keys_contains_spec", "C01_list_keys_all_spec", "C01_pattern_examples"]
STRENGTH = {t: "proof-unbounded" for t in THEOREMS}
RULE = ("exhaustive command sequences (length <= 3 quick / 4 thorough) over a 16-symbol alphabet of "
        "set/set-safe/get/remove/increment/keys/snapshot+flush on keys {a, ab}, plus seeded random sequences of length 5-40 over "
        "a richer alphabet (values with spaces, numeric-looking, empty, '<Empty>', i32 bounds, multi-byte; $$ keys from the admin session); "
        "distinct = distinct canonical observation trace; non-trivial = at least one accepted mutation and one read")
ASSUMPTIONS = ["sequential execution (one command at a time); interleavings are C02/C03's subject",
               "op ids are compared by rank of first appearance, not by value",
               "the plain-map oracle tracks non-system keys; $connections/$$token are checked through the model comparison only"]
TRUSTED = ["in-memory effect of a snapshot (states -> Ok) is modelled by flush_snapshots; file contents belong to C06"]

SETUP = [["conn"], ["conn"], C(0, "auth nun pwd"), C(0, "create-db d1 tok1"), C(1, "use-db d1 tok1"), C(0, "use-db d1 tok1")]

ALPHA = [
    [C(1, "set a x")], [C(1, "set a 12")], [C(1, "set ab ")], [C(1, "set-safe a 0 y z")],
    [C(1, "get a")], [C(1, "get ab")], [C(1, "remove a")], [C(1, "remove ab")],
    [C(1, "increment a")], [C(1, "increment a -3")], [C(1, "increment ab 5")],
    [C(1, "keys")], [C(1, "keys a*")], [C(1, "keys *b")],
    [C(0, "snapshot false"), ["flush"]], [C(0, "snapshot true"), ["flush"]],
]

KEYS = ["a", "ab", "b", "é", "k_1"]
VALS = ["", "x", "x y", "12", "-3", "007", "+5", "<Empty>", "2147483647", "-2147483648", "2147483648", "ü ñ", "a;b", "1 2"]
PATS = ["", "a*", "*b", "a", "*", "$$*", "*$$", "a*b", "b*", "$*"]


def rand_cmd(rng):
    r = rng.random()
    sid = 1 if rng.random() < 0.8 else 0
    k = rng.choice(KEYS) if (sid == 1 or rng.random() < 0.7) else rng.choice(["$$s", "$$token2"])
    if r < 0.22:
        return [C(sid, "set %s %s" % (k, rng.choice(VALS)))]
    if r < 0.32:
        return [C(sid, "set-safe %s %d %s" % (k, rng.choice([-1, 0, 1, 2, 3, 5, 50]), rng.choice(VALS)))]
    if r < 0.47:
        return [C(sid, "%s %s" % (rng.choice(["get", "get-safe"]), k))]
    if r < 0.59:
        return [C(sid, "remove %s" % k)]
    if r < 0.76:
        a = rng.choice(["", " 1", " 5", " -7", " 2147483647", " x", " 0"])
        return [C(sid, "increment %s%s" % (k, a))]
    if r < 0.88:
        return [C(sid, "%s %s" % (rng.choice(["keys", "ls"]), rng.choice(PATS)))]
    if r < 0.97:
        return [C(0, "snapshot %s" % rng.choice(["false", "true"])), ["flush"]]
    return [["flush"]]


def gen_cases(tier, seed):
    rng = random.Random(seed)
    cases, dist = [], {"exhaustive": 0, "random": 0, "cmd_hist": {}}
    maxlen, nrand = {"quick": (3, 2500), "thorough": (4, 40000), "search": (2, 3000)}[tier]
    k = 0
    for L in range(1, maxlen + 1):
        for seq in itertools.product(range(len(ALPHA)), repeat=L):
            ops = list(SETUP)
            for i in seq:
                ops += ALPHA[i]
            cases.append(("x%d" % k, ["P"], ops))
            k += 1
    dist["exhaustive"] = k
    for i in range(nrand):
        ops = list(SETUP)
        for _ in range(rng.randint(5, 40)):
            c = rand_cmd(rng)
            ops += c
            w = line_of(c[0]).split(" ")[0] if c[0][0] == "cmd" else "flush"
            dist["cmd_hist"][w] = dist["cmd_hist"].get(w, 0) + 1
        cases.append(("r%d" % i, ["P"], ops))
    dist["random"] = nrand
    return cases, dist


def oracle(case, io, mo):
    """plain-map reference for database d1, evaluated on the implementation's replies"""
    fails = []
    obs = split_obs(io)
    m = {}
    prev_dump = None
    for i, op in enumerate(case[2]):
        if i >= len(obs):
            fails.append(("driver-died", "no observation for step %d" % i))
            break
        reply, inb, q, dump = obs[i]
        if reply == "PANIC":
            fails.append(("panic", "step %d: %s" % (i, line_of(op) or op[0])))
        if op[0] != "cmd":
            prev_dump = dump
            continue
        sid = int(op[1])
        line = line_of(op)
        w = line.split(" ", 2)
        cmd = w[0]
        admin = sid == 0
        is_err = reply.startswith("Error") or reply.startswith("VersionError")
        if is_err and prev_dump is not None and dump != prev_dump and cmd in ("set", "set-safe", "get", "get-safe", "remove", "increment", "keys", "ls"):
            fails.append(("refused-but-changed", "step %d: '%s' answered %s but the node state changed" % (i, line, reply)))
        if cmd in ("set", "set-safe") and reply == "Ok":
            key = w[1]
            if cmd == "set":
                val = w[2] if len(w) > 2 else ""
            else:
                rest = w[2].split(" ", 1)
                val = rest[1] if len(rest) > 1 else None
            if val is not None:
                m[key] = val
        elif cmd in ("get", "get-safe") and reply.startswith("Value "):
            key = w[1]
            got = unesc(reply.split(" ")[2])
            exp = m.get(key, "<Empty>")
            if not key.startswith("$"):
                if got != exp:
                    fails.append(("stale-read", "step %d: %s returned %r, plain map has %r" % (i, line, got, exp)))
        elif cmd == "remove" and reply == "Ok":
            m.pop(w[1], None)
        elif cmd == "increment":
            key = w[1] if len(w) > 1 else ""
            inc = parse_i32(w[2]) if len(w) > 2 else 1
            if inc is None:
                inc = 1
            cur = parse_i32(m.get(key, "0"))
            ok = cur is not None and parse_i32(str(cur + inc)) is not None
            if reply == "Ok":
                if not ok and not key.startswith("$"):
                    fails.append(("increment-accepted", "step %d: %s accepted although current value %r + %d is not an i32" % (i, line, m.get(key), inc)))
                elif ok:
                    m[key] = str(cur + inc)
            elif reply.startswith("Error Key{20}is{20}not{20}numeric") and ok and not key.startswith("$"):
                fails.append(("increment-refused", "step %d: %s refused although current value is %r" % (i, line, m.get(key, "0"))))
        elif cmd in ("keys", "ls") and reply.startswith("Value keys "):
            pat = w[1] if len(w) > 1 else ""
            got = [x for x in unesc(reply.split(" ")[2]).split(",") if x != ""]
            if got != sorted(got, key=lambda s: s.encode("utf-8")):
                fails.append(("keys-unsorted", "step %d: %s" % (i, got)))
            if not admin and any(x.startswith("$$") for x in got):
                fails.append(("keys-shows-secure", "step %d: %s" % (i, got)))
            exp = sorted((k for k in m if not k.startswith("$") and pattern_match(k, pat)), key=lambda s: s.encode("utf-8"))
            g2 = [x for x in got if not x.startswith("$")]
            if g2 != exp:
                fails.append(("keys-wrong", "step %d: %s listed %s, plain map says %s" % (i, line, g2, exp)))
        prev_dump = dump
    return fails


def nontrivial(case, io):
    obs = split_obs(io)
    mut = any(o[0] == "Ok" for o in obs[6:])
    rd = any(o[0].startswith("Value") for o in obs[6:])
    return mut and rd
