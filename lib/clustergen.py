# helpers for the cluster-driver properties (C04, C05, C14, C15 end-to-end)
import re, random
from common import hexs
import nodecanon
from nodegen import unesc

canon = nodecanon.canon_case


def CC(node, sid, line):
    return ["cmd", node, str(sid), hexs(line)]


def line_of(op):
    return bytes.fromhex(op[3][1:]).decode("utf-8", "replace") if op[0] == "cmd" else None


def split_obs(io):
    out = []
    lines = io["obs"]
    i = 0
    while i < len(lines):
        parts = lines[i].split(" | ")
        d = lines[i + 1] if i + 1 < len(lines) and lines[i + 1].startswith("D") else ""
        x = 0
        if len(parts) > 2 and parts[2].startswith("x="):
            x = int(parts[2][2:])
        out.append((parts[0], parts[1] if len(parts) > 1 else "-", x, d))
        i += 2
    return out


NODE_RE = re.compile(r" node=(\S+) role=(\S)( DEAD)? members=\[(.*?)\] pending=(\d+)(.*?)(?= node=| links=\[)")
DB_RE = re.compile(r" db=(\S+) strat=(\S+) keys=\[(.*?)\](?= db=|$)")


def parse_dump(dump):
    nodes = {}
    for m in NODE_RE.finditer(dump):
        dbs = {}
        for d in DB_RE.finditer(m.group(6)):
            keys = {}
            if d.group(3):
                for item in d.group(3).split(","):
                    k, rest = item.split("=", 1)
                    val, meta = rest.rsplit("@", 1)
                    ver, live = meta.split("/")
                    keys[unesc(k)] = (unesc(val), int(ver), live)
            dbs[unesc(d.group(1))] = {"strat": d.group(2), "keys": keys}
        sm = re.match(r" snap=\[(.*?)\]", m.group(6))
        nodes[m.group(1)] = {"role": m.group(2), "dead": bool(m.group(3)), "members": m.group(4), "pending": int(m.group(5)), "dbs": dbs,
                             "snap": sorted(set(sm.group(1).split(","))) if sm and sm.group(1) else []}
    return nodes


def setup(nnodes, strat="none"):
    names = ["n%d" % (i + 1) for i in range(nnodes)]
    ops = []
    for n in names:
        ops += [["conn", n], ["conn", n]]
    for n in names:
        ops.append(CC(n, 0, "auth nun pwd"))
    for n in names[1:]:
        ops += [["addsec", "n1", n], ["settle"]]
    ops += [CC("n1", 0, "create-db d1 tok1%s" % ("" if strat == "none" else " " + strat)), ["settle"]]
    for n in names:
        ops += [CC(n, 0, "use-db d1 tok1"), CC(n, 1, "use-db d1 tok1")]
    ops += [["settle"]]
    header = ["%s/%s/%d" % (n, "P" if i == 0 else "U", 100 * (i + 1)) for i, n in enumerate(names)]
    return names, header, ops


def random_steps(rng, names, k):
    """k explicit scheduler steps (FIFO per link is enforced by the driver)"""
    ops = []
    for _ in range(k):
        r = rng.random()
        if r < 0.2:
            ops.append(["pollrepl", rng.choice(names)])
        elif r < 0.3:
            ops.append(["pollsup", rng.choice(names)])
        elif r < 0.7:
            a, b = rng.sample(names, 2) if len(names) > 1 else (names[0], names[0])
            ops.append(["deliver", a, b])
        else:
            a, b = rng.sample(names, 2) if len(names) > 1 else (names[0], names[0])
            ops.append(["reply", a, b])
    return ops
