# Transport families (driver 'net'): the same kind of histories as the node-driver families, but
# through the real listeners of network/tcp_ops.rs, ws_ops.rs and http_ops.rs on loopback sockets
# (implementation) and through Model/Net.v (model).  Observations keep the node driver's format:
#   reply | sid:[items...];... | queues      D dump (no session tokens, watcher ids anonymous)
# reply is Ok / Error <msg> (from the terminator the transport queued), NoReply (a TCP line that is
# not UTF-8 is dropped), Left, Http <status> <body>; a dead connection shows as EOF / TIMEOUT /
# DEAD / CLOSED-BY-SERVER / NOCONN.
import re
from common import hexs
from nodegen import unesc, line_of

BAD_REPLIES = ("EOF", "TIMEOUT", "DEAD", "CLOSED-BY-SERVER", "Http DEAD", "Http TIMEOUT", "Http NOCONN")


def raw(sid, data):
    return ["raw", str(sid), "x" + data.hex()]


def to_net(ops, kinds, rng=None, pdrop=0.0):
    """conn -> tconn / wconn following the list `kinds` (cycled); with probability pdrop a disconnect becomes
    'drop' (the socket is cut without a close handshake) or 'reset' (closed with unread data: the server sees ECONNRESET)"""
    out, k = [], 0
    for op in ops:
        if op[0] == "conn":
            out.append(["wconn"] if kinds[k % len(kinds)] == "w" else ["tconn"])
            k += 1
        elif op[0] == "disc" and rng is not None and rng.random() < pdrop:
            out.append([rng.choice(["drop", "reset"]), op[1]])
        else:
            out.append(op)
    return out


def as_disc(case):
    """the case with 'drop' written as 'disc' (for oracles that only know one way of leaving)"""
    return (case[0], case[1], [["disc", op[1]] if op[0] in ("drop", "reset") else op for op in case[2]])


def kinds_of(ops):
    return ["w" if op[0] == "wconn" else "t" for op in ops if op[0] in ("tconn", "wconn")]


def tcp_safe(ops):
    """a TCP line cannot carry a line feed (it would be two lines); WebSocket frames can"""
    kinds = kinds_of(ops)
    for op in ops:
        if op[0] == "cmd" and kinds[int(op[1])] == "t" and b"\n" in bytes.fromhex(op[2][1:]):
            return False
    return True


def transport_failures(case, obs):
    """any connection or listener that died"""
    fails = []
    for i, op in enumerate(case[2]):
        if i >= len(obs):
            break
        reply, inb = obs[i][0], obs[i][1]
        if reply in BAD_REPLIES or reply.endswith(" NOCONN") or reply.endswith(" DEAD"):
            what = line_of(op) if op[0] == "cmd" else " ".join(op[:2])
            fails.append(("service-thread-died", "step %d (%r): the connection or its listener is gone: %s" % (i, (what or "")[:80], reply)))
        for seg in inb.split(";"):
            m = re.match(r"^(\d+):\[(.*)\]$", seg)
            if m and m.group(2).split("|")[-1] in ("EOF", "TIMEOUT", "CLOSED-BY-SERVER"):
                fails.append(("service-thread-died", "step %d: session %s lost its connection (%s)" % (i, m.group(1), m.group(2).split("|")[-1])))
    return fails


def items_of(inb, sid):
    if inb == "-":
        return []
    for seg in inb.split(";"):
        m = re.match(r"^(\d+):\[(.*)\]$", seg)
        if m and int(m.group(1)) == sid:
            return [unesc(x) for x in m.group(2).split("|")]
    return []


def track_selection(case, obs):
    """per step: {sid: selected database} of the open sessions, from the replies to use-db / use"""
    sel, open_s, out, n = {}, set(), [], 0
    for i, op in enumerate(case[2]):
        if i >= len(obs):
            break
        reply = obs[i][0]
        if op[0] in ("tconn", "wconn"):
            if reply == "Conn %d" % n:
                open_s.add(n)
            n += 1
        elif op[0] in ("disc", "drop", "reset"):
            open_s.discard(int(op[1])); sel.pop(int(op[1]), None)
        elif op[0] == "cmd":
            w = line_of(op).rstrip("\n").split(" ")
            if w[0] in ("use-db", "use") and len(w) >= 3 and reply == "Ok":
                sel[int(op[1])] = w[1]
        out.append({s: d for s, d in sel.items() if s in open_s})
    return out
