# Crash-injection orchestration shared by C11 and C16.
#
# A case is (id, header, ops) with one '---' op: part A is history that runs to completion in
# one process; part B is run again and again on copies of the directory part A left behind,
# under `strace -e inject=...:signal=KILL:when=N`, N = 1, 2, ... until the process survives;
# after every kill a fresh process restarts on the directory (phase C) and prints what it sees.
# strace delivers the signal when the N-th traced system call (write / pwrite64 / rename /
# unlink on one of the data files) returns, i.e. the crash state is "the first N file
# operations happened, nothing after them".
import os, re, shutil, subprocess, socket, threading, time
from concurrent.futures import ThreadPoolExecutor

SUFFIXES = ["-nun.data.keys", "-nun.data.values", "-nun.madadata", "-nun.data.keys.old", "-nun.data.values.old"]
GLOBALS = ["keys-nun.keys", "keys-nun.keys.tmp", "is-oplog.valid", "oplog-nun.op"] + ["oplog-nun.op.%d" % i for i in range(0, 12)]
KINDS = ["write", "pwrite64", "rename", "unlink"]
ALLSYS = "write,pwrite64,pwritev,writev,rename,renameat,renameat2,unlink,unlinkat,truncate,ftruncate"
MAXKILLS = 600


def data_paths(d, dbs):
    ps = [os.path.join(d, g) for g in GLOBALS]
    for db in list(dbs) + ["$admin"]:
        ps += [os.path.join(d, db + s) for s in SUFFIXES]
    return ps


def _run(cmd, env, timeout=120):
    p = subprocess.run(cmd, stdout=subprocess.PIPE, stderr=subprocess.PIPE, env=env, timeout=timeout)
    return p.returncode, p.stdout.decode("utf-8", "replace").split("\n"), p.stderr.decode("utf-8", "replace").split("\n")


def hexify(tok):
    # the hook prints plain hex; the case format wants the 'x' prefix
    return "-" if tok == "-" else ",".join("x" + h for h in tok.split(","))


def orders_of(stderr):
    """[[order tokens of one flush]] split at '#flush' markers; orders before any marker form group 0"""
    groups, cur = [], []
    for l in stderr:
        if l.startswith("#flush"):
            groups.append(cur); cur = []
        elif l.startswith("#order "):
            cur.append(hexify(l.split(" ", 1)[1].strip()))
    groups.append(cur)
    return groups


def load_of(stderr):
    for l in stderr:
        if l.startswith("#load"):
            return [t for t in l.split(" ")[1:] if t]
    return []


# ---- the real binary's view of a directory (src/bin/main.rs's own start-up sequence) ----------------
_port_lock = threading.Lock()
_port_next = [0]


def _free_ports(k):
    out = []
    with _port_lock:
        while len(out) < k:
            _port_next[0] += 1
            port = 20000 + (os.getpid() * 131 + _port_next[0]) % 20000
            s = socket.socket()
            try:
                s.bind(("127.0.0.1", port)); out.append(port)
            except OSError:
                pass
            finally:
                s.close()
    return out


def tokens_of(ops):
    """database name -> token, from the create-db commands of a case"""
    toks = {}
    for op in ops:
        if op[0] == "cmd":
            w = bytes.fromhex(op[2][1:]).decode("utf-8", "replace").split(" ")
            if w[0] == "create-db" and len(w) >= 3:
                toks[w[1]] = w[2]
    return toks


def esc(b):
    return "".join(chr(c) if 0x20 < c < 0x7f and c not in (0x7b, 0x7d) else "{%02X}" % c for c in b) or "{}"


def escv(b):
    """like the drivers: long byte strings are printed as {L<len>:<fnv64>}"""
    if len(b) > 2048:
        h = 0xcbf29ce484222325
        for c in b:
            h = ((h ^ c) * 0x100000001b3) & 0xffffffffffffffff
        return "{L%d:%016x}" % (len(b), h)
    return esc(b)


def bin_view(binary, d, toks, timeout=8.0):
    """start the real nun-db binary on a copy of the directory, read every database over TCP, kill it.
    Returns 'START PANIC' or ' db=<name> keys=[k=v@ver,...]' sections in the phase-C dump's notation"""
    tmp = d + ".bin"
    shutil.rmtree(tmp, ignore_errors=True)
    shutil.copytree(d, tmp)
    tcp, ws, http = _free_ports(3)
    env = dict(os.environ)
    env.update({"NUN_DBS_DIR": tmp, "NUN_USER": "nun", "NUN_PWD": "pwd", "NUN_LOG_LEVEL": "Off", "RUST_BACKTRACE": "0",
                "NUN_STORAGE_STRATEGY": "disk", "NUN_REPLICATE_ADDR": ""})
    p = subprocess.Popen([binary, "start", "--tcp-address", "127.0.0.1:%d" % tcp, "--ws-address", "127.0.0.1:%d" % ws,
                          "--http-address", "127.0.0.1:%d" % http], stdout=subprocess.DEVNULL, stderr=subprocess.DEVNULL, env=env, cwd=tmp)
    try:
        t0 = time.time()
        sock = None
        while time.time() - t0 < timeout:
            if p.poll() is not None:
                return "START PANIC"
            try:
                sock = socket.create_connection(("127.0.0.1", tcp), timeout=2)
                break
            except OSError:
                time.sleep(0.01)
        if sock is None:
            return "START TIMEOUT"
        sock.settimeout(5)
        f = sock.makefile("rb")

        def cmd(line):
            sock.sendall(line.encode("utf-8") + b"\n")
            out = []
            while True:
                l = f.readline()
                if not l:
                    return out, "EOF"
                if l == b"ok \n":
                    return out, "ok"
                if l.startswith(b"error ") and l.endswith(b" \n"):
                    return out, "error"
                out.append(l)
        if f.readline() != b"ok \n":
            return "START NOGREETING"
        cmd("auth nun pwd")
        parts = []
        for name in sorted(toks):
            out, st = cmd("use-db %s %s" % (name, toks[name]))
            if st != "ok":
                # no such database, or its stored token is not the one it was created with (a torn values file)
                parts.append(" db=%s DENIED" % esc(name.encode()))
                continue
            out, st = cmd("keys")
            keys = []
            for l in out:
                if l.startswith(b"keys "):
                    keys = [k for k in l[5:-1].split(b",") if k]
            items = []
            for k in sorted(keys):
                if k.startswith(b"$$") or k == b"$connections":
                    continue
                out, st = cmd("get-safe " + k.decode("utf-8", "replace"))
                l = b"".join(out)            # a value may contain line feeds
                if l.startswith(b"value-version "):
                    ver, _, val = l[14:-1].partition(b" ")
                    items.append("%s=%s@%s" % (escv(k), escv(val), ver.decode()))
            parts.append(" db=%s keys=[%s]" % (esc(name.encode()), ",".join(items)))
        return "".join(parts)
    except Exception as e:
        return "BIN-ERROR %r" % (e,)
    finally:
        p.kill()
        p.wait()
        shutil.rmtree(tmp, ignore_errors=True)


def mirror_view(txt, toks):
    """the same sections taken from the phase-C dump (harness start-up mirror + direct access to the maps)"""
    if "START PANIC" in txt or "START DIED" in txt:
        return "START PANIC"
    parts = []
    for name in sorted(toks):
        m = re.search(r" db=%s id=\d+ strat=\S+ (?:conn=-?\d+ )?keys=\[(.*?)\](?: watch=\[.*?\])?(?= db=| FILES|$| [a-z]+\.[a-z])" % re.escape(esc(name.encode())), txt)
        if not m:
            parts.append(" db=%s DENIED" % esc(name.encode()))
            continue
        its = m.group(1).split(",") if m.group(1) else []
        tok = [it for it in its if it.startswith("$$token=")]
        if not tok or tok[0].split("=", 1)[1].rsplit("@", 1)[0] != esc(toks[name].encode()) or tok[0].rsplit("@", 1)[1].split("/")[1:2] == ["D"]:
            parts.append(" db=%s DENIED" % esc(name.encode()))
            continue
        items = []
        for it in its:
            k, rest = it.split("=", 1)
            val, meta = rest.rsplit("@", 1)
            mm = meta.split("/")
            if k.startswith("$$") or k == "$connections" or (len(mm) > 1 and mm[1] == "D"):
                continue
            items.append("%s=%s@%s" % (k, val, mm[0]))
        parts.append(" db=%s keys=[%s]" % (esc(name.encode()), ",".join(sorted(items))))
    return "".join(parts)


def run_case(case, drv, wd, phase_c, env_extra=None, kill_stride=1, extra_env_b=None, binary=None, bin_stride=7, env_of=None, no_kills_of=None):
    """returns {"obs": [...], "aux": [...]}"""
    cid, hdr, ops = case
    os.makedirs(wd, exist_ok=True)
    cf = os.path.join(wd, "case")
    with open(cf, "w") as f:
        f.write("C %s %s\n" % (cid, " ".join(hdr)))
        for op in ops:
            f.write(" ".join(op) + "\n")
        f.write("E\n")
    env = dict(os.environ)
    env.update({"VERIF_PRINT_ORDER": "1", "RUST_BACKTRACE": "0"})
    env.update(env_extra or {})
    if env_of:
        env.update(env_of(case) or {})
    dbs = [h for h in hdr if not h.startswith("@")]
    obs, aux = [], []
    dA = os.path.join(wd, "A")
    nseg = 1 + sum(1 for op in ops if op[0] == "---")
    bseg = nseg - 1
    fidx = 0
    for sg in range(bseg):
        rc, out, err = _run([drv, "crashb", cf, dA, str(sg)], env)
        replies = [l[2:] for l in out if l.startswith("R ")]
        start = next((l for l in out if l.startswith("START")), "START ?")
        obs.append("A%d %s | %s" % (sg, start, ";".join(replies)))
        ga = orders_of(err)
        for g in ga[1:]:
            aux.append("#orderA %d %s" % (fidx, " ".join(g))); fidx += 1
        if sg > 0:
            aux.append("#load %d %s" % (sg, " ".join(load_of(err))))
        if rc != 0 or "END" not in out:
            obs.append("A-DIED rc=%d" % rc)
            return {"obs": obs, "aux": aux}

    toks = tokens_of(ops)
    bin_count = [0]

    def phase_c_run(d, force_bin=False):
        bv = None
        if binary and (force_bin or bin_count[0] % bin_stride == 0):
            bv = bin_view(binary, d, toks)      # before the mirror: its start-up may rewrite the directory
        bin_count[0] += 1
        rc, out, err = _run([drv, phase_c, d], env)
        txt = " ".join(l for l in out if l)
        if rc != 0 and "START" not in txt:
            txt = "START DIED rc=%d" % rc
        if bv is not None:
            mv = mirror_view(txt, toks)
            if bv == mv:
                aux.append("#bin same")
            else:
                aux.append("#bin DIFF binary[%s] mirror[%s]" % (bv, mv))
        return txt, load_of(err)

    # N = 0: the directory as part A left it
    d0 = os.path.join(wd, "K0")
    shutil.copytree(dA, d0)
    txt, lo = phase_c_run(d0)
    shutil.rmtree(d0, ignore_errors=True)
    obs.append("K none 0 killed " + txt)
    aux.append("#kill none 0 -- %s" % " ".join(lo))
    klines = []

    def run_b(dn, ty, n, tracefile=None):
        shutil.copytree(dA, dn)
        cmd = ["strace", "-f", "-o", tracefile or "/dev/null", "-e", "trace=" + ALLSYS]
        if ty:
            cmd += ["-e", "inject=%s:signal=KILL:when=%d" % (ty, n)]
        for p in data_paths(dn, dbs):
            cmd += ["-P", p]
        cmd += [drv, "crashb", cf, dn, str(bseg)]
        envb = dict(env); envb.update(extra_env_b or {})
        rc, out, err = _run(cmd, envb)
        killed = "END" not in out
        replies = [l[2:] for l in out if l.startswith("R ")]
        start = next((l for l in out if l.startswith("START")), "START ?")
        flat = [o for g in orders_of(err) for o in g]
        txt, lo = phase_c_run(dn)
        shutil.rmtree(dn, ignore_errors=True)
        return killed, replies, start, flat, load_of(err), txt, lo

    # the uninterrupted run, traced, to see which system calls touch the data files at all
    tf = os.path.join(wd, "trace")
    killed, fr, start, flat, lob, txt, lo = run_b(os.path.join(wd, "KF"), None, 0, tf)
    seen = {}
    for l in open(tf, errors="replace"):
        m = re.match(r"^\d+\s+([a-z0-9_]+)\(", l)
        if m:
            seen[m.group(1)] = seen.get(m.group(1), 0) + 1
    os.unlink(tf)
    if killed:
        obs.append("B-DIED without injection: %s" % ";".join(fr))
        return {"obs": obs, "aux": aux}
    unexpected = sorted(k for k in seen if k not in KINDS)
    for ty in KINDS:
        n = 1
        while n <= MAXKILLS and not (no_kills_of and no_kills_of(case)):
            k2, replies, _st, fl2, _lb, txt2, lo2 = run_b(os.path.join(wd, "K%s%d" % (ty, n)), ty, n)
            if not k2:
                break
            klines.append((ty, n, True, replies, txt2))
            aux.append("#kill %s %d %s -- %s" % (ty, n, " ".join(fl2), " ".join(lo2)))
            n += kill_stride
    klines.append(("write", 99999, False, fr, txt))
    aux.append("#kill write 99999 %s -- %s" % (" ".join(flat), " ".join(lo)))
    aux.append("#load %d %s" % (bseg, " ".join(lob)))
    obs.append(start)
    obs.append("B " + ";".join(fr[:-1] if fr and fr[-1] in ("Flushed", "Shutdown") else fr))
    if unexpected:
        obs.append("UNEXPECTED-SYSCALLS " + ",".join(unexpected))
    for ty, n, killed, replies, txt in klines:
        pre = "" if replies == fr[:len(replies)] else " DIVERGED-BEFORE-KILL[%s]" % ";".join(replies)
        obs.append("K %s %d %s%s %s" % (ty, n, "killed" if killed else "complete", pre, txt))
    # K none 0 goes after START/B in the model's order
    k0 = next(i for i, l in enumerate(obs) if l.startswith("K none 0 "))
    l0 = obs.pop(k0)
    kb = next(i for i, l in enumerate(obs) if l.startswith("B "))
    obs.insert(kb + 1, l0)
    shutil.rmtree(wd, ignore_errors=True)
    return {"obs": obs, "aux": aux}


def run_cases(cases, drv, rundir, phase_c, workers=16, **kw):
    impl, errs = {}, []

    def one(c):
        try:
            return c[0], run_case(c, drv, os.path.join(rundir, "c_" + c[0]), phase_c, **kw), None
        except Exception as e:
            return c[0], {"obs": ["ORCHESTRATOR-ERROR %r" % (e,)], "aux": []}, "case %s: %r" % (c[0], e)
    with ThreadPoolExecutor(max_workers=workers) as ex:
        for cid, r, e in ex.map(one, cases):
            impl[cid] = r
            if e:
                errs.append(e)
    return impl, errs


def augment_case(case, io):
    """hand the observed iteration / directory orders to the model"""
    cid, hdr, ops = case
    if io is None:
        return case
    oa, kills, loads = {}, [], {}
    for a in io["aux"]:
        t = a.split(" ")
        if t[0] == "#orderA":
            oa[int(t[1])] = [x for x in t[2:] if x]
        elif t[0] == "#kill":
            kills.append(["kill"] + [x for x in t[1:] if x])
        elif t[0] == "#load":
            loads[int(t[1])] = [x for x in t[2:] if x]
    nseg = 1 + sum(1 for op in ops if op[0] == "---")
    out, fi, seg = [], 0, 0
    for op in ops:
        if op[0] == "---":
            seg += 1
            out.append(["---"] + loads.get(seg, []))
        elif op[0] in ("flush", "shutdown") and seg < nseg - 1:
            out.append([op[0]] + oa.get(fi, [])); fi += 1
        else:
            out.append(op)
    return (cid, hdr, out + kills)
