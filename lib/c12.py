# C12 -- the operation-log query never misses an operation
import itertools, random, re

ID = "C12"
DRIVER = "oplog"
MODEL_FILES = ["Model/Oplog.v"]
THEOREMS = ["C12_units_ok", "C12_search_total", "C12_search_found_complete", "C12_search_notfound_complete",
            "C12_query_file_complete", "C12_query_all_complete", "C12_last_op_time", "C12_append_suffix",
            "C12_reopen_keeps", "C12_declutter_suffix", "C12_example",
            "C12_last_op_time_after_boundary_reopen_refuted", "C12_retention_refuted"]
STRENGTH = {t: "proof-unbounded" for t in THEOREMS}
STRENGTH["C12_example"] = "example (non-vacuity)"
STRENGTH["C12_last_op_time_after_boundary_reopen_refuted"] = "refuted (known finding, witness by vm_compute)"
STRENGTH["C12_retention_refuted"] = "refuted (known finding, witness by vm_compute)"
RULE = ("exhaustive logs of 0-7 records over 2 dbs x 2 keys x 4 kinds with strictly and non-strictly increasing "
        "timestamps x every since in {0, t-1, t, t+1 for each record time, last+1}; seeded random logs (hundreds to "
        "thousands of records) with small file sizes to force rotation and retention; distinct = distinct observation "
        "trace; non-trivial = at least one query returning a non-empty proper subset or a rotation happened")
ASSUMPTIONS = ["log files consist of whole 25-byte records (torn tails are C16's subject)",
               "rotated files are ordered by creation time = rotation order (observed through file names)",
               "timestamps are non-decreasing in write order (op ids come from one clock on the writing node)"]
TRUSTED = ["file system: rename/append/metadata semantics of the OS are not modelled beyond sizes and order"]


def env_key(case):
    return {"NUN_MAX_OP_LOG_SIZE": str(int(case[1][0]) * 10)}


def mk_log_ops(times, rng_keys):
    ops = []
    for t, (k, d, o) in zip(times, rng_keys):
        ops.append(["w", str(t), str(k), str(d), str(o)])
    return ops


def sinces(times):
    s = {0}
    for t in times:
        s.update({max(t - 1, 0), t, t + 1})
    if times:
        s.add(times[-1] + 2)
    return sorted(s)


def gen_cases(tier, seed):
    rng = random.Random(seed)
    cases = []
    dist = {"exhaustive_logs": 0, "random_logs": 0, "queries": 0, "records_hist": {}}
    kinds = [(k, d, o) for d in (1, 2) for k in (5, 6) for o in (0, 1, 2, 3)]
    if tier == "quick":
        maxn, nrand, big = 5, 150, 6
    elif tier == "thorough":
        maxn, nrand, big = 7, 3000, 60
    else:
        maxn, nrand, big = 4, 300, 4
    cid = 0
    # exhaustive over time-shapes (gaps 0/1/2 between consecutive records) and a sample of key assignments
    for n in range(0, maxn + 1):
        for gaps in itertools.product((0, 1, 2), repeat=max(n - 1, 0)):
            times = []
            t = 10
            for i in range(n):
                if i > 0:
                    t += gaps[i - 1]
                times.append(t)
            for rep in range(2):
                ks = [rng.choice(kinds) for _ in range(n)]
                ops = mk_log_ops(times, ks)
                qs = [["q", str(s)] for s in sinces(times)]
                dist["queries"] += len(qs)
                # interleave: all writes then last + queries; second variant queries in the middle too
                if rep == 0 or n < 2:
                    seq = ops + [["last"], ["size"]] + qs
                else:
                    h = n // 2
                    seq = ops[:h] + [["last"]] + qs[:3] + [["reopen"]] + ops[h:] + [["last"], ["size"]] + qs
                single = rng.choice([50, 100, 250, 100000])
                cases.append(("e%d" % cid, [str(single)], seq))
                cid += 1
                dist["exhaustive_logs"] += 1
    # boundary: the current file is exactly 'single' bytes when the node restarts
    for single in (50, 100, 250):
        n = single // 25
        seq = [["w", str(10 + j), "5", "1", "0"] for j in range(n)] + [["last"], ["reopen"], ["last"], ["q", "0"], ["q", str(10 + n - 1)]]
        cases.append(("b%d" % single, [str(single)], seq))
    # random longer logs with rotation, retention and restarts
    for i in range(nrand + big):
        isbig = i >= nrand
        n = rng.randint(300, 900) if isbig else rng.randint(8, 120)
        single = rng.choice([1000, 250] if isbig else [50, 100, 250, 1000, 100000])
        t = rng.randint(1, 50)
        seq = []
        times = []
        strict = rng.random() < 0.5
        for j in range(n):
            t += rng.choice((1, 2, 7)) if strict else rng.choice((0, 0, 1, 3))
            times.append(t)
            k, d, o = rng.choice(kinds) if rng.random() < 0.8 else (rng.randint(0, 40), rng.randint(0, 3), rng.randint(0, 3))
            seq.append(["w", str(t), str(k), str(d), str(o)])
            r = rng.random()
            if r < 0.02:
                seq.append(["reopen"])
            elif r < 0.04:
                seq.append(["declutter"])
            elif r < 0.08:
                seq.append(["q", str(rng.choice(times) + rng.choice((-1, 0, 0, 1)))])
            elif r < 0.10:
                seq.append(["last"])
        seq += [["last"], ["size"], ["declutter"], ["size"]]
        for s in [0, times[0], times[-1], times[-1] + 1] + [rng.choice(times) + rng.choice((-1, 0, 1)) for _ in range(6)]:
            seq.append(["q", str(max(s, 0))])
        dist["queries"] += sum(1 for o in seq if o[0] == "q")
        b = n // 100
        dist["records_hist"][b] = dist["records_hist"].get(b, 0) + 1
        cases.append(("r%d" % i, [str(single)], seq))
        dist["random_logs"] += 1
    return cases, dist


def oracle(case, io, mo):
    fails = []
    if mo is None:
        return fails
    single = int(case[1][0])
    specs = [a for a in mo["aux"] if a.startswith("#spec")]
    qi = 0
    written = []      # times written so far
    for i, line in enumerate(io["obs"]):
        op = case[2][i]
        if " | " not in line:
            fails.append(("malformed", "step %d: %s" % (i, line)))
            break
        res, files = line.split(" | ")
        if res == "PANIC":
            fails.append(("panic", "step %d: %s panicked" % (i, " ".join(op))))
            continue
        m = re.match(r"^files \[(.*)\] (\d+)$", files)
        rot = [int(x) for x in m.group(1).split(",")] if m.group(1) else []
        cur = int(m.group(2))
        if op[0] == "w":
            written.append(int(op[1]))
        if op[0] == "q":
            sp = specs[qi] if qi < len(specs) else None
            qi += 1
            if sp is None:
                continue
            m2 = re.match(r"^#spec (\S+) sorted=(\d)$", sp)
            if m2.group(2) == "1":
                got = res[2:]
                g = dict(x.split(":", 1) for x in got.split(",")) if got != "-" else {}
                w = dict(x.split(":", 1) for x in m2.group(1).split(",")) if m2.group(1) != "-" else {}
                missing = sorted(k for k in w if k not in g)
                if missing:
                    fails.append(("query-misses", "step %d since=%s: misses %s" % (i, op[1], missing)))
                wrong = sorted((k, g[k], w[k]) for k in w if k in g and g[k] != w[k])
                if wrong:
                    fails.append(("query-label", "step %d since=%s: (key, got time:kind, most recent) %s" % (i, op[1], wrong)))
        if op[0] == "last":
            # newest record of the retained log; the model/impl diff checks the file structure
            if rot or cur:
                expect = written[-1] if written else 0
                if res != "last %d" % expect:
                    cls = "last-op-time-empty-current-file" if (cur == 0 and res == "last 0") else "last-op-time"
                    fails.append((cls, "step %d: reported %s, newest record has time %d" % (i, res, expect)))
            elif res != "last 0":
                fails.append(("last-op-time", "step %d: empty log reports %s" % (i, res)))
        if op[0] == "declutter":
            retained = sum(rot) + cur
            # distinct records retained: every rotation duplicates one record
            total_written = 25 * len(written)
            if retained < min(total_written, single * 10):
                fails.append(("retention-below-configured-size",
                              "step %d: retained %d bytes < min(written %d, configured %d)" % (i, retained, total_written, single * 10)))
    return fails


def nontrivial(case, io):
    for l in io["obs"]:
        if l.startswith("q ") and "," in l.split(" | ")[0]:
            return True
    return False
