# Canonicalisation of node-driver observations (applied identically to the
# implementation's and the model's lines): wall-clock op ids -> rank of first
# appearance within the case; HashMap-ordered listings sorted; timing-dependent
# payloads replaced by '*'.
import re

ID_RE = re.compile(r'(?<![0-9])1[0-9]{18}(?![0-9])')


def _sort_msg(msg):
    if msg.startswith("dbs-list{20}{0A}"):
        body = msg[len("dbs-list{20}{0A}"):]
        parts = [p for p in body.split("{0A}") if p != ""]
        return "dbs-list{20}{0A}" + "{0A}".join(sorted(parts)) + "{0A}"
    if msg.startswith("commands-list{20}"):
        body = msg[len("commands-list{20}"):]
        if body.endswith("{0A}"):
            body = body[:-4]
        items = sorted(x for x in body.split(",") if x != "")
        return "commands-list{20}," + ",".join(items) + "{0A}"
    if msg.startswith("metrics-state"):
        return "metrics-state{20}*"
    if msg.startswith("pending-ops"):
        return "pending-ops{20}*"
    return msg


def canon_case(lines):
    ids = {}
    out = []
    for l in lines:
        if not l.startswith("D "):
            parts = l.split(" | ")
            if len(parts) >= 2:
                if parts[0].startswith("Value oplog-state "):
                    parts[0] = "Value oplog-state * -1"
                inb = parts[1]
                if inb != "-":
                    segs = []
                    for seg in inb.split(";"):
                        m = re.match(r'^([^:\[\]]+):\[(.*)\]$', seg)
                        if m:
                            msgs = [_sort_msg(x) for x in m.group(2).split("|")]
                            segs.append("%s:[%s]" % (m.group(1), "|".join(msgs)))
                        else:
                            segs.append(seg)
                    parts[1] = ";".join(segs)
                l = " | ".join(parts)
        l = ID_RE.sub(lambda x: ids.setdefault(x.group(0), "#%d" % len(ids)), l)
        out.append(l)
    return out
