# C14 -- every operation causes a bounded message burst, then silence
import itertools, random, re
from clustergen import *
from common import hexs

ID = "C14"
DRIVER = "cluster"
IMPL_ENV = {"NUN_ELECTION_TIMEOUT": "20"}
MODEL_FILES = ["Model/Base.v", "Model/Parse.v", "Model/Node.v", "Model/Pending.v", "Model/Oplog.v", "Model/Cluster.v"]
THEOREMS = ["C14_secondary_never_fans_out", "C14_secondary_repl_one_node", "C14_secondary_poll_never_fans_out", "C14_fan_out_spec", "C14_fan_out_exact", "C14_leader_repl_one", "C14_primary_write_queues", "C14_replicated_line_applies", "C14_burst_exact_cluster", "C14_burst_potential_invariant", "C14_burst_bounded_anytime_cluster", "C14_burst_bounded_cluster", "C14_then_silence_cluster", "C14_pending_cleared_cluster", "C14_refused_write_sends_nothing_cluster", "C14_burst_needs_nodup", "C14_pending_needs_closed", "C14_burst_example_exact"]
STRENGTH = {t: "proof-unbounded" for t in THEOREMS}
RULE = ("every client-visible command (data commands, resolve on an arbiter database, snapshot, create-user, set-permissions, increment, "
        "remove, create-db, watch/keys/get, refused commands) issued on every node of 2- and 3-node clusters (exhaustive: command x node "
        "x strategy), settled with a round budget far above the bound, followed by a second settle that must move nothing; seeded random "
        "sequences of such operations; per-link counters show which node sent what; distinct = distinct canonical trace; non-trivial = the "
        "operation caused at least one inter-node message")
ASSUMPTIONS = ["bursts are counted for client operations in a settled cluster (election traffic belongs to C07)",
               "a line delivered over a link and a non-'ok' reply line each count as one message"]
TRUSTED = ["links are explicit FIFO queues (hook open_link); handshake lines emulated by the harness"]

CMDS = ["set a 1", "set-safe a 0 x", "set-safe a 9 y", "remove a", "increment c", "increment a 2", "get a", "keys", "watch a", "unwatch-all",
        "create-db e t", "create-user u pw", "set-permissions u r a", "snapshot false", "snapshot true d1", "arbiter", "use-db d1 tok1",
        "election foo", "cluster-state", "debug list-dbs", "replicate d1 zz -1 v", "replicate-remove d1 a", "replicate-increment d1 c 1",
        "replicate-snapshot d1", "rp 5 set a 9", "ack 5 n2", "resolve 5 d1 a 1 v"]


def gen_cases(tier, seed):
    rng = random.Random(seed)
    cases, dist = [], {"single": 0, "resolve": 0, "random": 0}
    n = {"quick": 150, "thorough": 4000, "search": 200}[tier]
    cid = 0
    for nn in (2, 3):
        for strat in ("none", "newer", "arbiter"):
            names, hdr, base = setup(nn, strat)
            for node in names:
                for c in CMDS:
                    ops = list(base) + [CC("n1", 1, "set a 0"), ["settle"], CC(node, 0, c), ["settle"], ["settle"]]
                    cases.append(("s%d" % cid, hdr + ["S=%d" % (nn - 1), "T=20"], ops)); cid += 1
    dist["single"] = cid
    # resolve of a real conflict on a clustered arbiter database, arbiter on the primary or on a secondary
    for nn in (2, 3):
        for arb in ["n1", "n2"]:
            for writer in ["n1", "n2"]:
                names, hdr, base = setup(nn, "arbiter")
                ops = list(base) + [CC(arb, 1, "arbiter"), CC("n1", 0, "set k a"), ["settle"], CC("n1", 0, "set k b"), ["settle"],
                                    CC(writer, 0, "set-safe k 0 c"), ["settle"], ["settle"],
                                    ["rsv", arb, "1", "0", hexs("R")], ["settle"], ["settle"]]
                cases.append(("a%d" % cid, hdr + ["S=%d" % (nn - 1), "T=20"], ops)); cid += 1
                dist["resolve"] += 1
    # a secondary is told that another member is the primary now (what a 'set-primary' from the winner of an election does):
    # the old primary stays in its member table as a secondary; afterwards every command again
    dist["after_primary_change"] = 0
    for strat in ("none", "newer"):
        names, hdr, base = setup(3, strat)
        for told, new in (("n3", "n2"), ("n2", "n3")):
            for c in ["set a 1", "set-safe a 0 x", "remove a", "increment c", "create-user u pw", "snapshot false", "get a"]:
                ops = list(base) + [CC("n1", 1, "set a 0"), ["settle"], CC(told, 0, "set-primary %s" % new), ["settle"], ["settle"],
                                    CC(told, 0, c), ["settle"], ["settle"]]
                cases.append(("e%d" % cid, hdr + ["S=2", "T=20"], ops)); cid += 1
                dist["after_primary_change"] += 1
    # fail-over: the primary dies, a node that had joined as a secondary wins the election; afterwards every command again
    # (resolve on an arbiter database included) on both survivors
    dist["after_fail_over"] = 0
    for strat in ("none", "arbiter"):
        names, hdr, base = setup(3, strat)
        cmds = ["set a 1", "set-safe a 0 x", "remove a", "increment c", "snapshot false", "get a", "resolve 5 d1 a 1 v"]
        for node in ("n2", "n3"):
            for c in cmds:
                ops = list(base) + [CC("n1", 1, "set a 0"), ["settle"], ["kill", "n1"], ["settle", "3000"], ["settle"],
                                    CC(node, 0, c), ["settle"], ["settle"]]
                cases.append(("o%d" % cid, hdr + ["S=1", "T=20"], ops)); cid += 1
                dist["after_fail_over"] += 1
        # a real conflict resolved after the fail-over
        if strat == "arbiter":
            for arb in ("n2", "n3"):
                ops = list(base) + [CC("n1", 1, "set k a"), ["settle"], ["kill", "n1"], ["settle", "3000"], ["settle"],
                                    CC(arb, 1, "arbiter"), CC("n2", 0, "set k b"), ["settle"], CC("n3", 0, "set-safe k 0 c"), ["settle"], ["settle"],
                                    ["rsv", arb, "1", "0", hexs("R")], ["settle"], ["settle"]]
                cases.append(("o%d" % cid, hdr + ["S=1", "T=20"], ops)); cid += 1
                dist["after_fail_over"] += 1
    for i in range(n):
        nn = rng.choice([2, 3])
        names, hdr, base = setup(nn, rng.choice(["none", "newer"]))
        ops = list(base)
        for _ in range(rng.randint(2, 8)):
            ops += [CC(rng.choice(names), rng.choice([0, 1]), rng.choice(CMDS)), ["settle"], ["settle"]]
        cases.append(("r%d" % i, hdr + ["S=%d" % (nn - 1), "T=20"], ops))
    dist["random"] = n
    return cases, dist


LINK_RE = re.compile(r"(\w+)>(\w+):(\d+)/(\d+)")


def oracle(case, io, mo):
    fails = []
    obs = split_obs(io)
    S = int([h for h in case[1] if h.startswith("S=")][0][2:])
    bound = 1 + 2 * S
    pending_x = 0
    last_cmd = None
    after_kill = False
    formed = None
    prev_links = None
    for i, op in enumerate(case[2]):
        if i >= len(obs):
            fails.append(("driver-died", "step %d" % i)); break
        reply, inb, x, dump = obs[i]
        links = {(m.group(1), m.group(2)): (int(m.group(3)), int(m.group(4))) for m in LINK_RE.finditer(dump.split(" links=[")[-1])} if " links=[" in dump else {}
        nodes = parse_dump(dump)
        if nodes:
            # the bound follows the number of live nodes (a node that died is printed as GONE and not parsed)
            S = len(nodes) - 1
            bound = 1 + 2 * S
        if reply == "PANIC":
            fails.append(("panic", "step %d" % i))
        if op[0] in ("cmd", "rsv"):
            last_cmd = (i, line_of(op) if op[0] == "cmd" else "resolve (arbiter's answer)", op[1])
            pending_x = x
            started_settled = True
        elif op[0] == "kill":
            # the election that follows a node's death is not a client operation (C07 judges it); the next settle only
            # has to reach silence
            last_cmd = None
            pending_x = 0
            after_kill = True
        elif op[0] == "settle" and after_kill:
            if reply != "Settled":
                fails.append(("fail-over-does-not-settle", "step %d: %s" % (i, reply)))
            after_kill = False
        elif op[0] == "settle":
            if reply != "Settled":
                fails.append(("self-sustaining-exchange", "step %d: after '%s' on %s the cluster was still exchanging messages after 200 scheduler rounds (%d crossings)" % (i, last_cmd[1] if last_cmd else "?", last_cmd[2] if last_cmd else "?", x)))
            elif last_cmd is not None and last_cmd[0] >= formed_at(case):
                total = pending_x + x
                if total > bound:
                    strat = next((line_of(o).split(" ")[-1] for o in case[2] if o[0] == "cmd" and line_of(o).startswith("create-db d1")), "")
                    if last_cmd[1].startswith("resolve"):
                        cls = "resolve-burst-above-bound"
                    elif last_cmd[1].startswith("create-db") and total == 3 * S and S >= 2:
                        cls = "create-db-reply-line-crosses"
                    elif last_cmd[1].startswith("set-safe") and strat == "arbiter" and last_cmd[2] != "n1":
                        cls = "arbiter-conflict-forwarded-twice"
                    else:
                        cls = "burst-above-bound"
                    fails.append((cls, "step %d: '%s' on %s caused %d inter-node messages, bound 1+2*%d=%d" % (i, last_cmd[1], last_cmd[2], total, S, bound)))
                if case[2][i - 1][0] == "settle" and x != 0:
                    fails.append(("not-silent", "step %d: %d messages after quiescence" % (i, x)))
                pending_x = 0
                last_cmd = None if case[2][i - 1][0] == "settle" else last_cmd
        # a secondary never fans out: after formation it sends only to the one node it holds to be the primary (its own
        # member table decides: after a primary change that is the new primary), never to two nodes for one operation
        if prev_links is not None and i > formed_at(case):
            prim = [n for n, v in nodes.items() if v["role"] == "P"]
            for a in nodes:
                if nodes[a]["role"] != "S":
                    continue
                believed = [e.split(":")[0] for e in nodes[a]["members"].split(",") if e and e.split(":")[1] == "Primary"]
                targets = [b for (x, b), (sent, back) in links.items()
                           if x == a and b != a and (x, b) in prev_links and sent > prev_links[(x, b)][0]]
                for b in targets:
                    if b not in prim and b not in believed:
                        fails.append(("secondary-fanned-out", "step %d: secondary %s sent %d lines to %s" % (i, a, links[(a, b)][0] - prev_links[(a, b)][0], b)))
                if len(targets) > 1:
                    fails.append(("secondary-sent-to-two-nodes", "step %d: secondary %s sent to %s for one operation" % (i, a, sorted(targets))))
        prev_links = links
    return fails


def formed_at(case):
    # index of the last setup settle (after the use-db lines)
    idx = 0
    for i, op in enumerate(case[2]):
        if op[0] == "cmd" and line_of(op).startswith("use-db d1 tok1"):
            idx = i
    return idx + 1


def nontrivial(case, io):
    obs = split_obs(io)
    f = formed_at(case)
    return any(o[2] > 0 for o in obs[f + 1:])
