# C04 -- live replication converges: every node ends equal to the primary
import itertools, random, re
from clustergen import *

ID = "C04"
DRIVER = "cluster"
MODEL_FILES = ["Model/Base.v", "Model/Parse.v", "Model/Node.v", "Model/Pending.v", "Model/Oplog.v", "Model/Cluster.v"]
THEOREMS = ["C04_replicate_roundtrip", "C04_replicate_remove_roundtrip", "C04_replicate_increment_roundtrip", "C04_create_db_roundtrip", "C04_rp_roundtrip", "C04_set_value_rel", "C04_remove_value_rel", "C04_inc_value_rel", "C04_replay_converges", "C04_replay_same_content", "C04_handle_set_effect", "C04_handle_replicate_set_effect", "C04_handle_remove_effect", "C04_handle_replicate_remove_effect", "C04_handle_increment_effect", "C04_handle_replicate_increment_effect", "C04_live_set_converges", "C04_live_remove_converges", "C04_live_increment_converges", "C04_leader_repl_one", "C04_replay_order_matters", "C04_converges", "C04_convergence_invariant", "C04_converges_reads", "C04_primary_write_queues", "C04_replicated_line_applies", "C04_formed_example", "C04_formed_run_converges", "C04_opp_ids_differ", "C04_snapshot_line_roundtrip", "C04_snapshot_primary_registers", "C04_snapshot_secondary_registers", "C04_snapshot_replicas_agree", "C04_snapshot_named_not_selected", "C04_snapshot_missing_db_refused", "C04_snapshot_needs_sel_ok", "C04_snapshot_bar_name_diverges", "C04_snapshot_replicas_example"]
STRENGTH = {t: "proof-unbounded" for t in THEOREMS}
RULE = ("clusters of 2-3 real Databases (replication thread and supervisor futures polled by hand, links emulated by explicit "
        "deliver/reply steps); operation sequences of length 1-8 over {set, set-safe, remove, increment, create-db, create-user, "
        "set-permissions, snapshot} issued at arbitrary nodes, either settled after every operation, settled only at the end "
        "(messages of several operations in flight), or driven by seeded random FIFO-respecting interleavings of poll/deliver/reply "
        "steps before the final settle; exhaustive for single operations x node x key; distinct = distinct canonical trace; "
        "non-trivial = at least one operation issued at a secondary changed data")
ASSUMPTIONS = ["a connected cluster formed without elections (add_as_secoundary + the real supervisor / handshake code)",
               "client operations are issued one at a time (two concurrent clients on the primary belong to the schedule model)",
               "quiescence is reached by the harness's fixed schedule or follows a random prefix of explicit steps"]
TRUSTED = ["the TCP pipe between nodes is replaced by explicit FIFO queues (hook open_link); the three handshake lines are emulated by the harness"]

KEYS = ["a", "b"]
def rand_op(rng, names):
    node = rng.choice(names)
    sid = rng.choice([0, 1])
    r = rng.random()
    k = rng.choice(KEYS)
    if r < 0.3: return CC(node, sid, "set %s v%d" % (k, rng.randint(0, 9)))
    if r < 0.42: return CC(node, sid, "set-safe %s %d w%d" % (k, rng.choice([-1, 0, 1, 2, 5]), rng.randint(0, 9)))
    if r < 0.57: return CC(node, sid, "remove %s" % k)
    if r < 0.72: return CC(node, sid, "increment %s %d" % (rng.choice(["c", "a"]), rng.randint(1, 3)))
    if r < 0.78: return CC(node, 0, "create-db e%d t" % rng.randint(0, 2))
    if r < 0.84: return CC(node, 0, "create-user u%d pw" % rng.randint(0, 1))
    if r < 0.9: return CC(node, 0, "set-permissions u0 %s a*" % rng.choice(["r", "rw", "rwix"]))
    if r < 0.93: return CC(node, 0, "snapshot false")
    if r < 0.96: return CC(node, 0, "snapshot %s %s" % (rng.choice(["false", "true"]), rng.choice(["e0", "e1", "d1", "e0|d1", "e2|e0", "nodb"])))
    return ["flush", node]


def gen_cases(tier, seed):
    rng = random.Random(seed)
    cases, dist = [], {"single_op": 0, "sequential": 0, "batched": 0, "interleaved": 0, "nodes_hist": {}}
    n = {"quick": 400, "thorough": 8000, "search": 500}[tier]
    cid = 0
    for nn in (2, 3):
        names, hdr, base = setup(nn)
        singles = ["set a 1", "set-safe a 0 x", "remove a", "increment c", "create-db e t", "create-user u pw", "set-permissions u r a", "snapshot false"]
        for node in names:
            for s in singles:
                ops = list(base) + [CC("n1", 1, "set a 0"), ["settle"], CC(node, 0, s), ["settle"]]
                cases.append(("s%d" % cid, hdr, ops)); cid += 1
            # a snapshot that names databases other than the selected one
            for s in ["snapshot false e0", "snapshot true e0|d1", "snapshot false d1", "snapshot false nodb"]:
                ops = list(base) + [CC("n1", 0, "create-db e0 t"), ["settle"], CC(node, 0, s), ["settle"]]
                cases.append(("s%d" % cid, hdr, ops)); cid += 1
            # a database whose name contains the separator of the snapshot list
            ops = list(base) + [CC("n1", 0, "create-db a|b t"), ["settle"], CC(node, 0, "use-db a|b t"), CC(node, 0, "snapshot false"), ["settle"]]
            cases.append(("s%d" % cid, hdr, ops)); cid += 1
        dist["single_op"] = cid
    for i in range(n // 4):
        names, hdr, base = setup(2)
        ops = list(base)
        for _ in range(rng.randint(3, 8)):
            r = rng.random()
            if r < 0.25: ops += [CC("n1", 0, "snapshot false"), ["settle"]]
            elif r < 0.45: ops += [["flush", rng.choice(names)]]
            elif r < 0.65: ops += [CC("n1", 0, "remove a"), ["settle"]]
            else: ops += [CC("n1", 0, "set a v%d" % rng.randint(0, 9)), ["settle"]]
        ops.append(["settle"])
        cases.append(("f%d" % i, hdr, ops))
    dist["snapshot_timing"] = n // 4
    for i in range(n):
        nn = rng.choice([2, 3, 3])
        names, hdr, base = setup(nn, rng.choice(["none", "none", "newer"]))
        ops = list(base)
        mode = rng.choice(["sequential", "batched", "interleaved"])
        dist[mode] += 1
        dist["nodes_hist"][nn] = dist["nodes_hist"].get(nn, 0) + 1
        for _ in range(rng.randint(1, 8)):
            ops.append(rand_op(rng, names))
            if mode == "sequential":
                ops.append(["settle"])
            elif mode == "interleaved":
                ops += random_steps(rng, names, rng.randint(0, 6))
        ops.append(["settle"])
        cases.append(("r%d" % i, hdr, ops))
    return cases, dist


def oracle(case, io, mo):
    fails = []
    obs = split_obs(io)
    writers = {}     # (db,key) -> set of nodes that originated a plain write / remove to it
    flushed = False
    sec_snap = False     # a snapshot asked of a secondary is that node's own business (it is not forwarded): only the primary's requests must reach everyone
    removed = set()
    for i, op in enumerate(case[2]):
        if i >= len(obs):
            fails.append(("driver-died", "step %d" % i)); break
        reply, inb, x, dump = obs[i]
        if reply == "PANIC":
            fails.append(("panic", "step %d" % i))
        if reply.startswith("NotSettled"):
            fails.append(("not-quiescent", "step %d: still exchanging messages after the round budget" % i))
        if op[0] == "flush":
            flushed = True
        if op[0] == "cmd":
            w = line_of(op).split(" ")
            if w[0] == "snapshot" and op[1] != "n1":
                sec_snap = True
            if w[0] in ("set", "remove", "set-safe") and len(w) > 1:
                writers.setdefault(w[1], set()).add(op[1])
                if w[0] == "remove":
                    removed.add(w[1])
            if w[0] == "create-user" and len(w) > 1:
                writers.setdefault("$$user_" + w[1], set()).add(op[1])
            if w[0] == "set-permissions" and len(w) > 1:
                writers.setdefault("$$permission_$" + w[1], set()).add(op[1])
        if op[0] == "settle" and reply == "Settled":
            nodes = parse_dump(dump)
            prim = [n for n, v in nodes.items() if v["role"] == "P"]
            if len(prim) != 1:
                continue
            p = nodes[prim[0]]
            for name, nd in nodes.items():
                if nd["dead"]:
                    fails.append(("service-thread-died", "step %d: node %s" % (i, name)))
                if not flushed and not sec_snap and nd.get("snap") != p.get("snap"):
                    missing = [x for x in p.get("snap") if x not in nd.get("snap")]
                    if missing and all("|" in x.rsplit(":", 1)[0] for x in missing) and not [x for x in nd.get("snap") if x not in p.get("snap")]:
                        # the list of names travels joined by '|': a database whose own name contains it is read as several names (known finding)
                        fails.append(("snapshot-name-with-separator", "step %d: %s was not asked to snapshot %s, the primary was" % (i, name, missing)))
                    else:
                        fails.append(("snapshot-requests-differ", "step %d: at quiescence %s is to snapshot %s, the primary %s" % (i, name, nd.get("snap"), p.get("snap"))))
                if nd["pending"] != 0:
                    fails.append(("pending-not-drained", "step %d: node %s still reports %d pending operations at quiescence" % (i, name, nd["pending"])))
                if name == prim[0]:
                    continue
                if set(nd["dbs"]) != set(p["dbs"]):
                    fails.append(("databases-differ", "step %d: %s has %s, primary %s" % (i, name, sorted(nd["dbs"]), sorted(p["dbs"]))))
                for dbn, pdb in p["dbs"].items():
                    if dbn == "$admin" or dbn not in nd["dbs"]:
                        continue
                    sd = nd["dbs"][dbn]
                    if sd["strat"] != pdb["strat"]:
                        fails.append(("strategy-differs", "step %d: %s %s" % (i, name, dbn)))
                    for k in set(pdb["keys"]) | set(sd["keys"]):
                        if k == "$connections":
                            continue
                        a, b = pdb["keys"].get(k), sd["keys"].get(k)
                        la = a is not None and a[2] == "L"
                        lb = b is not None and b[2] == "L"
                        if la == lb and (not la or (a[0], a[1]) == (b[0], b[1])):
                            continue
                        what = "liveness" if la != lb else ("value" if a[0] != b[0] else "version")
                        if name in writers.get(k, set()):
                            # the node's own client wrote this key: a secondary applies its own write at once and
                            # again when the primary echoes it, i.e. outside the primary's order (known finding)
                            fails.append(("secondary-origin-write-diverges", "step %d: %s key %s (%s): primary %s, originating secondary %s holds %s" % (i, dbn, k, what, a, name, b)))
                        elif what == "version" and flushed and k in removed:
                            # nodes write their snapshots at different times; a remove drops a never-persisted key but
                            # keeps (and versions) a tombstone for a persisted one, so later versions differ
                            fails.append(("version-depends-on-snapshot-timing", "step %d: %s key %s: primary %s, %s %s" % (i, dbn, k, a, name, b)))
                        else:
                            fails.append((what + "-differs", "step %d: %s key %s: primary %s, %s %s" % (i, dbn, k, a, name, b)))
    return fails


def nontrivial(case, io):
    return any(op[0] == "cmd" and op[1] != "n1" and line_of(op).split(" ")[0] in ("set", "remove", "increment", "set-safe") for op in case[2][-20:])
