# C16 -- after any restart the oplog is either discarded or still decodes correctly
import itertools, random, re
from nodegen import *
from common import build_binary
import crash

ID = "C16"
DRIVER = "crash16"
MODEL_FILES = ["Model/Base.v", "Model/Oplog.v", "Model/Parse.v", "Model/Node.v", "Model/Disk.v", "Model/Cluster.v", "Model/Meta.v"]
THEOREMS = ["C16_key_ids_crash_safe", "C16_restart_decodes_or_discards", "C16_initial_files_ok", "C16_written_for", "C16_keymap_roundtrip", "C16_keys_file_atomic", "C16_kinv_repl", "C16_kinv_snapshot_keys", "C16_kinv_start", "C16_crash_state_is_trace_prefix", "C16_kill_stops_before_ith_call", "C16_nonvacuous", "C16_lost_database_refuted", "C16_lost_database_id_reused_refuted", "C16_start_without_first_poll_refuted", "C16_illformed_initial_keymap_refuted"]
STRENGTH = {t: "proof-unbounded" for t in THEOREMS}
RULE = ("histories of create-db / first write of a new key / write of a known key / snapshot (of a subset of the databases) / "
        "clean shutdown / restart over 1-4 databases, 1-4 process lifetimes; the last lifetime is killed by strace on entering "
        "every write / rename / unlink it makes on the flag file, the key map (and its temporary file), the oplog and the database "
        "files (start-up cleaning included); after each kill a fresh process restarts on the directory and every oplog record is "
        "decoded through its id maps; distinct = distinct (history, kill point); non-trivial = the restarted node kept a non-empty log")
ASSUMPTIONS = ["crash = process kill between two system calls (no torn write, no page-cache loss)",
               "single replication thread and snapshot path run one after the other (the harness polls them by hand); the race between "
               "generate_key_id and snapshot_keys on different threads is outside the quantifier (DESIGN.md section 11)",
               "oplog rotation does not occur (default 1 GiB log); HashMap / directory orders are observed and handed to the model"]
TRUSTED = ["strace fault injection (kill on entering the N-th call of one kind, checked against the model's trace in every case)",
           "file semantics of Model/Meta.v: create / truncate / append / rename / unlink on regular files"]
SHARDS = 16

DBS = ["d1", "d2", "d3", "d4"]


def impl_runner(cases, ctx, rundir):
    # every few restarts the real binary (src/bin/main.rs's own start-up sequence) is started on a copy of the
    # directory as well and read over TCP: what it serves must be what the harness's start-up mirror loaded
    rc, out, binary = build_binary()
    if rc != 0:
        return {}, ["the nun-db binary does not build: %s" % out[-600:]]
    return crash.run_cases(cases, ctx.drv, rundir, "crashc", binary=binary, bin_stride=9, env_of=rot_env, no_kills_of=is_rot)


def is_rot(case):
    return case[0].startswith("q")


def rot_env(case):
    # rotation family: a log file is full after one record, so every start of a process with a non-empty current file
    # moves it to the rotated files (Oplog::get_log_file_append_mode)
    return {"NUN_MAX_OP_LOG_SIZE": "250"} if is_rot(case) else {}


def _dedup_log(m):
    out = []
    for r in (m.group(1).split(",") if m.group(1) else []):
        if not out or out[-1] != r:
            out.append(r)
    return " oplog=[%s]" % ",".join(out)


def reduce_model(case, drv, obs):
    """rotation family: Oplog::last_op_time reads the current file only (C12's recorded finding) and the record that fills a
    file is written again into the next one (by design, C12): `last=`, the current file's length and consecutive copies
    of a record are not compared once the log rotates"""
    if not is_rot(case):
        return obs
    out = []
    for l in obs:
        l = re.sub(r" last=\d+", " last=*", l)
        l = re.sub(r"oplog-nun\.op:\d+:\*", "oplog-nun.op:*", l)
        l = re.sub(r" oplog=\[(.*?)\]", _dedup_log, l)
        out.append(l)
    return out


def reconcile(case, drv, iobs, mobs, alts=()):
    return reduce_model(case, drv, iobs), []


augment = crash.augment_case


def shrink_budget(case):
    return 0 if is_rot(case) else 12


def extra_stats(cases, impl):
    same = sum(1 for io in impl.values() for a in io.get("aux", []) if a == "#bin same")
    diff = sum(1 for io in impl.values() for a in io.get("aux", []) if a.startswith("#bin DIFF"))
    return {"restarts_also_run_with_the_real_binary": same + diff, "binary_differs": diff}


def canon(obs):
    return [nodecanon.canon_case([l])[0] for l in obs]


def seg(cmds):
    ops = [["conn"], C(0, "auth nun pwd")]
    for c in cmds:
        if c == "F":
            ops.append(["flush"])
        elif c == "P":
            ops.append(["pollrepl"])
        elif c == "S":
            ops.append(["shutdown"])
        else:
            ops += [C(0, c), ["pollrepl"]]
    return ops


def case(cid, segs):
    ops = []
    for i, s in enumerate(segs):
        if i:
            ops.append(["---"])
        ops += seg(s)
    return (cid, list(DBS), ops)


def gen_cases(tier, seed):
    rng = random.Random(seed)
    cases = []
    dist = {"fixed": 0, "random": 0, "segments_hist": {}, "ends_with_shutdown": 0}
    fixed = [
        [["create-db d1 tok1 newer", "use-db d1 tok1", "set a 1", "set b 2", "snapshot false d1", "F"],
         ["use-db d1 tok1", "set c 3", "set dddddddd 4", "snapshot false d1", "F"]],
        [["create-db d1 tok1 newer", "use-db d1 tok1", "set a 1", "snapshot false d1", "F", "set b 2"],
         ["use-db d1 tok1", "set c 3"],
         ["use-db d1 tok1", "set e 5", "snapshot false d1", "F"]],
        [["create-db d1 tok1 newer", "create-db d2 tok2 newer", "create-db d3 tok3 newer", "use-db d3 tok3", "set a 1", "snapshot false d3", "F"],
         ["create-db d4 tok4 newer", "use-db d4 tok4", "set z 1", "use-db d3 tok3", "set a 2", "snapshot false d3|d4", "F"]],
        [["create-db d1 tok1 newer", "use-db d1 tok1", "set a 1", "S"],
         ["use-db d1 tok1", "set a 2", "set b 1", "S"]],
        [["create-db d1 tok1 newer", "use-db d1 tok1", "set a 1"],
         ["create-db d1 tok1 newer", "use-db d1 tok1", "set b 1", "snapshot false d1", "F"]],
        [["create-db d1 tok1 newer", "create-db d2 tok2 arbiter", "use-db d2 tok2", "set k 1", "remove k", "snapshot true d2", "F", "use-db d1 tok1", "set q 1"],
         ["use-db d2 tok2", "set k2 5", "increment n 2", "snapshot false d2", "F"]],
    ]
    for i, segs in enumerate(fixed):
        cases.append(case("f%d" % i, segs)); dist["fixed"] += 1
    # rotation family (no kill enumeration: every segment simply ends without a shutdown): the log is spread over rotated files
    rot = [
        [["create-db d1 tok1 newer", "use-db d1 tok1", "set a 1", "set b 2", "snapshot false d1", "F"],
         ["use-db d1 tok1", "set c 3"],
         ["use-db d1 tok1", "set d 4", "snapshot false d1", "F"],
         ["use-db d1 tok1", "set e 5"]],
        [["create-db d1 tok1 newer", "use-db d1 tok1", "set a 1", "S"],
         ["use-db d1 tok1", "set b 2", "S"],
         ["use-db d1 tok1", "set c 3"],
         ["use-db d1 tok1", "set d 4", "snapshot false d1", "F", "set e 5"]],
    ]
    for i, segs in enumerate(rot):
        cases.append(case("q%d" % i, segs))
    dist["rotation"] = len(rot)
    nrand = {"quick": 40, "thorough": 500, "search": 24}[tier]
    for i in range(nrand):
        nseg = rng.choice([2, 2, 3, 3, 4])
        dist["segments_hist"][nseg] = dist["segments_hist"].get(nseg, 0) + 1
        created, snapped = set(), set()   # snapped: databases with files on disk
        segs = []
        nk = 0
        for sg in range(nseg):
            cmds = []
            alive = set(snapped)          # after a restart only snapshotted databases exist
            if sg == 0:
                alive = set()
            cur = None
            pending_snap = set()
            for _ in range(rng.randint(2, 7)):
                r = rng.random()
                if r < 0.25 or not alive:
                    cand = [d for d in DBS if d not in alive]
                    if cand:
                        d = rng.choice(cand)
                        cmds.append("create-db %s tok%s %s" % (d, d[1], rng.choice(["newer", "newer", "none", "arbiter"])))
                        alive.add(d)
                        continue
                if not alive:
                    continue
                if r < 0.4 or cur is None or cur not in alive:
                    cur = rng.choice(sorted(alive))
                    cmds.append("use-db %s tok%s" % (cur, cur[1]))
                    continue
                if r < 0.7:
                    if rng.random() < 0.6:
                        nk += 1
                        k = "k%d" % nk
                    else:
                        k = "k%d" % rng.randint(1, max(1, nk))
                    cmds.append(rng.choice(["set %s v", "set %s w", "remove %s", "increment %s 2"]) % k)
                elif r < 0.9:
                    ds = rng.sample(sorted(alive), rng.randint(1, min(2, len(alive))))
                    cmds += ["snapshot %s %s" % (rng.choice(["false", "false", "true"]), "|".join(ds)), "F"]
                    pending_snap |= set(ds)
                else:
                    cmds.append("P")
            if rng.random() < 0.15:
                cmds.append("S")
                dist["ends_with_shutdown"] += 1
            snapped |= pending_snap
            segs.append(cmds)
        cases.append(case("r%d" % i, segs)); dist["random"] += 1
    return cases, dist


# ---------------------------------------------------------------- oracle (independent of the model)
def seg_ops(case):
    segs, cur = [], []
    for op in case[2]:
        if op[0] == "---":
            segs.append(cur); cur = []
        else:
            cur.append(op)
    segs.append(cur)
    return segs


def parse_c(rest):
    """phase C text -> dict"""
    if rest.startswith("START PANIC") or rest.startswith("START DIED"):
        return {"panic": True}
    m = re.match(r"^START valid=(\d)(?: dbs=\S*)? DUMP keymap=\[(.*?)\] dbids=\[(.*?)\] oplog=\[(.*?)\] last=(\S+)(.*) FILES (.*)$", rest)
    if not m:
        return {"panic": True, "unparsed": rest[:200]}
    recs = []
    if m.group(4):
        for r in m.group(4).split(","):
            if r.startswith("TORN"):
                recs.append(("TORN",)); continue
            a, b = r.split(">", 1)
            t, k, d, o = a.split(":")
            dn, kn = b.split("/", 1)
            recs.append((t, k, d, int(o), unesc(dn), unesc(kn)))
    km = dict(x.rsplit("=", 1) for x in m.group(2).split(",")) if m.group(2) else {}
    dbids = [x.split("=", 1) for x in m.group(3).split(",")] if m.group(3) else []
    dbsec = re.findall(r" db=(\S+) id=(\d+) ", m.group(6))
    return {"panic": False, "valid": m.group(1) == "1", "recs": recs, "keymap": km, "dbids": dbids, "dbsec": dbsec, "last": m.group(5)}


def loaded_of(start_line):
    m = re.search(r"dbs=(\S*)", start_line)
    return [unesc(x) for x in m.group(1).split(",") if x] if m else []


class Hist:
    """database incarnations: a database that was never snapshotted is lost at the next restart and its
    name may be created again; records are written for an incarnation, not for a name"""
    def __init__(self):
        self.counter = 0
        self.files_inc = {}      # name -> incarnation that owns the files on disk
        self.alive = {}          # name -> incarnation alive in the current lifetime
        self.log = []            # record groups [(name, inc, key, op)] in the log

    def start_segment(self, start_line):
        if "valid=0" in start_line:
            self.log = []
        self.alive = {n: self.files_inc.get(n, -1) for n in loaded_of(start_line)}

    def run(self, ops, replies, complete_flushes=True):
        queue, curdb, snapq = [], None, []
        for op, rep in zip(ops, replies):
            if op[0] == "cmd":
                w = line_of(op).split(" ")
                ok = rep == "Ok" or rep.startswith("Value ") or rep.startswith("Set ")
                if w[0] == "use-db" and rep == "Ok":
                    curdb = w[1]
                elif w[0] == "create-db" and ok:
                    self.counter += 1
                    self.alive[w[1]] = self.counter
                    queue.append([(w[1], self.counter, "-", 2)])
                elif w[0] in ("set", "increment") and ok and curdb:
                    queue.append([(curdb, self.alive.get(curdb), w[1], 0)])
                elif w[0] == "remove" and ok and curdb:
                    queue.append([(curdb, self.alive.get(curdb), w[1], 1)])
                elif w[0] == "snapshot" and ok:
                    names = w[2].split("|")
                    queue.append([(d, self.alive.get(d), "-", 3) for d in names])
                    snapq += names
            elif op[0] == "pollrepl":
                self.log += queue; queue = []
            elif op[0] in ("flush", "shutdown") and rep in ("Flushed", "Shutdown") and complete_flushes:
                for d in snapq:
                    if d in self.alive and d not in self.files_inc:
                        self.files_inc[d] = self.alive[d]
                snapq = []
        return snapq


def check_state(tag, st, h, site, maybe_new):
    """h: Hist whose log holds the record groups expected if the log was kept (a tail may be missing);
    maybe_new: names whose first snapshot was in progress when the process was killed"""
    fails = []
    if st.get("panic"):
        return [("start-fails@" + site, tag + ": the next start panics")]
    ids = [i for _, i in st["dbsec"]]
    if len(ids) != len(set(ids)):
        fails.append(("duplicate-db-id@" + site, "%s: databases %s" % (tag, st["dbsec"])))
    kv = list(st["keymap"].values())
    if len(kv) != len(set(kv)):
        fails.append(("duplicate-key-id@" + site, "%s: key map %s" % (tag, st["keymap"])))
    if not st["valid"]:
        if st["recs"]:
            fails.append(("invalid-but-log-kept@" + site, "%s: %d records survive a start that found the flag invalid" % (tag, len(st["recs"]))))
        return fails
    flat = [r for g in h.log for r in g]
    if len(st["recs"]) > len(flat):
        fails.append(("more-records-than-written@" + site, "%s: %d records, %d written" % (tag, len(st["recs"]), len(flat))))
    loaded = {}
    for n, _ in st["dbsec"]:
        if n == "$admin":
            continue
        loaded[n] = h.files_inc.get(n, h.alive.get(n) if n in maybe_new else -1)
    for i, r in enumerate(st["recs"][:len(flat)]):
        if r[0] == "TORN":
            fails.append(("torn-record@" + site, "%s: record %d" % (tag, i))); continue
        name, inc, key, wop = flat[i]
        t, k, d, o, dn, kn = r
        if o != wop:
            fails.append(("record-op-differs@" + site, "%s: record %d is op %d, written as %r" % (tag, i, o, flat[i])))
            continue
        survived = loaded.get(name) == inc
        if survived:
            if dn != name:
                cls = "record-db-undecodable" if dn == "?" else "record-decodes-to-wrong-db"
                fails.append(("%s@%s" % (cls, site), "%s: record %d written for %s/%s decodes to database %s (id %s)" % (tag, i, name, key, dn, d)))
        else:
            # the database the record was written for did not survive a restart (it was never snapshotted)
            if dn == "?":
                fails.append(("record-of-lost-database-undecodable", "%s: record %d written for %s#%s/%s: no database has id %s" % (tag, i, name, inc, key, d)))
            else:
                fails.append(("record-of-lost-database-decodes-to-other-db", "%s: record %d written for the lost %s#%s/%s decodes to %s (id %s reused)" % (tag, i, name, inc, key, dn, d)))
        if o <= 1 and kn != key:
            cls = "record-key-undecodable" if kn == "?" else "record-decodes-to-wrong-key"
            fails.append(("%s@%s" % (cls, site), "%s: record %d written for %s/%s decodes to key %s (id %s)" % (tag, i, name, key, kn, k)))
    return fails


def oracle(case, io, mo):
    import copy
    fails = []
    segs = seg_ops(case)
    msites = {}
    if mo:
        for l in mo["aux"]:
            t = l.split(" ")
            if t[0] == "#site":
                msites[(t[1], int(t[2]))] = t[3]
    obs = io["obs"]
    for a in io.get("aux", []):
        if a.startswith("#bin DIFF"):
            fails.append(("binary-start-differs", "the real binary started on a crash directory serves something else than the harness's "
                          "start-up sequence loaded: %s" % a[10:600]))
            break
    a_lines = [l for l in obs if re.match(r"^A\d+ ", l)]
    if len(a_lines) != len(segs) - 1 or any("PANIC" in l.split(" | ")[0] for l in a_lines):
        return [("history-incomplete", "; ".join(obs[:3])[:300])]
    h = Hist()
    for i, l in enumerate(a_lines):
        head, reps = l.split(" | ", 1)
        h.start_segment(head)
        h.run(segs[i], reps.split(";"))
    bstart = next((l for l in obs if l.startswith("START")), None)
    bl = next((l for l in obs if l.startswith("B ")), None)
    if bstart is None or bl is None:
        return [("history-incomplete", "; ".join(obs[-2:])[:300])]
    ks = [l for l in obs if l.startswith("K ")]
    for l in ks:
        m = re.match(r"^K (\S+) (\d+) (killed|complete)( DIVERGED\S*)? (START.*)$", l)
        if not m:
            fails.append(("unparsed-kill-line", l[:200])); continue
        ty, n = m.group(1), int(m.group(2))
        site = msites.get((ty, n), "none" if ty == "none" or m.group(3) == "complete" else "?")
        tag = "kill at %s #%d (%s)" % (ty, n, site)
        st = parse_c(m.group(5))
        if ty == "none":
            fails += check_state(tag, st, h, "quiescent", [])
            continue
        hb = copy.deepcopy(h)
        hb.start_segment(bstart)
        snapq = hb.run(segs[-1], bl[2:].split(";") + ["Flushed"], complete_flushes=(m.group(3) == "complete"))
        # databases whose first snapshot the kill interrupted may or may not have become loadable
        inprog = [op for op in segs[-1] if op[0] == "cmd" and line_of(op).startswith("snapshot ")]
        maybe = set()
        for op in inprog:
            maybe |= set(line_of(op).split(" ")[2].split("|"))
        fails += check_state(tag, st, hb, site, maybe)
    return fails


def nontrivial(case, io):
    return any(re.search(r"START valid=1 DUMP .* oplog=\[[^\]]", l) for l in io["obs"] if l.startswith("K "))
