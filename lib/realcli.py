# The command-line client against the real server: `nun-db -u U -p P --host http://... exec "<commands>"`
# (src/lib/command_line/commands.rs builds the body "auth U P; <commands>" and prints Response "<reply>") against the HTTP
# listener of a real nun-db process.  A case uses the node driver's format; `http <body>` ops whose body starts with
# "auth nun pwd; " are sent through the command-line client, `cmd` ops through a TCP session.  Observed: one line
# `Http <escaped reply>` per http op.
import os, re, shutil, subprocess, time
from concurrent.futures import ThreadPoolExecutor
from crash import esc, _free_ports
from realcluster import Sess, START_WAIT

PREFIX = "auth nun pwd; "


def rust_debug_unescape(s):
    out, i = [], 0
    while i < len(s):
        c = s[i]
        if c != "\\":
            out.append(c); i += 1; continue
        n = s[i + 1]
        if n == "u":
            j = s.index("}", i)
            out.append(chr(int(s[i + 3:j], 16))); i = j + 1; continue
        out.append({"n": "\n", "r": "\r", "t": "\t", "0": "\0", "\\": "\\", '"': '"', "'": "'"}[n]); i += 2
    return "".join(out)


def run_case(case, binary, wd):
    cid, hdr, ops = case
    shutil.rmtree(wd, ignore_errors=True)
    os.makedirs(wd, exist_ok=True)
    tcp, ws, http = _free_ports(3)
    env = dict(os.environ)
    env.update({"NUN_DBS_DIR": wd, "NUN_USER": "nun", "NUN_PWD": "pwd", "NUN_LOG_LEVEL": "Off", "RUST_BACKTRACE": "0", "NUN_REPLICATE_ADDR": ""})
    p = subprocess.Popen([binary, "start", "--tcp-address", "127.0.0.1:%d" % tcp, "--ws-address", "127.0.0.1:%d" % ws,
                          "--http-address", "127.0.0.1:%d" % http], stdout=subprocess.DEVNULL, stderr=subprocess.DEVNULL, env=env, cwd=wd)
    obs, sessions = [], {}
    try:
        time.sleep(START_WAIT)
        nconn = 0
        for op in ops:
            if op[0] == "conn":
                sessions[nconn] = Sess(tcp); nconn += 1
            elif op[0] == "cmd":
                out, st = sessions[int(op[1])].cmd(bytes.fromhex(op[2][1:]).decode("utf-8"))
                if st == "EOF":
                    obs.append("CONNECTION-LOST"); break
            elif op[0] == "disc":
                sessions[int(op[1])].s.close()
            elif op[0] == "http":
                body = bytes.fromhex(op[1][1:]).decode("utf-8")
                nconn += 1          # the model numbers the HTTP request's session too
                if not body.startswith(PREFIX):
                    obs.append("UNSUPPORTED-BODY"); break
                r = subprocess.run([binary, "-u", "nun", "-p", "pwd", "--host", "http://127.0.0.1:%d" % http, "exec", body[len(PREFIX):]],
                                   stdout=subprocess.PIPE, stderr=subprocess.PIPE, env=env, timeout=30)
                txt = r.stdout.decode("utf-8", "replace")
                m = re.match(r'^Response "(.*)"\n$', txt, re.S)
                if r.returncode != 0 or not m:
                    obs.append("CLI-FAILED rc=%d %s" % (r.returncode, esc(txt.encode("utf-8"))[:200]))
                else:
                    obs.append("Http " + esc(rust_debug_unescape(m.group(1)).encode("utf-8")))
            else:
                obs.append("UNSUPPORTED-OP %s" % op[0]); break
        if p.poll() is not None:
            obs.append("SERVER-DIED")
    except Exception as e:
        obs.append("ORCHESTRATOR-ERROR %r" % (e,))
    finally:
        p.kill(); p.wait()
        shutil.rmtree(wd, ignore_errors=True)
    return {"obs": obs, "aux": []}


def run_cases(cases, binary, rundir, workers=12):
    impl, errs = {}, []
    with ThreadPoolExecutor(max_workers=workers) as ex:
        for c, r in zip(cases, ex.map(lambda c: run_case(c, binary, os.path.join(rundir, "cli_" + c[0])), cases)):
            impl[c[0]] = r
            errs += ["case %s: %s" % (c[0], l) for l in r["obs"] if l.startswith("ORCHESTRATOR-ERROR")]
    return impl, errs


def reduce_model(case, obs):
    """the node driver's observations: keep the reply of every http op"""
    out = []
    replies = [l for l in obs if not l.startswith("D ")]
    for op, l in zip(case[2], replies):
        if op[0] == "http":
            out.append(l.split(" | ")[0])
    return out
