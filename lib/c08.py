# C08 -- secure ($$) keys are invisible and immutable to non-administrators
import itertools, random, re
from nodegen import *

ID = "C08"
DRIVER = "node"
MODEL_FILES = ["Model/Base.v", "Model/Parse.v", "Model/Node.v"]
THEOREMS = ["C08_step_unwinding", "C08_step_unwinding_strong", "C08_step_secrets_unchanged", "C08_step_same_databases", "C08_noninterference", "C08_noninterference_all_nonadmin", "C08_noninterference_strong", "C08_token_unremovable", "C08_token_survives_remove_value", "C08_low_eq_mask"]
STRENGTH = {t: "proof-unbounded" for t in THEOREMS}
RULE = ("two databases on one node set up identically except for the contents (and, for one key, the existence) of $$ keys; two "
        "non-administrator sessions (database-token or user-token) send the same command sequence (length 1-6) over every command "
        "word with key arguments from {$$token, $$user_x, $$permission_$x, $$secret, $secret, secret, *, $$*, *$$, and secure names padded with tab / CR / NBSP / VT, in another case, with a trailing ';'}; replies and "
        "inboxes must be identical and every $$ key unchanged; exhaustive for length 1 (every command word x every key), seeded "
        "random beyond; distinct = distinct canonical trace; non-trivial = at least one command touched a $$ key name and one was served")
ASSUMPTIONS = ["the two 'servers' are two databases of one node (same code paths; op ids and counters evolve symmetrically)",
               "the login token and the session's own permission list are the same on both sides (the property's stated exceptions)"]
TRUSTED = []

KEYARGS = ["$$token", "$$user_x", "$$permission_$x", "$$secret", "$secret", "secret", "*", "$$*", "*$$", "$$extra", "$$",
           # names that only differ from a secure key by white space / case / a separator a handler might normalise away
           "\t$$secret", "\r$$user_x", "$$secret\t", "\u00a0$$secret", "$$secret\r", "\x0b$$token", "$$SECRET", "$$secret;", "\t$$permission_$x"]
TEMPL = ["get %s", "get-safe %s", "watch %s", "unwatch %s", "set %s hack", "set-safe %s 0 hack", "set-safe %s 99 hack", "increment %s", "increment %s 4",
         "remove %s", "keys %s", "ls %s", "resolve 5 @DB %s 3 hack", "resolve 7 @DB %s -1 hack", "replicate @DB %s -1 hack", "replicate-remove @DB %s",
         "replicate-increment @DB %s 2", "rp 9 set %s hack", "rp 9 get %s", "rp 9 replicate @DB %s 1 hack", "create-user %s pw", "set-permissions %s rwix $$*",
         "use-db @DB %s", "use-db @DB x %s", "snapshot false @DB", "arbiter", "unwatch-all", "keys", "debug pendding-conflitcts", "create-db %s t",
         "election candidate 1 %s", "ack 5 %s", "cluster-state", "metrics-state", "list-commands", "auth nun %s", "join %s", "set-primary %s"]


def setup_ops():
    ops = [["conn"], ["conn"], ["conn"], C(0, "auth nun pwd"), C(0, "create-db dA tok"), C(0, "create-db dB tok")]
    for db, sfx in (("dA", "1"), ("dB", "2")):
        ops += [C(0, "use-db %s tok" % db), C(0, "set $$secret S" + sfx), C(0, "set $$user_x T" + sfx), C(0, "set $$permission_$x " + ("rwix *|rw q1" if sfx == "1" else "r nothing|rw q2")),
                C(0, "set secret plain"), C(0, "set $secret dollar"), C(0, "create-user bob pw"), C(0, "set-permissions bob r $$*|rwix *")]
    ops += [C(0, "set $$extra only-in-B")]
    return ops


def gen_cases(tier, seed):
    rng = random.Random(seed)
    cases, dist = [], {"exhaustive": 0, "random": 0, "templates": {}}
    n = {"quick": 1500, "thorough": 30000, "search": 2000}[tier]
    base = setup_ops()
    cid = 0

    def mk(seq, user):
        ops = list(base)
        login = "use-db @DB bob pw" if user else "use-db @DB tok"
        for ln in [login] + seq:
            ops.append(C(1, ln.replace("@DB", "dA")))
            ops.append(C(2, ln.replace("@DB", "dB")))
        return ops
    for t in TEMPL:
        for k in KEYARGS:
            for user in (False, True):
                ln = t % k if "%s" in t else t
                cases.append(("x%d" % cid, ["P"], mk([ln], user))); cid += 1
    dist["exhaustive"] = cid
    for i in range(n):
        seq = []
        for _ in range(rng.randint(2, 6)):
            t = rng.choice(TEMPL)
            dist["templates"][t.split(" ")[0]] = dist["templates"].get(t.split(" ")[0], 0) + 1
            seq.append(t % rng.choice(KEYARGS) if "%s" in t else t)
        cases.append(("r%d" % i, ["P"], mk(seq, rng.random() < 0.5)))
    dist["random"] = n
    return cases, dist


def secure(dump, db):
    return {k: v[:3] for k, v in db_keys(dump, db).items() if k.startswith("$$")}


def oracle(case, io, mo):
    fails = []
    obs = split_obs(io)
    nset = len(setup_ops())
    if len(obs) <= nset:
        return [("driver-died", "setup incomplete")]
    base = obs[nset - 1][3]
    sa0, sb0 = secure(base, "dA"), secure(base, "dB")
    i = nset
    ops = case[2]
    while i + 1 < len(ops) and i + 1 < len(obs):
        ra, ia = obs[i][0], inbox_of(obs[i][1], 1)
        rb, ib = obs[i + 1][0], inbox_of(obs[i + 1][1], 2)
        line = line_of(ops[i])
        if "PANIC" in (ra, rb):
            fails.append(("panic", "step %d: %s" % (i, line)))
        na = ra.replace("dA", "@").replace("S1", "S?").replace("T1", "T?")
        nb = rb.replace("dB", "@").replace("S2", "S?").replace("T2", "T?")
        if ra.replace("dA", "@") != rb.replace("dB", "@"):
            fails.append(("reply-depends-on-secret", "step %d: '%s' answered %s on one server and %s on the other" % (i, line, ra, rb)))
        if [x.replace("dA", "@") for x in ia] != [x.replace("dB", "@") for x in ib]:
            fails.append(("inbox-depends-on-secret", "step %d: '%s' delivered %s vs %s" % (i, line, ia, ib)))
        for r_ in (ra, rb):
            if r_.startswith("Value keys "):
                listed = [x for x in unesc(r_.split(" ")[2]).split(",") if x.startswith("$$")]
                if listed:
                    fails.append(("secure-key-listed", "step %d: '%s' listed %s to a non-administrator" % (i, line, listed)))
        for txt in [ra] + ia + [rb] + ib:
            if any(s in txt for s in ("S1", "S2", "T1", "T2", "only-in-B", "q1", "q2")):
                fails.append(("secret-leaked", "step %d: '%s' -> %s" % (i, line, txt[:120])))
        da, db_ = secure(obs[i + 1][3], "dA"), secure(obs[i + 1][3], "dB")
        if da != sa0 or db_ != sb0:
            fails.append(("secure-key-changed", "step %d: '%s' changed a $$ key: %s / %s" % (i, line, {k: v for k, v in da.items() if sa0.get(k) != v}, {k: v for k, v in db_.items() if sb0.get(k) != v})))
        i += 2
    return fails


def nontrivial(case, io):
    obs = split_obs(io)
    nset = len(setup_ops())
    lines = [line_of(o) for o in case[2][nset:] if o[0] == "cmd"]
    return any("$$" in l for l in lines) and any(o[0] == "Ok" or o[0].startswith("Value") for o in obs[nset + 2:])
