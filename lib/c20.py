# C20 -- HTTP replies line up, entry by entry, with the commands that caused them
import itertools, random, re
from nodegen import *
import netfam
from common import build_binary
import realcli

ID = "C20"
DRIVER = "node"
MODEL_FILES = ["Model/Base.v", "Model/Parse.v", "Model/Node.v", "Model/Net.v"]
THEOREMS = ["C20_one_message", "C20_http_aligned", "C20_http_length", "C20_http_released", "C20_example", "C20_ws_frame_seq", "C20_ws_frame_single", "C20_ws_frame_cmds", "C20_ws_frame_five_commands", "C20_utf8_valid_app_inv"]
STRENGTH = {t: "proof-unbounded" for t in THEOREMS}
RULE = ("HTTP bodies of 1-6 commands drawn from {auth ok/bad, use-db ok/bad, get, get-safe, set, set-safe ok/stale, remove, "
        "increment ok/non-numeric, keys, create-db allowed/refused, commands refused for missing database / missing permission / "
        "secure key}, with and without trailing ';' and blank statements, run through the real process_commands; the expected "
        "entries come from sending the same commands one at a time over an ordinary session on a twin database; exhaustive for "
        "bodies of 1-2 commands (3 in the thorough tier), seeded random up to 6; distinct = distinct canonical trace; non-trivial = "
        "a refused command is followed by a served one; transport family t*: bodies of 1-6 commands through the real HTTP listener and "
        "as one WebSocket frame, compared entry by entry with the commands sent one frame at a time; command-line family e*: "
        "`nun-db -u -p --host exec \"<1-6 commands>\"` (the real client of command_line/commands.rs) against the HTTP listener of a real "
        "nun-db process, the printed reply compared with the model's reply to the body the client builds")
ASSUMPTIONS = ["node-driver families drive the HTTP worker's body handling through process_commands (hook verif_process_commands) with "
               "body.split(';') as in start_http_client; the transport family t* posts the body to the real HTTP listener and sends the "
               "same commands as one frame to the real WebSocket listener"]
TRUSTED = []

CMDS = ["auth nun pwd", "auth nun bad", "use-db @DB tok", "use-db @DB bad", "use-db @DB bob pw", "get a", "get zz", "get-safe a", "set a 7", "set b x y",
        "set-safe a 0 stale", "set-safe a 50 fresh", "remove a", "remove $$token", "increment n", "increment s", "increment n 3", "keys", "keys a*",
        "create-db @NEW t", "get $$token", "set c 1"]

def setup_ops():
    ops = [["conn"], ["conn"], C(0, "auth nun pwd"), C(0, "create-db d0 t0"), C(0, "create-db dH tok"), C(0, "create-db dT tok")]
    for db in ("dH", "dT"):
        ops += [C(0, "use-db %s tok" % db), C(0, "set a 1"), C(0, "set a 2"), C(0, "set n 5"), C(0, "set s x y"), C(0, "create-user bob pw"), C(0, "set-permissions bob r a|i n")]
    ops += [C(0, "use-db d0 t0")]
    return ops


def body_of(cmds, rng, decorate=True):
    parts = []
    for c in cmds:
        if decorate and rng.random() < 0.15:
            parts.append(rng.choice(["", " ", "  "]))
        parts.append(rng.choice(["", " "]) + c + rng.choice(["", " "]) if decorate else c)
    b = ";".join(parts)
    if decorate and rng.random() < 0.4:
        b += ";"
    return b


def mk(cmds, rng, extra=None, decorate=True):
    ops = setup_ops()
    sub = lambda c, db, new: c.replace("@DB", db).replace("@NEW", new)
    body = body_of([sub(c, "dH", "newH") for c in cmds], rng, decorate)
    ops.append(["http", hexs(body)])
    for c in cmds:
        ops.append(C(1, sub(c, "dT", "newT")))
    ops.append(["disc", "1"])
    return ops


def driver_of(case):
    return "net" if case[0].startswith("t") else ("realcli" if case[0].startswith("e") else "node")


def impl_runner_for(drv):
    if drv != "realcli":
        return None

    def run(cases, ctx, rundir):
        rc, out, binary = build_binary()
        if rc != 0:
            return {}, ["the nun-db binary does not build: %s" % out[-600:]]
        return realcli.run_cases(cases, binary, rundir)
    return run


def model_driver_of(drv):
    return "node" if drv == "realcli" else drv


def reduce_model(case, drv, obs):
    return realcli.reduce_model(case, obs) if drv == "realcli" else obs


def shrink_budget(case):
    return 0 if case[0].startswith("e") else 12


def cli_mk(cmds, rng):
    """the command-line client (`nun-db exec`) against the real server's HTTP listener: its body is 'auth <user> <pwd>; <commands>'"""
    ops = setup_ops()
    sub = lambda c: c.replace("@DB", "dH").replace("@NEW", "newH")
    body = realcli.PREFIX + body_of([sub(c) for c in cmds], rng, True)
    ops.append(["http", hexs(body)])
    return ops


def net_setup():
    ops = [["tconn"], ["wconn"], C(0, "auth nun pwd"), C(0, "create-db d0 t0"), C(0, "create-db dH tok"), C(0, "create-db dT tok"), C(0, "create-db dW tok")]
    for db in ("dH", "dT", "dW"):
        ops += [C(0, "use-db %s tok" % db), C(0, "set a 1"), C(0, "set a 2"), C(0, "set n 5"), C(0, "set s x y"), C(0, "create-user bob pw"), C(0, "set-permissions bob r a|i n")]
    ops += [C(0, "use-db d0 t0")]
    return ops


def net_mk(cmds, rng):
    """the body through the real HTTP listener (database dH), the same commands as one WebSocket frame (dW, session 2)
    and one at a time over a WebSocket session (dT, session 1)"""
    ops = net_setup()
    sub = lambda c, db, new: c.replace("@DB", db).replace("@NEW", new)
    ops.append(["http", hexs(body_of([sub(c, "dH", "newH") for c in cmds], rng, True))])
    ops.append(["wconn"])
    ops.append(C(2, ";".join(sub(c, "dW", "newW") for c in cmds)))
    for c in cmds:
        ops.append(C(1, sub(c, "dT", "newT")))
    ops += [["disc", "1"], ["disc", "2"]]
    return ops


def net_oracle(case, io, mo):
    obs = split_obs(io)
    fails = netfam.transport_failures(case, obs)
    ns = len(net_setup())
    if len(obs) < len(case[2]):
        return fails + [("driver-died", "step %d" % len(obs))]
    cmds = [line_of(o) for o in case[2][ns + 3:] if o[0] == "cmd"]
    singles = obs[ns + 3: ns + 3 + len(cmds)]
    # HTTP
    reply = obs[ns][0]
    body = bytes.fromhex(case[2][ns][1][1:]).decode()
    if not reply.startswith("Http 200 "):
        fails.append(("malformed", reply))
    elif not any(c.startswith("watch") for c in cmds):
        got = unesc(reply[9:]) if reply != "Http 200 {}" else ""
        expect = []
        for o in singles:
            if o[0].startswith("Error "):
                e = unesc(o[0][6:])
            else:
                ib = netfam.items_of(o[1], 1)[:-1]
                e = ib[0] if ib else "empty"
            expect.append(e.replace("dT", "dH").replace("newT", "newH"))
        if got != ";".join(expect):
            fails.append(("http-misaligned", "body %r answered %r; the same commands sent one at a time answer %r" % (body, got, ";".join(expect))))
    # one WebSocket frame: the same answers, in the same order, as the commands sent one at a time
    got = netfam.items_of(obs[ns + 2][1], 2)
    want = []
    for o in singles:
        want += [x.replace("dT", "dW").replace("newT", "newW") for x in netfam.items_of(o[1], 1)]
    if got != want:
        fails.append(("ws-misaligned", "frame %r answered %r; the same commands sent one at a time answer %r" % (line_of(case[2][ns + 2]), got, want)))
    # released when the request ends / when the connections end
    for name in ("dH", "dT", "dW"):
        sec = db_section(obs[-1][3], name)
        if sec and (int(sec.group(3)) != 0 or any(w.split(":")[1] != "" for w in sec.group(5).split(",") if ":" in w)):
            fails.append(("connection-leak", "%s counter is %s, watchers %s after every session ended" % (name, sec.group(3), sec.group(5))))
    return fails


def gen_cases(tier, seed):
    rng = random.Random(seed)
    cases, dist = [], {"exhaustive": 0, "random": 0, "len_hist": {}}
    maxlen, n = {"quick": (2, 1500), "thorough": (3, 25000), "search": (2, 1500)}[tier]
    cid = 0
    for L in range(1, maxlen + 1):
        for seq in itertools.product(CMDS, repeat=L):
            cases.append(("x%d" % cid, ["P"], mk(list(seq), rng, decorate=False))); cid += 1
    dist["exhaustive"] = cid
    for i in range(n):
        L = rng.randint(2, 6)
        seq = [rng.choice(CMDS) for _ in range(L)]
        if rng.random() < 0.15:
            seq.insert(rng.randint(0, len(seq)), "watch a")      # released-at-end check only
            if rng.random() < 0.5:
                # nothing de-duplicates registrations: the same key watched again (and another key) must be released as well
                seq.insert(rng.randint(0, len(seq)), rng.choice(["watch a", "watch a", "watch b"]))
        dist["len_hist"][L] = dist["len_hist"].get(L, 0) + 1
        cases.append(("r%d" % i, ["P"], mk(seq, rng)))
    dist["random"] = n
    nt = {"quick": 300, "thorough": 5000, "search": 200}[tier]
    for i in range(nt):
        seq = [rng.choice(CMDS) for _ in range(rng.randint(1, 6))]
        if rng.random() < 0.15:
            seq.insert(rng.randint(0, len(seq)), "watch a")
            if rng.random() < 0.5:
                seq.insert(rng.randint(0, len(seq)), rng.choice(["watch a", "watch a", "watch b"]))
        cases.append(("t%d" % i, ["P"], net_mk(seq, rng)))
    dist["transport"] = nt
    ne = {"quick": 24, "thorough": 300, "search": 12}[tier]
    for i in range(ne):
        seq = [rng.choice([c for c in CMDS if not c.startswith("auth")]) for _ in range(rng.randint(1, 6))]
        cases.append(("e%d" % i, ["P"], cli_mk(seq, rng)))
    dist["command_line_client"] = ne
    return cases, dist


def oracle(case, io, mo):
    if case[0].startswith("t"):
        return net_oracle(case, io, mo)
    if case[0].startswith("e"):
        # one entry per command of the body the client built ("auth ...; <commands>"), compared with the model's reply
        fails = [("cli-run-failed", l[:200]) for l in io["obs"] if not l.startswith("Http ")]
        for l in io["obs"]:
            if l.startswith("Http "):
                body = bytes.fromhex(case[2][-1][1][1:]).decode()
                n_cmds = len([c for c in body.split(";") if c.strip() != ""])
                n_ent = len(unesc(l[5:]).split(";")) if l != "Http {}" else 0
                if n_ent != n_cmds:
                    fails.append(("http-misaligned", "the client sent %d commands and printed %d entries: %s" % (n_cmds, n_ent, l[:200])))
        return fails
    fails = []
    obs = split_obs(io)
    ns = len(setup_ops())
    if len(obs) <= ns:
        return [("driver-died", "setup incomplete")]
    reply, inb, q, dump = obs[ns]
    if reply == "PANIC":
        return [("panic", "the HTTP body panicked the worker")]
    body = bytes.fromhex(case[2][ns][1][1:]).decode()
    entries = unesc(reply[5:]).split(";") if reply.startswith("Http ") else None
    cmds = [line_of(o) for o in case[2][ns + 1:] if o[0] == "cmd"]
    has_watch = any(c.startswith("watch") for c in cmds)
    nonblank = [c for c in body.split(";") if c.strip() != ""]
    if entries is None:
        return [("malformed", reply)]
    if reply == "Http {}":
        entries = []
    if not has_watch:
        # one entry per command...
        got = unesc(reply[5:]) if reply != "Http {}" else ""
        expect = []
        for j, c in enumerate(cmds):
            o = obs[ns + 1 + j]
            r = o[0]
            if r.startswith("Error "):
                e = unesc(r[6:])
            elif r.startswith("VersionError"):
                e = "Invalid version!"
            else:
                ib = inbox_of(o[1], 1)
                e = ib[0] if ib else "empty"
            expect.append(e.replace("dT", "dH").replace("newT", "newH"))
        want = ";".join(expect)
        if got != want:
            fails.append(("http-misaligned", "body %r answered %r; the same commands sent one at a time answer %r" % (body, got, want)))
        if len(nonblank) != len(cmds):
            fails.append(("generator", "blank handling"))
    # released when the request ends: no subscription of the HTTP session, counter back
    sec = db_section(dump, "dH")
    httpsid = 2
    if sec:
        if int(sec.group(3)) != 0:
            fails.append(("http-connection-leak", "dH counter is %s after the request ended" % sec.group(3)))
        for w in sec.group(5).split(","):
            if ":" in w and str(httpsid) in w.split(":")[1].split("."):
                fails.append(("http-subscription-leak", "watch list %s still holds the HTTP session" % w))
    return fails


def nontrivial(case, io):
    if case[0].startswith("e"):
        return any(l.startswith("Http ") for l in io["obs"])
    obs = split_obs(io)
    ns = len(net_setup()) + 2 if case[0].startswith("t") else len(setup_ops())
    rs = [o[0] for o in obs[ns + 1:]]
    for a, b in zip(rs, rs[1:]):
        if a.startswith("Error") and not b.startswith("Error") and b != "Left":
            return True
    return False
