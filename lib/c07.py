# C07 -- elections end with exactly one primary, the oldest node, and all agree
import itertools, random, re
from clustergen import *
from common import hexs

ID = "C07"
DRIVER = "cluster"
MODEL_FILES = ["Model/Base.v", "Model/Parse.v", "Model/Node.v", "Model/Pending.v", "Model/Oplog.v", "Model/Cluster.v", "Model/Election.v"]
THEOREMS = ["C07_frame_terminates", "C07_frame_terminates_bound", "C07_frame_wake_progress", "C07_tick_frames_progress", "C07_frame_done_role", "C07_claims_without_eligibility", "C07_election_eval_rule", "C07_secondary_no_fanout", "C07_single_node_wins_at_once", "C07_sequential_formation_ok", "C07_formed3_ok", "C07_younger_node_wins_refuted", "C07_two_primaries_refuted", "C07_no_quiescence_refuted", "C07_no_quiescence_frames", "C07_two_nodes_form", "C07_two_nodes_form_any", "C07_two_nodes_agree", "C07_two_nodes_oldest_iff", "C07_two_nodes_form_asked_n2", "C07_two_nodes_pid_independent", "C07_quiescent_no_link_step", "C07_two_nodes_form_200_100"]
STRENGTH = {t: "proof-unbounded" for t in THEOREMS}
IMPL_ENV = {"NUN_ELECTION_TIMEOUT": "20"}
RULE = ("clusters of 2-3 nodes with distinct start times, formed by join requests in every order; triggers: join, debug force-election on "
        "one node or on two / three nodes at once (simultaneous elections), death of the primary or of a secondary (end-of-file on its "
        "connections at the survivors: leave / replicate-leave); the blocked election calls run on their own threads and "
        "are stepped by the scheduler (hook in the two wait loops): every deliverable message is delivered first, a wait-loop step "
        "(2 ms of election time, timeout 20 ms) is taken only when nothing can be delivered; at quiescence the roles and member tables of "
        "all nodes are read; distinct = distinct canonical trace; non-trivial = at least one election went through its wait loops")
ASSUMPTIONS = ["schedule family: deliver-everything-then-tick with a fixed link order (one interleaving per operation sequence, varied by the "
               "order of the triggers); other interleavings of deliveries and ticks are not enumerated",
               "all nodes live in one process and read one clock"]
TRUSTED = ["links are explicit FIFO queues (hook open_link); handshake lines emulated by the harness",
           "election wait loops stepped through hook election_wait; a blocked call runs on its own OS thread"]

PIDS = {"n1": 100, "n2": 200, "n3": 300}


def cluster(names, pids):
    hdr = ["%s/U/%d" % (n, pids[n]) for n in names] + ["T=20"]
    ops = []
    for n in names:
        ops += [["conn", n], ["conn", n]]
    for n in names:
        ops.append(CC(n, 0, "auth nun pwd"))
    return hdr, ops


def gen_cases(tier, seed):
    rng = random.Random(seed)
    cases, dist = [], {"formation": 0, "forced": 0, "random": 0}
    cid = 0
    pid_sets = [{"n1": 100, "n2": 200, "n3": 300}, {"n1": 300, "n2": 200, "n3": 100}, {"n1": 200, "n2": 100, "n3": 300}]
    # formation: every node asks every other node to join (ask_to_join_all_replicas), in every order of the requests
    for pids in pid_sets:
        for nn in (2, 3):
            names = ["n1", "n2", "n3"][:nn]
            joins = [(a, b) for a in names for b in names if a != b]     # b sends "join b" to a
            orders = list(itertools.permutations(joins)) if nn == 2 else [rng.sample(joins, len(joins)) for _ in range({"quick": 6, "thorough": 60, "search": 4}[tier])]
            for order in orders:
                for settle_each in (True, False):
                    hdr, ops = cluster(names, pids)
                    for a, b in order:
                        ops.append(CC(a, 0, "join %s" % b))
                        if settle_each:
                            ops.append(["settle"])
                    ops += [["settle", "3000"], ["settle"]]
                    cases.append(("f%d" % cid, hdr, ops)); cid += 1
                    dist["formation"] += 1
    # forced elections on a formed cluster
    for pids in pid_sets:
        for nn in (2, 3):
            names = ["n1", "n2", "n3"][:nn]
            hdr, base = cluster(names, pids)
            for b in names[1:]:
                base += [CC("n1", 0, "join %s" % b), ["settle"]]
            for k in range(1, nn + 1):
                for who in itertools.permutations(names, k):
                    ops = list(base)
                    for w in who:
                        ops.append(CC(w, 1 if w == "n1" else 0, "auth nun pwd"))
                    for w in who:
                        ops.append(CC(w, 1 if w == "n1" else 0, "debug force-election"))
                    ops += [["settle", "3000"], ["settle"]]
                    cases.append(("e%d" % cid, hdr, ops)); cid += 1
                    dist["forced"] += 1
    # a node dies (primary disconnect, or a secondary): end-of-file on its connections at the survivors
    dist["disconnect"] = 0
    for pids in pid_sets + [{"n1": 100, "n2": 300, "n3": 200}, {"n1": 300, "n2": 100, "n3": 200}]:
        for nn in (2, 3):
            names = ["n1", "n2", "n3"][:nn]
            for victim in names:
                for then_force in (None, names[-1]):
                    hdr, ops = cluster(names, pids)
                    for b in names[1:]:
                        ops += [CC("n1", 0, "join %s" % b), ["settle"]]
                    ops += [["settle"], ["kill", victim]]
                    if then_force and then_force != victim:
                        ops += [["settle", "3000"], CC(then_force, 1, "auth nun pwd"), CC(then_force, 1, "debug force-election")]
                    ops += [["settle", "3000"], ["settle"]]
                    cases.append(("k%d" % cid, hdr, ops)); cid += 1
                    dist["disconnect"] += 1
    n = {"quick": 60, "thorough": 1500, "search": 40}[tier]
    for i in range(n):
        pids = {"n1": 0, "n2": 0, "n3": 0}
        vals = rng.sample([100, 200, 300, 400, 500], 3)
        for k, v in zip(pids, vals):
            pids[k] = v
        nn = rng.choice([2, 3, 3])
        names = ["n1", "n2", "n3"][:nn]
        hdr, ops = cluster(names, pids)
        for nme in names:
            ops.append(CC(nme, 1, "auth nun pwd"))
        for _ in range(rng.randint(2, 7)):
            r = rng.random()
            if r < 0.45:
                a, b = rng.sample(names, 2)
                ops.append(CC(a, 0, "join %s" % b))
            elif r < 0.8:
                ops.append(CC(rng.choice(names), 1, "debug force-election"))
            elif r < 0.9:
                ops.append(["tick"])
            if rng.random() < 0.6:
                ops.append(["settle"])
        ops += [["settle", "3000"], ["settle"]]
        cases.append(("r%d" % i, hdr, ops))
        dist["random"] += 1
    return cases, dist


def roles_of(dump):
    out = {}
    for m in re.finditer(r" node=(\w+) role=(\w) members=\[(.*?)\]", dump):
        mem = {}
        if m.group(3):
            for e in m.group(3).split(","):
                p = e.split(":")
                mem[p[0]] = p[1]
        out[m.group(1)] = (m.group(2), mem)
    return out


def family(case):
    nn = len([h for h in case[1] if "/" in h])
    cid = case[0]
    if cid.startswith("k"):
        return "disconnect-%d-nodes" % nn
    if cid.startswith("f"):
        return "formation-%d-nodes" % nn
    if cid.startswith("e"):
        k = sum(1 for op in case[2] if op[0] == "cmd" and line_of(op) == "debug force-election")
        return "forced-on-%d-of-%d" % (k, nn)
    return "random-%d-nodes" % nn


def oracle(case, io, mo):
    return [(cls, "%s: %s" % (family(case), text)) for cls, text in oracle0(case, io, mo)]


def oracle0(case, io, mo):
    fails = []
    obs = split_obs(io)
    if not obs:
        return [("driver-died", "no output")]
    pids = {h.split("/")[0]: int(h.split("/")[2]) for h in case[1] if "/" in h}
    for i, op in enumerate(case[2]):
        if i >= len(obs):
            fails.append(("driver-died", "step %d" % i)); break
        if obs[i][0].startswith("PANIC"):
            fails.append(("panic", "step %d" % i))
    last = obs[min(len(obs), len(case[2])) - 1]
    if not last[0].startswith("Settled"):
        fails.append(("election-does-not-terminate", last[0]))
        return fails
    if " elections=" in last[3]:
        fails.append(("election-does-not-terminate", "wait loops still active at quiescence"))
    roles = roles_of(last[3])        # nodes that are gone do not appear (dump prints 'node=X GONE')
    gone = re.findall(r" node=(\w+) GONE", last[3])
    for n in roles:
        for g in gone:
            roles[n][1].pop(g, None) if False else None
    # the cluster as connected at quiescence: nodes that know somebody
    joined = [n for n, (r, mem) in roles.items() if len([m for m in mem if m != n]) > 0]
    if len(joined) < 2:
        return fails
    prim = [n for n in joined if roles[n][0] == "P"]
    oldest = min(joined, key=lambda n: pids[n])
    if len(prim) == 0:
        fails.append(("no-primary", "roles %s" % {n: roles[n][0] for n in joined}))
    elif len(prim) > 1:
        fails.append(("two-primaries", "roles %s (oldest is %s)" % ({n: roles[n][0] for n in joined}, oldest)))
    elif prim[0] != oldest:
        fails.append(("primary-is-not-the-oldest", "primary %s, oldest %s" % (prim[0], oldest)))
    for n in joined:
        if n not in prim and roles[n][0] != "S":
            fails.append(("node-neither-primary-nor-secondary", "%s is %s" % (n, roles[n][0])))
        named = [m for m, r in roles[n][1].items() if r == "Primary"]
        if len(prim) == 1 and named != [prim[0]]:
            fails.append(("members-disagree-on-primary", "%s names %s as primary, the primary is %s" % (n, named, prim[0])))
    return fails


def nontrivial(case, io):
    return any("Suspended" in l or " elections=" in l for l in io["obs"])
