# C10 -- no client input can crash a handler or wedge the node
import itertools, random, re
from nodegen import *

ID = "C10"
DRIVER = "node"
MODEL_FILES = ["Model/Base.v", "Model/Parse.v", "Model/Node.v"]
THEOREMS = ["C10_parse_total", "C10_init_inv", "C10_step_inv", "C10_step_no_panic", "C10_run_no_panic", "C10_probe_served", "C10_http_worker_survives", "C10_admin_inv_needed"]
STRENGTH = {t: "proof-unbounded" for t in THEOREMS}
RULE = ("every command word known to the parser (plus unknown ones) x argument lists of 0-5 tokens drawn from {empty, spaces, "
        "non-numeric, i32/u64/u128 boundary numbers, $$ keys, ';' and newline, a 10 kB token, non-ASCII} plus seeded random byte "
        "strings, sent from an unauthenticated, a database-token and an administrator session (debug build: overflow checks on); "
        "after every such line a second client runs a probe set/get that must be served normally; the quick tier sweeps every "
        "command word with every single-token argument; distinct = distinct canonical trace; non-trivial = the fuzz line was "
        "accepted by the parser (not 'unknown command')")
ASSUMPTIONS = ["lines are valid UTF-8 (process_request takes &str; invalid UTF-8 is rejected by the transports before it)",
               "handlers are driven through process_request; transport threads (TCP/HTTP/WS loops) are not exercised by this check",
               "'join <name>' twice makes the supervisor thread panic (administrator only): recorded as out of scope of the handler model"]
TRUSTED = ["panics are observed with catch_unwind in a debug build (overflow checks on); lock poisoning would show as a panic of the probe"]

WORDS = ["ack", "arbiter", "auth", "cluster-state", "create-db", "create-user", "debug", "election", "get", "get-safe", "increment",
         "join", "keys", "leave", "ls", "metrics-state", "remove", "replicate", "replicate-increment", "replicate-join", "replicate-leave",
         "replicate-remove", "replicate-since", "replicate-snapshot", "resolve", "rp", "set", "set-primary", "set-safe", "set-secoundary",
         "snapshot", "unwatch", "unwatch-all", "use", "use-db", "watch", "list-commands", "set-permissions", "bogus", "SET", ""]
TOKENS = ["", " ", "x", "k", "d1", "tok1", "-1", "0", "1", "-2", "2147483647", "-2147483648", "2147483648", "4294967296",
          "18446744073709551615", "18446744073709551616", "340282366920938463463374607431768211455", "340282366920938463463374607431768211456",
          "+5", "-0", "$$k", "$$token", "$connections", "$conflicts", ";", "\n", "a;b", "é", "日本", "*", "|", "a|b", "true", "false",
          "candidate", "win", "active", "force-election", "pending-ops", "list-dbs", "rw", "r a*", "L" * 10000, "nun", "pwd", "n2:3014", "n0:3014"]


def gen_cases(tier, seed):
    rng = random.Random(seed)
    cases, dist = [], {"sweep": 0, "random": 0, "words": {}}
    n = {"quick": 1200, "thorough": 30000, "search": 2000}[tier]
    setup = [["conn"], ["conn"], ["conn"], ["conn"], C(0, "auth nun pwd"), C(0, "create-db d1 tok1"), C(0, "create-db dp tokp"),
             C(0, "create-db d3 tok3 arbiter"), C(0, "use-db d1 tok1"), C(2, "use-db d1 tok1"), C(3, "use-db dp tokp"), C(2, "set k 5"), C(2, "set n 2147483647")]
    lines = []
    for w in WORDS:
        lines.append(w)
        for t in TOKENS:
            lines.append("%s %s" % (w, t))
    dist["sweep"] = len(lines)
    while len(lines) < dist["sweep"] + n:
        r = rng.random()
        if r < 0.85:
            w = rng.choice(WORDS)
            k = rng.randint(0, 5)
            lines.append(" ".join([w] + [rng.choice(TOKENS) for _ in range(k)]))
        else:
            lines.append("".join(chr(rng.choice([32, 59, 10, 36, 45, 48, 49, 57, 97, 112, 114, 115, 116, 0x7f, 0xe9, 9, 13])) for _ in range(rng.randint(1, 30))))
    dist["random"] = n
    per = 4 if tier != "thorough" else 4
    cid = 0
    for i in range(0, len(lines), per):
        ops = list(setup)
        for j, ln in enumerate(lines[i:i + per]):
            sid = rng.choice([0, 1, 2])
            ops.append(C(sid, ln))
            ops.append(C(3, "set p%d v%d" % (j, j)))
            ops.append(C(3, "get p%d" % j))
            w = ln.split(" ")[0]
            dist["words"][w[:20]] = dist["words"].get(w[:20], 0) + 1
        cases.append(("f%d" % cid, ["P"], ops))
        cid += 1
    return cases, dist


def oracle(case, io, mo):
    fails = []
    obs = split_obs(io)
    for i, op in enumerate(case[2]):
        if i >= len(obs):
            fails.append(("driver-died", "the driver process died at step %d (%r)" % (i, (line_of(op) or "")[:80]))); break
        reply = obs[i][0]
        if reply == "PANIC":
            fails.append(("panic", "step %d: %r panicked" % (i, (line_of(op) or op[0])[:120])))
        if op[0] == "cmd" and op[1] == "3" and i >= 13:
            line = line_of(op)
            if line.startswith("set p") and reply != "Ok":
                fails.append(("probe-refused", "step %d: probe '%s' answered %s after %r" % (i, line, reply, (line_of(case[2][i - 1]) or "")[:80])))
            if line.startswith("get p"):
                j = line[5:]
                if not reply.startswith("Value p%s v%s " % (j, j)):
                    fails.append(("probe-wrong", "step %d: probe '%s' answered %s" % (i, line, reply)))
    return fails


def nontrivial(case, io):
    obs = split_obs(io)
    return any(not o[0].startswith("Error unknown{20}command") and not o[0].startswith("Error empty") for o in obs[13::3])
