# C10 -- no client input can crash a handler or wedge the node
import itertools, random, re
from nodegen import *
import netfam, clustergen

ID = "C10"
DRIVER = "node"
MODEL_FILES = ["Model/Base.v", "Model/Parse.v", "Model/Node.v", "Model/Net.v", "Model/Cluster.v"]
THEOREMS = ["C10_parse_total", "C10_init_inv", "C10_step_inv", "C10_step_no_panic", "C10_run_no_panic", "C10_probe_served", "C10_http_worker_survives", "C10_admin_inv_needed", "C10_tcp_line_serving", "C10_tcp_line_invalid", "C10_ws_frame_serving", "C10_ws_frame_invalid", "C10_http_bytes_worker_survives", "C10_net_run_from_init", "C10_net_run_then_step", "C10_repl_one_survives", "C10_poll_repl_survives"]
STRENGTH = {t: "proof-unbounded" for t in THEOREMS}
RULE = ("every command word known to the parser (plus unknown ones) x argument lists of 0-5 tokens drawn from {empty, spaces, "
        "non-numeric, i32/u64/u128 boundary numbers, $$ keys, ';' and newline, a 10 kB token, non-ASCII} plus seeded random byte "
        "strings, sent from an unauthenticated, a database-token and an administrator session (debug build: overflow checks on); "
        "after every such line a second client runs a probe set/get that must be served normally; the quick tier sweeps every "
        "command word with every single-token argument; distinct = distinct canonical trace; non-trivial = the fuzz line was "
        "accepted by the parser (not 'unknown command'); transport family n*: the same lines, plus byte strings that are not UTF-8, "
        "sent over the real TCP listener (one line), the real WebSocket listener (text and binary frames) and the real HTTP "
        "listener (bodies) on loopback sockets, sessions of both kinds mixed, a probe client after every line: no connection, "
        "listener or worker may die; cluster family c*: a primary with its real replication thread and a secondary behind it, "
        "fuzzed commands and database names with line feeds / separators, settle after each: the replication thread must survive")
ASSUMPTIONS = [               "WebSocket text frames are UTF-8 (the ws library refuses others before the handler runs); binary frames carry any bytes",
               "'join <name>' twice makes the supervisor thread panic (administrator only): recorded as out of scope of the handler model"]
TRUSTED = ["panics are observed with catch_unwind in a debug build (overflow checks on); lock poisoning would show as a panic of the probe"]

WORDS = ["ack", "arbiter", "auth", "cluster-state", "create-db", "create-user", "debug", "election", "get", "get-safe", "increment",
         "join", "keys", "leave", "ls", "metrics-state", "remove", "replicate", "replicate-increment", "replicate-join", "replicate-leave",
         "replicate-remove", "replicate-since", "replicate-snapshot", "resolve", "rp", "set", "set-primary", "set-safe", "set-secoundary",
         "snapshot", "unwatch", "unwatch-all", "use", "use-db", "watch", "list-commands", "set-permissions", "bogus", "SET", ""]
TOKENS = ["", " ", "x", "k", "d1", "tok1", "-1", "0", "1", "-2", "2147483647", "-2147483648", "2147483648", "4294967296",
          "18446744073709551615", "18446744073709551616", "340282366920938463463374607431768211455", "340282366920938463463374607431768211456",
          "+5", "-0", "$$k", "$$token", "$connections", "$conflicts", ";", "\n", "a;b", "é", "日本", "*", "|", "a|b", "true", "false",
          "nodb|d1", "d1|nodb", "d1|dp", "candidate", "win", "active", "force-election", "pending-ops", "list-dbs", "rw", "r a*", "L" * 10000, "nun", "pwd", "n2:3014", "n0:3014"]


def driver_of(case):
    return {"n": "net", "c": "cluster"}.get(case[0][0], "node")


def net_cases(tier, rng, dist, lines):
    """the same fuzz lines through the real TCP / WebSocket / HTTP listeners, plus byte strings that are
    not UTF-8 (a raw TCP line, a binary WebSocket frame, an HTTP body); session 3 is the probe client"""
    out = []
    n = {"quick": 500, "thorough": 8000, "search": 300}[tier]
    for i in range(n):
        kinds = rng.choice(["tttt", "wwww", "twtw", "wtwt", "ttww", "wwtt", "twwt"])
        setup = [["conn"], ["conn"], ["conn"], ["conn"], C(0, "auth nun pwd"), C(0, "create-db d1 tok1"), C(0, "create-db dp tokp"),
                 C(0, "create-db d3 tok3 arbiter"), C(0, "use-db d1 tok1"), C(2, "use-db d1 tok1"), C(3, "use-db dp tokp"), C(2, "set k 5"), C(2, "set n 2147483647")]
        ops = netfam.to_net(setup, kinds)
        for j in range(3):
            sid = rng.choice([0, 1, 2])
            r = rng.random()
            if r < 0.2:
                data = bytes(rng.choice([0xff, 0xfe, 0xc0, 0x80, 0xe2, 0x28, 0x41, 0x20, 0x3b, 0xf0, 0x9f]) for _ in range(rng.randint(1, 12)))
                if kinds[sid] == "t":
                    data = data.replace(b"\n", b" ")
                ops.append(netfam.raw(sid, data)); dist["net_raw"] = dist.get("net_raw", 0) + 1
            elif r < 0.3:
                body = rng.choice([";".join(rng.choice(lines) for _ in range(rng.randint(1, 3))).encode("utf-8", "replace")[:3000],
                                   bytes(rng.choice([0xff, 0x41, 0x3b, 0xc3, 0x28]) for _ in range(rng.randint(1, 8)))])
                ops.append(["http", "x" + body.hex()]); dist["net_http"] = dist.get("net_http", 0) + 1
            else:
                ln = rng.choice(lines)
                if kinds[sid] == "t":
                    ln = ln.replace("\n", " ")
                    b = ln.encode("utf-8")
                    if len(b) >= 2 and rng.random() < 0.3:
                        # one line in two TCP segments with a pause in between (cut anywhere, inside a character too)
                        cut = rng.randint(1, len(b) - 1)
                        ops.append(["split", str(sid), "x" + b[:cut].hex(), "x" + b[cut:].hex()]); dist["net_split"] = dist.get("net_split", 0) + 1
                    else:
                        ops.append(C(sid, ln))
                else:
                    ops.append(C(sid, ln))
                dist["net_lines"] = dist.get("net_lines", 0) + 1
            ops.append(C(3, "set p%d v%d" % (j, j)))
            ops.append(C(3, "get p%d" % j))
        out.append(("n%d" % i, ["P"], ops))
    dist["net"] = n
    return out


CL_BLOCK = ("election", "join", "leave", "replicate-join", "replicate-leave", "set-primary", "set-secoundary", "replicate-since")
WEIRD_NAMES = ["a\nb", "a b", "a|b", "a;b", "\u00e9", "$admin", "d1\n", "\nd1", "x\n", "L" * 300, "a,b", "*", "$$x", "-1", "a\rb", "a\tb"]


def cluster_cases(tier, rng, dist, lines):
    """a primary with its real replication thread (and a secondary behind it): whatever a client makes the node
    queue for replication, the thread must survive it"""
    out = []
    n = {"quick": 300, "thorough": 5000, "search": 200}[tier]
    CC = clustergen.CC
    base = [["conn", "n1"], ["conn", "n1"], ["conn", "n1"], ["conn", "n2"], CC("n1", 0, "auth nun pwd"), CC("n2", 0, "auth nun pwd"),
            ["addsec", "n1", "n2"], ["settle"], CC("n1", 0, "create-db d1 tok1"), ["settle"], CC("n1", 0, "use-db d1 tok1"), CC("n1", 1, "use-db d1 tok1"), ["settle"]]
    hdr = ["n1/P/100", "n2/U/200"]
    k = 0
    for name in WEIRD_NAMES:
        for tail in (["snapshot false %s", "snapshot true %s"], ["use-db %s tok", "set k v", "remove k", "snapshot false %s"], ["replicate-snapshot %s", "replicate %s k -1 v"],
                     ["snapshot false d1|%s", "snapshot false %s|d1"]):
            ops = list(base) + [CC("n1", 0, "create-db %s tok" % name), ["settle"]]
            for t in tail:
                ops += [CC("n1", 0, t % name if "%s" in t else t), ["settle"]]
            ops += [CC("n1", 1, "set probe 1"), ["settle"], CC("n1", 1, "get probe")]
            out.append(("c%d" % k, hdr, ops)); k += 1
    dist["cluster_names"] = k
    cand = [l for l in lines if l.split(" ")[0] not in CL_BLOCK and len(l) < 2000]
    for i in range(n):
        ops = list(base)
        for j in range(3):
            ops += [CC("n1", rng.choice([0, 0, 1, 2]), rng.choice(cand)), ["settle"]]
        ops += [CC("n1", 1, "set probe 1"), ["settle"], CC("n1", 1, "get probe")]
        out.append(("c%d" % k, hdr, ops)); k += 1
    dist["cluster"] = k
    return out


def gen_cases(tier, seed):
    rng = random.Random(seed)
    cases, dist = [], {"sweep": 0, "random": 0, "words": {}}
    n = {"quick": 1200, "thorough": 30000, "search": 2000}[tier]
    setup = [["conn"], ["conn"], ["conn"], ["conn"], C(0, "auth nun pwd"), C(0, "create-db d1 tok1"), C(0, "create-db dp tokp"),
             C(0, "create-db d3 tok3 arbiter"), C(0, "use-db d1 tok1"), C(2, "use-db d1 tok1"), C(3, "use-db dp tokp"), C(2, "set k 5"), C(2, "set n 2147483647")]
    lines = []
    for w in WORDS:
        lines.append(w)
        for t in TOKENS:
            lines.append("%s %s" % (w, t))
    dist["sweep"] = len(lines)
    while len(lines) < dist["sweep"] + n:
        r = rng.random()
        if r < 0.85:
            w = rng.choice(WORDS)
            k = rng.randint(0, 5)
            lines.append(" ".join([w] + [rng.choice(TOKENS) for _ in range(k)]))
        else:
            lines.append("".join(chr(rng.choice([32, 59, 10, 36, 45, 48, 49, 57, 97, 112, 114, 115, 116, 0x7f, 0xe9, 9, 13])) for _ in range(rng.randint(1, 30))))
    dist["random"] = n
    cases += net_cases(tier, rng, dist, lines)
    cases += cluster_cases(tier, rng, dist, lines)
    per = 4 if tier != "thorough" else 4
    cid = 0
    for i in range(0, len(lines), per):
        ops = list(setup)
        for j, ln in enumerate(lines[i:i + per]):
            sid = rng.choice([0, 1, 2])
            ops.append(C(sid, ln))
            ops.append(C(3, "set p%d v%d" % (j, j)))
            ops.append(C(3, "get p%d" % j))
            w = ln.split(" ")[0]
            dist["words"][w[:20]] = dist["words"].get(w[:20], 0) + 1
        cases.append(("f%d" % cid, ["P"], ops))
        cid += 1
    # long commands with multi-byte characters at every alignment around the buffer / log-line sizes a handler might cut at
    dist["long_utf8"] = 0
    sizes = [249, 250, 251, 255, 256, 257, 511, 512, 513, 1023, 1024, 1025, 2047, 2048, 4095, 4096, 8192] if tier != "quick" else [250, 256, 512, 1024, 4096]
    for size in sizes:
        for ch in ("\u00e9", "\u20ac", "\U0001d11e"):
            for pad in range(len(ch.encode("utf-8")) + 1):
                for head in ("set doc ", "get ", "watch ", "nonsense ", "set-safe doc 0 ", "replicate d1 doc -1 ", ""):
                    body = head + "a" * pad
                    while len(body.encode("utf-8")) < size + 8:
                        body += ch
                    ops = list(setup) + [C(2, body), C(3, "set p0 v0"), C(3, "get p0"), C(2, "get k")]
                    cases.append(("u%d" % cid, ["P"], ops)); cid += 1
                    dist["long_utf8"] += 1
    # histories: several sessions building watcher / selection state (watch, switch database, disconnect, reconnect)
    # before data commands, each followed by the probe
    nh = {"quick": 1500, "thorough": 30000, "search": 1500}[tier]
    hcmds = ["watch k", "watch n", "watch p0", "unwatch k", "unwatch-all", "use-db d1 tok1", "use-db dp tokp", "use-db d3 tok3", "set k 1", "remove k",
             "remove n", "increment n", "set n 5", "arbiter", "keys", "get k", "set-safe k 0 x", "remove p0", "watch $connections"]
    for i in range(nh):
        ops = list(setup)
        live = [1, 2]
        nxt = 4
        for j in range(rng.randint(4, 14)):
            r = rng.random()
            if r < 0.12 and live:
                sid = rng.choice(live); live.remove(sid)
                ops.append(["disc", str(sid)])
            elif r < 0.22:
                ops.append(["conn"]); live.append(nxt); ops.append(C(nxt, rng.choice(["use-db d1 tok1", "use-db dp tokp"]))); nxt += 1
            elif live:
                ops.append(C(rng.choice(live), rng.choice(hcmds)))
            ops.append(C(3, "set p%d v%d" % (j, j)))
            ops.append(C(3, "get p%d" % j))
        cases.append(("h%d" % i, ["P"], ops))
    dist["histories"] = nh
    # stale subscriptions: a session watches a key, moves to another database and disconnects (its subscription on
    # the first database is never cleaned up); other sessions subscribe before/after; then the key is mutated
    ns = {"quick": 400, "thorough": 6000, "search": 400}[tier]
    for i in range(ns):
        ops = list(setup)
        key = rng.choice(["k", "n", "zz"])
        dbx, tokx, dby, toky = rng.choice([("d1", "tok1", "dp", "tokp"), ("dp", "tokp", "d1", "tok1"), ("d1", "tok1", "d3", "tok3")])
        nxt = 4
        subs = []
        for _ in range(rng.randint(1, 3)):
            kind = rng.choice(["stale", "live", "stale"])
            ops.append(["conn"]); sid = nxt; nxt += 1
            ops.append(C(sid, "use-db %s %s" % (dbx, tokx)))
            ops.append(C(sid, "watch %s" % key))
            if kind == "stale":
                ops.append(C(sid, "use-db %s %s" % (dby, toky)))
                ops.append(["disc", str(sid)])
            else:
                subs.append(sid)
        ops.append(["conn"]); w = nxt; nxt += 1
        ops.append(C(w, "use-db %s %s" % (dbx, tokx)))
        for j in range(rng.randint(1, 5)):
            ops.append(C(w, rng.choice(["set %s 1" % key, "remove %s" % key, "increment %s" % key, "set-safe %s 0 x" % key, "set %s abc" % key, "unwatch-all", "watch %s" % key])))
            ops.append(C(3, "set p%d v%d" % (j, j)))
            ops.append(C(3, "get p%d" % j))
        for sid in subs:
            ops.append(["disc", str(sid)])
        ops.append(C(w, "remove %s" % key))
        ops.append(C(3, "set p9 v9")); ops.append(C(3, "get p9"))
        cases.append(("w%d" % i, ["P"], ops))
    dist["stale_subscriptions"] = ns
    # arbiter lifecycles: conflicts queued, answered, the arbiter leaving and a fresh one registering while resolved / unresolved /
    # hand-written records exist (register_arbiter walks and cleans the $conflicts_ records), each step followed by the probes;
    # the hand-written records carry non-numeric ids so that they sort the same way beside wall-clock and model op ids
    na = {"quick": 300, "thorough": 5000, "search": 300}[tier]
    for i in range(na):
        ops = list(setup) + [C(1, "use-db d3 tok3"), C(2, "use-db d3 tok3"), C(2, "set c v0"), C(2, "set c v1")]
        arb, nxt, nnot = 1, 4, 0
        for j in range(rng.randint(4, 12)):
            r = rng.random()
            if r < 0.2:
                ops.append(C(arb, "arbiter"))
            elif r < 0.45:
                ops.append(C(2, "set-safe c %d s%d" % (rng.choice([0, 0, 1, 2]), j))); nnot += 1
            elif r < 0.55:
                ops.append(C(2, "set c p%d" % j))
            elif r < 0.75:
                ops.append(["rsv", str(arb), str(rng.randint(0, max(0, nnot))), hexs("R%d" % j)])
            elif r < 0.85:
                ops += [["disc", str(arb)], ["conn"], C(nxt, "use-db d3 tok3"), C(nxt, "arbiter")]
                arb = nxt; nxt += 1
            elif r < 0.92:
                ops.append(C(2, rng.choice(["set $conflicts_c_z%d resolved z" % j, "set $conflicts_c_y%d resolve zz d3 1 c a b" % j, "set $conflicts_zz_z resolved y"])))
            else:
                ops.append(C(2, rng.choice(["get-safe c", "keys $conflicts", "remove c"])))
            ops.append(C(3, "set p%d v%d" % (j, j)))
            ops.append(C(3, "get p%d" % j))
            ops.append(C(2, "get-safe c"))
        cases.append(("a%d" % i, ["P"], ops))
    dist["arbiter_lifecycles"] = na
    return cases, dist


def net_oracle(case, io, mo):
    obs = split_obs(io)
    fails = netfam.transport_failures(case, obs)
    if len(obs) < len(case[2]):
        fails.append(("driver-died", "the driver process died at step %d" % len(obs)))
    for i, op in enumerate(case[2]):
        if i >= len(obs) or i < 13:
            continue
        reply, inb = obs[i][0], obs[i][1]
        if op[0] == "cmd" and op[1] == "3":
            line = line_of(op)
            if line.startswith("set p") and reply != "Ok":
                fails.append(("probe-refused", "step %d: probe '%s' answered %s" % (i, line, reply)))
            if line.startswith("get p"):
                j = line[5:]
                if "value v%s\n" % j not in netfam.items_of(inb, 3):
                    fails.append(("probe-wrong", "step %d: probe '%s' received %s" % (i, line, netfam.items_of(inb, 3))))
        elif op[0] == "cmd" and reply not in ("Ok", "NoReply") and not reply.startswith("Error "):
            fails.append(("no-answer", "step %d: %r answered %s" % (i, (line_of(op) or "")[:80], reply)))
    return fails


def cluster_oracle(case, io, mo):
    fails = []
    obs = clustergen.split_obs(io)
    if len(obs) < len(case[2]):
        fails.append(("driver-died", "the driver process died at step %d" % len(obs)))
    for i, o in enumerate(obs):
        if o[0] == "PANIC":
            fails.append(("panic", "step %d panicked" % i))
        if " DEAD " in o[3]:
            prev = [clustergen.line_of(x) for x in case[2][:i + 1] if x[0] == "cmd"][-2:]
            fails.append(("service-thread-died", "step %d: a replication service thread of the node is dead after %r" % (i, prev)))
            break
    if obs and len(obs) == len(case[2]) and not obs[-1][0].startswith("Value probe 1"):
        fails.append(("probe-wrong", "the last probe answered %s" % obs[-1][0]))
    return fails


def oracle(case, io, mo):
    if case[0].startswith("n"):
        return net_oracle(case, io, mo)
    if case[0].startswith("c"):
        return cluster_oracle(case, io, mo)
    fails = []
    obs = split_obs(io)
    for i, op in enumerate(case[2]):
        if i >= len(obs):
            fails.append(("driver-died", "the driver process died at step %d (%r)" % (i, (line_of(op) or "")[:80]))); break
        reply = obs[i][0]
        if reply == "PANIC":
            fails.append(("panic", "step %d: %r panicked" % (i, (line_of(op) or op[0])[:120])))
        if op[0] == "disc" and reply != "Left":
            fails.append(("disconnect-failed", "step %d: %s" % (i, reply)))
        if op[0] == "cmd" and op[1] == "3" and i >= 13:
            line = line_of(op)
            if line.startswith("set p") and reply != "Ok":
                fails.append(("probe-refused", "step %d: probe '%s' answered %s after %r" % (i, line, reply, (line_of(case[2][i - 1]) or "")[:80])))
            if line.startswith("get p"):
                j = line[5:]
                if not reply.startswith("Value p%s v%s " % (j, j)):
                    fails.append(("probe-wrong", "step %d: probe '%s' answered %s" % (i, line, reply)))
    return fails


def nontrivial(case, io):
    if case[0].startswith("c"):
        return any(o[0] == "Ok" for o in clustergen.split_obs(io)[13:-3])
    obs = split_obs(io)
    return any(not o[0].startswith("Error unknown{20}command") and not o[0].startswith("Error empty") for o in obs[13::3])
