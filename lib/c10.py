# C10 -- no client input can crash a handler or wedge the node
import itertools, random, re
from nodegen import *

ID = "C10"
DRIVER = "node"
MODEL_FILES = ["Model/Base.v", "Model/Parse.v", "Model/Node.v"]
THEOREMS = ["C10_parse_total", "C10_init_inv", "C10_step_inv", "C10_step_no_panic", "C10_run_no_panic", "C10_probe_served", "C10_http_worker_survives", "C10_admin_inv_needed"]
STRENGTH = {t: "proof-unbounded" for t in THEOREMS}
RULE = ("every command word known to the parser (plus unknown ones) x argument lists of 0-5 tokens drawn from {empty, spaces, "
        "non-numeric, i32/u64/u128 boundary numbers, $$ keys, ';' and newline, a 10 kB token, non-ASCII} plus seeded random byte "
        "strings, sent from an unauthenticated, a database-token and an administrator session (debug build: overflow checks on); "
        "after every such line a second client runs a probe set/get that must be served normally; the quick tier sweeps every "
        "command word with every single-token argument; distinct = distinct canonical trace; non-trivial = the fuzz line was "
        "accepted by the parser (not 'unknown command')")
ASSUMPTIONS = ["lines are valid UTF-8 (process_request takes &str; invalid UTF-8 is rejected by the transports before it)",
               "handlers are driven through process_request; transport threads (TCP/HTTP/WS loops) are not exercised by this check",
               "'join <name>' twice makes the supervisor thread panic (administrator only): recorded as out of scope of the handler model"]
TRUSTED = ["panics are observed with catch_unwind in a debug build (overflow checks on); lock poisoning would show as a panic of the probe"]

WORDS = ["ack", "arbiter", "auth", "cluster-state", "create-db", "create-user", "debug", "election", "get", "get-safe", "increment",
         "join", "keys", "leave", "ls", "metrics-state", "remove", "replicate", "replicate-increment", "replicate-join", "replicate-leave",
         "replicate-remove", "replicate-since", "replicate-snapshot", "resolve", "rp", "set", "set-primary", "set-safe", "set-secoundary",
         "snapshot", "unwatch", "unwatch-all", "use", "use-db", "watch", "list-commands", "set-permissions", "bogus", "SET", ""]
TOKENS = ["", " ", "x", "k", "d1", "tok1", "-1", "0", "1", "-2", "2147483647", "-2147483648", "2147483648", "4294967296",
          "18446744073709551615", "18446744073709551616", "340282366920938463463374607431768211455", "340282366920938463463374607431768211456",
          "+5", "-0", "$$k", "$$token", "$connections", "$conflicts", ";", "\n", "a;b", "é", "日本", "*", "|", "a|b", "true", "false",
          "candidate", "win", "active", "force-election", "pending-ops", "list-dbs", "rw", "r a*", "L" * 10000, "nun", "pwd", "n2:3014", "n0:3014"]


def gen_cases(tier, seed):
    rng = random.Random(seed)
    cases, dist = [], {"sweep": 0, "random": 0, "words": {}}
    n = {"quick": 1200, "thorough": 30000, "search": 2000}[tier]
    setup = [["conn"], ["conn"], ["conn"], ["conn"], C(0, "auth nun pwd"), C(0, "create-db d1 tok1"), C(0, "create-db dp tokp"),
             C(0, "create-db d3 tok3 arbiter"), C(0, "use-db d1 tok1"), C(2, "use-db d1 tok1"), C(3, "use-db dp tokp"), C(2, "set k 5"), C(2, "set n 2147483647")]
    lines = []
    for w in WORDS:
        lines.append(w)
        for t in TOKENS:
            lines.append("%s %s" % (w, t))
    dist["sweep"] = len(lines)
    while len(lines) < dist["sweep"] + n:
        r = rng.random()
        if r < 0.85:
            w = rng.choice(WORDS)
            k = rng.randint(0, 5)
            lines.append(" ".join([w] + [rng.choice(TOKENS) for _ in range(k)]))
        else:
            lines.append("".join(chr(rng.choice([32, 59, 10, 36, 45, 48, 49, 57, 97, 112, 114, 115, 116, 0x7f, 0xe9, 9, 13])) for _ in range(rng.randint(1, 30))))
    dist["random"] = n
    per = 4 if tier != "thorough" else 4
    cid = 0
    for i in range(0, len(lines), per):
        ops = list(setup)
        for j, ln in enumerate(lines[i:i + per]):
            sid = rng.choice([0, 1, 2])
            ops.append(C(sid, ln))
            ops.append(C(3, "set p%d v%d" % (j, j)))
            ops.append(C(3, "get p%d" % j))
            w = ln.split(" ")[0]
            dist["words"][w[:20]] = dist["words"].get(w[:20], 0) + 1
        cases.append(("f%d" % cid, ["P"], ops))
        cid += 1
    # long commands with multi-byte characters at every alignment around the buffer / log-line sizes a handler might cut at
    dist["long_utf8"] = 0
    sizes = [249, 250, 251, 255, 256, 257, 511, 512, 513, 1023, 1024, 1025, 2047, 2048, 4095, 4096, 8192] if tier != "quick" else [250, 256, 512, 1024, 4096]
    for size in sizes:
        for ch in ("\u00e9", "\u20ac", "\U0001d11e"):
            for pad in range(len(ch.encode("utf-8")) + 1):
                for head in ("set doc ", "get ", "watch ", "nonsense ", "set-safe doc 0 ", "replicate d1 doc -1 ", ""):
                    body = head + "a" * pad
                    while len(body.encode("utf-8")) < size + 8:
                        body += ch
                    ops = list(setup) + [C(2, body), C(3, "set p0 v0"), C(3, "get p0"), C(2, "get k")]
                    cases.append(("u%d" % cid, ["P"], ops)); cid += 1
                    dist["long_utf8"] += 1
    # histories: several sessions building watcher / selection state (watch, switch database, disconnect, reconnect)
    # before data commands, each followed by the probe
    nh = {"quick": 1500, "thorough": 30000, "search": 1500}[tier]
    hcmds = ["watch k", "watch n", "watch p0", "unwatch k", "unwatch-all", "use-db d1 tok1", "use-db dp tokp", "use-db d3 tok3", "set k 1", "remove k",
             "remove n", "increment n", "set n 5", "arbiter", "keys", "get k", "set-safe k 0 x", "remove p0", "watch $connections"]
    for i in range(nh):
        ops = list(setup)
        live = [1, 2]
        nxt = 4
        for j in range(rng.randint(4, 14)):
            r = rng.random()
            if r < 0.12 and live:
                sid = rng.choice(live); live.remove(sid)
                ops.append(["disc", str(sid)])
            elif r < 0.22:
                ops.append(["conn"]); live.append(nxt); ops.append(C(nxt, rng.choice(["use-db d1 tok1", "use-db dp tokp"]))); nxt += 1
            elif live:
                ops.append(C(rng.choice(live), rng.choice(hcmds)))
            ops.append(C(3, "set p%d v%d" % (j, j)))
            ops.append(C(3, "get p%d" % j))
        cases.append(("h%d" % i, ["P"], ops))
    dist["histories"] = nh
    # stale subscriptions: a session watches a key, moves to another database and disconnects (its subscription on
    # the first database is never cleaned up); other sessions subscribe before/after; then the key is mutated
    ns = {"quick": 400, "thorough": 6000, "search": 400}[tier]
    for i in range(ns):
        ops = list(setup)
        key = rng.choice(["k", "n", "zz"])
        dbx, tokx, dby, toky = rng.choice([("d1", "tok1", "dp", "tokp"), ("dp", "tokp", "d1", "tok1"), ("d1", "tok1", "d3", "tok3")])
        nxt = 4
        subs = []
        for _ in range(rng.randint(1, 3)):
            kind = rng.choice(["stale", "live", "stale"])
            ops.append(["conn"]); sid = nxt; nxt += 1
            ops.append(C(sid, "use-db %s %s" % (dbx, tokx)))
            ops.append(C(sid, "watch %s" % key))
            if kind == "stale":
                ops.append(C(sid, "use-db %s %s" % (dby, toky)))
                ops.append(["disc", str(sid)])
            else:
                subs.append(sid)
        ops.append(["conn"]); w = nxt; nxt += 1
        ops.append(C(w, "use-db %s %s" % (dbx, tokx)))
        for j in range(rng.randint(1, 5)):
            ops.append(C(w, rng.choice(["set %s 1" % key, "remove %s" % key, "increment %s" % key, "set-safe %s 0 x" % key, "set %s abc" % key, "unwatch-all", "watch %s" % key])))
            ops.append(C(3, "set p%d v%d" % (j, j)))
            ops.append(C(3, "get p%d" % j))
        for sid in subs:
            ops.append(["disc", str(sid)])
        ops.append(C(w, "remove %s" % key))
        ops.append(C(3, "set p9 v9")); ops.append(C(3, "get p9"))
        cases.append(("w%d" % i, ["P"], ops))
    dist["stale_subscriptions"] = ns
    return cases, dist


def oracle(case, io, mo):
    fails = []
    obs = split_obs(io)
    for i, op in enumerate(case[2]):
        if i >= len(obs):
            fails.append(("driver-died", "the driver process died at step %d (%r)" % (i, (line_of(op) or "")[:80]))); break
        reply = obs[i][0]
        if reply == "PANIC":
            fails.append(("panic", "step %d: %r panicked" % (i, (line_of(op) or op[0])[:120])))
        if op[0] == "disc" and reply != "Left":
            fails.append(("disconnect-failed", "step %d: %s" % (i, reply)))
        if op[0] == "cmd" and op[1] == "3" and i >= 13:
            line = line_of(op)
            if line.startswith("set p") and reply != "Ok":
                fails.append(("probe-refused", "step %d: probe '%s' answered %s after %r" % (i, line, reply, (line_of(case[2][i - 1]) or "")[:80])))
            if line.startswith("get p"):
                j = line[5:]
                if not reply.startswith("Value p%s v%s " % (j, j)):
                    fails.append(("probe-wrong", "step %d: probe '%s' answered %s" % (i, line, reply)))
    return fails


def nontrivial(case, io):
    obs = split_obs(io)
    return any(not o[0].startswith("Error unknown{20}command") and not o[0].startswith("Error empty") for o in obs[13::3])
