# C03 -- watchers get every committed change, only committed changes, and end up current (sequential part)
import itertools, random, re
from nodegen import *
import schedgen
from schedgen import par, parse_par
import c02
import netfam

ID = "C03"
DRIVER = "node"
MODEL_FILES = ["Model/Base.v", "Model/Parse.v", "Model/Node.v", "Model/Sched.v", "Model/Net.v"]
THEOREMS = ["C03_set_value_notifies", "C03_set_value_refused_silent", "C03_remove_value_notifies", "C03_inc_value_notifies", "C03_inc_value_refused_silent", "C03_nsubs_watch_key", "C03_nsubs_unwatch_key", "C03_nsubs_unwatch_all", "C03_inbox_sends", "C03_handle_set_notifies", "C03_handle_replicate_set_notifies", "C03_handle_remove_notifies", "C03_handle_increment_notifies", "C03_handle_watch_isolated", "C03_handle_unwatch_isolated", "C03_handle_unwatch_all_isolated", "C03_disconnect_subs", "C03_disconnect_quiet", "C03_final_view_last", "C03_final_view_highest", "C03_stale_subscription_after_db_switch", "C03_sched_watch_release", "C03_sched_unwatch_release", "C03_sched_other_release_keeps_watch", "C03_sched_other_session_release", "C03_sched_no_lost_subscription", "C03_sched_no_lost_subscription_closed", "C03_sched_schedule_full", "C03_tcp_set_stream", "C03_ws_frame_set_stream", "C03_tcp_refused_stream", "C03_arbiter_refusal_reaches_the_arbiter", "C03_term_tcp_version_error", "C03_term_ws_version_error", "C03_conn_closed_keeps_others", "C03_net_run_subscription_stable", "C03_tcp_watch_set_example"]
STRENGTH = {t: "proof-unbounded" for t in THEOREMS}
RULE = ("1-2 writer sessions and 1-2 subscriber sessions issuing watch / unwatch / unwatch-all / disconnect (and reconnect) on the same "
        "and on different keys, over set, set-safe (accepted and refused), increment and remove, replicated writes included; exhaustive "
        "sequences (length <= 4 quick / 5 thorough) over a 12-symbol alphabet plus seeded random sequences up to 30 steps, commands "
        "executed one at a time; distinct = distinct canonical trace; non-trivial = a subscriber received a notification and later "
        "unsubscribed or disconnected; transport family t*: the random histories again over real TCP / WebSocket connections "
        "(notifications read from the sockets, disconnect = closing the socket)")
ASSUMPTIONS = ["commands are executed one at a time (interleavings at lock granularity are not covered by this check)",
               "a session that watches a key twice holds two subscriptions and is notified twice"]
TRUSTED = []

# s0 admin (replicated writes), s1 writer, s2 subscriber A, s3 subscriber B
SETUP = [["conn"], ["conn"], ["conn"], ["conn"], C(0, "auth nun pwd"), C(0, "create-db d1 tok1"), C(0, "create-db d2 tok2"), C(1, "use-db d1 tok1"), C(2, "use-db d1 tok1"),
         C(3, "use-db d1 tok1"), C(0, "use-db d1 tok1")]
ALPHA = [("c", 2, "watch a"), ("c", 3, "watch a"), ("c", 2, "watch b"), ("c", 2, "unwatch a"), ("c", 2, "unwatch-all"), ("d", 3),
         ("c", 1, "set a x"), ("c", 1, "set-safe a 0 y"), ("c", 1, "increment b"), ("c", 1, "remove a"), ("c", 0, "replicate d1 a -1 z"), ("c", 1, "set b 7")]


def build(seq):
    ops = list(SETUP)
    alive = {2: 2, 3: 3}     # logical subscriber -> session id
    nxt = 4
    for e in seq:
        if e[0] == "c":
            sid = alive.get(e[1], e[1])
            ops.append(C(sid, e[2]))
        elif e[0] in ("d", "x"):
            sid = alive[e[1]]
            if e[0] == "x":
                # switch to another database first: the disconnect cleans only the selected one, the
                # subscriptions left in d1 stay behind with a dead channel
                ops.append(C(sid, "use-db d2 tok2"))
            ops.append(["disc", str(sid)])
            ops.append(["conn"]); alive[e[1]] = nxt
            ops.append(C(nxt, "use-db d1 tok1")); nxt += 1
    ops += [C(1, "get-safe a"), C(1, "get-safe b")]
    return ops


def driver_of(case):
    return "sched" if case[0].startswith("p") else ("net" if case[0].startswith("t") else "node")


WCMDS = ["set %s x@", "set %s y@", "set-safe %s 0 z@", "set-safe %s 9 q@", "increment %s", "remove %s"]
SCMDS = ["watch %s", "unwatch %s", "unwatch-all", "watch %s"]
REL = {"set": 4, "set-safe": 4, "increment": 4, "remove": 4, "watch": 3, "unwatch": 2, "unwatch-all": 4, "get-safe": 3}


def sched_cases(tier, rng, dist):
    out = []
    nprog, limit = {"quick": (60, 40), "thorough": (600, 400), "search": (40, 30)}[tier]
    progs = [([["unwatch a"], ["watch a"], ["set a 5"]], [(1, "watch a")]),
             ([["unwatch-all"], ["watch a", "watch b"], ["set a 5", "set b 6"]], [(1, "watch a"), (1, "watch b")]),
             ([["watch a"], ["set a 1", "set a 2"]], []),
             ([["set a x"], ["set a y"], ["watch a"]], [(3, "watch a")])]
    for _ in range(nprog):
        keys = rng.choice([["a"], ["a", "b"]])
        nw, ns = rng.choice([(1, 1), (1, 2), (2, 1), (2, 2)])
        prog = []
        for _ in range(nw):
            prog.append([(rng.choice(WCMDS) % rng.choice(keys)).replace("@", str(rng.randint(100, 999))) for _ in range(rng.randint(1, 2))])
        for _ in range(ns):
            prog.append([(c % rng.choice(keys)) if "%s" in c else c for c in [rng.choice(SCMDS) for _ in range(rng.randint(1, 2))]])
        pre = []
        for sid in range(1, len(prog) + 1):
            if rng.random() < 0.5:
                pre.append((sid, "watch " + rng.choice(keys)))
        progs.append((prog, pre))
    k = 0
    for prog, pre in progs:
        lengths = [sum(REL[c.split(" ")[0]] for c in p) for p in prog]
        for sch in schedgen.all_schedules(lengths, limit, rng):
            ops = schedgen.setup("none", nsess=len(prog) + 1)
            ops.append(C(0, "set a 0"))
            for sid, c in pre:
                ops.append(C(sid, c))
            ops.append(par([(i + 1, p) for i, p in enumerate(prog)], sch))
            ops += [C(0, "set a fin"), C(0, "set b fin")]
            out.append(("p%d" % k, ["P"], ops)); k += 1
    dist["schedules"] = k
    return out


def gen_cases(tier, seed):
    rng = random.Random(seed)
    cases, dist = [], {"exhaustive": 0, "random": 0}
    cases += sched_cases(tier, rng, dist)
    maxlen, nrand = {"quick": (4, 1500), "thorough": (5, 25000), "search": (3, 1500)}[tier]
    k = 0
    for L in range(1, maxlen + 1):
        for seq in itertools.product(ALPHA, repeat=L):
            cases.append(("x%d" % k, ["P"], build(seq))); k += 1
    dist["exhaustive"] = k
    # a subscriber that left through another database, in front of / behind live subscribers
    STALE = [("c", 2, "watch a"), ("c", 3, "watch a"), ("x", 2), ("x", 3), ("c", 1, "set a x"), ("c", 1, "set-safe a 0 y"),
             ("c", 1, "increment b"), ("c", 2, "watch b"), ("c", 1, "remove a"), ("c", 0, "replicate d1 a -1 z")]
    ks = 0
    for L in range(3, {"quick": 4, "thorough": 5, "search": 4}[tier] + 1):
        for seq in itertools.product(STALE, repeat=L):
            if not any(e[0] == "x" for e in seq):
                continue
            cases.append(("s%d" % ks, ["P"], build(seq))); ks += 1
    dist["stale_sender"] = ks
    keys = ["a", "b", "c"]
    for i in range(nrand):
        seq = []
        for _ in range(rng.randint(5, 30)):
            r = rng.random()
            key = rng.choice(keys)
            if r < 0.2: seq.append(("c", rng.choice([2, 3]), "watch " + key))
            elif r < 0.27: seq.append(("c", rng.choice([2, 3]), "unwatch " + key))
            elif r < 0.32: seq.append(("c", rng.choice([2, 3]), "unwatch-all"))
            elif r < 0.35: seq.append(("d", rng.choice([2, 3])))
            elif r < 0.38: seq.append(("x", rng.choice([2, 3])))
            elif r < 0.58: seq.append(("c", rng.choice([1, 1, 2]), "set %s v%d" % (key, rng.randint(0, 9))))
            elif r < 0.7: seq.append(("c", 1, "set-safe %s %d w%d" % (key, rng.choice([-1, 0, 1, 2, 9]), rng.randint(0, 9))))
            elif r < 0.8: seq.append(("c", 1, "increment %s %d" % (key, rng.randint(1, 3))))
            elif r < 0.9: seq.append(("c", 1, "remove " + key))
            else: seq.append(("c", 0, rng.choice(["replicate d1 %s -1 r%d" % (key, rng.randint(0, 9)), "replicate-remove d1 " + key, "replicate-increment d1 %s 2" % key])))
        cases.append(("r%d" % i, ["P"], build(seq)))
        if i < {"quick": 300, "thorough": 5000, "search": 200}[tier]:
            # the same history through the real TCP / WebSocket listeners (their own disconnect paths, their
            # own delivery of the notifications)
            kinds = [rng.choice("tw") for _ in range(12)]
            cases.append(("t%d" % i, ["P"], netfam.to_net(build(seq), kinds, rng, 0.15)))
            dist["transport"] = dist.get("transport", 0) + 1
    dist["random"] = nrand
    # the same histories on a database with the newer strategy: a stale versioned write is accepted there (C19) and is a
    # committed change like any other
    nn = {"quick": 400, "thorough": 6000, "search": 300}[tier]
    for i in range(nn):
        seq = []
        for _ in range(rng.randint(4, 20)):
            r = rng.random()
            key = rng.choice(keys)
            if r < 0.2: seq.append(("c", rng.choice([2, 3]), "watch " + key))
            elif r < 0.27: seq.append(("c", rng.choice([2, 3]), "unwatch " + key))
            elif r < 0.3: seq.append(("d", rng.choice([2, 3])))
            elif r < 0.45: seq.append(("c", 1, "set %s v%d" % (key, rng.randint(0, 9))))
            elif r < 0.85: seq.append(("c", 1, "set-safe %s %d w%d%d" % (key, rng.choice([-1, 0, 0, 1, 1, 2, 3, 9]), rng.randint(0, 9), rng.randint(0, 9))))
            elif r < 0.93: seq.append(("c", 1, "remove " + key))
            else: seq.append(("c", 0, "replicate d1 %s %d r%d" % (key, rng.choice([-1, 0, 1]), rng.randint(0, 9))))
        ops = build(seq)
        ops = [C(0, "create-db d1 tok1 newer") if (o[0] == "cmd" and line_of(o) == "create-db d1 tok1") else o for o in ops]
        cases.append(("n%d" % i, ["P"], ops))
    dist["newer_strategy"] = nn
    return cases, dist


def watch_lists(dump):
    sec = db_section(dump, "d1")
    out = {}
    if sec and sec.group(5):
        for w in sec.group(5).split(","):
            k, ids = w.split(":")
            out[unesc(k)] = sorted(int(x) for x in ids.split(".") if x != "")
    return {k: v for k, v in out.items() if v}


def augment(case, io):
    """hand the HashMap orders the implementation's unwatch-all loops took to the model"""
    cid, hdr, ops = case
    if io is None or not cid.startswith("p"):
        return case
    hints = [a for a in io["aux"] if a.startswith("#hints")]
    out = []
    for op in ops:
        if op[0] == "par" and hints:
            toks = [t for t in hints.pop(0).split(" ")[1:] if t]
            i = op.index("--")
            out.append(op[:i] + toks + op[i:])
        else:
            out.append(op)
    return (cid, hdr, out)


def timeline(specs_sids, traces, sched):
    """global position of every release: returns {tid: [pos of release 0, 1, ...]}"""
    remaining = {t: len(tr) for t, tr in enumerate(traces)}
    pos = {t: [] for t in remaining}
    clock = 0
    for t in sched:
        if t in remaining and len(pos[t]) < remaining[t]:
            pos[t].append(clock); clock += 1
    for t in sorted(remaining):
        while len(pos[t]) < remaining[t]:
            pos[t].append(clock); clock += 1
    return pos


def sched_oracle(case, io, mo):
    """interval semantics of subscriptions: a mutation wholly inside a subscription must be notified, wholly outside must
    not, overlapping may; data replies/final state must equal some sequential order (C02's oracle)"""
    fails = []
    obs = split_obs(io)
    pi = next(i for i, op in enumerate(case[2]) if op[0] == "par")
    if pi >= len(obs):
        return [("driver-died", "before the parallel section")]
    reply, inb = obs[pi][0], obs[pi][1]
    if "PANIC" in reply:
        fails.append(("panic", reply[:200]))
    res = parse_par(reply)
    parop = case[2][pi]
    specs = [t for t in parop[1:parop.index("--")] if not t.startswith("h")]
    sched = [int(x) for x in parop[parop.index("--") + 1:]]
    progs, sids = [], []
    for sp in specs:
        sid, hx = sp.split(":", 1)
        sids.append(int(sid)); progs.append([bytes.fromhex(h[1:]).decode() for h in hx.split(",")])
    traces = [res.get(sid, ([], []))[1] for sid in sids]
    replies = [res.get(sid, ([], []))[0] for sid in sids]
    pos = timeline(sids, traces, sched)
    # command intervals
    cmds = []   # (tid, sid, cmd, start, end, reply)
    for t, tr in enumerate(traces):
        starts = [j for j, site in enumerate(tr) if site == "cmd"]
        for ci, j in enumerate(starts):
            jend = (starts[ci + 1] - 1) if ci + 1 < len(starts) else len(tr) - 1
            if ci < len(progs[t]):
                cmds.append((t, sids[t], progs[t][ci], pos[t][j], pos[t][jend], replies[t][ci] if ci < len(replies[t]) else "?"))
    INF = 10 ** 9
    nsess = max(sids) + 1
    subs0 = watch_lists(obs[pi - 1][3])
    # subscription intervals per (session, key): (may_from, must_from, must_to, may_to)
    intervals = {}
    for k, lst in subs0.items():
        for s in lst:
            intervals.setdefault((s, k), []).append([-1, -1, INF, INF])
    for (t, sid, cmd, a, b, r) in sorted(cmds, key=lambda c: c[3]):
        w = cmd.split(" ")
        if w[0] == "watch" and r == "Ok":
            intervals.setdefault((sid, w[1]), []).append([a, b, INF, INF])
        elif w[0] in ("unwatch", "unwatch-all") and r == "Ok":
            for (s, k), ivs in intervals.items():
                if s == sid and (w[0] == "unwatch-all" or k == w[1]):
                    for iv in ivs:
                        if iv[3] == INF and iv[0] <= b:
                            iv[2] = min(iv[2], a); iv[3] = b
    notes = {s: [x for x in inbox_of(inb, s) if x.startswith(("changed-version", "removed"))] for s in range(nsess + 1)}
    after = {k: v for k, v in db_keys(obs[pi][3], "d1").items()}
    for (t, sid, cmd, a, b, r) in cmds:
        w = cmd.split(" ", 3)
        if w[0] not in ("set", "set-safe", "increment", "remove"):
            continue
        k = w[1]
        committed = (r == "Ok")
        for s in range(nsess + 1):
            ivs = intervals.get((s, k), [])
            must = sum(1 for iv in ivs if iv[1] < a and iv[2] > b) if committed else 0
            may = sum(1 for iv in ivs if iv[0] < b and iv[3] > a) if committed else 0
            if w[0] == "remove":
                n = None     # several removes are indistinguishable: checked in aggregate below
                continue
            val = w[2] if w[0] == "set" else (w[3] if w[0] == "set-safe" else None)
            if val is None:
                continue
            n = sum(1 for x in notes[s] if x.startswith("changed-version %s " % k) and x[:-1].split(" ", 3)[3] == val)
            if n < must:
                fails.append(("notification-missing", "'%s' by session %d ran wholly inside %d subscription(s) of session %d on %s but %d notification(s) arrived" % (cmd, sid, must, s, k, n)))
            if n > may:
                fails.append(("notification-unexpected", "'%s' (reply %s) overlaps %d subscription(s) of session %d on %s but %d notification(s) arrived" % (cmd, r, may, s, k, n)))
    # subscriptions at the end = intervals still open; the watch lists must agree and still be served
    subs1 = watch_lists(obs[pi][3])
    for (s, k), ivs in intervals.items():
        open_n = sum(1 for iv in ivs if iv[3] == INF)
        if subs1.get(k, []).count(s) != open_n:
            fails.append(("subscription-lost" if subs1.get(k, []).count(s) < open_n else "subscription-leaked",
                          "session %d holds %d open subscription(s) on %s by its acknowledged commands, the watch list has %d" % (s, open_n, k, subs1.get(k, []).count(s))))
    for j, key in ((pi + 1, "a"), (pi + 2, "b")):
        if j < len(obs):
            for s in set(subs1.get(key, [])):
                gotn = [x for x in inbox_of(obs[j][1], s) if x.startswith("changed %s fin" % key)]
                if len(gotn) != subs1[key].count(s):
                    fails.append(("subscription-lost", "session %d is registered %d time(s) for %s but received %s for the final write" % (s, subs1[key].count(s), key, gotn)))
    # data part: replies and final values equal some sequential order of the data commands
    dprogs = [[c for c in p if c.split(" ")[0] in ("set", "set-safe", "increment", "remove", "get-safe")] for p in progs]
    dgot = [[r for c, r in zip(p, rep) if c.split(" ")[0] in ("set", "set-safe", "increment", "remove", "get-safe")] for p, rep in zip(progs, replies)]
    before = {k: (v[0], v[1]) for k, v in db_keys(obs[pi - 1][3], "d1").items() if not k.startswith("$")}
    aft = {k: (v[0], v[1]) for k, v in after.items() if not k.startswith("$") and v[2] != "D"}
    if not any(True for _ in [0]) or True:
        ok = False
        for order in c02.merges(dprogs):
            st = dict(before); rep = [[] for _ in dprogs]
            for (i, cmd) in order:
                rep[i].append(c02.seq_spec(st, cmd))
            if rep == dgot and st == aft:
                ok = True; break
        if not ok:
            fails.append(("not-linearizable", "data commands %s: replies %s final %s" % (dprogs, dgot, aft)))
    return fails


def oracle(case, io, mo):
    """subscription-interval specification evaluated on the implementation's observations"""
    if case[0].startswith("p"):
        return sched_oracle(case, io, mo)
    fails = []
    obs = split_obs(io)
    if case[0].startswith("t"):
        fails += netfam.transport_failures(case, obs)
        case = netfam.as_disc(case)
    subs = {}          # (sid, key) -> number of subscriptions
    closed = set()
    held = {}          # sid -> key -> (version, value) highest-versioned changed-version held
    prev = {}
    for i, op in enumerate(case[2]):
        if i >= len(obs):
            fails.append(("driver-died", "step %d" % i)); break
        reply, inb, q, dump = obs[i]
        keys = db_keys(dump, "d1")
        if reply == "PANIC":
            fails.append(("panic", "step %d" % i))
        # notifications delivered in this step, per session
        got = {}
        if inb != "-":
            for seg in inb.split(";"):
                m = re.match(r"^(\d+):\[(.*)\]$", seg)
                if m:
                    got[int(m.group(1))] = [unesc(x) for x in m.group(2).split("|")]
        notes = {sid: [x for x in msgs if x.startswith(("changed ", "changed-version ", "removed "))] for sid, msgs in got.items()}
        expect = {}
        if op[0] == "disc":
            sid = int(op[1]); closed.add(sid)
            for (s, k) in list(subs):
                if s == sid:
                    del subs[(s, k)]
        elif op[0] == "cmd":
            sid = int(op[1]); line = line_of(op); w = line.split(" ")
            ok = not (reply.startswith("Error") or reply.startswith("VersionError"))
            if w[0] == "watch" and ok:
                subs[(sid, w[1])] = subs.get((sid, w[1]), 0) + 1
            elif w[0] == "unwatch" and ok:
                subs.pop((sid, w[1]), None)
                held.get(sid, {}).pop(w[1], None)
            elif w[0] == "unwatch-all" and ok:
                for (s, k) in list(subs):
                    if s == sid:
                        del subs[(s, k)]
                held.pop(sid, None)
            # which mutation was committed?
            mut = None
            if ok and w[0] in ("set", "set-safe", "increment", "remove") and i >= len(SETUP):
                mut = (w[0], w[1])
            if ok and w[0] in ("replicate", "replicate-remove", "replicate-increment"):
                mut = ({"replicate": "set", "replicate-remove": "remove", "replicate-increment": "increment"}[w[0]], w[2])
            if mut and mut[0] != "remove" and keys.get(mut[1]) == prev.get(mut[1]):
                mut = None        # accepted by the protocol but nothing was applied (replicated increment of a non-number)
            if mut:
                kind, key = mut
                for (s, k), cnt in subs.items():
                    if k != key:
                        continue
                    if kind == "remove":
                        expect.setdefault(s, []).extend(["removed %s\n" % key] * cnt)
                    else:
                        new = keys.get(key)
                        if new is None:
                            continue
                        ver = -1 if kind == "increment" else new[1]
                        expect.setdefault(s, []).extend(["changed %s %s\n" % (key, new[0]), "changed-version %s %d %s\n" % (key, ver, new[0])] * cnt)
        for sid in set(notes) | set(expect):
            a, b = notes.get(sid, []), expect.get(sid, [])
            if sid in closed:
                continue
            if a != b:
                if len(a) < len(b):
                    cls = "notification-missing"
                elif len(a) > len(b):
                    cls = "notification-unexpected"
                else:
                    cls = "notification-wrong"
                fails.append((cls, "step %d (%s): session %d received %s, subscriptions say %s" % (i, line_of(op) or op[0], sid, a, b)))
        for sid, msgs in notes.items():
            for x in msgs:
                if x.startswith("changed-version "):
                    t = x[:-1].split(" ", 3)
                    v = int(t[2])
                    if v >= held.setdefault(sid, {}).get(t[1], (-10, None))[0]:
                        held[sid][t[1]] = (v, t[3] if len(t) > 3 else "")
                if x.startswith("removed "):
                    held.setdefault(sid, {}).pop(x[8:-1], None)
        prev = keys
    # final view: for keys written only by set/set-safe the highest-versioned notification held carries the current value
    incd = {line_of(o).split(" ")[1] for o in case[2] if o[0] == "cmd" and line_of(o).split(" ")[0] in ("increment",)} | \
           {line_of(o).split(" ")[2] for o in case[2] if o[0] == "cmd" and line_of(o).split(" ")[0] == "replicate-increment"}
    for sid, hk in held.items():
        if sid in closed:
            continue
        for key, (ver, val) in hk.items():
            if key in incd or (sid, key) not in subs:
                continue
            cur = prev.get(key)
            if cur is not None and cur[2] != "D" and cur[0] != val:
                fails.append(("stale-final-view", "session %d holds %r@%d for %s, current value %r" % (sid, val, ver, key, cur[0])))
    return fails


def nontrivial(case, io):
    obs = split_obs(io)
    if case[0].startswith("p"):
        return any("changed" in o[1] for o in obs)
    return any("changed" in o[1] for o in obs) and any(op[0] == "disc" or (op[0] == "cmd" and line_of(op).startswith("unwatch")) for op in case[2])
