# Real processes: every node of a case is the real `nun-db` binary (production build) with its own data
# directory and loopback ports; nodes join through NUN_REPLICATE_ADDR (src/bin/main.rs: ask_to_join_all_replicas,
# start_inital_election), replicate over the real TCP links (replication_ops::start_replication,
# auth_on_replication, start_sync_process) and are driven and read over the real TCP listener.
#
# A case uses the cluster driver's format (the model runs it with the cluster driver):
#   conn <node> / cmd <node> <sid> <hexline> / addsec n1 <node> / settle
# Here `addsec n1 X` starts the process of node X with n1's address to join, `settle` waits until every node's
# data has stopped changing.  Only the final data of every node is observed:
#   N <node> role=<P|S|U> db=<name> keys=[k=v@ver,...] ...
import os, re, shutil, socket, subprocess, time
from concurrent.futures import ThreadPoolExecutor
import crash
from crash import esc, escv, _free_ports
from nodegen import unesc

START_WAIT = 1.7        # start_inital_election runs 1 s after the start
QUIET = 0.35


class Sess:
    def __init__(self, port):
        self.s = None
        for _ in range(400):
            try:
                self.s = socket.create_connection(("127.0.0.1", port), timeout=5)
                break
            except OSError:
                time.sleep(0.02)
        if self.s is None:
            raise RuntimeError("no connection to port %d" % port)
        self.s.settimeout(8)
        self.f = self.s.makefile("rb")
        self.f.readline()

    def cmd(self, line):
        self.s.sendall(line.encode("utf-8") + b"\n")
        out = []
        while True:
            l = self.f.readline()
            if not l:
                return out, "EOF"
            if l == b"ok \n":
                return out, "ok"
            if l == b" \n" or (l.startswith(b"error ") and l.endswith(b" \n")):
                return out, "error"
            out.append(l)


class Node:
    def __init__(self, name, binary, wd, join=None, ports=None):
        self.name = name
        self.dir = os.path.join(wd, name)
        os.makedirs(self.dir, exist_ok=True)
        self.tcp, self.ws, self.http = ports or _free_ports(3)
        self.addr = "127.0.0.1:%d" % self.tcp
        env = dict(os.environ)
        env.update({"NUN_DBS_DIR": self.dir, "NUN_USER": "nun", "NUN_PWD": "pwd", "NUN_LOG_LEVEL": "Off", "RUST_BACKTRACE": "0",
                    "NUN_ELECTION_TIMEOUT": "200", "NUN_REPLICATE_ADDR": join or "", "NUN_STORAGE_STRATEGY": "disk"})
        if os.environ.get("VERIF_REAL_LOGS"):
            env["NUN_LOG_LEVEL"] = "debug"
            self.log = open(os.path.join(wd, name + ".log"), "w")
        else:
            self.log = subprocess.DEVNULL
        self.p = subprocess.Popen([binary, "start", "--tcp-address", self.addr, "--ws-address", "127.0.0.1:%d" % self.ws,
                                   "--http-address", "127.0.0.1:%d" % self.http, "--replicate-address", join or ""],
                                  stdout=self.log, stderr=subprocess.STDOUT, env=env, cwd=self.dir)
        self.sessions = {}
        self.reader = None

    def session(self, sid):
        if sid not in self.sessions:
            self.sessions[sid] = Sess(self.tcp)
        return self.sessions[sid]

    def view(self, toks):
        """role and every database's live keys, read through an administrator session of its own"""
        if self.p.poll() is not None:
            return "DEAD"
        if self.reader is None:
            self.reader = Sess(self.tcp)
            self.reader.cmd("auth nun pwd")
        r = self.reader
        out, st = r.cmd("cluster-state")
        role = "?"
        m = re.search(rb"%s\(self\):(\w+)" % re.escape(self.addr.encode()), b"".join(out))
        if m:
            role = {b"Primary": "P", b"Secoundary": "S", b"StartingUp": "U"}.get(m.group(1), "?")
        parts = ["role=%s" % role]
        for name in sorted(toks):
            out, st = r.cmd("use-db %s %s" % (name, toks[name]))
            if st != "ok":
                parts.append("db=%s MISSING" % esc(name.encode()))
                continue
            out, st = r.cmd("keys")
            keys = []
            for l in out:
                if l.startswith(b"keys "):
                    keys = [k for k in l[5:-1].split(b",") if k]
            items = []
            for k in sorted(keys):
                if k.startswith(b"$$") or k == b"$connections":
                    continue
                out, st = r.cmd("get-safe " + k.decode("utf-8", "replace"))
                l = b"".join(out)
                if l.startswith(b"value-version "):
                    ver, _, val = l[14:-1].partition(b" ")
                    items.append("%s=%s@%s" % (escv(k), escv(val), ver.decode()))
            parts.append("db=%s keys=[%s]" % (esc(name.encode()), ",".join(sorted(items))))
        # leave the reader on no particular database's counter: it stays selected on the last one; $connections is not compared
        return " ".join(parts)

    def shutdown(self):
        """SIGINT: db_ops::safe_shutdown (snapshot of everything) and exit"""
        import signal
        for sess in list(self.sessions.values()) + ([self.reader] if self.reader else []):
            try:
                sess.s.close()
            except Exception:
                pass
        self.sessions, self.reader = {}, None
        self.p.send_signal(signal.SIGINT)
        try:
            self.p.wait(timeout=10)
            return True
        except Exception:
            self.p.kill(); self.p.wait()
            return False

    def kill(self):
        try:
            self.p.kill(); self.p.wait()
        except Exception:
            pass


def run_case(case, binary, wd):
    cid, hdr, ops = case
    shutil.rmtree(wd, ignore_errors=True)
    os.makedirs(wd, exist_ok=True)
    toks = crash_tokens(ops)
    nodes = {}
    down = {}
    dead = {}
    obs = []
    try:
        nodes["n1"] = Node("n1", binary, wd)
        time.sleep(START_WAIT)

        def settle():
            last, t_same, t0 = None, time.time(), time.time()
            while time.time() - t0 < 12:
                cur = [nodes[n].view(toks) for n in sorted(nodes)]
                if cur != last:
                    last, t_same = cur, time.time()
                elif time.time() - t_same >= QUIET:
                    return
                time.sleep(0.05)
            obs.append("UNSETTLED")

        for op in ops:
            if op[0] == "conn":
                continue            # sessions are opened at their first command
            if op[0] == "addsec":
                name = op[2]
                old = dead.pop(name, None)
                nodes[name] = Node(name, binary, wd, join=nodes[op[1]].addr, ports=(old.tcp, old.ws, old.http) if old else None)
                time.sleep(START_WAIT)
                settle()
            elif op[0] == "settle":
                settle()
            elif op[0] == "kill":
                # the node's process dies (SIGKILL): nothing is flushed, its peers see the connections end
                x = op[1]
                if x in nodes:
                    nodes[x].kill()
                    dead[x] = nodes.pop(x)
                    time.sleep(0.2)
            elif op[0] == "revive":
                # ... and is started again on an empty disk under the same address by the next `addsec`
                x = op[1]
                if x in dead:
                    shutil.rmtree(dead[x].dir, ignore_errors=True)
            elif op[0] == "drop":
                # the node goes away: a graceful stop (SIGINT -> safe_shutdown) the first time, nothing afterwards
                x = op[2]
                if x in nodes and nodes[x].p.poll() is None:
                    if not nodes[x].shutdown():
                        obs.append("SHUTDOWN-TIMEOUT %s" % x)
                    down[x] = nodes.pop(x)
                    time.sleep(0.3)
            elif op[0] == "resync":
                # it comes back: the same directory and address, the real start-up and join
                x = op[1]
                if x in down:
                    old = down.pop(x)
                    nodes[x] = Node(x, binary, wd, join=nodes[op[2]].addr, ports=(old.tcp, old.ws, old.http))
                    time.sleep(START_WAIT)
                    settle()
            elif op[0] in ("pollrepl", "pollsup", "deliver", "reply"):
                continue            # scheduler steps of the model: real processes schedule themselves
            elif op[0] == "cmd":
                n, sid, line = op[1], int(op[2]), bytes.fromhex(op[3][1:]).decode("utf-8")
                if n not in nodes:
                    obs.append("NODE-NOT-STARTED %s" % n)
                    break
                out, st = nodes[n].session(sid).cmd(line)
                if st == "EOF":
                    obs.append("CONNECTION-LOST %s %d" % (n, sid))
                    break
            else:
                obs.append("UNSUPPORTED-OP %s" % op[0])
                break
        settle()
        for n in sorted(nodes):
            obs.append("N %s %s" % (n, nodes[n].view(toks)))
    except Exception as e:
        obs.append("ORCHESTRATOR-ERROR %r" % (e,))
    finally:
        for n in nodes.values():
            n.kill()
        if os.environ.get("VERIF_REAL_LOGS") and any(" role=P" in l and l.startswith("N n2") for l in obs):
            shutil.copytree(wd, os.path.join(os.environ["VERIF_REAL_LOGS"], cid), dirs_exist_ok=True)
        shutil.rmtree(wd, ignore_errors=True)
    return {"obs": obs, "aux": []}


def crash_tokens(ops):
    toks = {}
    for op in ops:
        if op[0] == "cmd":
            w = bytes.fromhex(op[3][1:]).decode("utf-8", "replace").split(" ")
            if w[0] == "create-db" and len(w) >= 3:
                toks[w[1]] = w[2]
    return toks


def run_cases(cases, binary, rundir, workers=8):
    impl, errs = {}, []

    def formed(c, r):
        started = {"n1"} | {op[2] for op in c[2] if op[0] == "addsec"}
        started -= {op[2] for op in c[2] if op[0] == "drop"} - {op[1] for op in c[2] if op[0] == "resync"}
        lines = {l.split(" ")[1]: l for l in r["obs"] if l.startswith("N ")}
        return (all(n in lines for n in started) and lines.get("n1", "").startswith("N n1 role=P")
                and all(lines[n].startswith("N %s role=S" % n) for n in started if n != "n1")
                and all(l.startswith("N ") for l in r["obs"]))

    def one(c):
        # a formation that fails is tried again (timing: the nodes' own start-up elections run on wall-clock timers);
        # only a failure that persists is reported
        r = None
        for attempt in range(3):
            r = run_case(c, binary, os.path.join(rundir, "rc_%s_%d" % (c[0], attempt)))
            if formed(c, r):
                break
        if attempt:
            r["aux"].append("#attempts %d" % (attempt + 1))
        return c[0], r
    with ThreadPoolExecutor(max_workers=workers) as ex:
        for cid, r in ex.map(one, cases):
            impl[cid] = r
            for l in r["obs"]:
                if l.startswith("ORCHESTRATOR-ERROR"):
                    errs.append("case %s: %s" % (cid, l))
    return impl, errs


DB_RE = re.compile(r" db=(\S+) strat=(\S+) keys=\[(.*?)\](?= db=| node=| links=\[|$)")
NODE_RE = re.compile(r" node=(\S+) role=(\S)( DEAD)? members=\[(.*?)\] pending=(\d+)(.*?)(?= node=| links=\[)")


def reduce_model(case, obs):
    """the cluster driver's last dump in the reduced notation of the real run"""
    toks = crash_tokens(case[2])
    dumps = [l for l in obs if l.startswith("D")]
    if not dumps:
        return ["NO-DUMP"]
    last = dumps[-1]
    out = []
    started = {"n1"} | {op[2] for op in case[2] if op[0] == "addsec"}
    started -= {op[2] for op in case[2] if op[0] == "drop"} - {op[1] for op in case[2] if op[0] == "resync"}
    for m in NODE_RE.finditer(last):
        name, role = m.group(1), m.group(2)
        if name not in started:
            continue
        dbs = {}
        for d in DB_RE.finditer(m.group(6)):
            items = []
            if d.group(3):
                for it in d.group(3).split(","):
                    k, rest = it.split("=", 1)
                    val, meta = rest.rsplit("@", 1)
                    ver, live = meta.split("/")[:2]
                    if live != "L" or k.startswith("$$") or k == "$connections":
                        continue
                    items.append("%s=%s@%s" % (k, val, ver))
            dbs[unesc(d.group(1))] = items
        parts = ["role=%s" % role]
        for dbn in sorted(toks):
            if dbn in dbs:
                parts.append("db=%s keys=[%s]" % (esc(dbn.encode()), ",".join(sorted(dbs[dbn]))))
            else:
                parts.append("db=%s MISSING" % esc(dbn.encode()))
        out.append("N %s %s" % (name, " ".join(parts)))
    return out
