# C15 -- pending-operation accounting (register_pending_opp / acknowledge_pending_opp)
import itertools, random, re
from common import hexs

ID = "C15"
DRIVER = "pending"
MODEL_FILES = ["Model/Pending.v", "Model/Cluster.v"]
THEOREMS = ["C15_counts_inv", "C15_ack_unknown_noop", "C15_ack_duplicate_noop", "C15_ack_foreign_noop",
            "C15_pending_iff", "C15_pending_count", "C15_outputs_refine", "C15_drained",
            "C15_spec_reg", "C15_spec_ack", "C15_example_wf", "C15_double_register_sticks",
            "C15_fan_out_wf", "C15_fan_out_pending_iff", "C15_fan_out_all_acked", "C15_fan_out_reused_id_sends_old_text"]
STRENGTH = {t: "proof-unbounded" for t in THEOREMS}
STRENGTH["C15_example_wf"] = "example (non-vacuity)"
STRENGTH["C15_double_register_sticks"] = "example (wf hypothesis is necessary)"
RULE = ("exhaustive event sequences up to a length bound over {reg,ack} x ops x nodes (incl. foreign node, unknown op, "
        "u64-max op id) plus seeded random longer sequences; distinct = distinct observation trace; "
        "non-trivial = at least one registration and one counted acknowledgement")
ASSUMPTIONS = ["the model's association lists stand for HashMap<u64,_>/HashMap<String,bool>; order is never observed (dumps are sorted)",
               "AtomicUsize counters are modelled as unbounded N (no wrap at 2^64 registrations)"]
TRUSTED = []


def ev_tokens(e):
    if e[0] == "reg":
        return ["reg", str(e[1]), hexs(e[2]), hexs(e[3])]
    return ["ack", str(e[1]), hexs(e[2])]


def alphabet(ops, nodes, foreign=True):
    al = []
    for o in ops:
        for n in nodes:
            al.append(("reg", o, "m%d" % (o % 100), n))
            al.append(("ack", o, n))
        if foreign:
            al.append(("ack", o, "zz"))
    al.append(("ack", 999, nodes[0]))
    return al


def gen_cases(tier, seed):
    rng = random.Random(seed)
    cases = []
    dist = {"exhaustive": 0, "random": 0, "len_hist": {}}
    if tier == "quick":
        maxlen, nrand = 4, 3000
    elif tier == "thorough":
        maxlen, nrand = 5, 60000
    else:  # search
        maxlen, nrand = 3, 6000
    al = alphabet([1, 2], ["a", "b"])
    k = 0
    for L in range(1, maxlen + 1):
        for seq in itertools.product(al, repeat=L):
            cases.append(("x%d" % k, [], [ev_tokens(e) for e in seq]))
            k += 1
    dist["exhaustive"] = k
    big = alphabet([1, 2, 18446744073709551615], ["n1:3017", "n 2", "é"])
    for i in range(nrand):
        L = rng.randint(5, 14)
        seq = [rng.choice(big) for _ in range(L)]
        # bias towards well-formed histories: drop a re-registration of an outstanding pair half of the time
        out, outstanding = [], set()
        for e in seq:
            if e[0] == "reg":
                if (e[1], e[3]) in outstanding and rng.random() < 0.7:
                    continue
                outstanding.add((e[1], e[3]))
            else:
                outstanding.discard((e[1], e[2]))
            out.append(e)
        cases.append(("r%d" % i, [], [ev_tokens(e) for e in out]))
        dist["len_hist"][len(out)] = dist["len_hist"].get(len(out), 0) + 1
    dist["random"] = nrand
    # the same accounting with the acknowledgements arriving as `ack <id> <node>` commands (the Acknowledge handler of
    # process_request) at a node that is primary, secondary or still starting up (an election registers its candidate
    # message while the node is StartingUp and waits for these acks)
    kl = {"quick": 3, "thorough": 4, "search": 2}[tier]
    k = 0
    for role in ("P", "S", "U"):
        for L in range(1, kl + 1):
            for seq in itertools.product(al, repeat=L):
                cases.append(("k%d" % k, ["cmd", role], [ev_tokens(e) for e in seq])); k += 1
    dist["ack_commands"] = k
    return cases, dist


line_re = re.compile(r"^(reg|ack) (\S+) n=(\d+) (\S+)$")


def parse_dump(d):
    if d == "-":
        return {}
    out = {}
    for part in d.split(";"):
        m = re.match(r"^(\d+)\[(\d+)/(\d+)\|([^|]*)\|(.*)\]$", part)
        out[m.group(1)] = (int(m.group(2)), int(m.group(3)), m.group(5))
    return out


def parse_spec(aux):
    m = re.match(r"^#spec wf=(\d) (\S+)$", aux)
    st = {}
    if m.group(2) != "-":
        for part in m.group(2).split(";"):
            i, l = part.split(":", 1)
            st[i] = l
    return m.group(1) == "1", st


def oracle(case, io, mo):
    """the extracted spec (#spec lines) evaluated against the implementation's observations"""
    fails = []
    if mo is None:
        return fails
    wf = True
    prev_spec = {}
    prev_dump = {}
    for i, line in enumerate(io["obs"]):
        m = line_re.match(line)
        if not m:
            fails.append(("malformed", "step %d: %s" % (i, line)))
            break
        kind, res, n, dump = m.group(1), m.group(2), int(m.group(3)), parse_dump(m.group(4))
        stepwf, spec = parse_spec(mo["aux"][i])
        wf = wf and stepwf
        op = case[2][i]
        for oid, (ack, rep, _) in dump.items():
            if not ack < rep:
                fails.append(("count-order", "step %d: op %s ack_count %d not below replicate_count %d" % (i, oid, ack, rep)))
        if n != len(dump):
            fails.append(("count-mismatch", "step %d" % i))
        if kind == "ack" and op[1] not in prev_dump:
            if res not in ("0", "?") or dump != prev_dump:
                fails.append(("unknown-ack-changed", "step %d" % i))
        if wf:
            if set(dump.keys()) != set(spec.keys()):
                fails.append(("pending-set", "step %d: pending %s but nodes still owing acks %s" % (i, sorted(dump), spec)))
            if kind == "ack" and res != "?":
                expect = "1" if spec != prev_spec else "0"
                if res != expect:
                    fails.append(("ack-result", "step %d: ack returned %s, spec %s" % (i, res, expect)))
        prev_spec, prev_dump = spec, dump
    return fails


def nontrivial(case, io):
    if case[0].startswith("k"):
        ns = [int(m.group(3)) for m in (line_re.match(l) for l in io["obs"]) if m]
        return any(b < a for a, b in zip(ns, ns[1:]))
    return any(l.startswith("ack 1") for l in io["obs"])
