(* modelrun: runs the extracted Coq models on the same case files the Rust
   harness runs, printing the same canonical observation lines. *)
module BigZ = Z
open Model

(* ---------- conversions ---------- *)
let rec pos_of_int (i : int) : positive =
  if i = 1 then XH
  else if i land 1 = 0 then XO (pos_of_int (i lsr 1))
  else XI (pos_of_int (i lsr 1))

let n_of_int (i : int) : n = if i = 0 then N0 else Npos (pos_of_int i)

let rec int_of_pos (p : positive) : int =
  match p with XH -> 1 | XO q -> 2 * int_of_pos q | XI q -> 2 * int_of_pos q + 1

let rec nat_of_int (i : int) : nat = if i <= 0 then O else S (nat_of_int (i - 1))
let rec int_of_nat (x : nat) : int = match x with O -> 0 | S y -> 1 + int_of_nat y
let int_of_n (x : n) : int = match x with N0 -> 0 | Npos p -> int_of_pos p

(* decimal string -> N without overflow (u64/u128 sized values) *)
let n_of_dec (s : string) : n =
  (* positive arithmetic through repeated doubling/adding on a bit list *)
  let z = BigZ.of_string s in
  let rec go (z : BigZ.t) : positive =
    if BigZ.equal z BigZ.one then XH
    else if BigZ.is_even z then XO (go (BigZ.shift_right z 1))
    else XI (go (BigZ.shift_right z 1)) in
  if BigZ.sign z = 0 then N0 else Npos (go z)

let rec z_of_pos (p : positive) : BigZ.t =
  match p with XH -> BigZ.one | XO q -> BigZ.shift_left (z_of_pos q) 1
             | XI q -> BigZ.succ (BigZ.shift_left (z_of_pos q) 1)
let z_of_n (x : n) : BigZ.t = match x with N0 -> BigZ.zero | Npos p -> z_of_pos p
let cmp_n a b = BigZ.compare (z_of_n a) (z_of_n b)
let dec_of_n (x : n) : string = match x with N0 -> "0" | Npos p -> BigZ.to_string (z_of_pos p)

let cl_of_string (s : string) : char list = List.init (String.length s) (String.get s)
let string_of_cl (l : char list) : string =
  let b = Buffer.create 16 in List.iter (Buffer.add_char b) l; Buffer.contents b

let unhex (tok : string) : string =
  if String.length tok = 0 || tok.[0] <> 'x' then failwith ("expected hex token: " ^ tok);
  let n = (String.length tok - 1) / 2 in
  String.init n (fun i -> Char.chr (int_of_string ("0x" ^ String.sub tok (1 + 2 * i) 2)))

let esc (s : string) : string =
  if s = "" then "{}" else begin
    let b = Buffer.create 16 in
    String.iter (fun c ->
      let k = Char.code c in
      if k > 0x20 && k < 0x7f && c <> '{' && c <> '}' then Buffer.add_char b c
      else Buffer.add_string b (Printf.sprintf "{%02X}" k)) s;
    Buffer.contents b end

let fnv (s : string) : string =
  let h = ref (BigZ.of_string "0xcbf29ce484222325") in
  let p = BigZ.of_string "0x100000001b3" and m = BigZ.sub (BigZ.shift_left BigZ.one 64) BigZ.one in
  String.iter (fun c ->
    h := BigZ.logxor !h (BigZ.of_int (Char.code c));
    h := BigZ.logand (BigZ.mul !h p) m) s;
  Printf.sprintf "%016s" (BigZ.format "%x" !h) |> String.map (fun c -> if c = ' ' then '0' else c)

let escv (s : string) : string =
  if String.length s > 2048 then Printf.sprintf "{L%d:%s}" (String.length s) (fnv s) else esc s

(* ---------- case files ---------- *)
type case = { id : string; header : string list; ops : string list list }

let read_cases (path : string) : case list =
  let ic = open_in path in
  let cases = ref [] and cur = ref None in
  (try while true do
    let line = input_line ic in
    let toks = List.filter (fun t -> t <> "") (String.split_on_char ' ' line) in
    match toks with
    | [] -> ()
    | "C" :: id :: hdr -> cur := Some { id; header = hdr; ops = [] }
    | "E" :: _ ->
      (match !cur with
       | Some c -> cases := { c with ops = List.rev c.ops } :: !cases; cur := None
       | None -> failwith "E without C")
    | op ->
      (match !cur with
       | Some c -> cur := Some { c with ops = op :: c.ops }
       | None -> failwith "op outside case")
  done with End_of_file -> ());
  close_in ic; List.rev !cases

(* ---------- C15: pending ---------- *)
let dump_pending (s : pstate) : string =
  let items = List.sort (fun (a, _) (b, _) -> cmp_n a b) s in
  let one (id, m) =
    let reps = List.sort compare (List.map (fun (n, a) -> (string_of_cl n, a)) m.p_reps) in
    Printf.sprintf "%s[%s/%s|%s|%s]" (dec_of_n id) (dec_of_n m.p_ack) (dec_of_n m.p_rep)
      (esc (string_of_cl m.p_msg))
      (String.concat "," (List.map (fun (n, a) -> esc n ^ ":" ^ (if a then "1" else "0")) reps)) in
  if items = [] then "-" else String.concat ";" (List.map one items)

let run_pending (path : string) =
  List.iter (fun c ->
    Printf.printf "C %s\n" c.id;
    let s = ref [] in
    let t = ref [] in
    List.iter (fun op ->
      let ev = match op with
        | ["reg"; id; msg; node] -> Reg (n_of_dec id, cl_of_string (unhex msg), cl_of_string (unhex node))
        | ["ack"; id; node] -> Ack (n_of_dec id, cl_of_string (unhex node))
        | _ -> failwith "bad pending op" in
      (* wf bit of this step (for the oracle) and the spec state *)
      let wfb = wf_from !t [ev] in
      let (s', o) = pstep !s ev in
      s := s'; t := sstep !t ev;
      let via_cmd = (match c.header with "cmd" :: _ -> true | _ -> false) in
      let obs = match o with
        | OReg txt -> "reg " ^ esc (string_of_cl txt)
        | OAck b -> if via_cmd then "ack ?" else "ack " ^ (if b then "1" else "0") in
      let spec = String.concat ";" (List.map (fun (id, l) ->
          dec_of_n id ^ ":" ^ String.concat "," (List.sort compare (List.map (fun n -> esc (string_of_cl n)) l)))
          (List.sort (fun (a, _) (b, _) -> cmp_n a b) !t)) in
      Printf.printf "%s n=%d %s\n" obs (List.length !s) (dump_pending !s);
      Printf.printf "#spec wf=%d %s\n" (if wfb then 1 else 0) (if spec = "" then "-" else spec)
    ) c.ops;
    print_string "E\n") (read_cases path)

(* ---------- C12: oplog ---------- *)
let files_str (l : olog) : string =
  let sz f = dec_of_n (file_bytes f) in
  Printf.sprintf "files [%s] %s" (String.concat "," (List.map sz l.l_rotated)) (sz l.l_current)

let hit_str ((db, key), (r : oprec)) =
  Printf.sprintf "%s_%s:%s:%s" (dec_of_n db) (dec_of_n key) (dec_of_n r.r_time) (dec_of_n r.r_op)

let sort_hits l =
  List.sort (fun ((d1, k1), _) ((d2, k2), _) -> let c = cmp_n d1 d2 in if c <> 0 then c else cmp_n k1 k2) l

let run_oplog (path : string) =
  List.iter (fun c ->
    Printf.printf "C %s\n" c.id;
    let single = n_of_dec (List.hd c.header) in
    let l = ref { l_rotated = []; l_current = [] } in
    List.iter (fun op ->
      let line = match op with
        | ["w"; t; k; d; o] ->
          let r = { r_time = n_of_dec t; r_key = n_of_dec k; r_db = n_of_dec d; r_op = n_of_dec o } in
          let ok = append_ok single !l r in
          l := oplog_append single !l r;
          if ok then "w ok " ^ t else "w err Could{20}not{20}write{20}to{20}the{20}op{20}log{20}file"
        | ["q"; since] ->
          let since = n_of_dec since in
          (match query_all !l.l_rotated !l.l_current since with
           | None -> "PANIC"
           | Some m ->
             let v = List.map (fun (k, h) -> hit_str (k, h.h_rec)) (sort_hits m) in
             (* the specification: linear scan over the whole retained history *)
             let recs = all_records !l.l_rotated !l.l_current in
             let keys = List.sort_uniq compare (List.map (fun r -> (r.r_db, r.r_key)) recs) in
             let sp = List.filter_map (fun k -> match spec_last recs since k with
                 | Some r -> Some (k, r) | None -> None) keys in
             let sv = List.map hit_str (sort_hits sp) in
             Printf.printf "#spec %s sorted=%d\n" (if sv = [] then "-" else String.concat "," sv)
               (if sorted_times recs then 1 else 0);
             "q " ^ (if v = [] then "-" else String.concat "," v))
        | ["last"] -> "last " ^ dec_of_n (last_op_time !l.l_current)
        | ["size"] ->
          let b = List.fold_left (fun a f -> BigZ.add a (z_of_n (file_bytes f))) BigZ.zero (!l.l_current :: !l.l_rotated) in
          Printf.sprintf "size %s %s" (BigZ.to_string b) (BigZ.to_string (BigZ.div b (BigZ.of_int 25)))
        | ["declutter"] -> l := declutter !l; "declutter"
        | ["reopen"] -> l := reopen single !l; "reopen"
        | _ -> failwith "bad oplog op" in
      Printf.printf "%s | %s\n" line (files_str !l)) c.ops;
    print_string "E\n") (read_cases path)

(* ---------- single node ---------- *)
let z_str (z : z) : string = string_of_cl (z_to_str z)
let sesc (l : char list) : string = esc (string_of_cl l)
let role_letter = function Primary -> "P" | Secondary -> "S" | StartingUp -> "U"
let role_name = function Primary -> "Primary" | Secondary -> "Secoundary" | StartingUp -> "StartingUp"
let role_of_tok = function "P" -> Primary | "S" -> Secondary | _ -> StartingUp
let clock0 = n_of_dec "1000000000000000000"

let resp_str (r : resp) : string = match r with
  | RValue (k, v, ver) -> Printf.sprintf "Value %s %s %s" (sesc k) (sesc v) (z_str ver)
  | ROk -> "Ok"
  | RSet (k, v) -> Printf.sprintf "Set %s %s" (sesc k) (sesc v)
  | RError m -> "Error " ^ sesc m
  | RVersionError (k, o, v, _, _, _) -> Printf.sprintf "VersionError %s %s %s" (sesc k) (z_str o) (z_str v)
  | RPanic -> "PANIC"

let state_letter = function VOk -> "O" | VDeleted -> "D" | VUpdated -> "U" | VNew -> "N"

let notices : (int, string list) Hashtbl.t = Hashtbl.create 8
let starts_with_s (s : string) (p : string) = String.length s >= String.length p && String.sub s 0 (String.length p) = p
let closed_sessions : (int, unit) Hashtbl.t = Hashtbl.create 8
let node_inboxes (n : node ref) : string =
  let parts = ref [] in
  List.iteri (fun i s ->
    if s.s_inbox <> [] && not (Hashtbl.mem closed_sessions i) then begin
      List.iter (fun m -> let m = string_of_cl m in
        if starts_with_s m "resolve " then
          Hashtbl.replace notices i ((try Hashtbl.find notices i with Not_found -> []) @ [m])) s.s_inbox;
      parts := Printf.sprintf "%d:[%s]" i (String.concat "|" (List.map sesc s.s_inbox)) :: !parts
    end) !n.n_sess;
  let nn = List.length !n.n_sess in
  for i = 0 to nn - 1 do n := fst (drain !n (nat_of_int i)) done;
  if !parts = [] then "-" else String.concat ";" (List.rev !parts)

let node_queues (n : node ref) : string =
  let r = String.concat "|" (List.map sesc !n.n_repl) and s = String.concat "|" (List.map sesc !n.n_sup) in
  n := n_set_sup (n_set_repl !n []) [];
  Printf.sprintf "repl=[%s] sup=[%s]" r s

let node_dump ?(anon = false) (with_addr : bool) (n : node) : string =
  let b = Buffer.create 256 in
  Buffer.add_string b ("role=" ^ role_letter n.n_role);
  Buffer.add_string b (Printf.sprintf " snap=[%s]"
    (String.concat "," (List.map (fun (nm, r) -> sesc nm ^ ":" ^ (if r then "true" else "false")) n.n_snap)));
  if not anon then List.iteri (fun i s ->
    let o = function Some x -> sesc x | None -> "-" in
    let m = match s.s_member with Some (nm, r) -> sesc nm ^ "/" ^ role_name r | None -> "-" in
    Buffer.add_string b (Printf.sprintf " s%d=%s/%s/%s/%s" i (if s.s_auth then "A" else "a") (o s.s_db) (o s.s_user) m))
    n.n_sess;
  let dbs = List.sort (fun (a, _) (b, _) -> compare a b) (List.map (fun (nm, d) -> (string_of_cl nm, d)) n.n_dbs) in
  List.iter (fun (nm, d) ->
    Buffer.add_string b (Printf.sprintf " db=%s id=%s strat=%s conn=%s keys=[" (esc nm) (dec_of_n d.d_id)
      (string_of_cl (strat_to_str d.d_strat)) (z_str d.d_conn));
    let ks = List.sort (fun (a, _) (b, _) -> compare a b) (List.map (fun (k, v) -> (string_of_cl k, v)) d.d_map) in
    Buffer.add_string b (String.concat "," (List.map (fun (k, v) ->
      let base = Printf.sprintf "%s=%s@%s/%s/%s" (escv k) (escv (string_of_cl v.v_val)) (z_str v.v_ver) (state_letter v.v_st) (dec_of_n v.v_opp) in
      if with_addr then Printf.sprintf "%s/%s/%s" base (dec_of_n v.v_vaddr) (dec_of_n v.v_kaddr) else base) ks));
    Buffer.add_string b "] watch=[";
    let ws = List.sort (fun (a, _) (b, _) -> compare a b) (List.map (fun (k, l) -> (string_of_cl k, l)) d.d_watch) in
    Buffer.add_string b (String.concat "," (List.map (fun (k, l) ->
      esc k ^ ":" ^ String.concat "." (List.map (fun c -> if anon then "?" else string_of_int (int_of_nat c)) l)) ws));
    Buffer.add_string b "]") dbs;
  Buffer.contents b

let run_node (path : string) =
  List.iter (fun c ->
    Printf.printf "C %s\n" c.id;
    let role = role_of_tok (match c.header with r :: _ -> r | [] -> "P") in
    let n = ref (init_node (cl_of_string "nun") (cl_of_string "pwd") (cl_of_string "n0:3014") (n_of_int 1000) role clock0) in
    Hashtbl.reset notices; Hashtbl.reset closed_sessions;
    List.iter (fun op ->
      let res = match op with
        | ["rsv"; sid; idx; value] ->
          let sid = int_of_string sid in
          let notes = (try Hashtbl.find notices sid with Not_found -> []) in
          if notes = [] then "NoNotice" else begin
            let nt = List.nth notes (int_of_string idx mod List.length notes) in
            (* splitn(7, ' ') *)
            let rec splitn k s = if k = 1 then [s] else
                match String.index_opt s ' ' with
                | None -> [s]
                | Some i -> String.sub s 0 i :: splitn (k - 1) (String.sub s (i + 1) (String.length s - i - 1)) in
            let t = splitn 7 nt in
            if List.length t < 5 then "NoNotice" else begin
              let line = Printf.sprintf "resolve %s %s %s %s %s" (List.nth t 1) (List.nth t 2) (List.nth t 4) (List.nth t 3) (unhex value) in
              let (n', r) = step !n (nat_of_int sid) (cl_of_string line) in
              n := n'; resp_str r end end
        | ["http"; body] ->
          let (n', out) = http_request !n (cl_of_string (unhex body)) in
          n := n';
          (match out with
           | Some l -> "Http " ^ esc (String.concat ";" (List.map string_of_cl l))
           | None -> "PANIC")
        | ["conn"] -> let (n', id) = connect !n in n := n'; Printf.sprintf "Conn %d" (int_of_nat id)
        | ["cmd"; sid; line] ->
          let (n', r) = step !n (nat_of_int (int_of_string sid)) (cl_of_string (unhex line)) in
          n := n'; resp_str r
        | ["disc"; sid] -> n := disconnect !n (nat_of_int (int_of_string sid)); Hashtbl.replace closed_sessions (int_of_string sid) (); "Left"
        | ["flush"] -> n := flush_snapshots !n; "Flushed"
        | _ -> failwith "bad node op" in
      let inb = node_inboxes n in
      let q = node_queues n in
      Printf.printf "%s | %s | %s\n" res inb q;
      Printf.printf "D %s\n" (node_dump false !n)) c.ops;
    print_string "E\n") (read_cases path)

(* ---------- node + disk ---------- *)
let fname_suffix = function
  | FKeys -> "-nun.data.keys" | FVals -> "-nun.data.values" | FMeta -> "-nun.madadata"
  | FKeysOld -> "-nun.data.keys.old" | FValsOld -> "-nun.data.values.old"

let files_digest (x : dnode) : string =
  let all = List.concat_map (fun (dbn, fs) ->
      List.map (fun (f, data) -> (string_of_cl dbn ^ fname_suffix f, string_of_cl data)) fs) x.dn_files in
  let all = List.sort compare all in
  Printf.sprintf "files=[%s]" (String.concat "," (List.map (fun (n, d) ->
      Printf.sprintf "%s:%d:%s" (esc n) (String.length d) (fnv d)) all))

let run_disk (path : string) =
  List.iter (fun c ->
    Printf.printf "C %s\n" c.id;
    let role = role_of_tok (match c.header with r :: _ -> r | [] -> "P") in
    let x = ref { dn_node = init_node (cl_of_string "nun") (cl_of_string "pwd") (cl_of_string "n0:3014") (n_of_int 1000) role clock0;
                  dn_files = [] } in
    let dead = ref false in
    Hashtbl.reset closed_sessions;
    List.iter (fun op ->
      let n = ref !x.dn_node in
      let setn () = x := { !x with dn_node = !n } in
      let res =
        if !dead then "DEAD" else
        match op with
        | ["conn"] -> let (n', id) = connect !n in n := n'; setn (); Printf.sprintf "Conn %d" (int_of_nat id)
        | ["cmd"; sid; line] ->
          let (n', r) = step !n (nat_of_int (int_of_string sid)) (cl_of_string (unhex line)) in
          n := n'; setn (); resp_str r
        | ["disc"; sid] -> n := disconnect !n (nat_of_int (int_of_string sid)); setn (); Hashtbl.replace closed_sessions (int_of_string sid) (); "Left"
        | "flush" :: orders ->
          let orders = List.map (fun o -> if o = "-" then [] else
                                    List.map (fun h -> cl_of_string (unhex h)) (String.split_on_char ',' o)) orders in
          x := dflush !x orders; n := !x.dn_node; "Flushed"
        | "restart" :: lo ->
          (match drestart !x (List.map (fun h -> cl_of_string (unhex h)) lo) with
           | RNode x' -> x := x'; n := x'.dn_node; Hashtbl.reset closed_sessions; "Restarted"
           | RStartPanic -> dead := true; "PANIC")
        | _ -> failwith "bad disk op" in
      let inb = node_inboxes n in
      let q = node_queues n in
      setn ();
      Printf.printf "%s | %s | %s\n" res inb q;
      Printf.printf "D %s %s\n" (node_dump true !x.dn_node) (files_digest !x)) c.ops;
    print_string "E\n") (read_cases path)


(* ---------- crash during a snapshot (C11) ---------- *)
let parse_orders toks = List.map (fun o -> if o = "-" then [] else
    List.map (fun h -> cl_of_string (unhex h)) (String.split_on_char ',' o)) toks
let rec split_at_dashes acc = function
  | "--" :: r -> (List.rev acc, r)
  | x :: r -> split_at_dashes (x :: acc) r
  | [] -> (List.rev acc, [])

let run_crash11 (path : string) =
  List.iter (fun c ->
    Printf.printf "C %s\n" c.id;
    let x = ref { dn_node = init_node (cl_of_string "nun") (cl_of_string "pwd") (cl_of_string "n0:3014") (n_of_int 1000) Primary clock0;
                  dn_files = [] } in
    let dead = ref false in
    let part = ref 0 in
    let seg_dbs = ref "" in
    let nseg = 1 + List.length (List.filter (fun op -> match op with "---" :: _ -> true | _ -> false) c.ops) in
    let ra = ref [] and rb = ref [] in
    let restart lo =
      match drestart !x (List.map (fun h -> cl_of_string (unhex h)) lo) with
      | RNode x' -> x := x'; "Restarted"
      | RStartPanic -> dead := true; "PANIC" in
    let flush_line () =
      (if !part < nseg - 1 then (Printf.printf "A%d START valid=1 dbs=%s | %s\n" !part !seg_dbs (String.concat ";" (List.rev !ra)); ra := []));
      (match !rb with [] -> () | l -> Printf.printf "B %s\n" (String.concat ";" (List.rev l)); rb := []) in
    List.iter (fun op ->
      let op = match op with o :: r when String.length o > 0 && o.[0] = '+' -> String.sub o 1 (String.length o - 1) :: r | _ -> op in
      let push r = if !part < nseg - 1 then ra := r :: !ra else rb := r :: !rb in
      if !dead then (match op with "kill" :: _ -> flush_line (); Printf.printf "K DEAD\n" | _ -> ()) else
      match op with
      | ["conn"] -> let (n', _) = connect !x.dn_node in x := { !x with dn_node = n' }; push "Conn"
      | ["cmd"; sid; line] ->
        let (n', r) = step !x.dn_node (nat_of_int (int_of_string sid)) (cl_of_string (unhex line)) in
        let n' = n_set_sup (n_set_repl n' []) [] in
        let n' = { n' with n_sess = List.map (fun s -> { s with s_inbox = [] }) n'.n_sess } in
        x := { !x with dn_node = n' }; push (resp_str r)
      | "flush" :: orders when !part < nseg - 1 -> x := dflush !x (parse_orders orders); push "Flushed"
      | "flush" :: _ -> ()   (* the flush of part B is the one that is killed *)
      | "restart" :: lo -> push (restart lo)
      | "---" :: lo -> flush_line (); ignore (restart lo); part := !part + 1;
        seg_dbs := String.concat "," (List.sort compare (List.filter_map (fun (nm, _) ->
            let s = string_of_cl nm in if s = "$admin" then None else Some (esc s)) !x.dn_node.n_dbs));
        if !part = nseg - 1 then Printf.printf "START valid=1 dbs=%s\n" !seg_dbs
      | "kill" :: ty :: n :: rest ->
        flush_line ();
        let (orders, lo) = split_at_dashes [] rest in
        let orders = parse_orders orders in
        let n = int_of_string n in
        let sc = match ty with "write" -> ScWrite | "pwrite64" -> ScPwrite | "rename" -> ScRename | "unlink" -> ScUnlink
                             | _ -> ScUnlink in
        let plan = if ty = "none" then [] else List.filter (fun (_, o) -> is_sc sc o) (dflush_plan !x orders) in
        let total = List.length plan in
        let files = if ty = "none" then !x.dn_files else dflush_crash !x orders sc (nat_of_int n) in
        let verdict = if n > total && ty <> "none" then "complete" else "killed" in
        let site = if ty = "none" || n > total then "none" else
            (let (dbn, _) = List.nth plan (n - 1) in
             let recl = List.exists (fun (nm, r) -> nm = dbn && r) !x.dn_node.n_snap in
             if recl then "reclaim:" else "incr:") ^
            (match List.nth plan (n - 1) with
             | (_, OpAppend (f, _)) -> "append" ^ fname_suffix f
             | (_, OpWriteAt (f, off, d)) -> Printf.sprintf "writeat%s/%d" (fname_suffix f) (List.length d)
             | (_, OpRename (a, b)) -> "rename" ^ fname_suffix a ^ ">" ^ fname_suffix b
             | (_, OpRemove f) -> "remove" ^ fname_suffix f
             | (_, OpCreate f) -> "create" ^ fname_suffix f) in
        Printf.printf "#site %s %d %s\n" ty n site;
        let x1 = { !x with dn_files = files } in
        (match drestart x1 (List.map (fun h -> cl_of_string (unhex h)) lo) with
         | RNode x' -> Printf.printf "K %s %d %s START valid=1 D %s %s\n" ty n verdict (node_dump true x'.dn_node) (files_digest x')
         | RStartPanic -> Printf.printf "K %s %d %s START PANIC\n" ty n verdict)
      | _ -> failwith "bad crash11 op") c.ops;
    flush_line ();
    print_string "E\n") (read_cases path)


(* ---------- oplog metadata across restarts and crashes (C16) ---------- *)
let meta_digest (f : mfiles) : string =
  let dbf = List.concat_map (fun (dbn, fs) ->
      List.map (fun (fn, data) -> (string_of_cl dbn ^ fname_suffix fn, string_of_cl data)) fs) f.mf_db in
  let opt name = function Some d -> [(name, string_of_cl d)] | None -> [] in
  let all = dbf @ opt "is-oplog.valid" f.mf_flag @ opt "keys-nun.keys" f.mf_keys @ opt "keys-nun.keys.tmp" f.mf_tmp in
  let items = List.map (fun (n, d) -> (n, Printf.sprintf "%s:%d:%s" (esc n) (String.length d) (fnv d))) all in
  let items = items @ (match f.mf_log with
      | Some l -> [("oplog-nun.op", Printf.sprintf "oplog-nun.op:%d:*" (25 * List.length l))] | None -> []) in
  let items = List.sort compare items in
  Printf.sprintf "files=[%s]" (String.concat "," (List.map snd items))

let meta_dump (x : mnode) : string =
  let b = Buffer.create 256 in
  let km = List.sort compare (List.map (fun (k, id) -> Printf.sprintf "%s=%s" (sesc k) (dec_of_n id)) x.mn_cn.cn_keymap) in
  Buffer.add_string b (Printf.sprintf "keymap=[%s]" (String.concat "," km));
  let n = x.mn_cn.cn_node in
  let ids = List.sort compare (List.map (fun (id, nm) -> Printf.sprintf "%s=%s" (dec_of_n id) (sesc nm)) n.n_idmap) in
  Buffer.add_string b (Printf.sprintf " dbids=[%s]" (String.concat "," ids));
  let log = match x.mn_files.mf_log with Some l -> l | None -> [] in
  let recs = List.map (fun r ->
      let (d, k) = decode_rec x r in
      let o = function Some v -> sesc v | None -> "?" in
      Printf.sprintf "%s:%s:%s:%s>%s/%s" (dec_of_n r.r_time) (dec_of_n r.r_key) (dec_of_n r.r_db) (dec_of_n r.r_op) (o d) (o k)) log in
  let last = match List.rev log with r :: _ -> dec_of_n r.r_time | [] -> "0" in
  Buffer.add_string b (Printf.sprintf " oplog=[%s] last=%s" (String.concat "," recs) last);
  let dbs = List.sort (fun (a, _) (b, _) -> compare a b) (List.map (fun (nm, d) -> (string_of_cl nm, d)) n.n_dbs) in
  List.iter (fun (nm, d) ->
    Buffer.add_string b (Printf.sprintf " db=%s id=%s strat=%s keys=[" (esc nm) (dec_of_n d.d_id) (string_of_cl (strat_to_str d.d_strat)));
    let ks = List.sort (fun (a, _) (b, _) -> compare a b) (List.map (fun (k, v) -> (string_of_cl k, v)) d.d_map) in
    Buffer.add_string b (String.concat "," (List.map (fun (k, v) ->
      Printf.sprintf "%s=%s@%s/%s" (escv k) (escv (string_of_cl v.v_val)) (z_str v.v_ver) (state_letter v.v_st)) ks));
    Buffer.add_string b "]") dbs;
  Buffer.contents b

let parse_korder (tok : string) : (char list * n) list =
  if tok = "-" then [] else
  List.map (fun h ->
      let s = unhex h in
      let i = (try String.rindex s '=' with Not_found -> failwith ("key map order expected, got " ^ s)) in
      (cl_of_string (String.sub s 0 i), n_of_dec (String.sub s (i + 1) (String.length s - i - 1))))
    (String.split_on_char ',' tok)

let take_orders (x : mnode) (q : string list ref) (shutdown : bool) =
  (* how many observed orders this flush consumes: the key map first (when it is written) *)
  let n = x.mn_cn.cn_node in
  let pop () = match !q with t :: r -> q := r; Some t | [] -> None in
  let writes_keys = (not x.mn_valid) && (shutdown || n.n_snap <> []) in
  let ko = if writes_keys then (match pop () with Some t -> parse_korder t | None -> []) else [] in
  let names = List.sort_uniq compare (List.filter_map (fun (nm, _) ->
      if List.exists (fun (k, _) -> k = nm) n.n_dbs then Some nm else None) n.n_snap) in
  (* one order per distinct (name, reclaim) pair after dedup of adjacent duplicates: ask the model *)
  ignore names;
  let cnt = List.length (List.filter (fun (nm, _) -> List.exists (fun (k, _) -> k = nm) n.n_dbs) (dedup_snap n.n_snap)) in
  let rec takek k = if k = 0 then [] else match pop () with Some t -> t :: takek (k - 1) | None -> [] in
  let os = takek cnt in
  (ko, parse_orders os)

let run_crash16 (path : string) =
  List.iter (fun c ->
    Printf.printf "C %s\n" c.id;
    let nseg = 1 + List.length (List.filter (fun op -> match op with "---" :: _ -> true | _ -> false) c.ops) in
    let clock = ref clock0 in
    let files = ref mf_empty in
    (* run one segment from [files]; ops carry their orders (A) or take them from [q] (B) *)
    let run_segment (f0 : mfiles) (lo : string list) (ops : string list list) (q : string list ref option) =
      match mstart f0 (List.map (fun h -> cl_of_string (unhex h)) lo) !clock true with
      | MStartPanic -> (None, "START PANIC", [])
      | MStarted (x0, v) ->
        let x = ref x0 in
        let replies = ref [] in
        List.iter (fun op ->
          let op = match op with o :: r when String.length o > 0 && o.[0] = '+' -> String.sub o 1 (String.length o - 1) :: r | _ -> op in
          let r = match op with
            | ["conn"] -> x := mconnect !x; "Conn"
            | ["cmd"; sid; line] ->
              let (x', r) = mcmd !x (nat_of_int (int_of_string sid)) (cl_of_string (unhex line)) in
              let n' = x'.mn_cn.cn_node in
              let n' = n_set_sup n' [] in
              let n' = { n' with n_sess = List.map (fun s -> { s with s_inbox = [] }) n'.n_sess } in
              x := { x' with mn_cn = { x'.mn_cn with cn_node = n' } }; resp_str r
            | ["pollrepl"] -> x := mpoll !x; if !x.mn_cn.cn_dead then "REPL-DEAD" else "Polled"
            | "flush" :: os ->
              let qq = (match q with Some qq -> qq | None -> ref os) in
              let (ko, orders) = take_orders !x qq false in
              x := mflush !x ko orders; "Flushed"
            | "shutdown" :: os ->
              let qq = (match q with Some qq -> qq | None -> ref os) in
              let (ko, orders) = take_orders !x qq true in
              x := mshutdown !x ko orders; "Shutdown"
            | _ -> failwith "bad crash16 op" in
          replies := r :: !replies) ops;
        clock := !x.mn_cn.cn_node.n_clock;
        let loaded = List.sort compare (List.filter_map (fun (nm, _) ->
            let s = string_of_cl nm in if s = "$admin" then None else Some (esc s)) x0.mn_cn.cn_node.n_dbs) in
        (Some !x, Printf.sprintf "START valid=%d dbs=%s" (if v then 1 else 0) (String.concat "," loaded), List.rev !replies) in
    (* split the case *)
    let segs = ref [] and cur = ref [] and los = ref [] and kills = ref [] in
    List.iter (fun op -> match op with
      | "---" :: lo -> segs := List.rev !cur :: !segs; cur := []; los := lo :: !los
      | "kill" :: _ -> kills := op :: !kills
      | _ -> cur := op :: !cur) c.ops;
    segs := List.rev !cur :: !segs;
    let segs = List.rev !segs and los = [] :: List.rev !los and kills = List.rev !kills in
    let dead = ref false in
    List.iteri (fun i (ops, lo) ->
      if i < nseg - 1 && not !dead then begin
        let (xo, start, replies) = run_segment !files lo ops None in
        Printf.printf "A%d %s | %s\n" i start (String.concat ";" replies);
        (match xo with Some x -> files := x.mn_files | None -> dead := true)
      end) (List.combine segs los);
    if not !dead then begin
      let bops = List.nth segs (nseg - 1) and blo = List.nth los (nseg - 1) in
      let f0 = !files in
      let clockb = !clock in
      let printed = ref false in
      List.iter (fun k -> match k with
        | "kill" :: ty :: n :: rest ->
          let (orders, lo) = split_at_dashes [] rest in
          clock := clockb;
          let (xo, start, replies) = run_segment f0 blo bops (Some (ref orders)) in
          if not !printed then begin
            printed := true;
            Printf.printf "%s\n" start;
            let r = match List.rev replies with ("Flushed" | "Shutdown") :: r -> List.rev r | _ -> replies in
            Printf.printf "B %s\n" (String.concat ";" r)
          end;
          (match xo with
           | None -> Printf.printf "K %s %s killed START PANIC\n" ty n
           | Some x ->
             let n = int_of_string n in
             let sc = match ty with "write" -> ScWrite | "pwrite64" -> ScPwrite | "rename" -> ScRename | _ -> ScUnlink in
             let total = if ty = "none" then 0 else List.length (List.filter (is_msc sc) x.mn_trace) in
             let cf = if ty = "none" then f0 else mcrash f0 x sc (nat_of_int n) in
             let verdict = if ty <> "none" && n > total then "complete" else "killed" in
             let site = if ty = "none" || n > total then "none" else
                 (match List.nth (List.filter (is_msc sc) x.mn_trace) (n - 1) with
                  | MDb (_, OpAppend (f, _)) -> "db:append" ^ fname_suffix f
                  | MDb (_, OpWriteAt (f, _, d)) -> Printf.sprintf "db:writeat%s/%d" (fname_suffix f) (List.length d)
                  | MDb (_, OpRename (a, b)) -> "db:rename" ^ fname_suffix a ^ ">" ^ fname_suffix b
                  | MDb (_, OpRemove f) -> "db:remove" ^ fname_suffix f
                  | MDb (_, OpCreate f) -> "db:create" ^ fname_suffix f
                  | MFlagWrite b -> if b = ['\000'] then "flag:write0" else "flag:write1"
                  | MFlagUnlink -> "flag:unlink" | MLogUnlink -> "log:unlink"
                  | MLogAppend _ -> "log:append" | MTmpWrite _ -> "keymap:write" | MTmpRename -> "keymap:rename"
                  | _ -> "create") in
             Printf.printf "#site %s %d %s\n" ty n site;
             (match mstart cf (List.map (fun h -> cl_of_string (unhex h)) lo) !clock false with
              | MStartPanic -> Printf.printf "K %s %d %s START PANIC\n" ty n verdict
              | MStarted (xc, v) ->
                (* the observer's Oplog::last_op_time() opens the log for reading, which creates it when absent *)
                let fobs = { xc.mn_files with mf_log = (match xc.mn_files.mf_log with None -> Some [] | l -> l) } in
                Printf.printf "K %s %d %s START valid=%d DUMP %s FILES %s\n" ty n verdict (if v then 1 else 0)
                  (meta_dump xc) (meta_digest fobs)))
        | _ -> ()) kills
    end;
    print_string "E\n") (read_cases path)


(* ---------- S3 storage strategies (C18) ---------- *)
let stub_digest (s : stub) : string =
  let all = List.sort compare (List.map (fun (n, d) -> (string_of_cl n, string_of_cl d)) s.st_objs) in
  Printf.sprintf "objs=[%s]" (String.concat "," (List.map (fun (n, d) ->
      Printf.sprintf "%s:%d:%s" (esc n) (String.length d) (fnv d)) all))

let run_s3 (path : string) =
  List.iter (fun c ->
    Printf.printf "C %s\n" c.id;
    let strat, retry = (match c.header with
      | _ :: "s3" :: _ :: r :: _ -> (StS3, int_of_string r)
      | _ :: _ :: _ :: r :: _ -> (StPart, int_of_string r)
      | _ -> (StPart, 2)) in
    let x = ref { sn_node = init_node (cl_of_string "nun") (cl_of_string "pwd") (cl_of_string "n0:3014") (n_of_int 1000) Primary clock0;
                  sn_stub = stub0; sn_poisoned = false } in
    let parts = ref [] in
    let dead = ref false in
    Hashtbl.reset closed_sessions;
    List.iter (fun op ->
      let n = ref !x.sn_node in
      let setn () = x := { !x with sn_node = !n } in
      let res =
        if !dead then "DEAD" else
        match op with
        | ["conn"] -> let (n', id) = connect !n in n := n'; setn (); Printf.sprintf "Conn %d" (int_of_nat id)
        | ["cmd"; sid; line] ->
          let (n', r) = step !n (nat_of_int (int_of_string sid)) (cl_of_string (unhex line)) in
          n := n'; setn (); resp_str r
        | ["disc"; sid] -> n := disconnect !n (nat_of_int (int_of_string sid)); setn (); Hashtbl.replace closed_sessions (int_of_string sid) (); "Left"
        | "parts" :: toks ->
          List.iter (fun t -> match String.split_on_char '=' t with
              | [h; p] -> parts := (cl_of_string (unhex h), n_of_dec p) :: !parts
              | _ -> ()) toks; "Parts"
        | ["fault"; "put"; k; mode] ->
          let s = !x.sn_stub in
          x := { !x with sn_stub = { s with st_putfail = Some (n_of_dec (dec_of_n s.st_puts |> fun a -> string_of_int (int_of_string a + int_of_string k)), mode = "always") } }; "Fault"
        | ["fault"; "get"; k] ->
          let s = !x.sn_stub in
          x := { !x with sn_stub = { s with st_getfail = Some (n_of_dec (string_of_int (int_of_string (dec_of_n s.st_gets) + int_of_string k))) } }; "Fault"
        | "fault" :: _ ->
          let s = !x.sn_stub in
          x := { !x with sn_stub = { s with st_putfail = None; st_getfail = None } }; "Fault"
        | "flush" :: orders ->
          let (x', ok) = s3_flush strat (nat_of_int retry) !parts !x (parse_orders orders) in
          x := x'; n := x'.sn_node; if ok then "Flushed" else "PANIC"
        | ["restart"] ->
          let (x', ok) = s3_restart strat (nat_of_int retry) !x in
          x := x'; n := x'.sn_node; Hashtbl.reset closed_sessions; if ok then "Restarted" else "PANIC"
        | _ -> failwith "bad s3 op" in
      let inb = node_inboxes n in
      let q = node_queues n in
      setn ();
      Printf.printf "%s | %s | %s\n" res inb q;
      if !x.sn_poisoned then Printf.printf "D POISONED %s\n" (stub_digest !x.sn_stub)
      else Printf.printf "D %s %s\n" (node_dump false !x.sn_node) (stub_digest !x.sn_stub)) c.ops;
    print_string "E\n") (read_cases path)

(* ---------- cluster ---------- *)
let dead_nodes : string list ref = ref []
let cluster_dump (c : cluster) : string =
  let b = Buffer.create 512 in
  List.iter (fun (name, x) ->
    let n = x.cn_node in
    let name = string_of_cl name in
    if List.mem name !dead_nodes then Buffer.add_string b (Printf.sprintf " node=%s GONE" name) else begin
    Buffer.add_string b (Printf.sprintf " node=%s role=%s%s" name (role_letter n.n_role) (if x.cn_dead then " DEAD" else ""));
    let ms = List.map (fun (mn, (r, q)) ->
        let mn = string_of_cl mn in
        let conn = List.exists (fun l -> string_of_cl l.l_from = name && string_of_cl l.l_to = mn) c.c_links
                   && not (is_nosender q) in
        Printf.sprintf "%s:%s:%s" mn (role_name r) (if conn then "c" else "-")) n.n_members in
    Buffer.add_string b (Printf.sprintf " members=[%s]" (String.concat "," (List.sort compare ms)));
    Buffer.add_string b (Printf.sprintf " pending=%d" (List.length n.n_pending));
    Buffer.add_string b (Printf.sprintf " snap=[%s]"
      (String.concat "," (List.sort compare (List.map (fun (nm, r) -> sesc nm ^ ":" ^ (if r then "true" else "false")) n.n_snap))));
    let dbs = List.sort (fun (a, _) (b, _) -> compare a b) (List.map (fun (nm, d) -> (string_of_cl nm, d)) n.n_dbs) in
    List.iter (fun (nm, d) ->
      Buffer.add_string b (Printf.sprintf " db=%s strat=%s keys=[" (esc nm) (string_of_cl (strat_to_str d.d_strat)));
      let ks = List.sort (fun (a, _) (b, _) -> compare a b) (List.map (fun (k, v) -> (string_of_cl k, v)) d.d_map) in
      Buffer.add_string b (String.concat "," (List.map (fun (k, v) ->
        Printf.sprintf "%s=%s@%s/%s" (esc k) (sesc v.v_val) (z_str v.v_ver) (if v.v_st = VDeleted then "D" else "L")) ks));
      Buffer.add_string b "]") dbs end) c.c_nodes;
  let ls = List.sort compare (List.filter_map (fun l ->
      if l.l_open then Some (Printf.sprintf "%s>%s:%s/%s" (string_of_cl l.l_from) (string_of_cl l.l_to) (dec_of_n l.l_sent) (dec_of_n l.l_back)) else None) c.c_links) in
  Buffer.add_string b (Printf.sprintf " links=[%s]" (String.concat "," ls));
  let trim s = String.trim s in
  let qs = List.sort compare (List.filter_map (fun l ->
      if l.l_open && (l.l_hs <> [] || l.l_q <> [] || l.l_replies <> []) then
        Some (Printf.sprintf "%s>%s:%s<%s" (string_of_cl l.l_from) (string_of_cl l.l_to)
                (String.concat "|" (List.map (fun x -> esc (trim (string_of_cl x))) (l.l_hs @ l.l_q)))
                (String.concat "|" (List.map (fun x -> esc (trim (string_of_cl x))) l.l_replies)))
      else None) c.c_links) in
  if qs <> [] then Buffer.add_string b (Printf.sprintf " queues=[%s]" (String.concat "," qs));
  Buffer.contents b

let find_link (c : cluster) (from : string) (to_ : string) : int option =
  let rec go i = function
    | [] -> None
    | l :: r -> if l.l_open && string_of_cl l.l_from = from && string_of_cl l.l_to = to_ then Some i else go (i + 1) r in
  go 0 c.c_links

let cnotices : (string, string list) Hashtbl.t = Hashtbl.create 8
let run_cluster (path : string) =
  List.iter (fun cs ->
    Printf.printf "C %s\n" cs.id;
    Hashtbl.reset cnotices;
    let nodes = List.map (fun h ->
        match String.split_on_char '/' h with
        | [name; r; pid] -> (cl_of_string name, init_cnode (cl_of_string "nun") (cl_of_string "pwd") (cl_of_string name) (n_of_dec pid) (role_of_tok r) clock0)
        | _ -> failwith "bad cluster header") (List.filter (fun h -> String.contains h '/') cs.header) in
    (* give every node its own clock range so that op ids never collide across nodes *)
    let nodes = List.mapi (fun i (nm, x) ->
        (nm, { x with cn_node = n_set_clock x.cn_node (n_of_dec (Printf.sprintf "1%d00000000000000000" (i + 1))) })) nodes in
    let timeout = List.fold_left (fun acc h -> if starts_with_s h "T=" then n_of_dec (String.sub h 2 (String.length h - 2)) else acc)
        (n_of_int 1000) cs.header in
    let e = ref { e_c = { c_nodes = nodes; c_links = []; c_cross = N0 }; e_frames = []; e_timeout = timeout; e_done = [] } in
    let c = ref !e.e_c in
    let sync_in () = e := { !e with e_c = !c } in
    let sync_out () = c := !e.e_c in
    let plinks = ref [] in
    dead_nodes := [];
    let kget () = { k_e = !e; k_plinks = !plinks; k_dead = List.map cl_of_string !dead_nodes } in
    let kput k = e := k.k_e; plinks := k.k_plinks; dead_nodes := List.map string_of_cl k.k_dead; sync_out () in
    List.iter (fun op ->
      let before = !c.c_cross in
      sync_in ();
      let res0 = match op with
        | ["conn"; node] -> let (c', i) = client_conn !c (cl_of_string node) in c := c'; Printf.sprintf "Conn %d" (int_of_nat i)
        | ["cmd"; node; sid; line] ->
          let (e', r) = ecmd !e (cl_of_string node) (nat_of_int (int_of_string sid)) (cl_of_string (unhex line)) in
          e := e'; sync_out ();
          (match r with COut r -> resp_str r | CSuspended -> "Suspended" | CBusy -> "Busy")
        | ["tick"] -> let k = List.length !e.e_frames in e := tick_frames !e; sync_out (); Printf.sprintf "Ticked %d" k
        | ["rsv"; node; sid; idx; value] ->
          let key = node ^ "/" ^ sid in
          let notes = (try Hashtbl.find cnotices key with Not_found -> []) in
          if notes = [] then "NoNotice" else begin
            let nt = List.nth notes (int_of_string idx mod List.length notes) in
            let rec splitn k s = if k = 1 then [s] else
                match String.index_opt s ' ' with
                | None -> [s]
                | Some i -> String.sub s 0 i :: splitn (k - 1) (String.sub s (i + 1) (String.length s - i - 1)) in
            let t = splitn 7 nt in
            if List.length t < 5 then "NoNotice" else begin
              let line = Printf.sprintf "resolve %s %s %s %s %s" (List.nth t 1) (List.nth t 2) (List.nth t 4) (List.nth t 3) (unhex value) in
              let (c', r) = client_cmd !c (cl_of_string node) (nat_of_int (int_of_string sid)) (cl_of_string line) in
              c := c'; resp_str r end end
        | ["addsec"; node; nw] -> c := add_sec !c (cl_of_string node) (cl_of_string nw); "Queued"
        | ["pollsup"; node] -> kput (kpoll_sup (kget ()) (cl_of_string node)); "Polled"
        | ["pollrepl"; node] -> kput (kpoll_repl (kget ()) (cl_of_string node)); "Polled"
        | ["kill"; node] -> if !e.e_frames <> [] then "NotQuiescent" else (kput (kkill (kget ()) (cl_of_string node)); "Killed")
        | ["revive"; node] ->
          (* the dead node's process is started again on an empty disk: a fresh node under the same name (its clock goes on) *)
          if not (List.mem node !dead_nodes) then "NotDead" else begin
            let nm = cl_of_string node in
            let pid = List.fold_left (fun acc h -> match String.split_on_char '/' h with
                | [name; _; pid] when name = node -> n_of_dec pid | _ -> acc) (n_of_int 1) cs.header in
            let clk = (match get_cn !c nm with Some x -> x.cn_node.n_clock | None -> clock0) in
            let fresh = init_cnode (cl_of_string "nun") (cl_of_string "pwd") nm pid StartingUp clock0 in
            let fresh = { fresh with cn_node = n_set_clock fresh.cn_node clk } in
            c := put_cn !c nm fresh;
            dead_nodes := List.filter (fun d -> d <> node) !dead_nodes;
            "Revived" end
        | ["deliver"; f; t] ->
          (match find_link !c f t with
           | None -> "NoLink"
           | Some i -> (match edeliver !e (nat_of_int i) with Some e' -> e := e'; sync_out (); "Delivered" | None -> "Nothing"))
        | ["reply"; t; f] ->
          (match find_link !c f t with
           | None -> "NoLink"
           | Some i -> (match ereply !e (nat_of_int i) with Some e' -> e := e'; sync_out (); "Replied" | None -> "Nothing"))
        | ["drop"; f; t] ->
          (match drop_link !c (cl_of_string f) (cl_of_string t) with
           | (c', Some k) -> c := c'; Printf.sprintf "Dropped %d" (int_of_nat k)
           | (_, None) -> "NoLink")
        | ["resync"; f; t] ->
          (match resync !c (cl_of_string f) (cl_of_string t) with
           | Some c' -> c := c'; "Resync"
           | None -> "NoLink")
        | "settle" :: b ->
          let budget = (match b with [k] -> int_of_string k | _ -> 200) in
          let (k', ok) = ksettle (nat_of_int budget) (kget ()) in kput k';
          if ok then "Settled" else Printf.sprintf "NotSettled %d" (budget + 1)
        | ["flush"; node] ->
          (match get_cn !c (cl_of_string node) with
           | Some x -> c := put_cn !c (cl_of_string node) (cn_set_node x (flush_snapshots x.cn_node)); "Flushed"
           | None -> "Flushed")
        | _ -> failwith "bad cluster op" in
      (* ops that went through the plain cluster functions changed [c] only *)
      (match op with
       | ("cmd" | "tick" | "deliver" | "reply" | "settle" | "pollsup" | "pollrepl" | "kill" | "revive") :: _ -> ()
       | _ -> sync_in ());
      let res = if !e.e_done = [] then res0 else begin
          let d = String.concat "," (List.map (fun (nm, k) -> Printf.sprintf "%s/%d:Ok" (string_of_cl nm) (int_of_nat k)) !e.e_done) in
          e := { !e with e_done = [] };
          Printf.sprintf "%s done=[%s]" res0 d end in
      (* client inboxes *)
      let parts = ref [] in
      c := { !c with c_nodes = List.map (fun (nm, x) ->
          let n = ref x.cn_node in
          List.iteri (fun ci sid ->
            let s = get_sess !n sid in
            if s.s_inbox <> [] then begin
              List.iter (fun m -> let m = string_of_cl m in
                if starts_with_s m "resolve " then begin
                  let key = string_of_cl nm ^ "/" ^ string_of_int ci in
                  Hashtbl.replace cnotices key ((try Hashtbl.find cnotices key with Not_found -> []) @ [m]) end) s.s_inbox;
              parts := Printf.sprintf "%s/%d:[%s]" (string_of_cl nm) ci (String.concat "|" (List.map sesc s.s_inbox)) :: !parts;
              n := fst (drain !n sid)
            end) x.cn_clients;
          (nm, { x with cn_node = !n })) !c.c_nodes };
      let inb = if !parts = [] then "-" else String.concat ";" (List.rev !parts) in
      let delta = BigZ.sub (z_of_n !c.c_cross) (z_of_n before) in
      Printf.printf "%s | %s | x=%s\n" res inb (BigZ.to_string delta);
      sync_in ();
      Printf.printf "D%s%s\n" (cluster_dump !c)
        (if !e.e_frames = [] then "" else Printf.sprintf " elections=%d" (List.length !e.e_frames))) cs.ops;
    print_string "E\n") (read_cases path)

(* ---------- schedules ---------- *)
let run_sched (path : string) =
  List.iter (fun c ->
    Printf.printf "C %s\n" c.id;
    let role = role_of_tok (match c.header with r :: _ -> r | [] -> "P") in
    let n = ref (init_node (cl_of_string "nun") (cl_of_string "pwd") (cl_of_string "n0:3014") (n_of_int 1000) role clock0) in
    Hashtbl.reset notices; Hashtbl.reset closed_sessions;
    List.iter (fun op ->
      let res = match op with
        | ["conn"] -> let (n', id) = connect !n in n := n'; Printf.sprintf "Conn %d" (int_of_nat id)
        | ["cmd"; sid; line] ->
          let (n', r) = step !n (nat_of_int (int_of_string sid)) (cl_of_string (unhex line)) in
          n := n'; resp_str r
        | ["disc"; sid] -> n := disconnect !n (nat_of_int (int_of_string sid)); Hashtbl.replace closed_sessions (int_of_string sid) (); "Left"
        | "par" :: rest ->
          let rec split acc = function
            | "--" :: sch -> (List.rev acc, sch)
            | x :: r -> split (x :: acc) r
            | [] -> (List.rev acc, []) in
          let (specs, sch) = split [] rest in
          (* optional hints: tokens "h<sid>=<hexkey>.<hexkey>" (one per unwatch-all of that session, in order) *)
          let hints_of sid = List.filter_map (fun tok ->
              let pre = "h" ^ string_of_int sid ^ "=" in
              if starts_with_s tok pre then
                let body = String.sub tok (String.length pre) (String.length tok - String.length pre) in
                Some (if body = "" then [] else List.map (fun h -> cl_of_string (unhex h)) (String.split_on_char '.' body))
              else None) specs in
          let ts = List.filter_map (fun spec ->
              if String.length spec > 0 && spec.[0] = 'h' then None else
              match String.index_opt spec ':' with
              | Some i ->
                let sid = int_of_string (String.sub spec 0 i) in
                let lines = String.split_on_char ',' (String.sub spec (i + 1) (String.length spec - i - 1)) in
                Some (new_thread (nat_of_int sid) (List.map (fun h -> cl_of_string (unhex h)) lines) (hints_of sid))
              | None -> failwith "bad par spec") specs in
          let (n', ts') = run_par !n ts (List.map (fun x -> nat_of_int (int_of_string x)) sch) in
          n := n';
          "Par " ^ String.concat " " (List.map (fun t ->
              Printf.sprintf "%d:[%s]<%s>" (int_of_nat t.t_sid) (String.concat ";" (List.map resp_str t.t_replies))
                (String.concat "," (List.map string_of_cl t.t_trace))) ts')
        | _ -> failwith "bad sched op" in
      let inb = node_inboxes n in
      let q = node_queues n in
      Printf.printf "%s | %s | %s\n" res inb q;
      Printf.printf "D %s\n" (node_dump false !n)) c.ops;
    print_string "E\n") (read_cases path)

(* ---------- the three transports (Model/Net.v) ---------- *)
type nkind = KTcp | KWs
type nconn = { nk : nkind; msid : int; mutable nst : int (* 0 open, 1 closed, 2 dead *);
               mutable items : string list; mutable partial : string }

let run_net (path : string) =
  let sentinel = "zzsync9137" in
  let contains (s : string) (sub : string) =
    let n = String.length s and m = String.length sub in
    let rec go i = i + m <= n && (String.sub s i m = sub || go (i + 1)) in go 0 in
  List.iter (fun c ->
    Printf.printf "C %s\n" c.id;
    let role = role_of_tok (match c.header with r :: _ -> r | [] -> "P") in
    let n = ref (init_node (cl_of_string "nun") (cl_of_string "pwd") (cl_of_string "n0:3014") (n_of_int 1000) role clock0) in
    let conns : nconn list ref = ref [] in
    let ws_alive = ref true in
    let nth sid = List.nth !conns sid in
    (* move what the node queued for the session into the client's view of the stream *)
    let pull (cn : nconn) =
      let (n', msgs) = drain !n (nat_of_int cn.msid) in
      n := n';
      let msgs = List.map string_of_cl msgs in
      match cn.nk with
      | KWs -> cn.items <- cn.items @ msgs
      | KTcp ->
        let all = cn.partial ^ String.concat "" msgs in
        let parts = String.split_on_char '\n' all in
        let rec go acc = function
          | [last] -> cn.partial <- last; List.rev acc
          | x :: r -> go ((x ^ "\n") :: acc) r
          | [] -> List.rev acc in
        cn.items <- cn.items @ go [] parts in
    let send_cmd (cn : nconn) (bytes : string) =
      let b = cl_of_string bytes in
      match cn.nk with
      | KTcp ->
        let (n', f) = tcp_line !n (nat_of_int cn.msid) b in
        n := n';
        if f = ThreadDied then cn.nst <- 2
      | KWs ->
        let (n', f) = ws_frame !n (nat_of_int cn.msid) b in
        n := n';
        if f = ThreadDied then begin ws_alive := false; List.iter (fun x -> if x.nk = KWs && x.nst = 0 then x.nst <- 2) !conns end in
    (* the sentinel command, then everything in front of its answer *)
    let sync (cn : nconn) : string list * string =
      send_cmd cn sentinel;
      if cn.nst <> 0 then ([], "EOF") else begin
        pull cn;
        let rec go acc = function
          | [] -> cn.items <- []; cn.nst <- 2; (List.rev acc, "TIMEOUT")
          | it :: r -> if contains it sentinel then (cn.items <- r; (List.rev acc, "")) else go (it :: acc) r in
        go [] cn.items end in
    let items_str l = String.concat "|" (List.map esc l) in
    List.iter (fun op ->
      let acting = ref (-1) in
      let lists : (int * string list) list ref = ref [] in
      let res = match op with
        | ["tconn"] | ["wconn"] ->
          let ws = (op = ["wconn"]) in
          if ws && not !ws_alive then begin
            conns := !conns @ [{ nk = KTcp; msid = -1; nst = 2; items = []; partial = "" }];
            Printf.sprintf "Conn %d NOCONN" (List.length !conns - 1) end
          else begin
            let (n', id) = connect !n in n := n';
            conns := !conns @ [{ nk = (if ws then KWs else KTcp); msid = int_of_nat id; nst = 0; items = []; partial = "" }];
            Printf.sprintf "Conn %d" (List.length !conns - 1) end
        | ("cmd" | "raw" | "split") :: sid :: a :: rest ->
          (* split: one TCP line sent in two segments *)
          let bytes = (match rest with [b] -> a ^ String.sub b 1 (String.length b - 1) | _ -> a) in
          let sid = int_of_string sid in
          acting := sid;
          let cn = nth sid in
          if cn.nst <> 0 then "DEAD" else begin
            send_cmd cn (unhex bytes);
            if cn.nst <> 0 then "EOF" else begin
              let (its, why) = sync cn in
              lists := (sid, its) :: !lists;
              if why <> "" then why
              else match List.filter (fun t -> t <> " \n") (List.rev its) with
                | [] -> "NoReply"
                | t :: _ ->
                  if t = "ok \n" then "Ok"
                  else if starts_with_s t "error " then begin
                    let l = String.length t in
                    let e = if l >= 2 && String.sub t (l - 2) 2 = " \n" then l - 2
                      else if l >= 1 && t.[l - 1] = '\n' then l - 1 else l in
                    let b = min 6 e in
                    "Error " ^ esc (String.sub t b (e - b)) end
                  else "Other" end end
        | [("disc" | "drop" | "reset") as how; sid] ->
          (* drop: the connection is cut without a close handshake; the server's end-of-connection code is the same *)
          let sid = int_of_string sid in
          acting := sid;
          let cn = nth sid in
          if cn.nst <> 0 then "DEAD" else begin
            n := conn_closed !n (nat_of_int cn.msid); cn.nst <- 1; cn.items <- []; if how = "disc" then "Left" else "Dropped" end
        | ["http"; body] ->
          let b = cl_of_string (unhex body) in
          if not (utf8_valid b) then "Http 500 {}" else begin
            let (n', out) = http_request !n b in
            n := n';
            match out with
            | Some l -> "Http 200 " ^ esc (String.concat ";" (List.map string_of_cl l))
            | None -> "Http DEAD" end
        | _ -> failwith "bad net op" in
      List.iteri (fun sid cn ->
        if sid <> !acting && cn.nst = 0 then begin
          let (its, why) = sync cn in
          let its = if why = "" then its else its @ [why] in
          if its <> [] then lists := (sid, its) :: !lists end) !conns;
      let ls = List.sort (fun (a, _) (b, _) -> compare a b) (List.filter (fun (_, l) -> l <> []) !lists) in
      let inb = if ls = [] then "-" else String.concat ";" (List.map (fun (s, l) -> Printf.sprintf "%d:[%s]" s (items_str l)) ls) in
      let q = node_queues n in
      Printf.printf "%s | %s | %s\n" res inb q;
      Printf.printf "D %s\n" (node_dump ~anon:true false !n)) c.ops;
    print_string "E\n") (read_cases path)

(* ---------- bursts of sessions (C17): the model runs them one after the other ---------- *)
let run_burst (path : string) =
  List.iter (fun c ->
    Printf.printf "C %s\n" c.id;
    let n = ref (init_node (cl_of_string "nun") (cl_of_string "pwd") (cl_of_string "n0:3014") (n_of_int 1000) Primary clock0) in
    let dbn = (match c.header with _ :: d :: _ -> d | _ -> "d1") in
    let counters () =
      match List.find_opt (fun (nm, _) -> string_of_cl nm = dbn) !n.n_dbs with
      | None -> "nodb"
      | Some (_, d) ->
        let key = (match List.find_opt (fun (k, _) -> string_of_cl k = "$connections") d.d_map with
            | Some (_, v) -> esc (string_of_cl v.v_val) | None -> "-") in
        Printf.sprintf "conn=%s key=%s" (z_str d.d_conn) key in
    List.iter (fun op ->
      (match op with
       | ["conn"] -> let (n', _) = connect !n in n := n'
       | ["cmd"; sid; line] ->
         let (n', _) = step !n (nat_of_int (int_of_string sid)) (cl_of_string (unhex line)) in
         n := { n' with n_sess = List.map (fun s -> { s with s_inbox = [] }) n'.n_sess; n_repl = []; n_sup = [] }
       | ["burst"; t; k; line] ->
         (* one scratch session, opened and closed t*k times: the session list does not grow *)
         let (n0, id) = connect !n in
         n := n0;
         for _ = 1 to int_of_string t * int_of_string k do
           let (n1, _) = step !n id (cl_of_string (unhex line)) in
           let n2 = disconnect n1 id in
           n := { n2 with n_sess = List.mapi (fun i s -> if i = int_of_nat id then { s with s_inbox = []; s_db = None; s_user = None } else { s with s_inbox = [] }) n2.n_sess;
                          n_repl = []; n_sup = [] }
         done
       | _ -> failwith "bad burst op");
      Printf.printf "B %s\n" (counters ())) c.ops;
    print_string "E\n") (read_cases path)

let () =
  match Array.to_list Sys.argv with
  | [_; "burst"; path] -> run_burst path
  | [_; "net"; path] -> run_net path
  | [_; "sched"; path] -> run_sched path
  | [_; "cluster"; path] -> run_cluster path
  | [_; "disk"; path] -> run_disk path
  | [_; "crash11"; path] -> run_crash11 path
  | [_; "crash16"; path] -> run_crash16 path
  | [_; "s3"; path] -> run_s3 path
  | [_; "node"; path] -> run_node path
  | [_; "oplog"; path] -> run_oplog path
  | [_; "pending"; path] -> run_pending path
  | _ -> prerr_endline "usage: modelrun <driver> <casefile>"; exit 2
