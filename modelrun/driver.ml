(* modelrun: runs the extracted Coq models on the same case files the Rust
   harness runs, printing the same canonical observation lines. *)
open Model

(* ---------- conversions ---------- *)
let rec pos_of_int (i : int) : positive =
  if i = 1 then XH
  else if i land 1 = 0 then XO (pos_of_int (i lsr 1))
  else XI (pos_of_int (i lsr 1))

let n_of_int (i : int) : n = if i = 0 then N0 else Npos (pos_of_int i)

let rec int_of_pos (p : positive) : int =
  match p with XH -> 1 | XO q -> 2 * int_of_pos q | XI q -> 2 * int_of_pos q + 1

let int_of_n (x : n) : int = match x with N0 -> 0 | Npos p -> int_of_pos p

(* decimal string -> N without overflow (u64/u128 sized values) *)
let n_of_dec (s : string) : n =
  (* positive arithmetic through repeated doubling/adding on a bit list *)
  let z = Z.of_string s in
  let rec go (z : Z.t) : positive =
    if Z.equal z Z.one then XH
    else if Z.is_even z then XO (go (Z.shift_right z 1))
    else XI (go (Z.shift_right z 1)) in
  if Z.sign z = 0 then N0 else Npos (go z)

let rec z_of_pos (p : positive) : Z.t =
  match p with XH -> Z.one | XO q -> Z.shift_left (z_of_pos q) 1
             | XI q -> Z.succ (Z.shift_left (z_of_pos q) 1)
let z_of_n (x : n) : Z.t = match x with N0 -> Z.zero | Npos p -> z_of_pos p
let cmp_n a b = Z.compare (z_of_n a) (z_of_n b)
let dec_of_n (x : n) : string = match x with N0 -> "0" | Npos p -> Z.to_string (z_of_pos p)

let cl_of_string (s : string) : char list = List.init (String.length s) (String.get s)
let string_of_cl (l : char list) : string =
  let b = Buffer.create 16 in List.iter (Buffer.add_char b) l; Buffer.contents b

let unhex (tok : string) : string =
  if String.length tok = 0 || tok.[0] <> 'x' then failwith ("expected hex token: " ^ tok);
  let n = (String.length tok - 1) / 2 in
  String.init n (fun i -> Char.chr (int_of_string ("0x" ^ String.sub tok (1 + 2 * i) 2)))

let esc (s : string) : string =
  if s = "" then "%_" else begin
    let b = Buffer.create 16 in
    String.iter (fun c ->
      let k = Char.code c in
      if k > 0x20 && k < 0x7f && c <> '%' then Buffer.add_char b c
      else Buffer.add_string b (Printf.sprintf "%%%02X" k)) s;
    Buffer.contents b end

(* ---------- case files ---------- *)
type case = { id : string; header : string list; ops : string list list }

let read_cases (path : string) : case list =
  let ic = open_in path in
  let cases = ref [] and cur = ref None in
  (try while true do
    let line = input_line ic in
    let toks = List.filter (fun t -> t <> "") (String.split_on_char ' ' line) in
    match toks with
    | [] -> ()
    | "C" :: id :: hdr -> cur := Some { id; header = hdr; ops = [] }
    | "E" :: _ ->
      (match !cur with
       | Some c -> cases := { c with ops = List.rev c.ops } :: !cases; cur := None
       | None -> failwith "E without C")
    | op ->
      (match !cur with
       | Some c -> cur := Some { c with ops = op :: c.ops }
       | None -> failwith "op outside case")
  done with End_of_file -> ());
  close_in ic; List.rev !cases

(* ---------- C15: pending ---------- *)
let dump_pending (s : pstate) : string =
  let items = List.sort (fun (a, _) (b, _) -> cmp_n a b) s in
  let one (id, m) =
    let reps = List.sort compare (List.map (fun (n, a) -> (string_of_cl n, a)) m.p_reps) in
    Printf.sprintf "%s[%s/%s|%s|%s]" (dec_of_n id) (dec_of_n m.p_ack) (dec_of_n m.p_rep)
      (esc (string_of_cl m.p_msg))
      (String.concat "," (List.map (fun (n, a) -> esc n ^ ":" ^ (if a then "1" else "0")) reps)) in
  if items = [] then "-" else String.concat ";" (List.map one items)

let run_pending (path : string) =
  List.iter (fun c ->
    Printf.printf "C %s\n" c.id;
    let s = ref [] in
    let t = ref [] in
    List.iter (fun op ->
      let ev = match op with
        | ["reg"; id; msg; node] -> Reg (n_of_dec id, cl_of_string (unhex msg), cl_of_string (unhex node))
        | ["ack"; id; node] -> Ack (n_of_dec id, cl_of_string (unhex node))
        | _ -> failwith "bad pending op" in
      (* wf bit of this step (for the oracle) and the spec state *)
      let wfb = wf_from !t [ev] in
      let (s', o) = pstep !s ev in
      s := s'; t := sstep !t ev;
      let obs = match o with
        | OReg txt -> "reg " ^ esc (string_of_cl txt)
        | OAck b -> "ack " ^ (if b then "1" else "0") in
      let spec = String.concat ";" (List.map (fun (id, l) ->
          dec_of_n id ^ ":" ^ String.concat "," (List.sort compare (List.map (fun n -> esc (string_of_cl n)) l)))
          (List.sort (fun (a, _) (b, _) -> cmp_n a b) !t)) in
      Printf.printf "%s n=%d %s\n" obs (List.length !s) (dump_pending !s);
      Printf.printf "#spec wf=%d %s\n" (if wfb then 1 else 0) (if spec = "" then "-" else spec)
    ) c.ops;
    print_string "E\n") (read_cases path)

let () =
  match Array.to_list Sys.argv with
  | [_; "pending"; path] -> run_pending path
  | _ -> prerr_endline "usage: modelrun <driver> <casefile>"; exit 2
